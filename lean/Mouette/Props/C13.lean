import Mouette.Lemmas.SubdivGeom
import Mouette.Lemmas.SubdivCount
import Mouette.Lemmas.SubdivBlock
import Mouette.Lemmas.SubdivArea
import Mouette.Lemmas.SubdivArea2
import Mouette.Lemmas.SubdivVolume
import Mouette.Lemmas.SubdivTables
import Mouette.Lemmas.SubdivEdges4
import Mouette.Lemmas.SubdivVolume2
import Mouette.Lemmas.SubdivManifold2
import Mouette.Lemmas.SubdivComplete3
import Mouette.Lemmas.SubdivComplete9
import Mouette.Lemmas.SubdivTables2
import Mouette.Lemmas.SubdivHistory
import Mouette.Lemmas.SubdivComponents
/-
C13 — subdivision refines a mesh without changing its shape or topology.

Theorems about the executable model `Mouette/Model/Subdiv.lean` (the operations of
`mouette/mesh/subdivision.py` as coded after the `fix:` commits, on vertex / edge / face / cell lists).
All statements are for ALL meshes (no size bound) and hold for arbitrary rational coordinates.
Helper lemmas are in `Mouette/Lemmas/Subdiv*.lean`.

Clauses of the property and where they are discharged:
  * documented element counts ........ `*_counts` (all operations)
  * Euler characteristic ............. `euler_invariant_*`: exact for every operation (round 2). In-place surface operations
        and split_edge on the containers the code maintains; 1→4, 1→3 quads, 1→6 through the number of DISTINCT edges of the
        rebuilt edge `set` (`loop_distinct_edge_count`, `quads3_distinct_edge_count`); cell fan and face-centre split
        through the number of faces / edges completed by prepare(); each under decidable hypotheses on the input
        (`EdgesAreSides`, `TriNondeg`, `SharesAtMostOne`; `FacesAreCellFaces`, `EdgesCoverSides`, `TetCells`, `CellsDistinct`)
  * manifoldness (partly) ............ `manifold_preserved_loop/_fan`, `border_preserved_loop/_fan`: every directed side in at
        most one face, border sides ↔ (halves of) border sides
  * same total area / volume ......... `area_preserved_*` (mesh level for every surface operation and for every sequence
        of them: `area_preserved_block`), `area_parts_positive_*` (sub-faces are positive multiples of the parent, so scalar area
        is preserved too), `volume_preserved_*` (mesh level for both volume splits)
  * old vertices in place, new at centres  `old_vertices_unchanged`, `new_vertex_is_centre`
  * input object never half-updated ... `input_object_state` (repaired `__exit__`), `input_object_state_shipped_refuted`
        (the pinned tree's `__exit__`, concrete witness)
  * number of border loops, connected components, the umbrella condition at vertices, connectivity answers of the
        result: NOT proved here (oracle + correspondence only; see the comment of the manifoldness section).
-/
namespace Mouette.Props.C13
open Mouette.Subdiv

/-! ## element counts -/

/-- `split_face_as_fan` on an n-gon: +1 vertex, +(n−1) faces, +n edges, cells untouched. -/
theorem fan_counts (m m' : Raw) (fid : Nat) (h : splitFaceAsFan m fid = .ok m') :
    ∃ f, m.faces[fid]? = some f ∧ 1 ≤ f.length ∧
      m'.verts.length = m.verts.length + 1 ∧
      m'.faces.length = m.faces.length + (f.length - 1) ∧
      m'.edges.length = m.edges.length + f.length ∧ m'.cells = m.cells :=
  fan_counts' m m' fid h

/-- the quad cut of `triangulate_face`: same vertices, +1 face, +1 edge (the diagonal), both faces triangles. -/
theorem quad_split_counts (m m' : Raw) (fid a b c d : Nat) (hf : m.faces[fid]? = some [a, b, c, d])
    (h : triangulateFace m fid = .ok m') :
    m'.verts = m.verts ∧ m'.faces.length = m.faces.length + 1 ∧ m'.edges.length = m.edges.length + 1 ∧
    m'.faces[fid]? = some [a, b, d] ∧ m'.faces[m.faces.length]? = some [b, c, d] := by
  obtain ⟨hv, hfa, he, _⟩ := quad_split_spec m m' fid a b c d hf h
  have hi : fid < m.faces.length := by
    by_contra hc
    rw [List.getElem?_eq_none (by omega)] at hf; cases hf
  refine ⟨hv, by simp [hfa], by simp [he], ?_, ?_⟩
  · rw [hfa, List.getElem?_append_left (by simpa using hi)]; simp [hi]
  · rw [hfa, List.getElem?_append_right (by simp)]; simp

/-- `triangulate_face` on any face: triangles/smaller untouched, quad → 2, n-gon (n ≥ 5) → fan of n. -/
theorem triangulate_face_counts (m m' : Raw) (fid : Nat) (h : triangulateFace m fid = .ok m') :
    ∃ f, m.faces[fid]? = some f ∧
      m'.verts.length = m.verts.length + triExtraV f ∧
      m'.faces.length = m.faces.length + triExtraF f ∧
      m'.edges.length = m.edges.length + triExtraE f ∧ m'.cells = m.cells := by
  obtain ⟨f, h1, h2, h3, h4, h5, _⟩ := triFace_counts m m' fid h
  exact ⟨f, h1, h2, h3, h4, h5⟩

/-- `triangulate` on any polygon mesh: the face count becomes Σ_f (1 | 2 | n), one new vertex per face with ≥ 5
sides, one new edge per quad and n per big face. -/
theorem triangulate_counts (m m' : Raw) (h : triangulate m = .ok m') :
    m'.verts.length = m.verts.length + (m.faces.map triExtraV).sum ∧
    m'.faces.length = triCount m ∧
    m'.edges.length = m.edges.length + (m.faces.map triExtraE).sum ∧ m'.cells = m.cells := by
  obtain ⟨h1, h2, h3, h4, _⟩ := triangulate_counts' m m' h
  exact ⟨h1, h2, h3, h4⟩

/-- one pass of `loop_subdivision` on a mesh it accepts: V' = V + E, F' = 4F, all faces triangles;
and `loop_subdivision(1)` on any polygon mesh: F' = 4·(number of triangles after triangulation). -/
theorem loop_counts (m m' : Raw) :
    (loopOnce m = .ok m' → m'.verts.length = m.verts.length + m.edges.length ∧ m'.faces.length = 4 * m.faces.length ∧
        (∀ f ∈ m'.faces, f.length = 3)) ∧
    (loopSubdivision m 1 = .ok m' → m'.faces.length = 4 * triCount m ∧ (∀ f ∈ m'.faces, f.length = 3)) := by
  constructor
  · intro h; obtain ⟨h1, h2, h3, _⟩ := loop_counts' m m' h; exact ⟨h1, h2, h3⟩
  · intro h; obtain ⟨_, _, _, h2, h3, _⟩ := loop_one_counts m m' h; exact ⟨h2, h3⟩

/-- `subdivide_triangles_3quads`: with m₁ the triangulated mesh, V' = V₁ + E₁ + F₁, F' = 3F₁, all faces quads. -/
theorem quads3_counts (m m' : Raw) (h : quads3 m = .ok m') :
    ∃ m1, triangulate m = .ok m1 ∧
      m'.verts.length = m1.verts.length + m1.edges.length + m1.faces.length ∧
      m'.faces.length = 3 * triCount m ∧ (∀ f ∈ m'.faces, f.length = 4) := by
  obtain ⟨m1, h1, h2, h3, h4, _⟩ := quads3_counts' m m' h
  exact ⟨m1, h1, h2, h3, h4⟩

/-- `subdivide_triangles_6(1)`: six triangles per triangle of the triangulated mesh. -/
theorem sub6_counts (m m' : Raw) (h : sub6 m 1 = .ok m') : m'.faces.length = 6 * triCount m :=
  (sub6_one_counts m m' h).1

/-- `split_edge`: +1 vertex, +1 edge; the split edge becomes (A,C), the new one (B,C), C the new vertex. -/
theorem split_edge_counts (m m' : Raw) (eid : Nat) (h : splitEdge m eid = .ok m') :
    ∃ a b, m.edges[eid]? = some (a, b) ∧
      m'.verts.length = m.verts.length + 1 ∧ m'.edges.length = m.edges.length + 1 ∧
      m'.edges[eid]? = some (keyify a m.verts.length) ∧ m'.edges[m.edges.length]? = some (keyify b m.verts.length) := by
  obtain ⟨a, b, pa, pb, he, _, _, hv, hed, _, _⟩ := splitEdge_spec m m' eid h
  have hi : eid < m.edges.length := by
    by_contra hc
    rw [List.getElem?_eq_none (by omega)] at he; cases he
  refine ⟨a, b, he, by simp [hv], by simp [hed], ?_, ?_⟩
  · rw [hed, List.getElem?_append_left (by simpa using hi)]; simp [hi]
  · rw [hed, List.getElem?_append_right (by simp)]; simp

/-- `split_cell_as_fan` on a tetrahedron: +1 vertex, +3 cells, every new cell has the new vertex in the place of
one old vertex. -/
theorem cell_fan_counts (m m' : Raw) (cid a b c d : Nat) (hc : m.cells[cid]? = some [a, b, c, d])
    (h : splitCellAsFan m cid = .ok m') :
    m'.verts.length = m.verts.length + 1 ∧ m'.cells.length = m.cells.length + 3 ∧
    m'.faces = m.faces ∧ m'.edges = m.edges := by
  obtain ⟨ps, _, hv, hce, hf, he⟩ := cellFan_spec m m' cid a b c d hc h
  exact ⟨by simp [hv], by simp [hce], hf, he⟩

/-- `split_tet_from_face_center` on a triangle of a tetrahedral mesh: +1 vertex, +2 faces, +2 cells per cell
containing the face (read from the *current* cell list), every cell stays a tetrahedron. -/
theorem face_center_split_counts (m m' : Raw) (fid a b c : Nat) (hall : ∀ x ∈ m.cells, x.length = 4)
    (hf : m.faces[fid]? = some [a, b, c]) (h : splitTetFromFaceCenter m fid = .ok m') :
    m'.verts.length = m.verts.length + 1 ∧ m'.faces.length = m.faces.length + 2 ∧
    m'.cells.length = m.cells.length + 2 * (adjacentCells m [a, b, c]).length ∧ (∀ x ∈ m'.cells, x.length = 4) := by
  obtain ⟨ps, cells, _, hfold, hv, hce, hfa, _⟩ := faceSplit_spec m m' fid a b c hf h
  obtain ⟨hl, hall'⟩ := foldE_splitOneCell_length _ _ _ _ _ hall hfold
  exact ⟨by simp [hv], by simp [hfa], by rw [hce, hl], by rw [hce]; exact hall'⟩

/-! ## Euler characteristic (counting) -/

/-- fan split: ΔV − ΔE + ΔF = 1 − n + (n−1) = 0 on the containers the code maintains. -/
theorem euler_invariant_fan (m m' : Raw) (fid : Nat) (h : splitFaceAsFan m fid = .ok m') : chiRaw m' = chiRaw m := by
  obtain ⟨f, _, h1, hv, hf, he, _⟩ := fan_counts' m m' fid h
  unfold chiRaw; rw [hv, hf, he]; push_cast; omega

/-- quad cut: 0 − 1 + 1 = 0 (this needs the diagonal edge the pinned tree forgot to write). -/
theorem euler_invariant_quad (m m' : Raw) (fid a b c d : Nat) (hf : m.faces[fid]? = some [a, b, c, d])
    (h : triangulateFace m fid = .ok m') : chiRaw m' = chiRaw m := by
  obtain ⟨hv, hfa, he, _⟩ := quad_split_spec m m' fid a b c d hf h
  unfold chiRaw; rw [hv, hfa, he]; simp; omega

/-- `triangulate` on ANY polygon mesh (and so any sequence of fan / triangulate_face / triangulate operations)
keeps V − E + F. -/
theorem euler_invariant_triangulate (m m' : Raw) (h : triangulate m = .ok m') : chiRaw m' = chiRaw m := by
  obtain ⟨hv, hf, he, _, _⟩ := triangulate_counts' m m' h
  have key : ∀ l : List (List Nat), ((l.map triExtraV).sum : Int) - (l.map triExtraE).sum + (l.map triExtraF).sum = 0 := by
    intro l
    induction l with
    | nil => simp
    | cons a t ih =>
      have := triExtra_euler a
      simp only [List.map_cons, List.sum_cons]; push_cast; omega
  have := key m.faces
  unfold chiRaw; rw [hv, hf, he]; push_cast; omega

/-- `split_edge`: V − E is unchanged (number of components minus cycle rank of the polyline). -/
theorem euler_invariant_split_edge (m m' : Raw) (eid : Nat) (h : splitEdge m eid = .ok m') : chiLine m' = chiLine m := by
  obtain ⟨_, _, _, _, _, _, _, hv, hed, _, _⟩ := splitEdge_spec m m' eid h
  unfold chiLine; rw [hv, hed]; simp

/-! Round 2: the number of DISTINCT edges written by the refinements that rebuild the edge list through a `set`.
Hypotheses (all decidable, checked by `decide` on the witnesses below):
  `EdgesAreSides m`   the edge list is a duplicate-free list of sorted vertex pairs and is exactly the set of undirected
                      sides of the faces (what `prepare()` establishes);
  `TriNondeg m`       every face has pairwise distinct vertices;
  `SharesAtMostOne m` two different faces have at most one undirected side in common (needed for 1→4 only: the inner
                      edge {m_ab, m_bc} is shared by two faces exactly when they share the sides ab and bc — the
                      two-triangle "pillow" is a counter-example without it). -/

/-- one pass of `loop_subdivision`: the `set` of the 9·F keyified pairs has exactly 2E + 3F elements. -/
theorem loop_distinct_edge_count (m m' : Raw) (h : loopOnce m = .ok m') (hE : EdgesAreSides m) (hN : TriNondeg m)
    (hS : SharesAtMostOne m) : m'.edges.length = 2 * m.edges.length + 3 * m.faces.length ∧ m'.edges.Nodup := by
  refine ⟨loop_edge_count m m' h hE hN hS, ?_⟩
  obtain ⟨_, _, _, _, _, _, he, _⟩ := loopOnce_spec m m' h
  rw [he]; exact dedup_nodup _

/-- **Euler characteristic preserved by the 1→4 refinement**: V' − E' + F' = V − E + F. -/
theorem euler_invariant_loop (m m' : Raw) (h : loopOnce m = .ok m') (hE : EdgesAreSides m) (hN : TriNondeg m)
    (hS : SharesAtMostOne m) : chiRaw m' = chiRaw m :=
  loopOnce_chi m m' h hE hN hS

/-- `subdivide_triangles_3quads` on a triangle mesh: E' = 2E + 3F distinct edges. -/
theorem quads3_distinct_edge_count (m m' : Raw) (h3 : ∀ f ∈ m.faces, f.length = 3) (h : quads3 m = .ok m')
    (hE : EdgesAreSides m) (hN : TriNondeg m) : m'.edges.length = 2 * m.edges.length + 3 * m.faces.length :=
  quads3Core_edge_count m m' (quads3_tri m m' h3 h) hE hN

/-- **Euler characteristic preserved by the 1→3-quads refinement.** -/
theorem euler_invariant_quads3 (m m' : Raw) (h3 : ∀ f ∈ m.faces, f.length = 3) (h : quads3 m = .ok m')
    (hE : EdgesAreSides m) (hN : TriNondeg m) : chiRaw m' = chiRaw m :=
  quads3Core_chi m m' (quads3_tri m m' h3 h) hE hN

/-- **1→6 refinement of a triangle mesh**: V'' = V+E+F, E'' = 2E+6F, F'' = 6F, hence χ preserved. -/
theorem euler_invariant_sub6 (m m' : Raw) (h3 : ∀ f ∈ m.faces, f.length = 3) (h : sub6 m 1 = .ok m')
    (hE : EdgesAreSides m) (hN : TriNondeg m) :
    (m'.verts.length = m.verts.length + m.edges.length + m.faces.length ∧
     m'.edges.length = 2 * m.edges.length + 6 * m.faces.length ∧ m'.faces.length = 6 * m.faces.length) ∧
    chiRaw m' = chiRaw m :=
  ⟨sub6_tri_counts m m' h3 h hE hN, sub6_tri_chi m m' h3 h hE hN⟩

/-- **`split_cell_as_fan` + `prepare()`**: the completion adds exactly 6 faces and 4 edges, so V − E + F − C is preserved.
Hypotheses (decidable): the face list has pairwise different keys and contains every face of every cell
(`FacesAreCellFaces`), the edge list is a duplicate-free list of sorted vertex pairs containing every side of every
face (`EdgesCoverSides`), face indices are vertices (`WF`), the cell has four different vertices. -/
theorem euler_invariant_cell_fan (m m' : Raw) (cid a b c d : Nat) (hc : m.cells[cid]? = some [a, b, c, d])
    (h : splitCellAsFan m cid = .ok m') (hF : FacesAreCellFaces m) (hwf : WF m) (hE : EdgesCoverSides m)
    (hcn : [a, b, c, d].Nodup) :
    ((prepare m').verts.length = m.verts.length + 1 ∧ (prepare m').edges.length = m.edges.length + 4 ∧
     (prepare m').faces.length = m.faces.length + 6 ∧ (prepare m').cells.length = m.cells.length + 3) ∧
    chiVol (prepare m') = chiVol m :=
  ⟨cellFan_prepare_counts m m' cid a b c d hc h hF hwf hE hcn, cellFan_chi m m' cid a b c d hc h hF hwf hE hcn⟩

/-- **`split_tet_from_face_center` + `prepare()`**: with k the number of cells of the current cell list that contain the
face, the completion adds 3k faces (the face list already got +2) and 3 + k edges, so V − E + F − C is preserved.
Hypotheses (decidable): `FacesAreCellFaces`, `EdgesCoverSides`, `WF` as for the cell fan; every cell is a tetrahedron on four
different vertices of the mesh (`TetCells`); no two cells have the same four vertices (`CellsDistinct`, so that the cells on
the face have different opposite vertices); the face has three different vertices. -/
theorem euler_invariant_face_center (m m' : Raw) (fid a b c : Nat) (hf : m.faces[fid]? = some [a, b, c])
    (h : splitTetFromFaceCenter m fid = .ok m') (hF : FacesAreCellFaces m) (hwf : WF m) (hE : EdgesCoverSides m)
    (hT : TetCells m) (hD : CellsDistinct m) (hn : [a, b, c].Nodup) :
    ((prepare m').verts.length = m.verts.length + 1 ∧
     (prepare m').edges.length = m.edges.length + 3 + (adjacentCells m [a, b, c]).length ∧
     (prepare m').faces.length = m.faces.length + 2 + 3 * (adjacentCells m [a, b, c]).length ∧
     (prepare m').cells.length = m.cells.length + 2 * (adjacentCells m [a, b, c]).length) ∧
    chiVol (prepare m') = chiVol m :=
  faceSplit_chi m m' fid a b c hf h hF hwf hE hT hD hn

/-! ## manifoldness: consistent orientation and border sides (round 2)

`OrientedSides m`: every directed side (a → b) of a face occurs at most once in the whole face list, i.e. the faces are
consistently oriented and every undirected edge has at most two incident faces.  A directed side is a *border* side
when its opposite (b → a) does not occur.

Proved for the 1→4 pass and for the fan split: `OrientedSides` is preserved, and the border sides of the result are exactly
the halves of the border sides of the input (1→4) / exactly the border sides of the input (fan).  So the number of border
sides doubles / stays, every border vertex of the result is an old border vertex or the midpoint of a border edge.
NOT proved: (i) that the successor structure of the border sides (which side follows which around a hole) is carried
over, which is what "same number of border loops" needs: the halves (u,m),(m,v) of a border side are consecutive and
(m,v) is followed by the first half of the border side that followed (u,v), so every loop of length k becomes one loop of
length 2k — this needs a formal definition of loops as cycles of that successor map; (ii) the umbrella condition at
vertices (the corners around a vertex form one fan) and hence full 2-manifoldness; (iii) connected components (the
refined faces of one face are connected to each other through the new vertices and two faces adjacent through an edge stay
adjacent through its halves — needs a formal notion of face-adjacency paths); (iv) the same for the quad cut of
`triangulate_face`, which is FALSE in general (open finding `C13/triangulate/non-regular-complex`: the diagonal may already
be a side) and for 1→3 quads / 1→6. -/

/-- the 1→4 pass preserves consistent orientation / at most two faces per edge. -/
theorem manifold_preserved_loop (m m' : Raw) (h : loopOnce m = .ok m') (hes : EdgesSorted m) (ho : OrientedSides m)
    (hS : SharesAtMostOne m) : OrientedSides m' :=
  loop_oriented m m' h hes ho hS

/-- 1→4: a directed side of the result has no opposite iff it is one of the two halves (u → m_uv), (m_uv → v) of a directed
side (u → v) of the input that has no opposite. -/
theorem border_preserved_loop (m m' : Raw) (h : loopOnce m = .ok m') (hes : EdgesSorted m) (x : Nat × Nat)
    (hx : x ∈ dirSides m') :
    (x.2, x.1) ∉ dirSides m' ↔
      ∃ u v mu, (u, v) ∈ dirSides m ∧ (v, u) ∉ dirSides m ∧
        halfLookup m.edges m.verts.length (keyify u v) = some mu ∧ (x = (u, mu) ∨ x = (mu, v)) :=
  loop_border m m' h hes x hx

/-- fan split: as a multiset, the directed sides of the result are those of the input plus both orientations of every
spoke; consistent orientation is preserved. -/
theorem manifold_preserved_fan (m m' : Raw) (fid : Nat) (hwf : WF m) (hn : ∀ f ∈ m.faces, f.Nodup) (ho : OrientedSides m)
    (h : splitFaceAsFan m fid = .ok m') :
    OrientedSides m' ∧ ∃ f, m.faces[fid]? = some f ∧ (dirSides m').Perm (dirSides m ++ spokes f m.verts.length) :=
  ⟨fan_oriented m m' fid hwf hn ho h, fan_dirSides_perm m m' fid h⟩

/-- fan split: the border sides of the result are exactly the border sides of the input. -/
theorem border_preserved_fan (m m' : Raw) (fid : Nat) (hwf : WF m) (h : splitFaceAsFan m fid = .ok m') (x : Nat × Nat)
    (hx : x ∈ dirSides m') : (x.2, x.1) ∉ dirSides m' ↔ (x ∈ dirSides m ∧ (x.2, x.1) ∉ dirSides m) :=
  fan_border m m' fid hwf h x hx

/-! ## area and volume -/

/-- quad cut: the total vector area of the mesh is unchanged (any quad, planar or not). -/
theorem area_preserved_quad_split (m m' : Raw) (fid a b c d : Nat) (hf : m.faces[fid]? = some [a, b, c, d])
    (h : triangulateFace m fid = .ok m') : totalArea2 m' = totalArea2 m :=
  quad_split_area m m' fid a b c d hf h

/-- fan split of ANY polygon (any number of sides) around its barycentre: total vector area unchanged. -/
theorem area_preserved_fan (m m' : Raw) (fid : Nat) (hwf : WF m) (h : splitFaceAsFan m fid = .ok m') :
    totalArea2 m' = totalArea2 m :=
  (fan_area m m' fid hwf h).1

/-- `triangulate` of ANY polygon mesh (induction over the loop on faces): total vector area unchanged. -/
theorem area_preserved_triangulate (m m' : Raw) (hwf : WF m) (h : triangulate m = .ok m') :
    totalArea2 m' = totalArea2 m :=
  (triangulate_area m m' hwf h).1

/-- one 1→4 pass on ANY mesh the code accepts (induction over the face list; uses that the looked-up indices are the
midpoints): total vector area unchanged. -/
theorem area_preserved_loop (m m' : Raw) (hwf : WF m) (h : loopOnce m = .ok m') : totalArea2 m' = totalArea2 m :=
  loopOnce_area m m' hwf h

/-- each of the four sub-triangles of the 1→4 pattern is exactly ¼ of the parent's vector area: same plane, same
orientation, so the scalar areas add up too. -/
theorem area_parts_positive_loop (a b c : Pt) :
    ∀ t ∈ loopTris a b c, vecArea2 t = Pt.smul (1/4) (vecArea2 [a, b, c]) :=
  area_loop_each a b c

/-- `subdivide_triangles_3quads` on ANY polygon mesh (triangulated first), mesh level: total vector area unchanged. -/
theorem area_preserved_quads3 (m m' : Raw) (hwf : WF m) (h : quads3 m = .ok m') : totalArea2 m' = totalArea2 m :=
  (quads3_area m m' hwf h).1

/-- EVERY sequence of `SurfaceSubdivision` operations inside one block (fan, triangulate_face, triangulate,
loop_subdivision(n), subdivide_triangles_3quads, subdivide_triangles_6(n); any n, any length), on EVERY well-formed polygon
mesh: if the block returns, the total vector area is the input's and the result is well-formed. -/
theorem area_preserved_block (m m' : Raw) (ops : List Op) (hs : ∀ op ∈ ops, op.isSurface = true) (hwf : WF m)
    (h : runOps m ops 0 = (m', none)) : totalArea2 m' = totalArea2 m ∧ WF m' :=
  runOps_area ops m m' 0 hs hwf h

/-- the sub-faces of the 1→3 and 1→6 patterns are positive multiples of the parent (⅓; ¼ and 1/12): same plane, same
orientation, so scalar areas add up as well. -/
theorem area_parts_positive_quads3 (a b c : Pt) :
    sumPts ((quadsOf a b c).map vecArea2) = vecArea2 [a, b, c] ∧
    (∀ q ∈ quadsOf a b c, vecArea2 q = Pt.smul (1/3) (vecArea2 [a, b, c])) ∧
    vecArea2 [a, mid a b, mid c a] = Pt.smul (1/4) (vecArea2 [a, b, c]) ∧
    vecArea2 [mid a b, centre3 a b c, mid c a] = Pt.smul (1/12) (vecArea2 [a, b, c]) :=
  ⟨area_quads3_sum a b c, area_quads3_each a b c, area_sub6_corner a b c, area_sub6_inner a b c⟩

/-- `split_cell_as_fan`: the total signed volume of the mesh is unchanged, and each of the four cells is a quarter of
the parent with the parent's sign. -/
theorem volume_preserved_cell_fan (m m' : Raw) (cid a b c d : Nat) (hwf : WFC m) (hc : m.cells[cid]? = some [a, b, c, d])
    (h : splitCellAsFan m cid = .ok m') :
    totalVol6 m' = totalVol6 m ∧
    (∀ pa pb pc pd : Pt, let g := centre4 pa pb pc pd
      vol6 g pb pc pd = (1/4) * vol6 pa pb pc pd ∧ vol6 pa g pc pd = (1/4) * vol6 pa pb pc pd ∧
      vol6 pa pb g pd = (1/4) * vol6 pa pb pc pd ∧ vol6 pa pb pc g = (1/4) * vol6 pa pb pc pd) :=
  ⟨cellFan_volume m m' cid a b c d hwf hc h, fun pa pb pc pd => vol_cell_fan pa pb pc pd⟩

/-- **`split_tet_from_face_center` preserves the total signed volume of the mesh** (mesh level: induction over the loop
on the cells that contain the face in the current cell list; the face centre does not depend on the order of the
face's vertices, and the three new cells are each ⅓ of the one they replace). -/
theorem volume_preserved_face_center (m m' : Raw) (fid a b c : Nat) (hwf : WFC m) (hall : ∀ x ∈ m.cells, x.length = 4)
    (hn : [a, b, c].Nodup) (hf : m.faces[fid]? = some [a, b, c]) (h : splitTetFromFaceCenter m fid = .ok m') :
    totalVol6 m' = totalVol6 m :=
  faceSplit_volume m m' fid a b c hwf hall hn hf h

/-- per cell: whatever the position of the vertex opposite to the face, each of the three new cells is ⅓ of the parent
with the parent's sign (so unsigned volumes add up as well). -/
theorem volume_parts_positive_face_center (a b c d : Pt) :
    (let g := centre3 b c d
     vol6 a g c d = (1/3) * vol6 a b c d ∧ vol6 a b g d = (1/3) * vol6 a b c d ∧ vol6 a b c g = (1/3) * vol6 a b c d) ∧
    (let g := centre3 a c d
     vol6 g b c d = (1/3) * vol6 a b c d ∧ vol6 a b g d = (1/3) * vol6 a b c d ∧ vol6 a b c g = (1/3) * vol6 a b c d) ∧
    (let g := centre3 a b d
     vol6 g b c d = (1/3) * vol6 a b c d ∧ vol6 a g c d = (1/3) * vol6 a b c d ∧ vol6 a b c g = (1/3) * vol6 a b c d) ∧
    (let g := centre3 a b c
     vol6 g b c d = (1/3) * vol6 a b c d ∧ vol6 a g c d = (1/3) * vol6 a b c d ∧ vol6 a b g d = (1/3) * vol6 a b c d) ∧
    (centre3 b c a = centre3 a b c ∧ centre3 b a c = centre3 a b c) :=
  ⟨vol_face_centre_opp0 a b c d, vol_face_centre_opp1 a b c d, vol_face_centre_opp2 a b c d,
   vol_face_centre_opp3 a b c d, centre3_perm a b c⟩

/-- `split_edge`: the two halves are colinear with the edge and half as long (so the length is preserved). -/
theorem length_preserved_split_edge (a b : Pt) :
    Pt.sub (mid a b) a = Pt.smul (1/2) (Pt.sub b a) ∧ Pt.sub b (mid a b) = Pt.smul (1/2) (Pt.sub b a) ∧
    len2 a (mid a b) = (1/4) * len2 a b ∧ len2 (mid a b) b = (1/4) * len2 a b :=
  split_edge_halves a b

/-! ## vertices -/

/-- For EVERY sequence of operations of a block (surface, volume or polyline) that returns, on every mesh: the
original vertices are in place in the prepared result. -/
theorem old_vertices_unchanged (m0 m' : Raw) (ops : List Op) (h : runOps (prepare m0) ops 0 = (m', none)) :
    ∀ i, i < m0.verts.length → (prepare m').verts[i]? = m0.verts[i]? := by
  intro i hi
  have := (runOps_prefix ops (prepare m0) m' 0 h).get i (by simpa [prepare_verts] using hi)
  simpa [prepare_verts] using this

/-- New vertices are where the documentation says: fan → barycentre of the face's vertices; split_edge → midpoint;
cell fan → ¼·(sum of the four); face-centre split → ⅓·(sum of the three); 1→4 pass → the i-th new vertex is the midpoint
of the i-th edge, and the index used for side (a,b) of a face is the vertex at the midpoint of a and b. -/
theorem new_vertex_is_centre (m m' : Raw) :
    (∀ fid, splitFaceAsFan m fid = .ok m' → ∃ f ps, m.faces[fid]? = some f ∧ pts m f = .ok ps ∧
        m'.verts = m.verts ++ [bary ps]) ∧
    (∀ eid, splitEdge m eid = .ok m' → ∃ a b pa pb, m.edges[eid]? = some (a, b) ∧ m.verts[a]? = some pa ∧
        m.verts[b]? = some pb ∧ m'.verts = m.verts ++ [mid pa pb]) ∧
    (∀ cid a b c d, m.cells[cid]? = some [a, b, c, d] → splitCellAsFan m cid = .ok m' →
        ∃ ps, pts m [a, b, c, d] = .ok ps ∧ m'.verts = m.verts ++ [Pt.smul (1/4) (sumPts ps)]) ∧
    (∀ fid a b c, m.faces[fid]? = some [a, b, c] → splitTetFromFaceCenter m fid = .ok m' →
        ∃ ps, pts m [a, b, c] = .ok ps ∧ m'.verts = m.verts ++ [(sumPts ps).divn 3]) ∧
    (loopOnce m = .ok m' →
        (∀ i (hi : i < m.edges.length), ∃ p q, m.verts[m.edges[i].1]? = some p ∧ m.verts[m.edges[i].2]? = some q ∧
            m'.verts[m.verts.length + i]? = some (mid p q)) ∧
        (∀ a b mab, getHalf (m.edges, m.verts.length) a b = .ok mab →
            ∃ pa pb, m.verts[a]? = some pa ∧ m.verts[b]? = some pb ∧ m'.verts[mab]? = some (mid pa pb))) := by
  refine ⟨?_, ?_, ?_, ?_, ?_⟩
  · intro fid h
    obtain ⟨f, ps, _, _, _, hf, hp, _, hv, _⟩ := fan_spec m m' fid h
    exact ⟨f, ps, hf, hp, hv⟩
  · intro eid h
    obtain ⟨a, b, pa, pb, he, ha, hb, hv, _⟩ := splitEdge_spec m m' eid h
    exact ⟨a, b, pa, pb, he, ha, hb, hv⟩
  · intro cid a b c d hc h
    obtain ⟨ps, hp, hv, _⟩ := cellFan_spec m m' cid a b c d hc h
    exact ⟨ps, hp, hv⟩
  · intro fid a b c hf h
    obtain ⟨ps, _, hp, _, hv, _⟩ := faceSplit_spec m m' fid a b c hf h
    exact ⟨ps, hp, hv⟩
  · intro h
    refine ⟨fun i hi => loop_new_vertices m m' h i hi, ?_⟩
    intro a b mab hl
    obtain ⟨pa, pb, h1, h2, h3, _⟩ := loop_lookup_is_midpoint m m' h a b mab hl
    exact ⟨pa, pb, h1, h2, h3⟩

/-! ## the mesh object that was passed in -/

/-- Repaired `__exit__` (`self._input.__init__(prepared data); self.mesh = self._input`), for EVERY operation
sequence, queried before or not: the input object is the result, its corners spell its faces, nothing is cached;
and the block's working mesh is exactly the fold of the operations (what the correspondence compares to the code). -/
theorem input_object_state (input : View) (ops : List Op) (b : Block) (h : (Block.enter input).run ops = .ok b) :
    b.inputFixed = b.result ∧ b.inputFixed.coherent = true ∧ b.inputFixed.cache = none ∧
    runOps input.raw ops 0 = (b.work, none) := by
  refine ⟨rfl, ?_, rfl, Block.run_work ops (Block.enter input) b 0 h⟩
  simp [Block.inputFixed, Block.result, View.coherent]

/-- Shipped `__exit__` (pinned tree) REFUTED on concrete witnesses: after `loop_subdivision` the input object keeps its
faces but has no face corners; after an in-place `split_face_as_fan` on an object whose connectivity had been
queried, the cache still describes the old face list. -/
theorem input_object_state_shipped_refuted :
    (∃ b, (Block.enter ⟨witnessMesh, cornerCount witnessMesh, none⟩).run [Op.loop 1] = .ok b ∧
        b.inputShipped.raw.faces = witnessMesh.faces ∧ b.inputShipped.corners = 0 ∧ b.inputShipped.coherent = false) ∧
    (∃ b, (Block.enter ⟨witnessMesh, cornerCount witnessMesh, some witnessMesh.faces⟩).run [Op.fan 0] = .ok b ∧
        b.inputShipped.raw.faces.length = 4 ∧ b.inputShipped.coherent = false) := by
  constructor
  · refine ⟨_, rfl, ?_, ?_, ?_⟩ <;> decide
  · refine ⟨_, rfl, ?_, ?_⟩ <;> decide

/-! ## open finding: polygon surfaces that are not regular complexes

FULL STATEMENT (false for the code, hence for the model): for every oriented manifold polygon surface `m`, `triangulate m`
is a manifold surface with the same Euler characteristic.  Refuted on the witness of the known finding
`C13/triangulate/non-regular-complex` (an annulus made of two quads that touch in two opposite corners and two triangles):
both quads are cut along the same diagonal (3,4), which is therefore written twice. -/
theorem triangulate_non_regular_refuted :
    ∃ m', triangulate nonRegularWitness = .ok m' ∧ (prepare m').faces.length = 6 ∧
      ((prepare m').edges.filter (· == (3, 4))).length = 2 := ⟨_, rfl, by decide, by decide⟩

/-! ## translated fragments: the model's refinement patterns are the source's literal tables

`Generated/C13Tables.lean` is rewritten from `mouette/mesh/subdivision.py` on every run (the `new_tri` / `new_edge` /
`new_face` tables, the three `half[keyify(X,Y)]` lookups, the quad cut, the four cells of the cell fan, the three faces of
the face-centre split).  The statements below say that what the model writes IS those tables under the source's own
variable names; they are closed by `rfl` on the tables, so an edit of a table breaks this file. -/

open Mouette.Generated.C13 in
theorem loop_pattern_follows_source (h : List (Nat × Nat) × Nat) (f : List Nat) (fs : List (List Nat)) (es : List (Nat × Nat))
    (hok : loopFace h f = .ok (fs, es)) :
    ∃ e : Env, f = [e.a, e.b, e.c] ∧ e.lookupsOk h loopLookups ∧ fs = loopTris.map e.face ∧ es = loopEdges.map e.edge :=
  loop_follows_source h f fs es hok

open Mouette.Generated.C13 in
theorem quads_pattern_follows_source (h : List (Nat × Nat) × Nat) (s : Nat) (f : List Nat) (fs : List (List Nat))
    (es : List (Nat × Nat)) (hok : quadsFace h s f = .ok (fs, es)) :
    ∃ e : Env, e.s = s ∧ f = [e.a, e.b, e.c] ∧ e.lookupsOk h quadLookups ∧ fs = quads.map e.face ∧ es = quadEdges.map e.edge := by
  obtain ⟨a, b, c, mab, mbc, mca, hf, h1, h2, h3, hfs⟩ := quadsFace_spec h s f fs es hok
  obtain ⟨fs', hq⟩ := quads_edges_follow_source h s a b c mab mbc mca h1 h2 h3
  subst hf
  rw [hq] at hok
  simp only [Except.ok.injEq, Prod.mk.injEq] at hok
  obtain ⟨e, he1, he2, he3, he4⟩ := quads_follow_source h s [a, b, c] fs' _ hq
  simp only [List.cons.injEq, and_true] at he2
  obtain ⟨ea, eb, ec⟩ := he2
  refine ⟨{ a := a, b := b, c := c, mab := mab, mbc := mbc, mca := mca, s := s }, rfl, rfl, ?_, hfs, hok.2.symm⟩
  intro t ht
  simp only [quadLookups, List.mem_cons, List.not_mem_nil, or_false] at ht
  rcases ht with rfl | rfl | rfl
  · exact h1
  · exact h2
  · exact h3

open Mouette.Generated.C13 in
theorem quad_cut_pattern_follows_source (m m' : Raw) (fid : Nat) (e : Env) (hf : m.faces[fid]? = some (e.face quadUnpack))
    (h : triangulateFace m fid = .ok m') :
    m'.faces = m.faces.set fid (e.face quadSet) ++ quadAppend.map e.face ∧ m'.edges = m.edges ++ [e.edge quadDiagonal] :=
  quad_cut_follows_source m m' fid e hf h

open Mouette.Generated.C13 in
theorem cell_fan_pattern_follows_source (m m' : Raw) (cid : Nat) (e : Env) (hib : e.ibary = m.verts.length)
    (hc : m.cells[cid]? = some (e.face cellUnpack)) (h : splitCellAsFan m cid = .ok m') :
    m'.cells = m.cells.set cid (e.face cellSet) ++ cellAppend.map e.face :=
  cell_fan_follows_source m m' cid e hib hc h

open Mouette.Generated.C13 in
theorem face_split_pattern_follows_source (m m' : Raw) (fid : Nat) (e : Env) (hic : e.icenter = m.verts.length)
    (hf : m.faces[fid]? = some (e.face faceUnpack)) (h : splitTetFromFaceCenter m fid = .ok m') :
    m'.faces = m.faces.set fid (e.face faceSet) ++ faceAppend.map e.face :=
  face_split_follows_source m m' fid e hic hf h

/-! ## round 3: histories on one object -/

/-- **The n-th block on a used object equals the same block on a fresh one.** Whatever was cached on the caller's object
before (connectivity computed from any face list, any corner count), the object after any non-empty sequence of editing
blocks is the same. -/
theorem history_independent_of_cached_state (raw : Raw) (k1 k2 : Nat) (c1 c2 : Option (List (List Nat)))
    (blocks : List (List Op)) (hne : blocks ≠ []) :
    runBlocksView ⟨raw, k1, c1⟩ blocks = runBlocksView ⟨raw, k2, c2⟩ blocks :=
  blocks_independent_of_cached_state raw k1 k2 c1 c2 blocks hne

/-- After ANY non-empty history of blocks the object is coherent (corners spell the faces, nothing cached) and its
containers are exactly the fold the protocol driver computes (operations of a block, `prepare` at every block end). -/
theorem history_coherent (blocks : List (List Op)) (v v' : View) (hne : blocks ≠ []) (h : runBlocksView v blocks = .ok v') :
    v'.coherent = true ∧ v'.cache = none ∧ runBlocksRaw v.raw blocks = some v'.raw :=
  blocks_history blocks v v' hne h

/-! ## round 3: border loops and connected components through the 1→4 refinement

Border loops are the orbits of the successor relation `IsSucc` on border sides; components are the classes of `Conn`
(reflexive-transitive closure of the symmetric adjacency by directed sides). -/

/-- the successor map: the two halves of a border side follow each other, the second half is followed by the first half of
the successor side, and there is no other succession in the refined mesh. -/
theorem border_successor_loop (m m' : Raw) (h : loopOnce m = .ok m') (hes : EdgesSorted m) :
    (∀ u v mu, IsBorder m (u, v) → halfLookup m.edges m.verts.length (keyify u v) = some mu → IsSucc m' (u, mu) (mu, v)) ∧
    (∀ u v w mu mw, IsSucc m (u, v) (v, w) → halfLookup m.edges m.verts.length (keyify u v) = some mu →
        halfLookup m.edges m.verts.length (keyify v w) = some mw → IsSucc m' (mu, v) (v, mw)) ∧
    (∀ x y, IsSucc m' x y →
      (∃ u v mu, IsBorder m (u, v) ∧ halfLookup m.edges m.verts.length (keyify u v) = some mu ∧ x = (u, mu) ∧ y = (mu, v)) ∨
      (∃ u v w mu mw, IsSucc m (u, v) (v, w) ∧ halfLookup m.edges m.verts.length (keyify u v) = some mu ∧
        halfLookup m.edges m.verts.length (keyify v w) = some mw ∧ x = (mu, v) ∧ y = (v, mw))) :=
  ⟨fun u v mu hb hl => succ_within_side m m' h hes u v mu hb hl,
   fun u v w mu mw hs hl hl' => succ_across_sides m m' h hes u v w mu mw hs hl hl',
   fun x y hs => succ_cases m m' h hes x y hs⟩

/-- **border loops are preserved**: every border side of the refined mesh is a half of exactly one border side of the
input and every border side of the input has its halves on the border; walks along the border lift (between first halves,
two steps per step) and project. Hence "lies on the same border loop" is the same relation on both sides: the loops are in
bijection, a loop of k sides becoming one loop of 2k sides. -/
theorem border_loops_preserved_loop (m m' : Raw) (h : loopOnce m = .ok m') (hes : EdgesSorted m) :
    (∀ x, IsBorder m' x ↔ ∃ s, HalfOfBorder m x s) ∧
    (∀ x s s', HalfOfBorder m x s → HalfOfBorder m x s' → s = s') ∧
    (∀ s t mu mt, Relation.ReflTransGen (IsSucc m) s t →
        halfLookup m.edges m.verts.length (keyify s.1 s.2) = some mu →
        halfLookup m.edges m.verts.length (keyify t.1 t.2) = some mt →
        Relation.ReflTransGen (IsSucc m') (s.1, mu) (t.1, mt)) ∧
    (∀ x y s t, Relation.ReflTransGen (IsSucc m') x y → HalfOfBorder m x s → HalfOfBorder m y t →
        Relation.ReflTransGen (IsSucc m) s t) :=
  ⟨fun x => border_iff m m' h hes x, fun x s s' h1 h2 => side_unique m hes x s s' h1 h2,
   fun s t mu mt hw hl hlt => loop_walk_lift m m' h hes s t hw mu mt hl hlt,
   fun x y s t hw hs ht => loop_walk_project m m' h hes x y hw s t hs ht⟩

/-- **connected components are preserved**: old vertices connected in the input stay connected; two old vertices
connected in the refined mesh were connected in the input; every vertex on a side of the refined mesh is connected to an old
vertex. Hence the components of the refined mesh are in bijection with those of the input. -/
theorem components_preserved_loop (m m' : Raw) (h : loopOnce m = .ok m') (hes : EdgesSorted m) :
    (∀ a b, Conn m a b → Conn m' a b) ∧
    (∀ a b, a < m.verts.length → b < m.verts.length → Conn m' a b → Conn m a b) ∧
    (∀ z w, Adj m' z w → ∃ c, c < m.verts.length ∧ Conn m' w c) :=
  components_loop m m' h hes

/-! ## round 3: more translated fragments (`Generated/C13Struct.lean`)

The way each new vertex is computed (sum of the element's points divided by `len(f)` / 3 / 2, or scaled by 0.25), the
numbering of the new vertices (length of the new container before the append) and the order of the passes, the steps of
`__enter__` / `__exit__`, and the range / index expressions of the fan are re-read from the source on every run. -/

open Mouette.Generated.C13 in
theorem centres_follow_source (m m' : Raw) :
    (∀ fid, splitFaceAsFan m fid = .ok m' → ∃ f ps, m.faces[fid]? = some f ∧ pts m f = .ok ps ∧
        m'.verts = m.verts ++ [centreOf fanDivisor ps]) ∧
    (∀ cid a b c d, m.cells[cid]? = some [a, b, c, d] → splitCellAsFan m cid = .ok m' →
        ∃ ps, pts m [a, b, c, d] = .ok ps ∧ m'.verts = m.verts ++ [centreOf cellDivisor ps]) ∧
    (∀ fid a b c, m.faces[fid]? = some [a, b, c] → splitTetFromFaceCenter m fid = .ok m' →
        ∃ ps, pts m [a, b, c] = .ok ps ∧ m'.verts = m.verts ++ [centreOf faceCentreDivisor ps]) ∧
    (∀ p q : Pt, mid p q = centreOf loopMidDivisor [p, q] ∧ mid p q = centreOf quadsMidDivisor [p, q] ∧
        mid p q = centreOf edgeMidDivisor [p, q]) ∧
    (∀ bs, baryCentres m = .ok bs → ∀ i (hi : i < m.faces.length), ∃ ps, pts m m.faces[i] = .ok ps ∧
        bs[i]? = some (centreOf quadsBaryDivisor ps)) :=
  ⟨fun fid h => fan_centre_follows_source m m' fid h,
   fun cid a b c d hc h => cell_centre_follows_source m m' cid a b c d hc h,
   fun fid a b c hf h => face_centre_follows_source m m' fid a b c hf h,
   fun p q => mid_follows_source p q,
   fun bs h i hi => quads_bary_follows_source m bs h i hi⟩

open Mouette.Generated.C13 in
/-- the fan triangles are those of the source's `for k in range(1, nf): append([f[k], f[(k+1)%nf], iV])`, the face that stays
in place is `[f[0], f[1], iV]` -/
theorem fan_indices_follow_source (f : List Nat) (iV a b : Nat) (rest : List (Nat × Nat)) (hc : cycPairs f = (a, b) :: rest) :
    [a, b, iV] = [f.getD 0 0, f.getD (1 % f.length) 0, iV] ∧
    rest.map (fun ab => [ab.1, ab.2, iV]) =
      (List.range' fanLo (fanHi f.length - fanLo)).map
        (fun k => [f.getD (fanFst k f.length) 0, f.getD (fanSnd k f.length) 0, iV]) :=
  fan_faces_follow_source f iV a b rest hc

open Mouette.Generated.C13 in
/-- the structural sites were recognised in the shape the model assumes -/
theorem structure_follows_source : numberingIsRunningLength = true ∧ blockStepsAsModelled = true := ⟨rfl, rfl⟩

/-! ## non-vacuity: the hypotheses are satisfiable by concrete non-trivial meshes -/

example : WF pentagon := by unfold WF; decide
example : ∃ m', splitFaceAsFan pentagon 0 = .ok m' ∧ m'.faces.length = 6 := ⟨_, rfl, by decide⟩
example : ∃ m', triangulate pentagon = .ok m' ∧ m'.faces.length = 6 := ⟨_, rfl, by decide⟩
example : ∃ m', loopOnce witnessMesh = .ok m' ∧ m'.faces.length = 8 ∧
    m'.edges.length = 2 * witnessMesh.edges.length + 3 * witnessMesh.faces.length := ⟨_, rfl, by decide, by decide⟩
example : ∃ m', loopSubdivision pentagon 1 = .ok m' ∧ m'.faces.length = 24 := ⟨_, rfl, by decide⟩
example : ∃ m', quads3 witnessMesh = .ok m' ∧ m'.faces.length = 6 := ⟨_, rfl, by decide⟩
example : ∃ m', sub6 witnessMesh 1 = .ok m' ∧ m'.faces.length = 12 := ⟨_, rfl, by decide⟩

example : WFC oneTet := by unfold WFC; decide
example : EdgesAreSides witnessMesh ∧ TriNondeg witnessMesh ∧ SharesAtMostOne witnessMesh := by decide
example : OrientedSides witnessMesh ∧ EdgesSorted witnessMesh := by decide
example : OrientedSides pentagon ∧ (∀ f ∈ pentagon.faces, f.Nodup) := by decide
example : FacesAreCellFaces oneTet ∧ EdgesCoverSides oneTet ∧ WF oneTet := by
  refine ⟨by decide, by decide, by unfold WF; decide⟩
example : FacesAreCellFaces twoTets := by decide +kernel
example : EdgesCoverSides twoTets := by decide +kernel
example : TetCells twoTets ∧ CellsDistinct twoTets := by decide +kernel
example : (adjacentCells twoTets [1, 3, 2]).length = 2 ∧ twoTets.faces[0]? = some [1, 3, 2] := by decide +kernel
example : ∃ m', splitTetFromFaceCenter twoTets 0 = .ok m' ∧ (prepare m').faces.length = twoTets.faces.length + 8 ∧
    (prepare m').edges.length = twoTets.edges.length + 5 := ⟨_, rfl, by decide +kernel, by decide +kernel⟩
example : ∃ m', splitCellAsFan oneTet 0 = .ok m' ∧ m'.cells.length = 4 := ⟨_, rfl, by decide⟩
example : ∃ m', splitTetFromFaceCenter oneTet 0 = .ok m' ∧ m'.cells.length = 3 ∧ (prepare m').faces.length = 9 :=
  ⟨_, rfl, by decide, by decide⟩

end Mouette.Props.C13
