import Mouette.Lemmas.KDSource
import Mouette.Props.C11F
/-!
# C11 (round 4) - the theorems of `Props/C11.lean` / `Props/C11F.lean` transferred to what the SOURCE says now

`vlib/gen/c11_source.py` re-extracts, on every run, the BODIES of `KDTree.__init__`, `_new_leaf`, `_split_points`,
`Leaf.size`, `is_leaf`, `query` and `query_radius` from `$MOUETTE_REPO/mouette/spatial/kdtree.py` into Lean definitions
(`Generated/C11Src.lean`, vocabulary `Model/KDSource.lean`).  This file proves

* BRIDGES - each extracted definition computes what the flat model computes: `splitPoints_bridge` (= `splitIdx`, the split
  rule about which `splitIdx_ok` is proved), `newLeaf_bridge`, `initBody_bridge`, `init_bridge` (`__init__` = `buildBFSRoot`),
  `isLeaf_bridge`, `trim_bridge` + `trim_exits` (the nested `while n_found > k` loop keeps the `k` nearest candidates and ends
  by its own condition), `query_bridge` (= `knnFlat`), `queryRadius_bridge` (= `radiusFlat`), `ctor_copies_points`;
* THE HEADLINE THEOREMS restated on the extracted definitions: `init_source_correct` (the construction loop of the source
  terminates within `2n+1` iterations for every pivot function; its leaves store every index once, hold at most
  `max_leaf_size` indices and contain their points), `query_source_exact` (min(k,n) distinct valid indices in
  non-decreasing distance, nothing nearer left out), `query_radius_source_exact` (exactly the indices within the radius,
  each once), `source_children_ordered`.
Assumptions made explicit (see `Model/KDSource.lean`): distances are compared on their squares; `PriorityQueue.pop` returns
an entry of minimal priority (ties not observable); `deque` is a FIFO/LIFO list; `np.argsort(kind="stable")` is a stable
sort; `_find_pivot` is an arbitrary function of the cell.
A semantic change of the source makes a bridge fail (broken obligation -> failing-input search); an unrecognised shape
makes the translator return `ok: False`.
-/
namespace Mouette.Props.C11S
open Mouette.KD Mouette.KDS Mouette.KDSrc Mouette.AABB Mouette.AABB.EQ Mouette.Props.C11 Mouette.Props.C11F
open Mouette.Generated

/-! ### bridges -/

/-- `_split_points` of the source is the model's split rule (pivot = `_find_pivot` of the coordinates along the axis) -/
theorem splitPoints_bridge (P : Nat → Pt) (fp : List Rat → Rat) (idx : List Nat) (axis : Nat) :
    C11S.splitPoints P fp idx axis = splitIdx P axis (fp (idx.map (fun i => coord (P i) axis))) idx :=
  splitPoints_eq P fp idx axis

/-- hence, for EVERY pivot function, the source's split of a cell of ≥ 2 indices is a permutation of the cell into two
non-empty halves separated by the returned split value -/
theorem splitPoints_ok (P : Nat → Pt) (fp : List Rat → Rat) (idx : List Nat) (axis : Nat) (h2 : 2 ≤ idx.length) :
    SplitOK P axis idx (C11S.splitPoints P fp idx axis) := by
  rw [splitPoints_bridge]; exact splitIdx_ok P axis _ idx h2

/-- `_new_leaf` hands out `self._nid` and increments it -/
theorem newLeaf_bridge (s : BSt) (a : Nat) (p : Option Nat) (x : List Nat) (g : Nat) :
    (C11S.newLeaf s a p x g).1 = { s with nid := s.nid + 1 } ∧ (C11S.newLeaf s a p x g).2.id = s.nid ∧
    (C11S.newLeaf s a p x g).2.idx = x ∧ (C11S.newLeaf s a p x g).2.axis = a ∧ (C11S.newLeaf s a p x g).2.parent = p :=
  ⟨rfl, rfl, rfl, rfl, rfl⟩

/-- one iteration of the `while` of `__init__` is one step of `buildBFS`: a small pending leaf is appended as a leaf,
a large one is replaced by a node and its two children (ids `_nid`, `_nid + 1`, boxes cut at the split value) are queued -/
theorem initBody_bridge (P : Nat → Pt) (n dim leafSize : Nat) (piv : Nat → List Rat → Rat) (it : Pending) (rest : List Pending) (s : BSt) :
    C11S.initLoop1Body P n dim piv leafSize (it :: rest, s) =
      if it.idx.length ≤ leafSize then some (rest, ⟨s.nodes ++ [it.toLeaf], s.nid⟩)
      else some (rest ++ [it.less P dim piv s.nid, it.more P dim piv s.nid], ⟨s.nodes ++ [it.toNode P piv s.nid], s.nid + 2⟩) := by
  split
  · exact initBody_leaf ‹_›
  · exact initBody_split ‹_›

/-- **`KDTree.__init__` of the source IS the flat construction** `buildBFSRoot` (fuel `2n+1`) -/
theorem init_bridge (P : Nat → Pt) (n dim leafSize : Nat) (piv : Nat → List Rat → Rat) :
    (C11S.init P n dim piv leafSize (2 * n + 1)).map (fun s => s.nodes) = buildBFSRoot P n dim leafSize piv :=
  init_eq P n dim leafSize piv (2 * n + 1)

theorem isLeaf_bridge (nodes : List FNode) (id : Nat) : C11S.isLeaf nodes id = (nodes[id]?).map FNode.isLeaf :=
  isLeaf_eq nodes id

/-- the nested `while n_found > k: found.pop(); n_found -= 1` after a push, run with fuel `n_found`: `push k` of the model -/
theorem trim_bridge (P : Nat → Pt) (nodes : List FNode) (k : Nat) (st : List Cand) (d : Rat) (i : Nat) :
    C11S.queryLoop2 P nodes k (st.length + 1) (st.length + 1, pqPush st d i) =
      (min (st.length + 1) k, push k (d, i) st) :=
  trimLoop_eq nodes k _ _ _ (by simp [pqPush, length_ins]) (by omega)

/-- … and it leaves the loop because its condition fails, not because the fuel ran out -/
theorem trim_exits (P : Nat → Pt) (nodes : List FNode) (k : Nat) (st : List Cand) :
    C11S.queryLoop2Cond P nodes k (C11S.queryLoop2 P nodes k st.length (st.length, st)) = false :=
  trimLoop_exits nodes k st.length st rfl

/-- **`KDTree.query` of the source IS `knnFlat`** on every node list whose children ids are ordered (the indices of
the model's candidates, in the same order; same fuel) -/
theorem query_bridge (P : Nat → Pt) (nodes : List FNode) (ho : Ordered nodes) (q : Pt) (k fuel : Nat) :
    C11S.query P nodes q k fuel = (knnFlat P q k nodes fuel).map (fun res => res.map Prod.snd) :=
  query_eq ho q k fuel

/-- **`KDTree.query_radius` of the source IS `radiusFlat`** (`r2` = squared radius) -/
theorem queryRadius_bridge (P : Nat → Pt) (nodes : List FNode) (q : Pt) (r2 : Rat) (fuel : Nat) :
    C11S.queryRadius P nodes q r2 fuel = radiusFlat P q r2 nodes fuel [0] [] :=
  queryRadius_eq q r2 fuel

/-- `__init__` stores `np.array(points)`: a copy - later changes of the caller's array cannot reach the tree -/
theorem ctor_copies_points : C11S.ctorCopiesPoints = true := rfl

/-! ### the headline theorems, on the extracted definitions -/

/-- **Construction (source)**: for every point function, dimension, leaf size ≥ 1 and pivot function, the `while` loop of
`__init__` returns within `2n+1` iterations; the leaves of `self.nodes` store every index `0..n-1` exactly once, hold
at most `max_leaf_size` indices each, and contain their points in their closed boxes; children ids are ordered. -/
theorem init_source_correct (P : Nat → Pt) (n dim leafSize : Nat) (piv : Nat → List Rat → Rat) (hleaf : 1 ≤ leafSize)
    (hdim : ∀ i < n, (P i).length = dim) :
    ∃ s, C11S.init P n dim piv leafSize (2 * n + 1) = some s ∧
      ((leavesF s.nodes).flatMap (fun l => l.1)).Perm (List.range n) ∧
      (∀ lf ∈ leavesF s.nodes, lf.1.length ≤ leafSize) ∧
      (∀ lf ∈ leavesF s.nodes, ∀ i ∈ lf.1, Box.insideClosed lf.2.lo lf.2.hi (P i) = true) ∧
      Ordered s.nodes := by
  obtain ⟨out, hout, h1, h2, h3⟩ := buildBFS_partition P n dim leafSize piv hleaf hdim
  have hb := init_bridge P n dim leafSize piv
  rw [hout] at hb
  cases hs : C11S.init P n dim piv leafSize (2 * n + 1) with
  | none => rw [hs] at hb; simp at hb
  | some s =>
    rw [hs] at hb
    simp only [Option.map_some, Option.some.injEq] at hb
    refine ⟨s, rfl, hb ▸ h1, hb ▸ h2, hb ▸ h3, ?_⟩
    rw [hb]
    exact buildBFS_ordered _ _ _ _ out (by intro nd h; simp at h) hout

theorem source_children_ordered (P : Nat → Pt) (n dim leafSize : Nat) (piv : Nat → List Rat → Rat) (s : BSt)
    (h : C11S.init P n dim piv leafSize (2 * n + 1) = some s) : ∀ nd ∈ s.nodes, nd.left ≤ nd.right := by
  have hb := init_bridge P n dim leafSize piv
  rw [h] at hb
  exact buildBFS_ordered _ _ _ _ s.nodes (by intro nd h; simp at h) hb.symm

/-- **k-NN exactness (source)**: on the tree built by the source's `__init__`, the source's `query` returns (for a fuel
that does not depend on the query) `min k n` distinct valid indices in non-decreasing distance to the query point, and
every index left out is at least as far as every index returned. -/
theorem query_source_exact (P : Nat → Pt) (n dim leafSize : Nat) (piv : Nat → List Rat → Rat) (hleaf : 1 ≤ leafSize)
    (hdim : ∀ i < n, (P i).length = dim) :
    ∃ s fuel, C11S.init P n dim piv leafSize (2 * n + 1) = some s ∧ ∀ (q : Pt) (k : Nat),
      ∃ res, C11S.query P s.nodes q k fuel = some res ∧
        res.length = min k n ∧ res.Nodup ∧ (∀ i ∈ res, i < n) ∧
        res.Pairwise (fun a b => sqDist (P a) q ≤ sqDist (P b) q) ∧
        (∀ j < n, j ∉ res → ∀ i ∈ res, sqDist (P i) q ≤ sqDist (P j) q) := by
  obtain ⟨out, fuel, hout, hq⟩ := knnFlat_exact P n dim leafSize piv hleaf hdim
  obtain ⟨s, hs, _, _, _, hord⟩ := init_source_correct P n dim leafSize piv hleaf hdim
  have hb := init_bridge P n dim leafSize piv
  rw [hs, hout] at hb
  simp only [Option.map_some, Option.some.injEq] at hb
  refine ⟨s, fuel, hs, ?_⟩
  intro q k
  obtain ⟨cs, hcs, hlen, hsorted, hnodup, hval, hfar⟩ := hq q k
  refine ⟨cs.map Prod.snd, ?_, by simpa using hlen, hnodup, ?_, ?_, ?_⟩
  · rw [query_bridge P s.nodes hord q k fuel, hb, hcs]; rfl
  · intro i hi
    obtain ⟨c, hc, rfl⟩ := List.mem_map.mp hi
    exact (hval c hc).1
  · rw [List.pairwise_map]
    refine hsorted.imp_of_mem ?_
    intro a b ha hb' hab
    rw [← (hval a ha).2, ← (hval b hb').2]; exact hab
  · intro j hj hjn i hi
    obtain ⟨c, hc, rfl⟩ := List.mem_map.mp hi
    rw [← (hval c hc).2]
    exact hfar j hj hjn c hc

/-- **Radius exactness (source)**: on the tree built by the source's `__init__`, the source's `query_radius` returns exactly
the indices whose squared distance to the query point is at most `r2`, each once. -/
theorem query_radius_source_exact (P : Nat → Pt) (n dim leafSize : Nat) (piv : Nat → List Rat → Rat) (hleaf : 1 ≤ leafSize)
    (hdim : ∀ i < n, (P i).length = dim) :
    ∃ s, C11S.init P n dim piv leafSize (2 * n + 1) = some s ∧ ∀ (q : Pt) (r2 : Rat),
      ∃ F res, C11S.queryRadius P s.nodes q r2 F = some res ∧ res.Nodup ∧ ∀ i, i ∈ res ↔ i < n ∧ sqDist (P i) q ≤ r2 := by
  obtain ⟨out, hout, hq⟩ := radiusFlat_exact P n dim leafSize piv hleaf hdim
  obtain ⟨s, hs, _⟩ := init_source_correct P n dim leafSize piv hleaf hdim
  have hb := init_bridge P n dim leafSize piv
  rw [hs, hout] at hb
  simp only [Option.map_some, Option.some.injEq] at hb
  refine ⟨s, hs, ?_⟩
  intro q r2
  obtain ⟨F, res, hF, hn, hm⟩ := hq q r2
  exact ⟨F, res, by rw [queryRadius_bridge, hb, hF], hn, hm⟩


/-! ### `_find_pivot`, `BuildStrategy.from_string` (round 5) -/

/-- `_find_pivot` never reaches its final `raise`, and what it returns for each strategy: the exact median (balanced), the
median of whatever `np.random.choice(·, min(50, n), replace=False)` draws (fast), whatever `np.random.choice(·, 1)[0]` draws (random) -/
theorem findPivot_bridge (sample : List Rat → Nat → List Rat) (pick : List Rat → Rat) (xs : List Rat) :
    C11S.findPivot .balanced sample pick xs = some (median xs) ∧
    C11S.findPivot .fast sample pick xs = some (median (sample xs (min 50 xs.length))) ∧
    C11S.findPivot .random sample pick xs = some (pick xs) := ⟨rfl, rfl, rfl⟩

theorem findPivot_total (strat : Strategy) (sample : List Rat → Nat → List Rat) (pick : List Rat → Rat) (xs : List Rat) :
    (C11S.findPivot strat sample pick xs).isSome = true := by
  cases strat <;> rfl

/-- every strategy name `__init__` accepts is understood by `from_string`, and the three strategies are all reachable -/
theorem strategy_table :
    (∀ s ∈ C11S.acceptedStrategies, (C11S.strategyOfString s).isSome = true) ∧
    C11S.strategyOfString "balanced" = some .balanced ∧ C11S.strategyOfString "fast" = some .fast ∧
    C11S.strategyOfString "random" = some .random := by
  decide

/-- the pivot function of a tree built with strategy `strat`, when the random draws of the cell with heap-path id `path` are
`sample path` / `pick path` (arbitrary) -/
def srcPiv (strat : Strategy) (sample : Nat → List Rat → Nat → List Rat) (pick : Nat → List Rat → Rat) : Nat → List Rat → Rat :=
  fun path xs => (C11S.findPivot strat (sample path) (pick path) xs).getD 0

/-- **C11 on the source, for every strategy and EVERY outcome of `numpy.random.choice`**: with the source's `_find_pivot`
plugged into the source's `_split_points` / `__init__`, the construction terminates and partitions the input, and the source's
`query` / `query_radius` are exact on the tree it builds. -/
theorem kdtree_source_all_strategies (P : Nat → Pt) (n dim leafSize : Nat) (hleaf : 1 ≤ leafSize) (hdim : ∀ i < n, (P i).length = dim)
    (strat : Strategy) (sample : Nat → List Rat → Nat → List Rat) (pick : Nat → List Rat → Rat) :
    ∃ s fuel, C11S.init P n dim (srcPiv strat sample pick) leafSize (2 * n + 1) = some s ∧
      ((leavesF s.nodes).flatMap (fun l => l.1)).Perm (List.range n) ∧
      (∀ (q : Pt) (k : Nat), ∃ res, C11S.query P s.nodes q k fuel = some res ∧ res.length = min k n ∧ res.Nodup ∧
        res.Pairwise (fun a b => sqDist (P a) q ≤ sqDist (P b) q) ∧
        (∀ j < n, j ∉ res → ∀ i ∈ res, sqDist (P i) q ≤ sqDist (P j) q)) ∧
      (∀ (q : Pt) (r2 : Rat), ∃ F res, C11S.queryRadius P s.nodes q r2 F = some res ∧ res.Nodup ∧
        ∀ i, i ∈ res ↔ i < n ∧ sqDist (P i) q ≤ r2) := by
  obtain ⟨s, fuel, hs, hq⟩ := query_source_exact P n dim leafSize (srcPiv strat sample pick) hleaf hdim
  obtain ⟨s', hs', hpart, _⟩ := init_source_correct P n dim leafSize (srcPiv strat sample pick) hleaf hdim
  obtain ⟨s'', hs'', hr⟩ := query_radius_source_exact P n dim leafSize (srcPiv strat sample pick) hleaf hdim
  have e1 : s' = s := by rw [hs] at hs'; exact (Option.some.inj hs').symm
  have e2 : s'' = s := by rw [hs] at hs''; exact (Option.some.inj hs'').symm
  subst e1; subst e2
  refine ⟨_, fuel, hs, hpart, ?_, hr⟩
  intro q k
  obtain ⟨res, h1, h2, h3, _, h5, h6⟩ := hq q k
  exact ⟨res, h1, h2, h3, h5, h6⟩

example : C11S.findPivot .balanced (fun xs _ => xs) (fun _ => 0) [3, 1, 2, 7] = some (5 / 2) := by
  simp [C11S.findPivot, median, List.mergeSort, List.MergeSort.Internal.splitInTwo, List.merge]
  norm_num

/-! ### non-vacuity: the extracted definitions run (points −4, 1, 3 on a line, leaf size 1, pivots 1 then −4) -/

example : (C11S.init wP 3 1 wPiv 1 7).map (fun s => s.nodes.length) = some 5 := by decide +kernel
example : (C11S.init wP 3 1 wPiv 1 7).bind (fun s => C11S.query wP s.nodes [2] 2 9) = some [1, 2] := by decide +kernel
example : (C11S.init wP 3 1 wPiv 1 7).bind (fun s => C11S.queryRadius wP s.nodes [0] 9 9) = some [2, 1] := by decide +kernel
-- the fallback branch of `_split_points` (three equal coordinates, pivot = that value): the halves keep the order of the cell
example : C11S.splitPoints (fun _ => [5]) (fun _ => 5) [7, 8, 9] 0 = (5, [7], [8, 9]) := by
  simp [C11S.splitPoints, takeAx, leMask, maskAll, maskAny, argsortStable, coord, zerosBool, maskSet, extract, maskNot,
    List.mergeSort, List.range, List.range.loop, List.MergeSort.Internal.splitInTwo]
-- the trimming loop really pops
example : C11S.queryLoop2 wP [] 1 2 (2, [((1 : Rat), 0), ((4 : Rat), 1)]) = (1, [((1 : Rat), 0)]) := by decide +kernel

end Mouette.Props.C11S
