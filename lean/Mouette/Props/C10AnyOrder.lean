import Mouette.Lemmas.OrientAnyOrder
import Mouette.Props.C10Source
/-
C10, round 7: the parent / children ORIENTATION clause of the minimal spanning tree does not depend on the iteration order
of the neighbour sets. `neighbours[v]` is a Python `set`: iterating it gives its members once each in SOME order. For
EVERY family `nb` of enumerations without repetition of the tree neighbours, the orientation loop as written
(Generated.C10T.orientInit / orientStep) terminates within `n + 1` iterations and yields parent / children tables that orient
exactly the root's component of the selected forest. The set order is therefore no longer part of the trusted base (the
children lists themselves depend on it, which is why the harness compares them sorted).
-/
namespace Mouette.Props.C10
open Mouette.Trees Mouette.UF Mouette.Generated
open Mouette.Dijkstra (upd)

/-- `orient_any_order`: `orient_spec` for arbitrary neighbour enumerations -/
theorem orient_any_order (nb : Nat → List Nat) (n : Nat) (tes : List (Nat × Nat)) (root : Nat)
    (hnb : ∀ u x, x ∈ nb u ↔ adjT tes u x) (hnbd : ∀ u, (nb u).Nodup) (hr : InRange n tes) (hi : Indep tes)
    (hroot : root < n) :
    (orientG nb (n + 1) (oinitG nb root)).queue = [] ∧
    (orientG nb (n + 1) (oinitG nb root)).parent root = none ∧
    (∀ c p, (orientG nb (n + 1) (oinitG nb root)).parent c = some p → adjT tes p c) ∧
    (∀ c, (c = root ∨ ((orientG nb (n + 1) (oinitG nb root)).parent c).isSome = true) ↔ CR tes root c) ∧
    (∀ p c, c ∈ (orientG nb (n + 1) (oinitG nb root)).children p ↔
      (orientG nb (n + 1) (oinitG nb root)).parent c = some p) ∧
    (∀ c, CR tes root c → ∃ d, TreeDepth (orientG nb (n + 1) (oinitG nb root)).parent root c d) := by
  obtain ⟨Pr, hq, I⟩ := oiG_orient hnb hnbd hr hi hroot (n + 1) (oinitG nb root) [] (oiG_init hnb hnbd hi) (by simp)
  generalize orientG nb (n + 1) (oinitG nb root) = o at hq I
  have hAr : o.queue.reverse ++ Pr = Pr := by rw [hq]; simp
  have hatt : Attach root Pr := by have := I.att; rwa [hAr] at this
  have hadj : ∀ q ∈ Pr, adjT tes q.2 q.1 := fun q h => I.adj q (by rw [hAr]; exact h)
  have hnd := attach_nodup Pr hatt
  have hroot_not : root ∉ Pr.map Prod.fst := by
    unfold VV at hnd; exact (List.nodup_cons.mp hnd).1
  -- a vertex with a parent is the first component of a processed entry
  have hentry : ∀ c p, o.parent c = some p → (c, p) ∈ Pr := by
    intro c p hp
    by_cases hc : c ∈ Pr.map Prod.fst
    · obtain ⟨q, hq', rfl⟩ := List.mem_map.mp hc
      have := I.par_some q hq'
      rw [hp] at this
      simp at this
      have : q = (q.1, p) := by ext <;> simp [this]
      rw [← this]; exact hq'
    · rw [I.par_none c hc] at hp; simp at hp
  have hVV : ∀ c, c ∈ VV root Pr ↔ (c = root ∨ (o.parent c).isSome = true) := by
    intro c
    unfold VV
    simp only [List.mem_cons]
    constructor
    · rintro (h | h)
      · exact Or.inl h
      · obtain ⟨q, hq', rfl⟩ := List.mem_map.mp h
        right; rw [I.par_some q hq']; rfl
    · rintro (h | h)
      · exact Or.inl h
      · right
        cases hp : o.parent c with
        | none => rw [hp] at h; simp at h
        | some p => exact List.mem_map.mpr ⟨(c, p), hentry c p hp, rfl⟩
  have hclosed : ∀ u, u ∈ VV root Pr → ∀ x, adjT tes u x → (x, u) ∈ Pr ∨ (u, x) ∈ Pr := by
    intro u hu x hx
    have := I.closed u (by unfold VV at hu; simpa using hu) x hx
    rwa [hAr] at this
  refine ⟨hq, I.par_none root hroot_not, ?_, ?_, ?_, ?_⟩
  · intro c p hp
    exact hadj _ (hentry c p hp)
  · intro c
    rw [← hVV]
    constructor
    · intro hc
      exact CR_of_span (fun q hq' => (adjT_CR (hadj q hq')).symm) (attach_conn Pr hatt c hc)
    · intro hc
      have key : ∀ u w, CR tes u w → (u ∈ VV root Pr ↔ w ∈ VV root Pr) := by
        intro u w h
        induction h with
        | @rel a b hab =>
          constructor
          · intro ha
            rcases hclosed a ha b (Or.inl hab) with h | h
            · exact (attach_endpoints Pr hatt _ h).1
            · exact (attach_endpoints Pr hatt _ h).2
          · intro hb
            rcases hclosed b hb a (Or.inr hab) with h | h
            · exact (attach_endpoints Pr hatt _ h).1
            · exact (attach_endpoints Pr hatt _ h).2
        | refl a => exact Iff.rfl
        | symm _ ih => exact ih.symm
        | trans _ _ i1 i2 => exact i1.trans i2
      exact (key root c hc).mp (by simp [VV])
  · intro p c
    constructor
    · intro hc
      by_cases hpr : p = root
      · subst hpr
        rw [I.ch_root] at hc
        rcases hclosed p (by simp [VV]) c ((hnb _ _).mp hc) with h | h
        · exact I.par_some _ h
        · exact absurd (List.mem_map_of_mem (f := Prod.fst) h) hroot_not
      · by_cases hp : p ∈ Pr.map Prod.fst
        · obtain ⟨q, hq', rfl⟩ := List.mem_map.mp hp
          rw [I.ch_proc q hq'] at hc
          obtain ⟨h1, h2⟩ := List.mem_filter.mp hc
          have hne : c ≠ q.2 := by simpa using h2
          rcases hclosed q.1 (by unfold VV; simp [hp]) c ((hnb _ _).mp h1) with h | h
          · exact I.par_some _ h
          · have := attach_unique hatt h hq' rfl
            exact absurd (congrArg Prod.snd this) hne
        · rw [I.ch_none p hpr hp] at hc; simp at hc
    · intro hp
      have hmem := hentry c p hp
      have hadjpc : adjT tes p c := hadj _ hmem
      have hcn : c ∈ nb p := (hnb _ _).mpr hadjpc
      rcases I.par_proc (c, p) (by rw [hAr]; exact hmem) with h | h
      · simp only at h; subst h
        rw [I.ch_root]; exact hcn
      · obtain ⟨q, hq', hqp⟩ := List.mem_map.mp h
        simp only at hqp
        subst hqp
        rw [I.ch_proc q hq']
        refine List.mem_filter.mpr ⟨hcn, ?_⟩
        have : c ≠ q.2 := by
          intro he
          subst he
          exact attach_no_mutual Pr hatt q.1 q.2 hq' hmem
        simpa using this
  · intro c hc
    have key : ∀ u w, CR tes u w → (u ∈ VV root Pr ↔ w ∈ VV root Pr) := by
      intro u w h
      induction h with
      | @rel a b hab =>
        constructor
        · intro ha
          rcases hclosed a ha b (Or.inl hab) with h | h
          · exact (attach_endpoints Pr hatt _ h).1
          · exact (attach_endpoints Pr hatt _ h).2
        · intro hb
          rcases hclosed b hb a (Or.inr hab) with h | h
          · exact (attach_endpoints Pr hatt _ h).1
          · exact (attach_endpoints Pr hatt _ h).2
      | refl a => exact Iff.rfl
      | symm _ ih => exact ih.symm
      | trans _ _ i1 i2 => exact i1.trans i2
    exact attach_depth Pr hatt I.par_some c ((key root c hc).mp (by simp [VV]))

/-- the orientation loop as translated, over arbitrary neighbour lists, is `orientG` -/
theorem bridge_orientG (nb : Nat → List Nat) : ∀ f s, iterB (C10T.orientStep nb) f s = orientG nb f s := by
  intro f
  induction f with
  | zero => intro s; rfl
  | succ f ih =>
    intro s
    cases hq : s.queue with
    | nil =>
      have hstep : C10T.orientStep nb s = none := by simp [C10T.orientStep, hq]
      unfold iterB orientG
      rw [hstep, hq]
    | cons x q' =>
      obtain ⟨v, prev⟩ := x
      have hstep : C10T.orientStep nb s = some
          { parent := upd s.parent v (some prev), children := upd s.children v ((nb v).filter (· != prev)),
            queue := q' ++ ((nb v).filter (· != prev)).map (fun c => (c, v)) } := by
        simp only [C10T.orientStep, hq, upd_self, foldl_append_map]
      unfold iterB orientG
      rw [hstep, hq]
      exact ih _

theorem bridge_orientInitG (nb : Nat → List Nat) (root : Nat) : C10T.orientInit nb root = oinitG nb root := by
  unfold C10T.orientInit oinitG
  simp only [upd_const_same, foldl_append_map, List.nil_append]

/-- P1 `mst_orientation_any_order`: `EdgeMinimalSpanningTree` — whatever order the neighbour sets are iterated in, the
parent / children tables produced by the orientation loop AS WRITTEN orient exactly the root's component of the Kruskal
selection: root without parent, every link a selected edge, oriented ⇔ connected to the root through selected edges,
children and parent mutually inverse, no cycle, termination. -/
theorem mst_orientation_any_order (n root : Nat) (es : List (Nat × Nat × Rat)) (hwf : ∀ e ∈ es, e.1 < n ∧ e.2.1 < n)
    (hroot : root < n) (nb : Nat → List Nat) (hnb : ∀ u x, x ∈ nb u ↔ adjT (kruskal n es) u x) (hnbd : ∀ u, (nb u).Nodup) :
    let o := iterB (C10T.orientStep nb) (n + 1) (C10T.orientInit nb root)
    o.queue = [] ∧ o.parent root = none ∧
    (∀ c p, o.parent c = some p → adjT (kruskal n es) p c) ∧
    (∀ c, (c = root ∨ (o.parent c).isSome = true) ↔ CR (kruskal n es) root c) ∧
    (∀ p c, c ∈ o.children p ↔ o.parent c = some p) ∧
    (∀ c, CR (kruskal n es) root c → ∃ d, TreeDepth o.parent root c d) := by
  obtain ⟨hr, hi⟩ := kruskal_forest n es hwf
  intro o
  have : o = orientG nb (n + 1) (oinitG nb root) := by
    show iterB (C10T.orientStep nb) (n + 1) (C10T.orientInit nb root) = _
    rw [bridge_orientG, bridge_orientInitG]
  rw [this]
  exact orient_any_order nb n (kruskal n es) root hnb hnbd hr hi hroot

/-- the neighbour sets the Kruskal loop fills are such enumerations once duplicates are dropped (a set): the members of
`neighbours[u]` are exactly the tree neighbours of `u` -/
theorem kruskal_neighbour_sets (es : List (Nat × Nat × Rat)) (s : UF.State) (hns : ∀ e ∈ es, e.1 ≠ e.2.1) (u x : Nat) :
    x ∈ nbOf (es.foldl C10T.kruskalStep (s, [], [])).2.2 u ↔ adjT (es.foldl C10T.kruskalStep (s, [], [])).2.1 u x := by
  rw [bridge_kruskal_neighbours es s hns u]
  exact mem_treeNbrs

/-- non-vacuity: two different iteration orders of the neighbour sets of the path 3-2-0 plus edge 1-2, rooted at 0: the
children lists differ, the parent tables agree -/
example : (List.range 4).map (iterB (C10T.orientStep (fun u => [[2], [2], [0, 1, 3], [2]].getD u [])) 5
    (C10T.orientInit (fun u => [[2], [2], [0, 1, 3], [2]].getD u []) 0)).parent = [none, some 2, some 0, some 2] := by decide +kernel
example : (List.range 4).map (iterB (C10T.orientStep (fun u => [[2], [2], [3, 1, 0], [2]].getD u [])) 5
    (C10T.orientInit (fun u => [[2], [2], [3, 1, 0], [2]].getD u []) 0)).parent = [none, some 2, some 0, some 2] := by decide +kernel
example : (iterB (C10T.orientStep (fun u => [[2], [2], [3, 1, 0], [2]].getD u [])) 5
    (C10T.orientInit (fun u => [[2], [2], [3, 1, 0], [2]].getD u []) 0)).children 2 = [3, 1] := by decide +kernel

end Mouette.Props.C10
