import Mouette.Model.Prepare
import Mouette.Generated.C02Tables
import Mouette.Lemmas.C02Prepare
import Mouette.Lemmas.C02Rewrap
/-
C02 — mesh construction normalises raw data, whatever its form.
Theorems about the executable model `Mouette.Prepare` (which follows mouette/mesh/mesh_data.py after the
`fix:` commits of known_findings.d/C02.json) and about the cell-face tables the translator re-extracts
from the source on every run (`Mouette.Generated.C02`).
-/
namespace Mouette.Props.C02
open Mouette.Prepare Mouette.Generated.C02

/-! ## translated fragments: the cell-face tables as the source spells them -/

/-- the tetrahedron table is written three times in the source (completion, cell-face generation,
`volume._compute_adjacent_cell`); the three copies agree -/
theorem tet_tables_agree : completeTet = generateTet ∧ generateTet = adjacentTet := by decide

theorem hex_tables_agree : completeHex = generateHex := by decide

/-- bridge: the tables of the source are the tables of the model -/
theorem generated_tables_eq_model :
    completeTet = tetFaces ∧ generateTet = tetFaces ∧ completeHex = hexFaces ∧ generateHex = hexFaces := by
  decide

/-- "convention: face fi does not contain vertex vi" -/
theorem tet_face_i_omits_vertex_i :
    completeTet.length = 4 ∧
    ∀ i, i < 4 → (completeTet.getD i []).length = 3 ∧ i ∉ completeTet.getD i [] ∧
      ∀ j, j < 4 → j ≠ i → j ∈ completeTet.getD i [] := by decide

/-- every edge {a,b} of the tetrahedron is used exactly once in each direction by the four faces -/
theorem tet_faces_consistently_oriented :
    ∀ a, a < 4 → ∀ b, b < 4 → a ≠ b → (completeTet.flatMap dirSides).count (a, b) = 1 := by decide

/-- six quads over the 8 corners; each of the 12 edges of the hexahedron is a side of exactly two of them,
and the quads have no other side -/
theorem hex_faces_cover_each_edge_twice :
    completeHex.length = 6 ∧ (∀ f ∈ completeHex, f.length = 4 ∧ f.Nodup ∧ ∀ v ∈ f, v < 8) ∧
    (∀ e ∈ hexEdges, (completeHex.flatMap undSides).count e = 2) ∧
    (completeHex.flatMap undSides).length = 24 := by decide

/-- (observation, not demanded by the statement) the hexahedron quads are *not* consistently oriented:
side 0→1 is used in the same direction by two faces -/
theorem hex_faces_not_consistently_oriented : (completeHex.flatMap dirSides).count (0, 1) = 2 := by decide

/-! ## prepare: vertices -/

/-- every stored vertex has three coordinates (input rows of 2 or 3 coordinates, whatever the route) -/
theorem vertices_3d (cfg : Cfg) (r p : Raw) (h0 : r.prepared = false) (h : prepare cfg r = .ok p)
    (hv : ∀ v ∈ r.verts, v.length ≤ 3) : ∀ v ∈ p.verts, v.length = 3 := by
  obtain ⟨hverts, _⟩ := prepare_fields cfg r p h0 h
  rw [hverts]
  intro v hvm
  obtain ⟨w, hw, rfl⟩ := List.mem_map.mp hvm
  have := hv w hw
  unfold padVertex
  split
  · simp; omega
  · omega

/-- padding only appends zeros: the given coordinates are kept -/
theorem vertices_kept (v : List Rat) : (padVertex v).take v.length = v := by
  unfold padVertex; split <;> simp

/-! ## prepare: edges -/

/-- every stored edge `(a, b)` satisfies `0 ≤ a < b < nV` -/
theorem edges_normalised (cfg : Cfg) (r p : Raw) (h0 : r.prepared = false) (h : prepare cfg r = .ok p) :
    ∀ e ∈ p.edges, 0 ≤ e.1 ∧ e.1 < e.2 ∧ e.2 < (p.verts.length : Int) := by
  obtain ⟨hverts, hedges, _⟩ := prepare_fields cfg r p h0 h
  rw [hedges, hverts]
  intro e he
  obtain ⟨e0, he0, rfl⟩ := List.mem_map.mp he
  have hv := (List.mem_filter.mp he0).2
  simpa using keyE_normal r.verts.length e0 hv

/-- The multiset of stored edges. For every normalised in-range pair `k`:
its multiplicity is the number of declared edges joining the same two vertices, plus one if no declared
edge joins them, completion is on and `k` is a side of a face (faces after completion from cells).
Together with `edges_normalised` this determines the stored edge multiset: declared valid edges + every
undirected face side not already present, exactly once; self-loops and out-of-range edges are dropped. -/
theorem edges_complete_once (cfg : Cfg) (r p : Raw) (h0 : r.prepared = false) (h : prepare cfg r = .ok p)
    (k : Int × Int) (hk : validE r.verts.length k = true) :
    p.edges.count k = (r.edges.map keyE).count k +
      (if cfg.ce = true ∧ k ∉ r.edges.map keyE ∧ k ∈ (facesAfter cfg r).flatMap faceSides then 1 else 0) := by
  obtain ⟨_, hedges, _⟩ := prepare_fields cfg r p h0 h
  rw [hedges, count_filter_valid _ _ _ hk]
  unfold edgesAfter
  by_cases hce : cfg.ce = true
  · simp only [hce, if_true, true_and]
    rw [completeBy_count]
    have : ((facesAfter cfg r).flatMap faceSides).map keyE = (facesAfter cfg r).flatMap faceSides := by
      rw [List.map_flatMap]
      congr 1; funext f
      simp [faceSides, sideAt, keyE_idem]
    rw [this]
  · simp [hce]

/-! ## prepare: faces from cells -/

/-- The multiset of stored faces, by vertex set: declared faces keep their multiplicity; a face of a cell
whose vertex set is not declared is stored exactly once (so a face shared by two cells appears once);
with the switch off nothing is added. -/
theorem faces_from_cells (cfg : Cfg) (r p : Raw) (h0 : r.prepared = false) (h : prepare cfg r = .ok p)
    (k : List Nat) :
    (p.faces.map keyF).count k = (r.faces.map keyF).count k +
      (if cfg.cf = true ∧ k ∉ r.faces.map keyF ∧ k ∈ (r.cells.flatMap cellFacesC).map keyF then 1 else 0) := by
  obtain ⟨_, _, hfaces, _⟩ := prepare_fields cfg r p h0 h
  rw [hfaces]; unfold facesAfter
  by_cases hcf : cfg.cf = true
  · simp only [hcf, if_true, true_and]; exact completeBy_count keyF _ _ k
  · simp [hcf]

/-- what "same key" means in `faces_from_cells`: two faces have the same key iff they are made of the same
vertices (as multisets), whatever their rotation or orientation -/
theorem face_key_is_vertex_multiset (f g : List Nat) : keyF f = keyF g ↔ f.Perm g := keyF_eq_iff_perm f g

/-- what "same key" means in `edges_complete_once`: same unordered pair of endpoints -/
theorem edge_key_is_unordered_pair (e e' : Int × Int) :
    keyE e = keyE e' ↔ (e = e' ∨ e = (e'.2, e'.1)) := by
  obtain ⟨a, b⟩ := e; obtain ⟨c, d⟩ := e'
  simp only [keyE, Prod.mk.injEq]
  omega

/-- declared faces stay where they were (completed faces are appended) -/
theorem faces_declared_prefix (cfg : Cfg) (r p : Raw) (h0 : r.prepared = false) (h : prepare cfg r = .ok p) :
    ∃ added, p.faces = r.faces ++ added ∧ ∀ f ∈ added, f ∈ r.cells.flatMap cellFacesC := by
  obtain ⟨_, _, hfaces, _⟩ := prepare_fields cfg r p h0 h
  rw [hfaces]; unfold facesAfter
  by_cases hcf : cfg.cf = true
  · simp only [hcf, if_true]
    exact completeBy_prefix keyF r.faces (r.cells.flatMap cellFacesC)
  · exact ⟨[], by simp [hcf], by simp⟩


/-- four triangles per tetrahedron, six quads per hexahedron, made of the cell's own vertices -/
theorem faces_per_cell (c : List Nat) :
    (c.length = 4 → (cellFacesC c).length = 4 ∧ ∀ f ∈ cellFacesC c, f.length = 3 ∧ ∀ v ∈ f, v ∈ c) ∧
    (c.length = 8 → (cellFacesC c).length = 6 ∧ ∀ f ∈ cellFacesC c, f.length = 4 ∧ ∀ v ∈ f, v ∈ c) := by
  constructor
  · intro h
    match c, h with
    | [a, b, c, d], _ => simp [cellFacesC, pick, tetFaces]
  · intro h
    match c, h with
    | [a, b, c, d, e, f, g, i], _ => simp [cellFacesC, pick, hexFaces]

/-- construction never fails when face completion is on (cells being tetrahedra / hexahedra): every face
looked up by `_generate_cell_faces` has been stored by `_complete_faces_from_cells` -/
theorem prepare_cf_on_never_fails (cfg : Cfg) (r : Raw) (hcf : cfg.cf = true)
    (ha : ∀ c ∈ r.cells, c.length = 4 ∨ c.length = 8) : ∃ p, prepare cfg r = .ok p := by
  unfold prepare
  by_cases hp : r.prepared = true
  · exact ⟨r, by simp [hp]⟩
  · simp only [hp, Bool.false_eq_true, if_false]
    have hk : ∀ c ∈ r.cells, ∀ f ∈ cellFacesC c, keyF f ∈ (facesAfter cfg r).map keyF := by
      intro c hc f hf
      unfold facesAfter; rw [if_pos hcf]
      exact completeBy_complete keyF _ _ f (List.mem_flatMap.mpr ⟨c, hc, hf⟩)
    obtain ⟨idss, hids⟩ := cellFaceIds_total ((facesAfter cfg r).map keyF) r.cells ha hk
    have : ∃ q, genCellFaces (stages cfg r) = .ok q := by
      unfold genCellFaces
      split
      · rw [stages_faces, stages_cells, hids]; exact ⟨_, rfl⟩
      · exact ⟨_, rfl⟩
    obtain ⟨q, hq⟩ := this
    rw [hq]; exact ⟨_, rfl⟩

/-- OPEN FINDING C02/raises/cf-off/cell-faces, on the witness: with face completion off a single
tetrahedron makes `prepare` fail with KeyError (model and code agree on this; see known_findings.d) -/
theorem prepare_cf_off_fails_witness :
    errOf (prepare { ce := true, cf := false } { verts := [[0,0,0],[1,0,0],[0,1,0],[0,0,1]], cells := [[0,1,2,3]] })
      = some "err:Key" := by decide

/-! ## prepare: corner records -/

/-- what `owners` lists: zipping the flattened rows with it gives, row after row and entry after entry,
the pair (entry, index of its row) — one (element, owner) record per incidence, in element order -/
theorem owners_spec (rows : List (List Nat)) :
    (owners rows).length = rows.flatten.length ∧
    List.zip rows.flatten (owners rows) = rows.zipIdx.flatMap (fun ri => ri.1.map (fun v => (v, ri.2))) :=
  ⟨ownersFrom_length rows 0, ownersFrom_zip rows 0⟩

/-- face corners and cell corners of a freshly built mesh (raw corner containers empty): elements are the
face (cell) vertices in element order, owners as in `owners_spec` -/
theorem corner_records (cfg : Cfg) (r p : Raw) (h0 : r.prepared = false) (h : prepare cfg r = .ok p)
    (hfc : r.fcElem = []) (hcc : r.ccElem = []) :
    p.fcElem = p.faces.flatten ∧ p.fcAdj = owners p.faces ∧
    p.ccElem = p.cells.flatten ∧ p.ccAdj = owners p.cells := by
  obtain ⟨_, _, hf, hc, _, _, h1, h2, h3, h4⟩ := prepare_fields cfg r p h0 h
  obtain ⟨c1, _, c3, _, _, _⟩ := completed_corners cfg r
  rw [h1, h2, h3, h4, hf, hc]
  unfold stages
  simp only [gcc_fcElem, gcc_fcAdj]
  have a := gfc_regen (prepareEdges (prepareVertices (completed cfg r))) (by simp [c1, hfc])
  have b := gcc_regen (genFaceCorners (prepareEdges (prepareVertices (completed cfg r)))) (by simp [c3, hcc])
  simp only [pe_faces, pv_faces, completed_faces] at a
  simp only [gfc_cells, pe_cells, pv_cells, completed_cells] at b
  exact ⟨a.1, a.2, b.1, b.2⟩

/-- cell-face records of a freshly built mesh: cell after cell, for each face of the cell's table in table
order one record pointing to a stored face with that vertex set; the owner list is `owners` of the records
(4 per tetrahedron, 6 per hexahedron), so every record carries its cell -/
theorem cell_face_records (cfg : Cfg) (r p : Raw) (h0 : r.prepared = false) (h : prepare cfg r = .ok p)
    (hcf : r.cfElem = []) :
    ∃ idss : List (List Nat), p.cfElem = idss.flatten ∧ p.cfAdj = owners idss ∧
      CellRecords (p.faces.map keyF) p.cells idss := by
  obtain ⟨q, hq, hp⟩ := prepare_ok cfg r p h0 h
  obtain ⟨_, _, _, hqf, hqc, _⟩ := genCellFaces_fields _ _ hq
  have hs : (stages cfg r).cfElem = [] := by
    unfold stages; simp [(completed_corners cfg r).2.2.2.2.1, hcf]
  obtain ⟨idss, hi, e1, e2⟩ := genCellFaces_regen _ _ hq hs
  subst hp
  refine ⟨idss, e1, e2, ?_⟩
  simp only [hqf, hqc]
  exact cellFaceIds_ok _ _ _ hi

/-! ## class -/

/-- `_instanciate_raw_mesh_data`: the class index is max(dim, dimensionality) and the dimensionality is
that of the highest-dimensional non-empty container of the finished data -/
theorem class_by_dim (cfg : Cfg) (r : Raw) (dim : Option Nat) (b : Built)
    (h : instantiate cfg r dim = .ok b) :
    b.dim = max (dim.getD 0) (dimensionality b.raw) ∧
    (b.raw.cells ≠ [] → dimensionality b.raw = 3) ∧
    (b.raw.cells = [] → b.raw.faces ≠ [] → dimensionality b.raw = 2) ∧
    (b.raw.cells = [] → b.raw.faces = [] → b.raw.edges ≠ [] → dimensionality b.raw = 1) ∧
    (b.raw.cells = [] → b.raw.faces = [] → b.raw.edges = [] → dimensionality b.raw = 0) := by
  unfold instantiate at h
  split at h
  · injection h with h; subst h
    refine ⟨rfl, ?_, ?_, ?_, ?_⟩ <;> (unfold dimensionality; intros; simp_all)
  · cases h

/-! ## attributes follow their edges; hard edges -/

/-- the surviving declared edges come first, in declaration order, normalised -/
theorem declared_edges_first (cfg : Cfg) (r p : Raw) (h0 : r.prepared = false) (h : prepare cfg r = .ok p) :
    ∃ rest, p.edges = (r.edges.filter (validE r.verts.length)).map keyE ++ rest := by
  obtain ⟨_, hedges, _⟩ := prepare_fields cfg r p h0 h
  obtain ⟨ad, had⟩ := edgesAfter_prefix cfg r
  rw [hedges, had]
  exact ⟨(ad.filter (validE r.verts.length)).map keyE, by simp⟩

/-- Edge attributes follow their edges. `surv` lists the indices of the valid declared edges in order
(`survIdx_get`: its `j`-th entry is the index of the `j`-th valid declared edge, which by
`declared_edges_first` is stored as edge `j`). Every declared attribute is still there under its name and
edge `j` reads what declared edge `surv[j]` read; for a sparse attribute "has an explicit value" is
preserved too (absent stays absent). -/
theorem edge_attr_follow (cfg : Cfg) (r p : Raw) (h0 : r.prepared = false) (h : prepare cfg r = .ok p)
    (idx : Nat) (hidx : idx < r.eattrs.length) :
    ∃ a', p.eattrs[idx]? = some a' ∧ a'.name = r.eattrs[idx].name ∧
      (∀ j (hj : j < (survIdx r.verts.length r.edges 0).length),
        a'.read j = r.eattrs[idx].read (survIdx r.verts.length r.edges 0)[j]) ∧
      (∀ d, r.eattrs[idx].st = .sparse d → ∀ j (hj : j < (survIdx r.verts.length r.edges 0).length),
        a'.hasKey j = r.eattrs[idx].hasKey (survIdx r.verts.length r.edges 0)[j]) := by
  obtain ⟨_, _, _, _, _, hattrs, _⟩ := prepare_fields cfg r p h0 h
  rw [hattrs, stages_eattrs]
  refine ⟨finalAttr cfg r r.eattrs[idx], ?_, finalAttr_name _ _ _, ?_, ?_⟩
  · rw [List.getElem?_map, List.getElem?_append_left hidx]; simp [hidx]
  all_goals
    obtain ⟨ad, had⟩ := edgesAfter_prefix cfg r
    unfold finalAttr
    simp only []
    split
    · -- some edge is invalid: attributes are re-indexed along the survivors of all edges
      have hs : survIdx r.verts.length (edgesAfter cfg r) 0
          = survIdx r.verts.length r.edges 0 ++ survIdx r.verts.length ad r.edges.length := by
        rw [had, survIdx_append, Nat.zero_add]
      first
      | (intro j hj
         have hj2 : j < (survIdx r.verts.length (edgesAfter cfg r) 0).length := by rw [hs]; simp; omega
         rw [reindexAttr_read _ _ j hj2]
         have : (survIdx r.verts.length (edgesAfter cfg r) 0)[j] = (survIdx r.verts.length r.edges 0)[j] := by
           simp only [hs]; exact List.getElem_append_left hj
         rw [this]
         split
         · exact expandAttr_read _ _ _
         · rfl)
      | (intro d hd j hj
         have hj2 : j < (survIdx r.verts.length (edgesAfter cfg r) 0).length := by rw [hs]; simp; omega
         have : (survIdx r.verts.length (edgesAfter cfg r) 0)[j] = (survIdx r.verts.length r.edges 0)[j] := by
           simp only [hs]; exact List.getElem_append_left hj
         split
         · rw [expandAttr_sparse _ _ d hd, reindexAttr_hasKey _ _ d hd j hj2, this]
         · rw [reindexAttr_hasKey _ _ d hd j hj2, this])
    · -- all edges valid: nothing moves, survivor j is edge j
      rename_i hall
      have hall' : (edgesAfter cfg r).any (fun e => !validE r.verts.length e) = false := by simpa using hall
      have hr : r.edges.any (fun e => !validE r.verts.length e) = false := by
        rw [had, List.any_append, Bool.or_eq_false_iff] at hall'; exact hall'.1
      have hsj : ∀ j (hj : j < (survIdx r.verts.length r.edges 0).length),
          (survIdx r.verts.length r.edges 0)[j] = j := by
        intro j hj
        simp only [survIdx_all_valid _ _ _ hr]
        simp
      first
      | (intro j hj
         rw [hsj j hj]
         split
         · exact expandAttr_read _ _ _
         · rfl)
      | (intro d hd j hj
         rw [hsj j hj]
         split
         · rw [expandAttr_sparse _ _ d hd]
         · rfl)

/-- dropped edges drop their values: after a filtering `prepare` no attribute holds a key beyond the
surviving edges -/
theorem edge_attr_no_stale_keys (surv : List Nat) (a : Attr) (k : Nat)
    (h : (reindexAttr surv a).hasKey k = true) : k < surv.length :=
  reindexAttr_keys_bound surv a k h

/-- Only declared edges are flagged hard: if the caller did not bring a `hard_edges` attribute, every key
of the `hard_edges` attribute of the finished mesh is the index of a surviving *declared* edge (these are
the first stored edges, `declared_edges_first`). -/
theorem hard_edges_only_declared (cfg : Cfg) (r p : Raw) (h0 : r.prepared = false) (h : prepare cfg r = .ok p)
    (hno : hasAttr r.eattrs hardName = false) (a : Attr) (ha : a ∈ p.eattrs) (hn : a.name = hardName)
    (k : Nat) (hk : a.hasKey k = true) : k < (r.edges.filter (validE r.verts.length)).length := by
  obtain ⟨_, _, _, _, _, hattrs, _⟩ := prepare_fields cfg r p h0 h
  rw [hattrs, stages_eattrs, List.map_append, List.mem_append] at ha
  rcases ha with ha | ha
  · -- a declared attribute cannot carry the name
    obtain ⟨a0, ha0, rfl⟩ := List.mem_map.mp ha
    rw [finalAttr_name] at hn
    have : hasAttr r.eattrs hardName = true := by
      unfold hasAttr; rw [List.any_eq_true]; exact ⟨a0, ha0, by simp [hn]⟩
    rw [hno] at this; cases this
  · obtain ⟨a0, ha0, rfl⟩ := List.mem_map.mp ha
    unfold extraAttrs at ha0
    split at ha0
    · simp only [List.mem_singleton] at ha0; subst ha0
      obtain ⟨ad, had⟩ := edgesAfter_prefix cfg r
      have hsp : (hardAttr r.edges.length).st = .sparse ((List.range r.edges.length).map (fun i => (i, 1))) := rfl
      unfold finalAttr at hk
      simp only [expandAttr_sparse _ _ _ hsp, ite_self] at hk
      split at hk
      · -- filtered
        have hs : survIdx r.verts.length (edgesAfter cfg r) 0
            = survIdx r.verts.length r.edges 0 ++ survIdx r.verts.length ad r.edges.length := by
          rw [had, survIdx_append, Nat.zero_add]
        have hb := reindexAttr_keys_bound _ _ _ hk
        rw [reindexAttr_hasKey _ _ _ hsp k hb, hardAttr_hasKey] at hk
        have hlt : (survIdx r.verts.length (edgesAfter cfg r) 0)[k] < r.edges.length := by simpa using hk
        rw [← survIdx_length r.verts.length r.edges 0]
        by_cases hc : k < (survIdx r.verts.length r.edges 0).length
        · exact hc
        · exfalso
          have hk2 : k - (survIdx r.verts.length r.edges 0).length
              < (survIdx r.verts.length ad r.edges.length).length := by
            rw [hs] at hb; simp at hb; omega
          have hge := (survIdx_get r.verts.length ad r.edges.length _ hk2).1
          have : (survIdx r.verts.length (edgesAfter cfg r) 0)[k]
              = (survIdx r.verts.length ad r.edges.length)[k - (survIdx r.verts.length r.edges 0).length] := by
            simp only [hs]; exact List.getElem_append_right (by omega)
          omega
      · rename_i hall
        have hall' : (edgesAfter cfg r).any (fun e => !validE r.verts.length e) = false := by simpa using hall
        have hr : r.edges.any (fun e => !validE r.verts.length e) = false := by
          rw [had, List.any_append, Bool.or_eq_false_iff] at hall'; exact hall'.1
        rw [filter_all_valid _ _ hr]
        rw [hardAttr_hasKey] at hk; simpa using hk
    · simp at ha0

/-! ## building again -/

/-- `prepare` on prepared data changes nothing (the `_prepared` guard), so calling a constructor twice on
the same data, or `prepare()` again, is the identity -/
theorem prepare_idempotent (cfg cfg' : Cfg) (r p : Raw) (h : prepare cfg r = .ok p) :
    prepare cfg' p = .ok p := by
  have hp : p.prepared = true := by
    unfold prepare at h
    split at h
    · rename_i hr; injection h with h; subst h; exact hr
    · split at h
      · injection h with h; subst h; rfl
      · cases h
  unfold prepare; simp [hp]


/-- Building again from an already built mesh changes nothing. `rewrap ⟨d, p⟩` is `RawMeshData(mesh)` for
the mesh of class `d` (0 PointCloud … 3 VolumeMesh) sharing the prepared data `p`: the `_prepared` flag is
lost, the containers the class does not have are fresh. Preparing it again (same configuration) returns
exactly the containers the mesh had: vertices, edges (no re-flagging of `hard_edges`, no edge or face added
twice), attributes, corner and cell-face records.
Hypotheses: `r` is fresh raw data (empty corner containers: the quantifier of the statement) and the face
sides are valid edges (faces index existing vertices, no repeated consecutive vertex). -/
theorem prepare_rewrap_prepare (cfg : Cfg) (r p : Raw) (d : Nat) (h0 : r.prepared = false)
    (h : prepare cfg r = .ok p) (hfc : r.fcElem = []) (hcc : r.ccElem = []) (hcf : r.cfElem = [])
    (hsides : ∀ s ∈ (facesAfter cfg r).flatMap faceSides, validE r.verts.length s = true) :
    prepare cfg (rewrap ⟨d, p⟩) = .ok { rewrap ⟨d, p⟩ with prepared := true } :=
  prepare_canon cfg _ (rewrap_canon cfg p d (prepare_makes_canon cfg r p h0 h hfc hcc hcf hsides)) rfl

/-- … in particular the class chosen by `_instanciate_raw_mesh_data` is the same again -/
theorem rewrap_same_class (cfg : Cfg) (r p : Raw) (d : Nat) (h0 : r.prepared = false)
    (h : prepare cfg r = .ok p) (hfc : r.fcElem = []) (hcc : r.ccElem = []) (hcf : r.cfElem = [])
    (hsides : ∀ s ∈ (facesAfter cfg r).flatMap faceSides, validE r.verts.length s = true) :
    ∃ b, instantiate cfg (rewrap ⟨d, p⟩) (some d) = .ok b ∧ b.dim = d := by
  unfold instantiate
  rw [prepare_rewrap_prepare cfg r p d h0 h hfc hcc hcf hsides]
  refine ⟨_, rfl, ?_⟩
  apply Nat.max_eq_left
  unfold dimensionality
  simp only [rewrap]
  repeat' split
  all_goals simp_all
  all_goals omega

/-! ## non-vacuity: the hypotheses hold on concrete scenarios (evaluated by the kernel) -/

example : (demoOut.map (·.faces.length)) = some 7 := by decide          -- 4 + 4 − 1 shared
example : (demoOut.map (·.edges.length)) = some 9 := by decide          -- (0,3) declared + 8 completed
example : (demoOut.map (·.edges.head?)) = some (some (0, 3)) := by decide
example : (demoOut.map (·.cfAdj)) = some [0, 0, 0, 0, 1, 1, 1, 1] := by decide
example : (demoOut.map (fun p => p.eattrs.map (fun a => (a.name, a.read 0, a.hasKey 1)))) =
    some [("w", 10, true), ("s", 5, false), ("hard_edges", 1, false)] := by decide
example : ∀ s ∈ (facesAfter {} demo).flatMap faceSides, validE demo.verts.length s = true := by decide
example : (demoOut.bind (fun p => match prepare {} (rewrap ⟨3, p⟩) with | .ok q => some (q.edges == p.edges && q.eattrs == p.eattrs && q.cfElem == p.cfElem) | _ => none)) = some true := by decide

end Mouette.Props.C02
