import Mouette.Model.Prepare
import Mouette.Generated.C02Tables
import Mouette.Lemmas.C02Prepare
import Mouette.Lemmas.C02Rewrap
import Mouette.Lemmas.C02Witness
import Mouette.Lemmas.C02StepsLemmas
import Mouette.Lemmas.C02Rows
import Mouette.Lemmas.C02HistoryLemmas
import Mouette.Generated.C02Structure
import Mouette.Model.DriveC02
/-
C02 — mesh construction normalises raw data, whatever its form.
Theorems about the executable model `Mouette.Prepare` (which follows mouette/mesh/mesh_data.py after the
`fix:` commits of known_findings.d/C02.json) and about the cell-face tables the translator re-extracts
from the source on every run (`Mouette.Generated.C02`).
-/
set_option linter.unusedSimpArgs false
namespace Mouette.Props.C02
open Mouette.Prepare Mouette.Generated.C02
open Mouette.Generated

/-! ## translated fragments: the cell-face tables as the source spells them -/

/-- the tetrahedron table is written three times in the source (completion, cell-face generation,
`volume._compute_adjacent_cell`); the three copies agree -/
theorem tet_tables_agree : completeTet = generateTet ∧ generateTet = adjacentTet := by decide

theorem hex_tables_agree : completeHex = generateHex := by decide

/-- bridge: the tables of the source are the tables of the model -/
theorem generated_tables_eq_model :
    completeTet = tetFaces ∧ generateTet = tetFaces ∧ completeHex = hexFaces ∧ generateHex = hexFaces := by
  decide

/-- "convention: face fi does not contain vertex vi" -/
theorem tet_face_i_omits_vertex_i :
    completeTet.length = 4 ∧
    ∀ i, i < 4 → (completeTet.getD i []).length = 3 ∧ i ∉ completeTet.getD i [] ∧
      ∀ j, j < 4 → j ≠ i → j ∈ completeTet.getD i [] := by decide

/-- every edge {a,b} of the tetrahedron is used exactly once in each direction by the four faces -/
theorem tet_faces_consistently_oriented :
    ∀ a, a < 4 → ∀ b, b < 4 → a ≠ b → (completeTet.flatMap dirSides).count (a, b) = 1 := by decide

/-- six quads over the 8 corners; each of the 12 edges of the hexahedron is a side of exactly two of them,
and the quads have no other side -/
theorem hex_faces_cover_each_edge_twice :
    completeHex.length = 6 ∧ (∀ f ∈ completeHex, f.length = 4 ∧ f.Nodup ∧ ∀ v ∈ f, v < 8) ∧
    (∀ e ∈ hexEdges, (completeHex.flatMap undSides).count e = 2) ∧
    (completeHex.flatMap undSides).length = 24 := by decide

/-- (observation, not demanded by the statement) the hexahedron quads are *not* consistently oriented:
side 0→1 is used in the same direction by two faces -/
theorem hex_faces_not_consistently_oriented : (completeHex.flatMap dirSides).count (0, 1) = 2 := by decide

/-! ## translated fragments: the control skeleton of the construction code (round 2)

`Mouette.Generated.C02S` is rewritten from the source on every run (vlib/props/c02_structure.py). Each bridge says:
the model is the interpretation (`Lemmas/C02Steps`) of exactly what the source says. A reordered step, a dropped or
moved guard, another comparison operator or bound, swapped append arguments, a class chosen before `prepare()` …
change the Generated term and the bridge no longer compiles. -/

/-- the step program of `RawMeshData.prepare` as written in the source is the normal form: `_prepared` guard first;
faces-from-cells under `config.complete_faces_from_cells`, then edges-from-faces under
`config.complete_edges_from_faces`, then vertices, edges, faces, face corners, cells, cell corners, cell faces,
then `_compute_dimensionality`, then `_prepared = True` -/
theorem prepare_program_bridge : C02S.prepareProgram = expectedPrepareProgram := by decide

/-- the model's `prepare` runs the steps the source lists, in the source's order, under the source's guards -/
theorem prepare_follows_source_structure (cfg : Cfg) (r : Raw) :
    prepare cfg r = runProgram cfg C02S.prepareProgram r := by
  rw [prepare_program_bridge]; exact prepare_eq_runProgram cfg r

/-- order facts read off the source program (consequences, stated for the record): face completion precedes edge
completion, both precede every per-container step, the dimensionality is computed after them, the flag is set last -/
theorem prepare_program_order :
    C02S.prepareProgram.guardFirst = true ∧
    C02S.prepareProgram.steps.idxOf (Guard.ifCF, Step.completeFaces) = 0 ∧
    C02S.prepareProgram.steps.idxOf (Guard.ifCE, Step.completeEdges) = 1 ∧
    C02S.prepareProgram.steps.idxOf (Guard.always, Step.prepareEdges) = 3 ∧
    C02S.prepareProgram.steps.idxOf (Guard.always, Step.computeDim) = 9 ∧
    C02S.prepareProgram.steps.getLast? = some (Guard.always, Step.setPrepared) := by decide

/-- the validity predicate of `_prepare_edges` as written (`a!=b and 0<=a<N and 0<=b<N`, `N = len(self.vertices)`)
is the model's `validE` -/
theorem is_valid_bridge (n : Nat) (e : Int × Int) : C02S.isValid e.1 e.2 n = validE n e := by
  rw [Bool.eq_iff_iff, validE_iff]
  simp only [C02S.isValid, Bool.and_eq_true, decide_eq_true_eq]
  omega

/-- `_complete_edges_from_faces` as written (return first on empty faces; `if not has_attribute("hard_edges")`;
flags set on the edges present before completion) is the model's `completeEdges` -/
theorem hard_edges_guard_bridge (r : Raw) :
    completeEdges r = completeEdgesWith C02S.hardGuard C02S.hardAttrName C02S.hardFlagsBeforeCompletion
      C02S.emptyFacesReturnFirst r := by
  have h : C02S.hardGuard = HardGuard.ifAbsent ∧ C02S.hardAttrName = hardName ∧
      C02S.hardFlagsBeforeCompletion = true ∧ C02S.emptyFacesReturnFirst = true := by decide
  rw [h.1, h.2.1, h.2.2.1, h.2.2.2]; exact completeEdges_eq_with r

/-- `face_corners.append(v, iF)`, `cell_corners.append(v, iC)` with `append(val_elem, val_adj)` routed to
`_elem`, `_adj` fill (vertices in element order, owners); `_generate_cell_faces` appends the face id to `_elem`
and the cell index to `_adj` -/
theorem corner_append_bridge (rows : List (List Nat)) :
    cornerLists C02S.faceCornerArgs C02S.cornerAppendSlots rows = (rows.flatten, owners rows) ∧
    cornerLists C02S.cellCornerArgs C02S.cornerAppendSlots rows = (rows.flatten, owners rows) ∧
    C02S.cellFaceElemArg = CellFaceArg.faceId ∧ C02S.cellFaceAdjArg = CellFaceArg.cellIndex := by
  have h : C02S.faceCornerArgs = [.vertex, .owner] ∧ C02S.cellCornerArgs = [.vertex, .owner] ∧
      C02S.cornerAppendSlots = [.elem, .adj] := by decide
  rw [h.1, h.2.1, h.2.2]
  exact ⟨cornerLists_expected rows, cornerLists_expected rows, by decide, by decide⟩

/-- … and that is what the model's corner generation stores -/
theorem corner_generation_uses_append_order (r : Raw) (hf : r.fcElem = []) (hc : r.ccElem = []) :
    ((genFaceCorners r).fcElem, (genFaceCorners r).fcAdj)
      = cornerLists C02S.faceCornerArgs C02S.cornerAppendSlots r.faces ∧
    ((genCellCorners r).ccElem, (genCellCorners r).ccAdj)
      = cornerLists C02S.cellCornerArgs C02S.cornerAppendSlots r.cells := by
  rw [(corner_append_bridge r.faces).1, (corner_append_bridge r.cells).2.1]
  have a := gfc_regen r hf
  have b := gcc_regen r hc
  exact ⟨by rw [a.1, a.2], by rw [b.1, b.2]⟩

/-- the if/elif chain of `_compute_dimensionality` as written computes the model's `dimensionality` -/
theorem dimensionality_bridge (r : Raw) : dimensionality r = dimBy C02S.dimChain C02S.dimDefault r := by
  have h : C02S.dimChain = [("cells", 3), ("faces", 2), ("edges", 1)] ∧ C02S.dimDefault = 0 := by decide
  rw [h.1, h.2]; exact dimensionality_eq_dimBy r

/-- `_instanciate_raw_mesh_data` as written — `prepare()` BEFORE `dimensionality` is read, `None → -1`,
`max(dim, dimensionality)`, dispatch — is the model's `instantiate`: the class is chosen on the prepared data
(after invalid edges were filtered and elements completed) -/
theorem instantiate_follows_source_structure (cfg : Cfg) (r : Raw) (dim : Option Nat) :
    instantiate cfg r dim = instantiateWith cfg C02S.instProgram r dim := by
  have h : C02S.instProgram = [.prepare, .defaultDim (-1), .combineMax, .dispatch] := by decide
  rw [h]; exact instantiate_eq_with cfg r dim

/-- the class returned per value, as written, and the class names the driver prints -/
theorem class_table_bridge :
    C02S.classTable = expectedClassTable ∧
    ∀ k : Nat, k ≤ 3 → C02S.classTable.lookup (Int.ofNat k) = some (Mouette.DriveC02.className k) := by decide

/-- `Mesh.__init__` as written (`dim>0`: edges; `dim>1`: faces, face_corners; `dim>2`: cells, cell_corners,
cell_faces) decides which containers a re-wrap `RawMeshData(mesh)` carries over -/
theorem mesh_init_bridge : C02S.meshInitTable = expectedMeshInitTable := by decide

theorem rewrap_follows_mesh_init (b : Built) :
    (rewrap b).edges = (if visible C02S.meshInitTable b.dim "edges" then b.raw.edges else []) ∧
    (rewrap b).faces = (if visible C02S.meshInitTable b.dim "faces" then b.raw.faces else []) ∧
    (rewrap b).fcElem = (if visible C02S.meshInitTable b.dim "face_corners" then b.raw.fcElem else []) ∧
    (rewrap b).cells = (if visible C02S.meshInitTable b.dim "cells" then b.raw.cells else []) ∧
    (rewrap b).ccElem = (if visible C02S.meshInitTable b.dim "cell_corners" then b.raw.ccElem else []) ∧
    (rewrap b).cfElem = (if visible C02S.meshInitTable b.dim "cell_faces" then b.raw.cfElem else []) := by
  rw [mesh_init_bridge]
  obtain ⟨a, _, c, d, _, f, g, _, i, _⟩ := rewrap_visible b
  exact ⟨a, c, d, f, g, i⟩

/-! ## prepare: vertices -/

/-- every stored vertex has three coordinates (input rows of 2 or 3 coordinates, whatever the route) -/
theorem vertices_3d (cfg : Cfg) (r p : Raw) (h0 : r.prepared = false) (h : prepare cfg r = .ok p)
    (hv : ∀ v ∈ r.verts, v.length ≤ 3) : ∀ v ∈ p.verts, v.length = 3 := by
  obtain ⟨hverts, _⟩ := prepare_fields cfg r p h0 h
  rw [hverts]
  intro v hvm
  obtain ⟨w, hw, rfl⟩ := List.mem_map.mp hvm
  have := hv w hw
  unfold padVertex
  split
  · simp; omega
  · omega

/-- padding only appends zeros: the given coordinates are kept -/
theorem vertices_kept (v : List Rat) : (padVertex v).take v.length = v := by
  unfold padVertex; split <;> simp

/-! ## prepare: edges -/

/-- every stored edge `(a, b)` satisfies `0 ≤ a < b < nV` -/
theorem edges_normalised (cfg : Cfg) (r p : Raw) (h0 : r.prepared = false) (h : prepare cfg r = .ok p) :
    ∀ e ∈ p.edges, 0 ≤ e.1 ∧ e.1 < e.2 ∧ e.2 < (p.verts.length : Int) := by
  obtain ⟨hverts, hedges, _⟩ := prepare_fields cfg r p h0 h
  rw [hedges, hverts]
  intro e he
  obtain ⟨e0, he0, rfl⟩ := List.mem_map.mp he
  have hv := (List.mem_filter.mp he0).2
  simpa using keyE_normal r.verts.length e0 hv

/-- The multiset of stored edges. For every normalised in-range pair `k`:
its multiplicity is the number of declared edges joining the same two vertices, plus one if no declared
edge joins them, completion is on and `k` is a side of a face (faces after completion from cells).
Together with `edges_normalised` this determines the stored edge multiset: declared valid edges + every
undirected face side not already present, exactly once; self-loops and out-of-range edges are dropped. -/
theorem edges_complete_once (cfg : Cfg) (r p : Raw) (h0 : r.prepared = false) (h : prepare cfg r = .ok p)
    (k : Int × Int) (hk : validE r.verts.length k = true) :
    p.edges.count k = (r.edges.map keyE).count k +
      (if cfg.ce = true ∧ k ∉ r.edges.map keyE ∧ k ∈ (facesAfter cfg r).flatMap faceSides then 1 else 0) := by
  obtain ⟨_, hedges, _⟩ := prepare_fields cfg r p h0 h
  rw [hedges, count_filter_valid _ _ _ hk]
  unfold edgesAfter
  by_cases hce : cfg.ce = true
  · simp only [hce, if_true, true_and]
    rw [completeBy_count]
    have hmap : (validSides r.verts.length (facesAfter cfg r)).map keyE = validSides r.verts.length (facesAfter cfg r) := by
      unfold validSides
      conv => rhs; rw [← List.map_id (List.filter _ _)]
      apply List.map_congr_left
      intro s hs
      obtain ⟨f, _, hsf⟩ := List.mem_flatMap.mp (List.mem_filter.mp hs).1
      simp only [faceSides, List.mem_map] at hsf
      obtain ⟨i, _, rfl⟩ := hsf
      simp [sideAt, keyE_idem]
    have hmem : k ∈ validSides r.verts.length (facesAfter cfg r) ↔ k ∈ (facesAfter cfg r).flatMap faceSides := by
      unfold validSides; rw [List.mem_filter]; exact ⟨fun h => h.1, fun h => ⟨h, hk⟩⟩
    rw [hmap]; simp only [hmem]
  · simp [hce]

/-! ## prepare: faces from cells -/

/-- The multiset of stored faces, by vertex set: declared faces keep their multiplicity; a face of a cell
whose vertex set is not declared is stored exactly once (so a face shared by two cells appears once);
with the switch off nothing is added. -/
theorem faces_from_cells (cfg : Cfg) (r p : Raw) (h0 : r.prepared = false) (h : prepare cfg r = .ok p)
    (k : List Nat) :
    (p.faces.map keyF).count k = (r.faces.map keyF).count k +
      (if cfg.cf = true ∧ k ∉ r.faces.map keyF ∧ k ∈ (r.cells.flatMap cellFacesC).map keyF then 1 else 0) := by
  obtain ⟨_, _, hfaces, _⟩ := prepare_fields cfg r p h0 h
  rw [hfaces]; unfold facesAfter
  by_cases hcf : cfg.cf = true
  · simp only [hcf, if_true, true_and]; exact completeBy_count keyF _ _ k
  · simp [hcf]

/-- what "same key" means in `faces_from_cells`: two faces have the same key iff they are made of the same
vertices (as multisets), whatever their rotation or orientation -/
theorem face_key_is_vertex_multiset (f g : List Nat) : keyF f = keyF g ↔ f.Perm g := keyF_eq_iff_perm f g

/-- what "same key" means in `edges_complete_once`: same unordered pair of endpoints -/
theorem edge_key_is_unordered_pair (e e' : Int × Int) :
    keyE e = keyE e' ↔ (e = e' ∨ e = (e'.2, e'.1)) := by
  obtain ⟨a, b⟩ := e; obtain ⟨c, d⟩ := e'
  simp only [keyE, Prod.mk.injEq]
  omega

/-- declared faces stay where they were (completed faces are appended) -/
theorem faces_declared_prefix (cfg : Cfg) (r p : Raw) (h0 : r.prepared = false) (h : prepare cfg r = .ok p) :
    ∃ added, p.faces = r.faces ++ added ∧ ∀ f ∈ added, f ∈ r.cells.flatMap cellFacesC := by
  obtain ⟨_, _, hfaces, _⟩ := prepare_fields cfg r p h0 h
  rw [hfaces]; unfold facesAfter
  by_cases hcf : cfg.cf = true
  · simp only [hcf, if_true]
    exact completeBy_prefix keyF r.faces (r.cells.flatMap cellFacesC)
  · exact ⟨[], by simp [hcf], by simp⟩


/-- four triangles per tetrahedron, six quads per hexahedron, made of the cell's own vertices -/
theorem faces_per_cell (c : List Nat) :
    (c.length = 4 → (cellFacesC c).length = 4 ∧ ∀ f ∈ cellFacesC c, f.length = 3 ∧ ∀ v ∈ f, v ∈ c) ∧
    (c.length = 8 → (cellFacesC c).length = 6 ∧ ∀ f ∈ cellFacesC c, f.length = 4 ∧ ∀ v ∈ f, v ∈ c) := by
  constructor
  · intro h
    match c, h with
    | [a, b, c, d], _ => simp [cellFacesC, pick, tetFaces]
  · intro h
    match c, h with
    | [a, b, c, d, e, f, g, i], _ => simp [cellFacesC, pick, hexFaces]

/-- construction never fails (cells being tetrahedra / hexahedra), whatever the completion switches: a face of
a cell that is not stored has no cell-face record (repaired code: `face_id.get(key) is None: continue`) -/
theorem prepare_never_fails (cfg : Cfg) (r : Raw)
    (ha : ∀ c ∈ r.cells, c.length = 4 ∨ c.length = 8) : ∃ p, prepare cfg r = .ok p := by
  unfold prepare
  by_cases hp : r.prepared = true
  · exact ⟨r, by simp [hp]⟩
  · simp only [hp, Bool.false_eq_true, if_false]
    obtain ⟨idss, hids⟩ := cellFaceIds_total ((facesAfter cfg r).map keyF) r.cells ha
    have : ∃ q, genCellFaces (stages cfg r) = .ok q := by
      unfold genCellFaces
      rw [stages_faces, stages_cells, hids]; exact ⟨_, rfl⟩
    obtain ⟨q, hq⟩ := this
    rw [hq]; exact ⟨_, rfl⟩

/-- (kept from round 1; now a corollary) -/
theorem prepare_cf_on_never_fails (cfg : Cfg) (r : Raw) (_hcf : cfg.cf = true)
    (ha : ∀ c ∈ r.cells, c.length = 4 ∨ c.length = 8) : ∃ p, prepare cfg r = .ok p :=
  prepare_never_fails cfg r ha

/-- FIXED FINDING C02/raises/cf-off/cell-faces, on its witness: with face completion off a single tetrahedron
now builds; there is no stored face, hence no cell-face record; with the bottom face declared there is exactly
one record, owned by cell 0 -/
theorem prepare_cf_off_witness :
    (okOf (prepare { ce := true, cf := false }
        { verts := [[0,0,0],[1,0,0],[0,1,0],[0,0,1]], cells := [[0,1,2,3]] })).map
      (fun p => (p.faces, p.cfElem, p.cfAdj, p.prepared)) = some ([], [], [], true) ∧
    (okOf (prepare { ce := true, cf := false }
        { verts := [[0,0,0],[1,0,0],[0,1,0],[0,0,1]], faces := [[2,1,0]], cells := [[0,1,2,3]] })).map
      (fun p => (p.faces, p.cfElem, p.cfAdj)) = some ([[2,1,0]], [0], [0]) := by decide

/-! ## prepare: corner records -/

/-- what `owners` lists: zipping the flattened rows with it gives, row after row and entry after entry,
the pair (entry, index of its row) — one (element, owner) record per incidence, in element order -/
theorem owners_spec (rows : List (List Nat)) :
    (owners rows).length = rows.flatten.length ∧
    List.zip rows.flatten (owners rows) = rows.zipIdx.flatMap (fun ri => ri.1.map (fun v => (v, ri.2))) :=
  ⟨ownersFrom_length rows 0, ownersFrom_zip rows 0⟩

/-- face corners and cell corners of a freshly built mesh (raw corner containers empty): elements are the
face (cell) vertices in element order, owners as in `owners_spec` -/
theorem corner_records (cfg : Cfg) (r p : Raw) (h0 : r.prepared = false) (h : prepare cfg r = .ok p)
    (hfc : r.fcElem = []) (hcc : r.ccElem = []) :
    p.fcElem = p.faces.flatten ∧ p.fcAdj = owners p.faces ∧
    p.ccElem = p.cells.flatten ∧ p.ccAdj = owners p.cells := by
  obtain ⟨_, _, hf, hc, _, _, h1, h2, h3, h4⟩ := prepare_fields cfg r p h0 h
  obtain ⟨c1, _, c3, _, _, _⟩ := completed_corners cfg r
  rw [h1, h2, h3, h4, hf, hc]
  unfold stages
  simp only [gcc_fcElem, gcc_fcAdj]
  have a := gfc_regen (prepareEdges (prepareVertices (completed cfg r))) (by simp [c1, hfc])
  have b := gcc_regen (genFaceCorners (prepareEdges (prepareVertices (completed cfg r)))) (by simp [c3, hcc])
  simp only [pe_faces, pv_faces, completed_faces] at a
  simp only [gfc_cells, pe_cells, pv_cells, completed_cells] at b
  exact ⟨a.1, a.2, b.1, b.2⟩

/-- cell-face records of ANY mesh built from not-yet-prepared data (fresh raw data, or a re-wrapped mesh to which
elements were appended: the records are always rebuilt), whatever the switches: cell after cell, the records of a cell
are `idsOf` of its table faces, i.e. (`cell_face_records_meaning`) going through the table in order every face
whose vertex set is stored gets exactly one record pointing to such a stored face, a face that is not stored
gets none; the owner list is `owners` of the records, so every record carries its cell -/
theorem cell_face_records (cfg : Cfg) (r p : Raw) (h0 : r.prepared = false) (h : prepare cfg r = .ok p) :
    ∃ idss : List (List Nat), p.cfElem = idss.flatten ∧ p.cfAdj = owners idss ∧
      CellRecords (p.faces.map keyF) p.cells idss := by
  obtain ⟨q, hq, hp⟩ := prepare_ok cfg r p h0 h
  obtain ⟨_, _, _, hqf, hqc, _⟩ := genCellFaces_fields _ _ hq
  obtain ⟨idss, hi, e1, e2⟩ := genCellFaces_regen _ _ hq
  subst hp
  refine ⟨idss, e1, e2, ?_⟩
  simp only [hqf, hqc]
  exact cellFaceIds_ok _ _ _ hi

/-- one record per cell-face incidence: exactly the stored faces of the table get a record, in table order -/
theorem cell_face_records_meaning (keys fs : List (List Nat)) : RecordsOf keys fs (idsOf keys fs) :=
  idsOf_records keys fs

/-- with face completion on every face of every cell is stored, so each cell has one record per face of its
table, pointwise (4 per tetrahedron, 6 per hexahedron) -/
theorem cell_face_records_complete (cfg : Cfg) (r p : Raw) (h0 : r.prepared = false)
    (h : prepare cfg r = .ok p) (hcf : cfg.cf = true) (c : List Nat) (hc : c ∈ p.cells) :
    PointsTo (p.faces.map keyF) (cellFacesC c) (idsOf (p.faces.map keyF) (cellFacesC c)) ∧
    (c.length = 4 → (idsOf (p.faces.map keyF) (cellFacesC c)).length = 4) ∧
    (c.length = 8 → (idsOf (p.faces.map keyF) (cellFacesC c)).length = 6) := by
  obtain ⟨_, _, hf, hcells, _⟩ := prepare_fields cfg r p h0 h
  have hk : ∀ f ∈ cellFacesC c, keyF f ∈ p.faces.map keyF := by
    intro f hfm
    rw [hf]; unfold facesAfter; rw [if_pos hcf]
    exact completeBy_complete keyF _ _ f (List.mem_flatMap.mpr ⟨c, hcells ▸ hc, hfm⟩)
  have hp := idsOf_complete _ _ hk
  have hlen : ∀ (fs : List (List Nat)) (ids : List Nat), PointsTo (p.faces.map keyF) fs ids → ids.length = fs.length := by
    intro fs
    induction fs with
    | nil => intro ids h; cases ids with | nil => rfl | cons _ _ => exact absurd h (by simp [PointsTo])
    | cons f fs ih =>
      intro ids h
      cases ids with
      | nil => exact absurd h (by simp [PointsTo])
      | cons i ids => simp [ih ids h.2]
  refine ⟨hp, ?_, ?_⟩
  · intro h4; rw [hlen _ _ hp]; exact ((faces_per_cell c).1 h4).1
  · intro h8; rw [hlen _ _ hp]; exact ((faces_per_cell c).2 h8).1

/-! ## class -/

/-- `_instanciate_raw_mesh_data`: the class index is max(dim, dimensionality) and the dimensionality is
that of the highest-dimensional non-empty container of the finished data -/
theorem class_by_dim (cfg : Cfg) (r : Raw) (dim : Option Nat) (b : Built)
    (h : instantiate cfg r dim = .ok b) :
    b.dim = max (dim.getD 0) (dimensionality b.raw) ∧
    (b.raw.cells ≠ [] → dimensionality b.raw = 3) ∧
    (b.raw.cells = [] → b.raw.faces ≠ [] → dimensionality b.raw = 2) ∧
    (b.raw.cells = [] → b.raw.faces = [] → b.raw.edges ≠ [] → dimensionality b.raw = 1) ∧
    (b.raw.cells = [] → b.raw.faces = [] → b.raw.edges = [] → dimensionality b.raw = 0) := by
  unfold instantiate at h
  split at h
  · injection h with h; subst h
    refine ⟨rfl, ?_, ?_, ?_, ?_⟩ <;> (unfold dimensionality; intros; simp_all)
  · cases h

/-! ## attributes follow their edges; hard edges -/

/-- the surviving declared edges come first, in declaration order, normalised -/
theorem declared_edges_first (cfg : Cfg) (r p : Raw) (h0 : r.prepared = false) (h : prepare cfg r = .ok p) :
    ∃ rest, p.edges = (r.edges.filter (validE r.verts.length)).map keyE ++ rest := by
  obtain ⟨_, hedges, _⟩ := prepare_fields cfg r p h0 h
  obtain ⟨ad, had⟩ := edgesAfter_prefix cfg r
  rw [hedges, had]
  exact ⟨(ad.filter (validE r.verts.length)).map keyE, by simp⟩

/-- Edge attributes follow their edges. `surv` lists the indices of the valid declared edges in order
(`survIdx_get`: its `j`-th entry is the index of the `j`-th valid declared edge, which by
`declared_edges_first` is stored as edge `j`). Every declared attribute is still there under its name and
edge `j` reads what declared edge `surv[j]` read; for a sparse attribute "has an explicit value" is
preserved too (absent stays absent). -/
theorem edge_attr_follow (cfg : Cfg) (r p : Raw) (h0 : r.prepared = false) (h : prepare cfg r = .ok p)
    (idx : Nat) (hidx : idx < r.eattrs.length) :
    ∃ a', p.eattrs[idx]? = some a' ∧ a'.name = r.eattrs[idx].name ∧
      (∀ j (hj : j < (survIdx r.verts.length r.edges 0).length),
        a'.read j = r.eattrs[idx].read (survIdx r.verts.length r.edges 0)[j]) ∧
      (∀ d, r.eattrs[idx].st = .sparse d → ∀ j (hj : j < (survIdx r.verts.length r.edges 0).length),
        a'.hasKey j = r.eattrs[idx].hasKey (survIdx r.verts.length r.edges 0)[j]) := by
  obtain ⟨_, _, _, _, _, hattrs, _⟩ := prepare_fields cfg r p h0 h
  rw [hattrs, stages_eattrs]
  refine ⟨finalAttr cfg r r.eattrs[idx], ?_, finalAttr_name _ _ _, ?_, ?_⟩
  · rw [List.getElem?_map, List.getElem?_append_left hidx]; simp [hidx]
  all_goals
    obtain ⟨ad, had⟩ := edgesAfter_prefix cfg r
    unfold finalAttr
    simp only []
    split
    · -- some edge is invalid: attributes are re-indexed along the survivors of all edges
      have hs : survIdx r.verts.length (edgesAfter cfg r) 0
          = survIdx r.verts.length r.edges 0 ++ survIdx r.verts.length ad r.edges.length := by
        rw [had, survIdx_append, Nat.zero_add]
      first
      | (intro j hj
         have hj2 : j < (survIdx r.verts.length (edgesAfter cfg r) 0).length := by rw [hs]; simp; omega
         rw [reindexAttr_read _ _ j hj2]
         have : (survIdx r.verts.length (edgesAfter cfg r) 0)[j] = (survIdx r.verts.length r.edges 0)[j] := by
           simp only [hs]; exact List.getElem_append_left hj
         rw [this]
         split
         · exact expandAttr_read _ _ _
         · rfl)
      | (intro d hd j hj
         have hj2 : j < (survIdx r.verts.length (edgesAfter cfg r) 0).length := by rw [hs]; simp; omega
         have : (survIdx r.verts.length (edgesAfter cfg r) 0)[j] = (survIdx r.verts.length r.edges 0)[j] := by
           simp only [hs]; exact List.getElem_append_left hj
         split
         · rw [expandAttr_sparse _ _ d hd, reindexAttr_hasKey _ _ d hd j hj2, this]
         · rw [reindexAttr_hasKey _ _ d hd j hj2, this])
    · -- all edges valid: nothing moves, survivor j is edge j
      rename_i hall
      have hall' : (edgesAfter cfg r).any (fun e => !validE r.verts.length e) = false := by simpa using hall
      have hr : r.edges.any (fun e => !validE r.verts.length e) = false := by
        rw [had, List.any_append, Bool.or_eq_false_iff] at hall'; exact hall'.1
      have hsj : ∀ j (hj : j < (survIdx r.verts.length r.edges 0).length),
          (survIdx r.verts.length r.edges 0)[j] = j := by
        intro j hj
        simp only [survIdx_all_valid _ _ _ hr]
        simp
      first
      | (intro j hj
         rw [hsj j hj]
         split
         · exact expandAttr_read _ _ _
         · rfl)
      | (intro d hd j hj
         rw [hsj j hj]
         split
         · rw [expandAttr_sparse _ _ d hd]
         · rfl)

/-- dropped edges drop their values: after a filtering `prepare` no attribute holds a key beyond the
surviving edges -/
theorem edge_attr_no_stale_keys (surv : List Nat) (a : Attr) (k : Nat)
    (h : (reindexAttr surv a).hasKey k = true) : k < surv.length :=
  reindexAttr_keys_bound surv a k h

/-- Only declared edges are flagged hard: if the caller did not bring a `hard_edges` attribute, every key
of the `hard_edges` attribute of the finished mesh is the index of a surviving *declared* edge (these are
the first stored edges, `declared_edges_first`). -/
theorem hard_edges_only_declared (cfg : Cfg) (r p : Raw) (h0 : r.prepared = false) (h : prepare cfg r = .ok p)
    (hno : hasAttr r.eattrs hardName = false) (a : Attr) (ha : a ∈ p.eattrs) (hn : a.name = hardName)
    (k : Nat) (hk : a.hasKey k = true) : k < (r.edges.filter (validE r.verts.length)).length := by
  obtain ⟨_, _, _, _, _, hattrs, _⟩ := prepare_fields cfg r p h0 h
  rw [hattrs, stages_eattrs, List.map_append, List.mem_append] at ha
  rcases ha with ha | ha
  · -- a declared attribute cannot carry the name
    obtain ⟨a0, ha0, rfl⟩ := List.mem_map.mp ha
    rw [finalAttr_name] at hn
    have : hasAttr r.eattrs hardName = true := by
      unfold hasAttr; rw [List.any_eq_true]; exact ⟨a0, ha0, by simp [hn]⟩
    rw [hno] at this; cases this
  · obtain ⟨a0, ha0, rfl⟩ := List.mem_map.mp ha
    unfold extraAttrs at ha0
    split at ha0
    · simp only [List.mem_singleton] at ha0; subst ha0
      obtain ⟨ad, had⟩ := edgesAfter_prefix cfg r
      have hsp : (hardAttr r.edges.length).st = .sparse ((List.range r.edges.length).map (fun i => (i, 1))) := rfl
      unfold finalAttr at hk
      simp only [expandAttr_sparse _ _ _ hsp, ite_self] at hk
      split at hk
      · -- filtered
        have hs : survIdx r.verts.length (edgesAfter cfg r) 0
            = survIdx r.verts.length r.edges 0 ++ survIdx r.verts.length ad r.edges.length := by
          rw [had, survIdx_append, Nat.zero_add]
        have hb := reindexAttr_keys_bound _ _ _ hk
        rw [reindexAttr_hasKey _ _ _ hsp k hb, hardAttr_hasKey] at hk
        have hlt : (survIdx r.verts.length (edgesAfter cfg r) 0)[k] < r.edges.length := by simpa using hk
        rw [← survIdx_length r.verts.length r.edges 0]
        by_cases hc : k < (survIdx r.verts.length r.edges 0).length
        · exact hc
        · exfalso
          have hk2 : k - (survIdx r.verts.length r.edges 0).length
              < (survIdx r.verts.length ad r.edges.length).length := by
            rw [hs] at hb; simp at hb; omega
          have hge := (survIdx_get r.verts.length ad r.edges.length _ hk2).1
          have : (survIdx r.verts.length (edgesAfter cfg r) 0)[k]
              = (survIdx r.verts.length ad r.edges.length)[k - (survIdx r.verts.length r.edges 0).length] := by
            simp only [hs]; exact List.getElem_append_right (by omega)
          omega
      · rename_i hall
        have hall' : (edgesAfter cfg r).any (fun e => !validE r.verts.length e) = false := by simpa using hall
        have hr : r.edges.any (fun e => !validE r.verts.length e) = false := by
          rw [had, List.any_append, Bool.or_eq_false_iff] at hall'; exact hall'.1
        rw [filter_all_valid _ _ hr]
        rw [hardAttr_hasKey] at hk; simpa using hk
    · simp at ha0

/-! ## building again -/

/-- `prepare` on prepared data changes nothing (the `_prepared` guard), so calling a constructor twice on
the same data, or `prepare()` again, is the identity -/
theorem prepare_idempotent (cfg cfg' : Cfg) (r p : Raw) (h : prepare cfg r = .ok p) :
    prepare cfg' p = .ok p := by
  have hp : p.prepared = true := by
    unfold prepare at h
    split at h
    · rename_i hr; injection h with h; subst h; exact hr
    · split at h
      · injection h with h; subst h; rfl
      · cases h
  unfold prepare; simp [hp]


/-- Building again from an already built mesh changes nothing. `rewrap ⟨d, p⟩` is `RawMeshData(mesh)` for
the mesh of class `d` (0 PointCloud … 3 VolumeMesh) sharing the prepared data `p`: the `_prepared` flag is
lost, the containers the class does not have are fresh. Preparing it again (same configuration) returns
exactly the containers the mesh had: vertices, edges (no re-flagging of `hard_edges`, no edge or face added
twice), attributes, corner and cell-face records.
Hypothesis: `r` is fresh raw data (empty corner containers: the quantifier of the statement). Degenerate faces
(repeated consecutive vertex, non-existent vertex) are covered: their sides are never stored (round 3b repair). -/
theorem prepare_rewrap_prepare (cfg : Cfg) (r p : Raw) (d : Nat) (h0 : r.prepared = false)
    (h : prepare cfg r = .ok p) (hfc : r.fcElem = []) (hcc : r.ccElem = []) :
    prepare cfg (rewrap ⟨d, p⟩) = .ok { rewrap ⟨d, p⟩ with prepared := true } :=
  prepare_canon cfg _ (rewrap_canon cfg p d (prepare_makes_canon cfg r p h0 h hfc hcc)) rfl

/-- … in particular the class chosen by `_instanciate_raw_mesh_data` is the same again -/
theorem rewrap_same_class (cfg : Cfg) (r p : Raw) (d : Nat) (h0 : r.prepared = false)
    (h : prepare cfg r = .ok p) (hfc : r.fcElem = []) (hcc : r.ccElem = []) :
    ∃ b, instantiate cfg (rewrap ⟨d, p⟩) (some d) = .ok b ∧ b.dim = d := by
  unfold instantiate
  rw [prepare_rewrap_prepare cfg r p d h0 h hfc hcc]
  refine ⟨_, rfl, ?_⟩
  apply Nat.max_eq_left
  unfold dimensionality
  simp only [rewrap]
  repeat' split
  all_goals simp_all
  all_goals omega

/-! ## non-vacuity: the hypotheses hold on concrete scenarios (evaluated by the kernel) -/

example : (demoOut.map (·.faces.length)) = some 7 := by decide          -- 4 + 4 − 1 shared
example : (demoOut.map (·.edges.length)) = some 9 := by decide          -- (0,3) declared + 8 completed
example : (demoOut.map (·.edges.head?)) = some (some (0, 3)) := by decide
example : (demoOut.map (·.cfAdj)) = some [0, 0, 0, 0, 1, 1, 1, 1] := by decide
example : (demoOut.map (fun p => p.eattrs.map (fun a => (a.name, a.read 0, a.hasKey 1)))) =
    some [("w", 10, true), ("s", 5, false), ("hard_edges", 1, false)] := by decide
example : (demoOut.bind (fun p => match prepare {} (rewrap ⟨3, p⟩) with | .ok q => some (q.edges == p.edges && q.eattrs == p.eattrs && q.cfElem == p.cfElem) | _ => none)) = some true := by decide


/-! ## no later behaviour depends on the container type of the index rows (round 2)

`Row β` = a value tagged `list | tuple | nparray`; `RawR` = raw data with tagged edge / face / cell rows; `prepareR` =
`prepare()` over tagged rows (keyify gives tuples, `_prepare_faces` / `_prepare_cells` turn numpy rows into lists);
`forget` drops the tags. The driver prints the tags `prepareR` predicts for every stored row and the harness compares
them with `type(row)` of the real containers for the three input container types (section `K:` of the reply). -/

/-- `prepare` commutes with forgetting the constructor: the containers computed from tagged rows are, tags dropped,
the containers the untagged model computes from the untagged input (same error otherwise) -/
theorem prepare_commutes_with_forgetting_row_type (cfg : Cfg) (x : RawR) :
    forgetE (prepareR cfg x) = prepare cfg (forget x) := forget_prepareR cfg x

/-- the answers depend only on the index VALUES: two raw inputs whose rows hold the same values in whatever container
types give the same error or the same containers up to container types -/
theorem prepare_depends_on_row_values_only (cfg : Cfg) (x y : RawR) (h : forget x = forget y) :
    forgetE (prepareR cfg x) = forgetE (prepareR cfg y) := prepareR_values_only cfg x y h

/-- and the container types left behind are harmless: after `prepare` every stored edge is a tuple and no stored
face or cell row is a numpy row (the later code concatenates rows with `+`, which is what differed for numpy rows) -/
theorem prepared_rows_are_lists_or_tuples (cfg : Cfg) (x y : RawR) (h0 : x.prepared = false)
    (h : prepareR cfg x = .ok y) :
    (∀ e ∈ y.edges, e.isTuple = true) ∧ (∀ f ∈ y.faces, f.isNumpy = false) ∧ (∀ c ∈ y.cells, c.isNumpy = false) :=
  prepareR_no_numpy_rows cfg x y h0 h

/-- non-vacuity: a numpy tetrahedron and a numpy declared edge -/
example :
    (match prepareR {} { verts := [[0,0,0],[1,0,0],[0,1,0],[0,0,1]], edges := [.nparray (3, 0)],
                         cells := [.nparray [0,1,2,3]] } with
      | .ok y => (y.edges.head?, y.cells, y.faces.length)
      | .error _ => (none, [], 0)) = (some (.tuple (0, 3)), [.list [0,1,2,3]], 4) := by decide


/-! ## histories on one object (round 3) -/

/-- translated: the regeneration criterion of `_generate_face_corners` as written (`nc == 0 or nc != nf`, with the two
resets) is the model's -/
theorem face_corner_guard_bridge (r : Raw) :
    genFaceCorners r =
      if C02S.faceCornerGuard r.fcElem.length r.fcAdj.length (r.faces.map List.length).sum = true
      then { r with fcElem := r.faces.flatten, fcAdj := owners r.faces } else r := by
  have e1 : (C02S.faceCornerGuard r.fcElem.length r.fcAdj.length (r.faces.map List.length).sum = true) ↔
      (r.fcElem.length = 0 ∨ r.fcElem.length ≠ (r.faces.map List.length).sum) := by
    -- tolerant of respellings of the test (commuted `or`, `0 == nc`, `nf != nc`): linear arithmetic decides the equivalence
    simp only [C02S.faceCornerGuard, Bool.or_eq_true, Bool.and_eq_true, decide_eq_true_eq, Bool.not_eq_true',
      decide_eq_false_iff_not] <;> omega
  unfold genFaceCorners
  simp only [e1]

/-- translated: the criterion of `_generate_cell_corners` as written (count compared with the cells, as for faces) and
its inner "adjacency only" test are the model's -/
theorem cell_corner_guard_bridge (r : Raw) :
    genCellCorners r =
      if C02S.cellCornerGuard r.ccElem.length r.ccAdj.length (r.cells.map List.length).sum = true then
        if C02S.cellCornerAdjOnlyGuard r.ccElem.length r.ccAdj.length (r.cells.map List.length).sum = true
        then { r with ccAdj := [], ccElem := r.ccElem ++ owners r.cells }
        else { r with ccElem := r.cells.flatten, ccAdj := owners r.cells }
      else r := by
  have e1 : (C02S.cellCornerGuard r.ccElem.length r.ccAdj.length (r.cells.map List.length).sum = true) ↔
      (r.ccElem.length = 0 ∨ r.ccAdj.length = 0 ∨ r.ccElem.length ≠ (r.cells.map List.length).sum
        ∨ r.ccAdj.length ≠ (r.cells.map List.length).sum) := by
    simp only [C02S.cellCornerGuard, Bool.or_eq_true, Bool.and_eq_true, decide_eq_true_eq, Bool.not_eq_true',
      decide_eq_false_iff_not] <;> omega
  have e2 : (C02S.cellCornerAdjOnlyGuard r.ccElem.length r.ccAdj.length (r.cells.map List.length).sum = true) ↔
      (r.ccAdj.length = 0 ∧ r.ccElem.length > 0) := by
    simp only [C02S.cellCornerAdjOnlyGuard, Bool.or_eq_true, Bool.and_eq_true, decide_eq_true_eq, Bool.not_eq_true',
      decide_eq_false_iff_not] <;> omega
  unfold genCellCorners
  simp only [e1, e2]

/-- translated: `_generate_cell_faces` resets and rebuilds the records unconditionally, as the model does -/
theorem cell_faces_always_rebuilt_bridge (r q : Raw) (h : genCellFaces r = .ok q) :
    C02S.cellFacesAlwaysRebuilt = true ∧
    ∃ idss, cellFaceIds (r.faces.map keyF) r.cells = .ok idss ∧ q.cfElem = idss.flatten ∧ q.cfAdj = owners idss :=
  ⟨by decide, genCellFaces_regen r q h⟩

/-- stale corner records are rebuilt (elements appended since they were generated) -/
theorem stale_corner_records_are_rebuilt (r : Raw) :
    (r.fcElem.length ≠ (r.faces.map List.length).sum →
      (genFaceCorners r).fcElem = r.faces.flatten ∧ (genFaceCorners r).fcAdj = owners r.faces) ∧
    (r.ccElem.length ≠ (r.cells.map List.length).sum → r.ccAdj.length ≠ 0 →
      (genCellCorners r).ccElem = r.cells.flatten ∧ (genCellCorners r).ccAdj = owners r.cells) :=
  ⟨gfc_regen_stale r, gcc_regen_stale r⟩

/-- The n-th construction on a used object. A built mesh with canonical corner records (what `corner_records` gives
for the first construction) gets vertices, edges, faces, cells appended through its containers and is built again from
itself (`appendElems` = append, then `RawMeshData(mesh)`), with any switches: the finished object again has one corner
record per face-vertex and cell-vertex incidence in element order with its owner, for old and new elements; its
cell-face records are those of `cell_face_records` (always rebuilt); edges and faces obey `edges_normalised`,
`edges_complete_once`, `faces_from_cells`, which hold for every not-yet-prepared input. -/
theorem corner_records_after_append (cfg2 : Cfg) (b : Built) (v2 : List (List Rat)) (e2 : List (Int × Int))
    (f2 c2 : List (List Nat)) (p : Raw)
    (hfc : b.raw.fcElem = b.raw.faces.flatten ∧ b.raw.fcAdj = owners b.raw.faces)
    (hcc : b.raw.ccElem = b.raw.cells.flatten ∧ b.raw.ccAdj = owners b.raw.cells)
    (h : prepare cfg2 (appendElems b v2 e2 f2 c2) = .ok p) :
    p.fcElem = p.faces.flatten ∧ p.fcAdj = owners p.faces ∧ p.ccElem = p.cells.flatten ∧ p.ccAdj = owners p.cells :=
  Mouette.Prepare.corner_records_after_append cfg2 b v2 e2 f2 c2 p hfc hcc h

/-- the same raw data wrapped by two meshes: the second constructor (any class, any switches) recomputes nothing and
shares exactly the containers the first one prepared -/
theorem second_mesh_on_same_data (cfg cfg' : Cfg) (r p : Raw) (k : Nat) (h : prepare cfg r = .ok p) :
    direct cfg' p k = .ok ⟨k, p⟩ := direct_on_prepared cfg cfg' r p k h

/-- non-vacuity: a tetrahedron, then a second one appended to the built mesh -/
example :
    (match prepare {} { verts := [[0,0,0],[1,0,0],[0,1,0],[0,0,1]], cells := [[0,1,2,3]] } with
      | .ok p1 =>
        (match prepare {} (appendElems ⟨3, p1⟩ [[1,1,1]] [] [] [[1,2,3,4]]) with
          | .ok p => (p.faces.length, p.ccElem, p.ccAdj, p.cfAdj)
          | .error _ => (0, [], [], []))
      | .error _ => (0, [], [], [])) = (7, [0,1,2,3,1,2,3,4], [0,0,0,0,1,1,1,1], [0,0,0,0,1,1,1,1]) := by decide


/-! ## invalid edges produced by the completion (round 3b) -/

/-- translated: the test under which `_complete_edges_from_faces` skips a side `(a, b) = keyify(…)` (so `a ≤ b`),
as written, is "not a valid edge" -/
theorem completion_skip_bridge (n : Nat) (a b : Int) (h : a ≤ b) :
    C02S.completionSkips a b n = !validE n (a, b) := by
  -- tolerant of respellings of the test (`edge[0] < 0 or edge[1] >= N`, commuted operands …): both sides are decided
  -- by linear arithmetic from `a ≤ b`
  have hv := validE_iff n (a, b)
  cases hval : validE n (a, b) with
  | true =>
    have h1 := hv.mp hval
    simp only [] at h1
    simp [C02S.completionSkips] <;> omega
  | false =>
    have h1 : ¬ (a ≠ b ∧ 0 ≤ a ∧ a < n ∧ 0 ≤ b ∧ b < n) := fun hh => by
      have := hv.mpr hh
      rw [hval] at this
      exact Bool.noConfusion this
    simp [C02S.completionSkips] <;> omega

/-- the completion never stores an invalid edge, not even temporarily: what it appends to the (shared) edge container
are valid, low-index-first sides of faces. In particular a second construction from a built mesh appends nothing to
the container the first mesh still holds. -/
theorem completion_appends_only_valid_edges (cfg : Cfg) (r : Raw) :
    ∃ added, (completed cfg r).edges = r.edges ++ added ∧
      ∀ e ∈ added, validE r.verts.length e = true ∧ e.1 < e.2 ∧ e ∈ (facesAfter cfg r).flatMap faceSides := by
  rw [completed_edges]; unfold edgesAfter
  split
  · obtain ⟨ad, h, hm⟩ := completeBy_prefix keyE r.edges (validSides r.verts.length (facesAfter cfg r))
    refine ⟨ad, h, ?_⟩
    intro e he
    have hv := List.mem_filter.mp (hm e he)
    obtain ⟨f, _, hsf⟩ := List.mem_flatMap.mp hv.1
    simp only [faceSides, List.mem_map] at hsf
    obtain ⟨i, _, rfl⟩ := hsf
    have hn := keyE_normal r.verts.length _ hv.2
    simp only [sideAt, keyE_idem] at hn hv ⊢
    exact ⟨hv.2, hn.2.1, hv.1⟩
  · exact ⟨[], by simp, by simp⟩

/-- non-vacuity / regression witness of the seeded change C02-e: a collapsed quad [0,2,2,3] next to a triangle, one
valid declared edge given high-first; no self-loop is stored and building again keeps the 5 edges -/
example :
    (match prepare {} { verts := [[0,0,0],[1,0,0],[1,1,0],[0,1,0]], edges := [(2, 0)], faces := [[0,1,2],[0,2,2,3]] } with
      | .ok p =>
        (match prepare {} (rewrap ⟨2, p⟩) with
          | .ok q => (p.edges, q.edges == p.edges)
          | .error _ => ([], false))
      | .error _ => ([], false)) = ([(0, 2), (0, 1), (1, 2), (2, 3), (0, 3)], true) := by decide

end Mouette.Props.C02
