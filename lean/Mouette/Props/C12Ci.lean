import Mouette.Generated.C12Circ
import Mouette.Props.C12M
import Mouette.Props.C12V
/-!
# C12 (round 7) - the WHOLE body of `circumcenter`, as the source defines it now

`vlib/gen/c12_source.py: translate_circ` re-extracts the body of `geometry.circumcenter` into `Generated/C12Circ.lean`, with the three
vectors returned by `face_basis` as parameters.  `circumcenter_source_equidistant`: whenever `(X, Y, Z)` is an orthonormal frame whose
third vector is orthogonal to the two edges at `v1` (what `face_basis` returns: `faceBasis_orthogonal` proves the directions, the unit
lengths are the square-root assumption), every point the body returns is EQUIDISTANT from the three vertices and lies in their plane;
`circumcenter_source_raises_iff`: it raises (`S` is `None`) exactly when the extracted `intersect_2lines2D` judges the two
perpendicular bisectors parallel (relative test: never because the triangle is small).
-/
namespace Mouette.Props.C12Ci
open Mouette.Prim
open Mouette.Generated

/-- an orthonormal frame of ℚ³ (rows and columns) -/
structure Frame (X Y Z : V3) : Prop where
  xx : X.x * X.x + Y.x * Y.x + Z.x * Z.x = 1
  yy : X.y * X.y + Y.y * Y.y + Z.y * Z.y = 1
  zz : X.z * X.z + Y.z * Y.z + Z.z * Z.z = 1
  xy : X.x * X.y + Y.x * Y.y + Z.x * Z.y = 0
  xz : X.x * X.z + Y.x * Y.z + Z.x * Z.z = 0
  yz : X.y * X.z + Y.y * Y.z + Z.y * Z.z = 0
  zX : V3.dot Z X = 0
  zY : V3.dot Z Y = 0
  zZ : V3.dot Z Z = 1

/-- **circumcentres are equidistant (source)** -/
theorem circumcenter_source_equidistant (X Y Z v1 v2 v3 c : V3) (hF : Frame X Y Z)
    (h2 : V3.dot Z (V3.sub v2 v1) = 0) (h3 : V3.dot Z (V3.sub v3 v1) = 0)
    (h : C12Circ.circumcenterIn X Y Z v1 v2 v3 = some c) :
    V3.norm2 (V3.sub c v1) = V3.norm2 (V3.sub c v2) ∧ V3.norm2 (V3.sub c v1) = V3.norm2 (V3.sub c v3) ∧
    V3.dot Z (V3.sub c v1) = 0 := by
  unfold C12Circ.circumcenterIn at h
  simp only at h
  split at h
  · cases h
  · rename_i S hS
    obtain ⟨⟨t, hSt⟩, hdet⟩ := Mouette.Props.C12M.intersect2_on_both_lines _ _ _ _ S hS
    simp only [Option.some.injEq] at h
    subst h
    have hx : S.x = (V2.add (V2.smul (1 / 2) (V2.add ⟨V3.dot X v1, V3.dot Y v1⟩ ⟨V3.dot X v2, V3.dot Y v2⟩))
        (V2.smul t ⟨(V2.sub ⟨V3.dot X v2, V3.dot Y v2⟩ ⟨V3.dot X v1, V3.dot Y v1⟩).y,
          -(V2.sub ⟨V3.dot X v2, V3.dot Y v2⟩ ⟨V3.dot X v1, V3.dot Y v1⟩).x⟩)).x := by rw [hSt]
    have hy : S.y = (V2.add (V2.smul (1 / 2) (V2.add ⟨V3.dot X v1, V3.dot Y v1⟩ ⟨V3.dot X v2, V3.dot Y v2⟩))
        (V2.smul t ⟨(V2.sub ⟨V3.dot X v2, V3.dot Y v2⟩ ⟨V3.dot X v1, V3.dot Y v1⟩).y,
          -(V2.sub ⟨V3.dot X v2, V3.dot Y v2⟩ ⟨V3.dot X v1, V3.dot Y v1⟩).x⟩)).y := by rw [hSt]
    obtain ⟨xx, yy, zz, xy, xz, yz, zX, zY, zZ⟩ := hF
    simp only [V3.dot, V3.sub, V3.add, V3.smul, V3.norm2, V2.add, V2.sub, V2.smul, det2] at hx hy hdet h2 h3 zX zY zZ ⊢
    refine ⟨?_, ?_, ?_⟩
    · rw [hx, hy]
      linear_combination (-(Z.x * (v2.x - v1.x) + Z.y * (v2.y - v1.y) + Z.z * (v2.z - v1.z))) * h2 +
        (v2.x ^ 2 - v1.x ^ 2) * xx + (v2.y ^ 2 - v1.y ^ 2) * yy + (v2.z ^ 2 - v1.z ^ 2) * zz +
        2 * (v2.x * v2.y - v1.x * v1.y) * xy + 2 * (v2.x * v2.z - v1.x * v1.z) * xz + 2 * (v2.y * v2.z - v1.y * v1.z) * yz
    · linear_combination (-2 : ℚ) * hdet + (-(Z.x * (v3.x - v1.x) + Z.y * (v3.y - v1.y) + Z.z * (v3.z - v1.z))) * h3 +
        (v3.x ^ 2 - v1.x ^ 2) * xx + (v3.y ^ 2 - v1.y ^ 2) * yy + (v3.z ^ 2 - v1.z ^ 2) * zz +
        2 * (v3.x * v3.y - v1.x * v1.y) * xy + 2 * (v3.x * v3.z - v1.x * v1.z) * xz + 2 * (v3.y * v3.z - v1.y * v1.z) * yz
    · linear_combination S.x * zX + S.y * zY + (Z.x * v1.x + Z.y * v1.y + Z.z * v1.z) * zZ

/-- the body raises exactly when the two perpendicular bisectors are judged parallel by the extracted `intersect_2lines2D` -/
theorem circumcenter_source_raises_iff (X Y Z v1 v2 v3 : V3) :
    C12Circ.circumcenterIn X Y Z v1 v2 v3 = none ↔
      parallel2 ⟨V3.dot Y v2 - V3.dot Y v1, V3.dot X v1 - V3.dot X v2⟩ ⟨V3.dot Y v3 - V3.dot Y v1, V3.dot X v1 - V3.dot X v3⟩ = true := by
  unfold C12Circ.circumcenterIn
  simp only [Mouette.Props.C12M.intersect2_bridge, Prim.intersect2, V2.sub]
  split <;> rename_i hp
  · split at hp
    · rename_i hpar
      simp only [neg_sub] at hpar
      simpa using hpar
    · cases hp
  · split at hp
    · cases hp
    · rename_i hpar
      simp only [neg_sub] at hpar
      simpa using hpar

-- non-vacuity: the right triangle (0,0,0), (2,0,0), (0,2,0) in the standard frame: centre (1,1,0)
example : C12Circ.circumcenterIn ⟨1, 0, 0⟩ ⟨0, 1, 0⟩ ⟨0, 0, 1⟩ ⟨0, 0, 0⟩ ⟨2, 0, 0⟩ ⟨0, 2, 0⟩ = some ⟨1, 1, 0⟩ := by decide +kernel
example : Frame ⟨1, 0, 0⟩ ⟨0, 1, 0⟩ ⟨0, 0, 1⟩ := by constructor <;> decide +kernel

end Mouette.Props.C12Ci
