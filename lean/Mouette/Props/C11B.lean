import Mouette.Lemmas.BoxSource
import Mouette.Generated.C12Vec
/-!
# C11 (round 4) - the box operations the k-d tree relies on, as the SOURCE of `aabb.py` defines them now

`KDTree` uses `AABB(lo, hi)`, `AABB.infinite(dim)`, `.mini`, `.maxi` and `bb.distance(pt)` (l2).  The k-d tree definitions
extracted from `kdtree.py` (`Generated/C11Src.lean`) read them as `Box.mk`, `Box.infinite`, `.lo`, `.hi`, `Box.dist2`; this file
proves that the bodies extracted from `aabb.py` (`Generated/C12Box.lean`, shared with property C12) compute exactly those.
Only these methods matter here: a change of another method of `AABB` does not touch these obligations.
-/
namespace Mouette.Props.C11B
open Mouette.AABB Mouette.AABB.EQ Mouette.AABB.Box Mouette.BoxS
open Mouette.Generated

/-- `AABB(lo, hi)` on bound arrays of one length is the box `⟨lo, hi⟩` (and it stores copies) -/
theorem kd_box_ctor (lo hi : V) (h : lo.length = hi.length) : C12Box.ctor lo hi = some (Box.mk lo hi) ∧ C12Box.ctorCopies = true := by
  refine ⟨?_, rfl⟩
  unfold C12Box.ctor
  simp [h]

theorem kd_box_infinite (d : Nat) : C12Box.infinite d = Box.infinite d := rfl

theorem kd_box_bounds (b : Box) : C12Box.mini b = b.lo ∧ C12Box.maxi b = b.hi := ⟨rfl, rfl⟩

/-- `bb.distance(pt)` (default `which="l2"`) is the squared point-box distance `Box.dist2` the k-d tree theorems use;
it raises exactly when the point has another dimension than the box -/
theorem kd_box_distance (b : Box) (q : List Rat) :
    C12Box.distance b q "l2" = if q.length = b.dim then some (b.dist2 q) else none := by
  unfold C12Box.distance C12Box.dim Box.dim Box.dist2
  by_cases h : q.length = b.lo.length
  · simp +decide [h, distVec_eq, normOf]
  · simp [h]

/-- in particular a point of a cell is never farther from the query than the cell's box (what pruning relies on), stated on
the source's `distance` -/
theorem kd_box_distance_le (b : Box) (q p : List Rat) (hq : q.length = b.dim) (hin : insideClosed b.lo b.hi p = true) :
    ∃ d, C12Box.distance b q "l2" = some d ∧ d ≤ fin (sqDistR p q) := by
  rw [kd_box_distance, if_pos hq]
  exact ⟨_, rfl, Box.dist2_le_of_inside _ _ _ _ hin⟩

/-- `distance(self.points[idx], pt)` (geometry.py, default `which="l2"`) is the square root of `sqDistR`, the squared distance
the k-d tree definitions compare (`sqDist`): the bodies of `distance` and `norm` as extracted into `Generated/C12Vec.lean` -/
theorem kd_point_distance (A B : List Rat) : C12Vec.distanceG A B "l2" = some (Mouette.VecS.NVal.sqrt (sqDistR A B)) := by
  have key : ∀ (A B : List Rat), Mouette.VecS.vdot (Mouette.VecS.vsub B A) (Mouette.VecS.vsub B A) = sqDistR A B := by
    intro A
    induction A with
    | nil => intro B; cases B <;> simp [Mouette.VecS.vdot, Mouette.VecS.vsub, sqDistR]
    | cons a as ih =>
      intro B
      cases B with
      | nil => simp [Mouette.VecS.vdot, Mouette.VecS.vsub, sqDistR]
      | cons b bs =>
        have := ih bs
        simp only [Mouette.VecS.vdot, Mouette.VecS.vsub, List.zipWith_cons_cons, List.foldr_cons, sqDistR] at this ⊢
        rw [this]; ring
  simp +decide [C12Vec.distanceG, C12Vec.normG, key]

example : C12Box.distance ⟨[fin 0, ninf], [fin 1, pinf]⟩ [3, 7] "l2" = some (fin 4) := by decide +kernel

end Mouette.Props.C11B
