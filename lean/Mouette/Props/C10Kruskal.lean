import Mouette.Lemmas.TreesKruskal
/-
C10, Kruskal part (`EdgeMinimalSpanningTree.compute`, lines building `self.edges`): the edge list selected by the
loop over the union-find model is a spanning forest of the admissible edges. Relies on the refinement theorem of
the union-find model (property C20, `Lemmas/UnionFind.lean`).

  `Linked T a b`  : `keyify a b ∈ T` (the undirected edge `{a,b}` is stored in `T`)
  `EqvClosure R`  : equivalence closure (= connectivity through edges of `R`)
  `Forest T`      : every edge of `T` (head = most recent) joins two elements not connected by the older edges,
                    i.e. `T` has no cycle

Minimality (`kruskal_minimum`) is proved in Props/C10KruskalMin.lean, the orientation in Props/C10Orient.lean.
-/
namespace Mouette.Props.C10
open Mouette.Trees Mouette.UF

/-- P1 `kruskal_spanning_forest`: for every size, every admissible edge list with endpoints `< n` and every
weights (the sort only decides *which* spanning forest), the selected edges (i) are `keyify`-ed admissible edges,
(ii) connect everything the admissible edges connect (spanning), (iii) contain no cycle. -/
theorem kruskal_spanning_forest (n : Nat) (es : List (Nat × Nat × Rat)) (hwf : ∀ e ∈ es, e.1 < n ∧ e.2.1 < n) :
    (∀ t ∈ kruskal n es, ∃ e ∈ es, t = keyify e.1 e.2.1) ∧
    (∀ e ∈ es, EqvClosure (Linked (kruskal n es)) e.1 e.2.1) ∧
    Forest (kruskal n es).reverse := by
  have hwf' : ∀ e ∈ es.mergeSort (fun a b => decide (a.2.2 ≤ b.2.2)), e.1 < n ∧ e.2.1 < n :=
    fun e he => hwf e (List.mem_mergeSort.mp he)
  have I := kinv_fold (es.mergeSort (fun a b => decide (a.2.2 ≤ b.2.2))) [] _ hwf' (kinv_init n)
  obtain ⟨ops, C, _, _, _, h4, h5, h6, h7⟩ := I.hist
  have hT : kruskal n es = C.reverse.map (fun p => keyify p.1 p.2) := by
    unfold kruskal
    rw [kruskalLoop_eq]
    exact h4
  rw [hT]
  refine ⟨?_, ?_, ?_⟩
  · intro t ht
    obtain ⟨p, hp, rfl⟩ := List.mem_map.mp ht
    obtain ⟨e, he, hpe⟩ := h6 p (List.mem_reverse.mp hp)
    simp only [List.nil_append] at he
    exact ⟨e, List.mem_mergeSort.mp he, by rw [hpe]⟩
  · intro e he
    have hm : e ∈ [] ++ es.mergeSort (fun a b => decide (a.2.2 ≤ b.2.2)) := by
      rw [List.nil_append]; exact List.mem_mergeSort.mpr he
    have h := h7 e hm
    rw [closure_pairs_iff] at h
    refine EqvClosure.mono ?_ h
    intro a b hab
    unfold Linked at hab ⊢
    rw [List.map_reverse]
    exact List.mem_reverse.mpr hab
  · rw [← List.map_reverse, List.reverse_reverse]
    exact forest_of_indep C h5

/-- non-vacuity (test of the model): a triangle 0-1-2 with a pendant 3; the heaviest triangle edge is dropped -/
example : (kruskalLoop [(1, 2, 1), (0, 2, 1), (2, 3, 2), (0, 1, 3)] (ufInit 4)).2 = [(1, 2), (0, 2), (2, 3)] := by
  decide +kernel
example : Forest [(2, 3), (0, 2), (1, 2)] := by
  have key : ∀ (T : List (Nat × Nat)) (P : Nat → Prop), (∀ a b, Linked T a b → (P a ↔ P b)) →
      ∀ a b, EqvClosure (Linked T) a b → (P a ↔ P b) := by
    intro T P hP a b h
    induction h with
    | rel h => exact hP _ _ h
    | refl => exact Iff.rfl
    | symm _ ih => exact ih.symm
    | trans _ _ i1 i2 => exact i1.trans i2
  refine ⟨fun h => ?_, fun h => ?_, fun h => ?_, trivial⟩
  · have := key _ (fun x => x = 3) (by
      intro a b hab; simp [Linked, keyify] at hab; split at hab <;> simp at hab <;> omega) _ _ h
    simp at this
  · have := key _ (fun x => x = 0) (by
      intro a b hab; simp [Linked, keyify] at hab; split at hab <;> simp at hab <;> omega) _ _ h
    simp at this
  · have := key _ (fun x => x = 1) (by intro a b hab; simp [Linked] at hab) _ _ h
    simp at this

end Mouette.Props.C10
