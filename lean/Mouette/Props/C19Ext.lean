import Mouette.Lemmas.C19Sampling
import Mouette.Lemmas.C19Wrap
import Mouette.Lemmas.C19Grid
/-
C19 (round 2) — clauses that were oracle-only in round 1:
  * the output-wrapping options (`return_point_cloud`, `return_normals`) as model functions
    (`Model/SamplingWrap.lean`) and list-level statements for ALL `n`;
  * the grid resolution of `sample_AABB(mode="grid")`: the root-free characterisation of "nearest integer to
    n^(1/d)" that the oracle tests with integers.
-/
namespace Mouette.Props.C19Ext
open Mouette.Sampling Mouette.SamplingWrap Mouette.Lemmas.C19

/-! ## wrapping options -/

/-- `return_point_cloud` never changes the points or their number; it only selects the container -/
theorem wrapPts_spec (pc : Bool) (pts : List Pt) :
    (wrapPts pc pts).points = pts ∧ (wrapPts pc pts).isCloud = pc ∧ (wrapPts pc pts).normals = none := by
  cases pc <;> simp [wrapPts, Out.points, Out.isCloud, Out.normals]

/-- all four combinations of the options of `sample_surface`: same points; normals present iff requested,
and then they are exactly the list that was gathered; container as requested -/
theorem wrapSurface_spec {N} (pc rn : Bool) (pts : List Pt) (sn : List N) :
    (wrapSurface pc rn pts sn).points = pts ∧ (wrapSurface pc rn pts sn).isCloud = pc ∧
    (wrapSurface pc rn pts sn).normals = (if rn then some sn else none) := by
  cases pc <;> cases rn <;> simp [wrapSurface, Out.points, Out.isCloud, Out.normals]

/-- `sample_polyline`, all `n` at once: `n` points, and the `i`-th lies on the edge drawn for sample `i` -/
theorem polyline_out (pc : Bool) (V : List V3) (E : List (Nat × Nat)) (draws : List (Nat × Rat))
    (ht : ∀ d ∈ draws, 0 ≤ d.2 ∧ d.2 ≤ 1) :
    (samplePolyline pc V E draws).points.length = draws.length ∧
    ∀ i (h : i < draws.length),
      ∃ p, (samplePolyline pc V E draws).points[i]? = some p ∧
        OnSegment (toL (V.getD (E.getD draws[i].1 (0, 0)).1 (0, 0, 0)))
                  (toL (V.getD (E.getD draws[i].1 (0, 0)).2 (0, 0, 0))) p := by
  have hp : (samplePolyline pc V E draws).points = polylinePoints V E draws := (wrapPts_spec pc _).1
  rw [hp]
  refine ⟨by simp [polylinePoints], ?_⟩
  intro i h
  have hi : (polylinePoints V E draws)[i]? = some (segPoint draws[i].2
      (toL (V.getD (E.getD draws[i].1 (0, 0)).1 (0, 0, 0))) (toL (V.getD (E.getD draws[i].1 (0, 0)).2 (0, 0, 0)))) := by
    simp [polylinePoints, h]
  refine ⟨_, hi, ?_⟩
  obtain ⟨h0, h1⟩ := ht draws[i] (List.getElem_mem h)
  exact ⟨draws[i].2, h0, h1, segPoint_eq _ _ _ (by simp [toL])⟩

/-- `sample_surface` with `return_normals`, all `n` at once, both containers: there are `n` points and `n`
normals, and for every `i` the `i`-th normal is the normal of the face the `i`-th sample was drawn from, the
`i`-th point being a convex combination of that same face's corners -/
theorem surface_out {N} (dflt : N) (pc : Bool) (V : List V3) (F : List (Nat × Nat × Nat)) (normals : List N)
    (draws : List (Nat × Rat × Rat)) (u1 : List Rat) (hlen : u1.length = draws.length)
    (hd : ∀ i (h : i < draws.length), draws[i].2.1 * draws[i].2.1 = u1.getD i 0 ∧ 0 ≤ draws[i].2.1 ∧
        u1.getD i 0 ≤ 1 ∧ 0 ≤ draws[i].2.2 ∧ draws[i].2.2 ≤ 1) :
    (sampleSurface dflt pc true V F normals draws).points.length = draws.length ∧
    (sampleSurface dflt pc true V F normals draws).isCloud = pc ∧
    (sampleSurface dflt pc true V F normals draws).normals = some (draws.map (fun d => normals.getD d.1 dflt)) ∧
    ∀ i (h : i < draws.length),
      ∃ p, (sampleSurface dflt pc true V F normals draws).points[i]? = some p ∧
        InTriangle (toL (V.getD (F.getD draws[i].1 (0, 0, 0)).1 (0, 0, 0)))
                   (toL (V.getD (F.getD draws[i].1 (0, 0, 0)).2.1 (0, 0, 0)))
                   (toL (V.getD (F.getD draws[i].1 (0, 0, 0)).2.2 (0, 0, 0))) p := by
  obtain ⟨hp, hc, hn⟩ := wrapSurface_spec pc true (surfacePoints V F draws)
    (sampledNormals dflt normals (draws.map (·.1)))
  unfold sampleSurface
  rw [hp, hc, hn]
  refine ⟨by simp [surfacePoints], rfl, by simp [sampledNormals, List.map_map, Function.comp_def], ?_⟩
  intro i h
  have hi : (surfacePoints V F draws)[i]? = some (triPoint draws[i].2.1 draws[i].2.2
      (toL (V.getD (F.getD draws[i].1 (0, 0, 0)).1 (0, 0, 0))) (toL (V.getD (F.getD draws[i].1 (0, 0, 0)).2.1 (0, 0, 0)))
      (toL (V.getD (F.getD draws[i].1 (0, 0, 0)).2.2 (0, 0, 0)))) := by
    simp [surfacePoints, h]
  refine ⟨_, hi, ?_⟩
  obtain ⟨h1, h2, h3, h4, h5⟩ := hd i h
  have hs1 : draws[i].2.1 ≤ 1 := sqrt_unit h1 h2 h3
  refine ⟨draws[i].2.1 * (1 - draws[i].2.2), 1 - draws[i].2.1, draws[i].2.2 * draws[i].2.1, ?_, ?_, ?_, ?_,
    triPoint_eq _ _ _ _ _⟩
  · exact mul_nonneg h2 (by linarith)
  · linarith
  · exact mul_nonneg h4 h2
  · ring

/-- without `return_normals` no normals are returned, whatever the container -/
theorem surface_out_no_normals {N} (dflt : N) (pc : Bool) (V : List V3) (F : List (Nat × Nat × Nat)) (normals : List N)
    (draws : List (Nat × Rat × Rat)) :
    (sampleSurface dflt pc false V F normals draws).normals = none ∧
    (sampleSurface dflt pc false V F normals draws).points.length = draws.length := by
  obtain ⟨hp, _, hn⟩ := wrapSurface_spec pc false (surfacePoints V F draws)
    (sampledNormals dflt normals (draws.map (·.1)))
  unfold sampleSurface
  rw [hp, hn]
  simp [surfacePoints]

/-- list level, all `n`: the normals gathered are, position by position, the normals of the drawn faces -/
theorem sampled_normals_list {N} (dflt : N) (normals : List N) (fs : List Nat) :
    sampledNormals dflt normals fs = fs.map (fun f => normals.getD f dflt) ∧
    (sampledNormals dflt normals fs).length = fs.length ∧
    ∀ i (h : i < fs.length), (sampledNormals dflt normals fs)[i]? = some (normals.getD fs[i] dflt) := by
  refine ⟨rfl, by simp [sampledNormals], ?_⟩
  intro i h
  simp [sampledNormals, h]

/-- `sample_AABB`: the point-cloud option is refused exactly for `dim > 3`; otherwise the points are kept
(padded with zeros up to 3 coordinates in a point cloud) and their number is unchanged -/
theorem wrapBox_spec (pc : Bool) (d : Nat) (pts : List Pt) :
    (wrapBox pc d pts = none ↔ (3 < d ∧ pc = true)) ∧
    (∀ o, wrapBox pc d pts = some o → o.points.length = pts.length ∧ o.isCloud = pc ∧
      (pc = false → o.points = pts) ∧ (pc = true → o.points = pts.map pad3)) := by
  constructor
  · by_cases h : 3 < d <;> cases pc <;> simp [wrapBox, h]
  · intro o ho
    by_cases h : 3 < d <;> cases pc <;> simp [wrapBox, h] at ho <;> subst ho <;>
      simp [Out.points, Out.isCloud]

/-- zero padding keeps the coordinates, gives 3 of them (`dim ≤ 3`), and the added ones are 0 -/
theorem pad3_spec (p : Pt) (h : p.length ≤ 3) :
    (pad3 p).length = 3 ∧ (pad3 p).take p.length = p ∧ ∀ k, p.length ≤ k → (pad3 p).getD k 0 = 0 :=
  ⟨pad3_length p h, pad3_take p, pad3_tail_zero p⟩

/-! ## grid resolution: "the nearest perfect power" -/

/-- root-free characterisation over any linearly ordered field (ℚ, ℝ): for `res ≥ 1/2`, `x ≥ 0`, `x^d = n`:
`|res - x| ≤ 1/2 ⇔ (res - 1/2)^d ≤ n ≤ (res + 1/2)^d` -/
theorem grid_resolution_nearest_root {K : Type} [Field K] [LinearOrder K] [IsStrictOrderedRing K]
    (res x n : K) (d : ℕ) (hd : d ≠ 0) (hr : 1 / 2 ≤ res) (hx : 0 ≤ x) (hxn : x ^ d = n) :
    |res - x| ≤ 1 / 2 ↔ (res - 1 / 2) ^ d ≤ n ∧ n ≤ (res + 1 / 2) ^ d :=
  nearest_root_iff res x n d hd hr hx hxn

/-- over ℚ, as asked: for an integer `res ≥ 1` and a rational root `x` of `n` -/
theorem grid_resolution_nearest_root_rat (res d n : ℕ) (x : ℚ) (hd : d ≠ 0) (hr : 1 ≤ res) (hx : 0 ≤ x)
    (hxn : x ^ d = (n : ℚ)) :
    |(res : ℚ) - x| ≤ 1 / 2 ↔ ((res : ℚ) - 1 / 2) ^ d ≤ (n : ℚ) ∧ (n : ℚ) ≤ ((res : ℚ) + 1 / 2) ^ d := by
  have : (1 : ℚ) / 2 ≤ (res : ℚ) := by
    have : (1 : ℚ) ≤ (res : ℚ) := by exact_mod_cast hr
    linarith
  exact nearest_root_iff (res : ℚ) x (n : ℚ) d hd this hx hxn

/-- the integer test run by the oracle on the returned count `res^d` is that characterisation -/
theorem grid_resolution_integer_test (res d n : ℕ) (hr : 1 ≤ res) :
    ((2 * res - 1) ^ d ≤ 2 ^ d * n ∧ 2 ^ d * n ≤ (2 * res + 1) ^ d) ↔
      (((res : ℚ) - 1 / 2) ^ d ≤ (n : ℚ) ∧ (n : ℚ) ≤ ((res : ℚ) + 1 / 2) ^ d) :=
  integer_test_iff res d n hr

/-- together, in ℝ where the d-th root `x` of `n` exists: the oracle's integer test holds iff `res` is within
1/2 of `n^(1/d)`; and then `sample_AABB(mode="grid")` returns `res^d` points, all in the box -/
theorem grid_count_nearest_power (lo hi : List Rat) (res n : ℕ) (x : ℝ) (hd : lo.length ≠ 0) (hr : 1 ≤ res)
    (hx : 0 ≤ x) (hxn : x ^ lo.length = (n : ℝ)) :
    (((2 * res - 1) ^ lo.length ≤ 2 ^ lo.length * n ∧ 2 ^ lo.length * n ≤ (2 * res + 1) ^ lo.length) ↔
      |(res : ℝ) - x| ≤ 1 / 2) ∧
    (aabbGrid lo hi res).length = res ^ lo.length := by
  constructor
  · rw [integer_test_iff_real res lo.length n hr]
    have : (1 : ℝ) / 2 ≤ (res : ℝ) := by
      have : (1 : ℝ) ≤ (res : ℝ) := by exact_mod_cast hr
      linarith
    exact (nearest_root_iff (res : ℝ) x (n : ℝ) lo.length hd this hx hxn).symm
  · simp [aabbGrid, unitGrid, digitTuples_length]

/-- `res = 0` (empty grid): nearest to the root iff `2^d n ≤ 1` -/
theorem grid_resolution_zero {K : Type} [Field K] [LinearOrder K] [IsStrictOrderedRing K]
    (x n : K) (d : ℕ) (hd : d ≠ 0) (hx : 0 ≤ x) (hxn : x ^ d = n) :
    |0 - x| ≤ 1 / 2 ↔ n ≤ (1 / 2) ^ d := nearest_root_zero_iff x n d hd hx hxn

/-! non-vacuity -/
example : ((2 * 2 - 1) ^ 3 ≤ 2 ^ 3 * 4 ∧ 2 ^ 3 * 4 ≤ (2 * 2 + 1) ^ 3) := by decide   -- n = 4, d = 3 → res = 2 (8 points)
example : ¬ ((2 * 1 - 1) ^ 3 ≤ 2 ^ 3 * 4 ∧ 2 ^ 3 * 4 ≤ (2 * 1 + 1) ^ 3) := by decide -- res = 1 is not the nearest root
example : (wrapSurface true true [[1, 2, 3]] [7] : Out Nat).normals = some [7] := by simp [wrapSurface, Out.normals]
example : pad3 [4, 5] = [4, 5, 0] := by decide +kernel

end Mouette.Props.C19Ext
