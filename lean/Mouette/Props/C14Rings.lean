import Mouette.Props.C14Oriented
/-!
# C14 (continued) — `ring` and `flat_ring` are consistently oriented fans (disks), for ALL N·n_cover ≥ 3

Faces are addressed by their position in the fan; `ringFaces_eq` / `flat_ringFaces_eq` tie them to the translated loop
nests. Every spoke `0 → k` is matched by the spoke `k → 0` of the neighbouring triangle; the unmatched directed edges are
exactly the rim edges (one border loop around the apex for the closed ring; rim + the two end spokes for the open fans).
-/
namespace Mouette.Props.C14
open Mouette.Generated.C14 Mouette.MeshCheck Mouette.ListCount

/-- membership of a pair in an explicit finite list, by linear arithmetic -/
local macro "memfin" : tactic =>
  `(tactic| (simp only [List.mem_cons, Prod.mk.injEq, List.mem_nil_iff, or_false, and_true, true_and, or_true, true_or] <;> try omega))

/-- i-th triangle (1 ≤ i ≤ n) of the closed ring over n = N·n_cover rim vertices -/
def ringTri (n i : Nat) : List Nat := if i = n then [0, n, 1] else [0, i, i + 1]

/-- the faces of the translated loop nest are exactly the addressed triangles (their number is `ring_nfaces`) -/
theorem ringFaces_mem (N c : Nat) (h : 1 ≤ N * c) (f : List Nat) :
    f ∈ ringFaces N c false ↔ ∃ i, 1 ≤ i ∧ i ≤ N * c ∧ f = ringTri (N * c) i := by
  rw [ringFaces_norm]
  simp only [ringFacesCanon, ringTri, Bool.false_eq_true, if_false, List.mem_append, List.mem_flatMap, List.mem_range'_1,
    List.mem_cons, List.mem_nil_iff, or_false]
  constructor
  · rintro (⟨i, hi, rfl⟩ | rfl)
    · have hm : (i + 1) % (N * c + 1) = i + 1 := Nat.mod_eq_of_lt (by omega)
      have hne : i ≠ N * c := by omega
      exact ⟨i, by omega, by omega, by simp [hm, hne]⟩
    · exact ⟨N * c, by omega, by omega, by simp⟩
  · rintro ⟨i, h1, h2, rfl⟩
    by_cases hc : i = N * c
    · right; simp [hc]
    · left
      have hm : (i + 1) % (N * c + 1) = i + 1 := Nat.mod_eq_of_lt (by omega)
      exact ⟨i, by omega, by simp [hm, hc]⟩

/-- closed ring: a directed edge lies in at most one triangle -/
theorem ring_oriented (n : Nat) (hn : 3 ≤ n) (i j : Nat) (hi : 1 ≤ i ∧ i ≤ n) (hj : 1 ≤ j ∧ j ≤ n) (e : Nat × Nat)
    (h1 : e ∈ sides (ringTri n i)) (h2 : e ∈ sides (ringTri n j)) : i = j := by
  obtain ⟨p, q⟩ := e
  unfold ringTri at h1 h2
  by_cases ci : i = n <;> by_cases cj : j = n <;>
    simp only [ci, cj, if_true, if_false, sides_tri, List.mem_cons, Prod.mk.injEq, List.mem_nil_iff, or_false] at h1 h2 <;>
    rcases h1 with ⟨hp, hq⟩ | ⟨hp, hq⟩ | ⟨hp, hq⟩ <;> rcases h2 with ⟨e1, e2⟩ | ⟨e1, e2⟩ | ⟨e1, e2⟩ <;> omega

/-- closed ring: every spoke is matched; the unmatched directed edges are exactly the rim edges `i → i+1` (and `n → 1`):
one border loop around the apex, i.e. a disk -/
theorem ring_border (n : Nat) (hn : 3 ≤ n) (i : Nat) (hi : 1 ≤ i ∧ i ≤ n) (e : Nat × Nat) (h : e ∈ sides (ringTri n i)) :
    (∃ j, 1 ≤ j ∧ j ≤ n ∧ (e.2, e.1) ∈ sides (ringTri n j)) ∨ (e = (i, if i = n then 1 else i + 1)) := by
  obtain ⟨p, q⟩ := e
  unfold ringTri at h
  by_cases ci : i = n
  · simp only [ci, if_true, sides_tri, List.mem_cons, Prod.mk.injEq, List.mem_nil_iff, or_false] at h
    rcases h with ⟨hp, hq⟩ | ⟨hp, hq⟩ | ⟨hp, hq⟩
    · left; refine ⟨n - 1, by omega, by omega, ?_⟩
      have : ¬ (n - 1 = n) := by omega
      simp only [ringTri, this, if_false, sides_tri, hp, hq]
      memfin
    · right; simp [hp, hq, ci]
    · left; refine ⟨1, by omega, by omega, ?_⟩
      have : ¬ (1 = n) := by omega
      simp [ringTri, this, sides_tri, hp, hq]
  · simp only [ci, if_false, sides_tri, List.mem_cons, Prod.mk.injEq, List.mem_nil_iff, or_false] at h
    rcases h with ⟨hp, hq⟩ | ⟨hp, hq⟩ | ⟨hp, hq⟩
    · left
      by_cases c1 : i = 1
      · refine ⟨n, by omega, by omega, ?_⟩
        simp [ringTri, sides_tri, hp, hq, c1]
      · refine ⟨i - 1, by omega, by omega, ?_⟩
        have : ¬ (i - 1 = n) := by omega
        simp only [ringTri, this, if_false, sides_tri, hp, hq]
        memfin
    · right; simp [hp, hq, ci]
    · left
      by_cases c2 : i + 1 = n
      · refine ⟨n, by omega, by omega, ?_⟩
        simp only [ringTri, if_true, sides_tri, hp, hq]
        memfin
      · refine ⟨i + 1, by omega, by omega, ?_⟩
        simp [ringTri, c2, sides_tri, hp, hq]

/-! flat ring (open fan) -/

def fanTri (i : Nat) : List Nat := [0, i + 1, i + 2]

theorem flat_ringFaces_eq (N c : Nat) : flat_ringFaces N c = (List.range (N * c)).flatMap (fun i => [fanTri i]) := by
  rw [flat_ringFaces_norm]
  simp [flat_ringFacesCanon, fanTri]

theorem flat_ring_oriented (i j : Nat) (e : Nat × Nat) (h1 : e ∈ sides (fanTri i)) (h2 : e ∈ sides (fanTri j)) : i = j := by
  obtain ⟨p, q⟩ := e
  simp only [fanTri, sides_tri, List.mem_cons, Prod.mk.injEq, List.mem_nil_iff, or_false] at h1 h2
  rcases h1 with ⟨hp, hq⟩ | ⟨hp, hq⟩ | ⟨hp, hq⟩ <;> rcases h2 with ⟨e1, e2⟩ | ⟨e1, e2⟩ | ⟨e1, e2⟩ <;> omega

/-- open fan of n triangles: unmatched directed edges are the rim edges and the two end spokes (one border loop: a disk) -/
theorem flat_ring_border (n i : Nat) (hi : i < n) (e : Nat × Nat) (h : e ∈ sides (fanTri i)) :
    (∃ j, j < n ∧ (e.2, e.1) ∈ sides (fanTri j)) ∨ e = (i + 1, i + 2) ∨ (i = 0 ∧ e = (0, 1)) ∨ (i + 1 = n ∧ e = (n + 1, 0)) := by
  obtain ⟨p, q⟩ := e
  simp only [fanTri, sides_tri, List.mem_cons, Prod.mk.injEq, List.mem_nil_iff, or_false] at h
  rcases h with ⟨hp, hq⟩ | ⟨hp, hq⟩ | ⟨hp, hq⟩
  · by_cases c0 : i = 0
    · right; right; left; exact ⟨c0, by simp [hp, hq, c0]⟩
    · left; refine ⟨i - 1, by omega, ?_⟩
      simp only [fanTri, sides_tri, hp, hq]; memfin
  · right; left; simp [hp, hq]
  · by_cases c1 : i + 1 = n
    · right; right; right; exact ⟨c1, by simp only [Prod.mk.injEq]; omega⟩
    · left; refine ⟨i + 1, by omega, ?_⟩
      simp [fanTri, sides_tri, hp, hq]

end Mouette.Props.C14
