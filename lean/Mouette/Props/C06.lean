import Mouette.Lemmas.MeshHeap
import Mouette.Lemmas.MeshAlgebra
import Mouette.Lemmas.MeshBBox
/-
C06 — meshes have value semantics: copy, merge and transforms never alias.

Model: `Mouette.MeshHeap` (Model/MeshHeap.lean): meshes are lists of references into a heap of `Rat³` cells;
`mesh.vertices[i] = e` rebinds (fresh cell), `mesh.vertices[i][c] = x` updates in place.
`WF` = every reference points into the heap; `AliasFree` = `WF` and no reference is listed twice anywhere in the state.
All theorems hold for EVERY state / mesh / parameter; `alias_free_run` for every operation sequence.
-/
namespace Mouette.Props.C06
open Mouette.MeshHeap

/-! ## copy -/

/-- P0 `copy_equal_disjoint`: the copy has the coordinates, elements and class of its source, lives in FRESH cells
(distinct from every reference of every existing mesh, pairwise distinct), and no existing mesh changes -/
theorem copy_equal_disjoint (s : State) (i : Nat) (m : Mesh) (hm : s.meshes[i]? = some m) (hwf : WF s) :
    ∃ m', (copyMesh s i).meshes = s.meshes ++ [m'] ∧
      coords (copyMesh s i).heap m' = coords s.heap m ∧
      m'.edges = m.edges ∧ m'.faces = m.faces ∧ m'.cells = m.cells ∧ m'.dim = m.dim ∧
      (∀ r ∈ m'.verts, s.heap.length ≤ r ∧ ∀ m0 ∈ s.meshes, r ∉ m0.verts) ∧ m'.verts.Nodup ∧
      (∀ m0 ∈ s.meshes, coords (copyMesh s i).heap m0 = coords s.heap m0) := by
  obtain ⟨m', h1, h2, h3, h4, h5, h6, _, h8⟩ := newMesh_spec s (coords s.heap m) m.edges m.faces m.cells hwf
  simp only [copyMesh, hm]
  refine ⟨m', h1, h5, h2, h3, h4, by simp only [Mesh.dim, h2, h3, h4], ?_, ?_, h8⟩
  · intro r hr
    rw [h6] at hr
    have := mem_range'_iff.mp hr
    exact ⟨this.1, fun m0 hm0 hin => by have := hwf m0 hm0 r hin; omega⟩
  · rw [h6]; exact List.nodup_range'

/-! ## merge -/

/-- P0 `merge_is_disjoint_union`: the merged mesh holds the concatenated coordinates of its inputs in FRESH cells
(also when the same mesh is listed twice), its elements are the inputs' elements shifted by the running vertex count,
its class is the maximum of the input classes, and no existing mesh changes -/
theorem merge_is_disjoint_union (s : State) (ids : List Nat) (ms : List Mesh)
    (hl : lookupAll s.meshes ids = some ms) (hwf : WF s) :
    ∃ m', (mergeMeshes s ids).meshes = s.meshes ++ [m'] ∧
      coords (mergeMeshes s ids).heap m' = ms.flatMap (coords s.heap) ∧
      m'.verts.length = totalVerts ms ∧
      m'.edges = shiftedFrom (·.edges) 0 ms ∧ m'.faces = shiftedFrom (·.faces) 0 ms ∧ m'.cells = shiftedFrom (·.cells) 0 ms ∧
      (∀ m ∈ ms, m.dim ≤ m'.dim) ∧ (ms ≠ [] → ∃ m ∈ ms, m.dim = m'.dim) ∧
      (∀ r ∈ m'.verts, s.heap.length ≤ r ∧ ∀ m0 ∈ s.meshes, r ∉ m0.verts) ∧ m'.verts.Nodup ∧
      (∀ m0 ∈ s.meshes, coords (mergeMeshes s ids).heap m0 = coords s.heap m0) := by
  obtain ⟨a1, a2, a3, a4, _⟩ := mergeLoop_spec (coords s.heap) ms
  obtain ⟨m', h1, h2, h3, h4, h5, h6, _, h8⟩ := newMesh_spec s (mergeLoop (coords s.heap) ms).verts
    (mergeLoop (coords s.heap) ms).edges (mergeLoop (coords s.heap) ms).faces (mergeLoop (coords s.heap) ms).cells hwf
  simp only [mergeMeshes, hl]
  have he : m'.edges = shiftedFrom (·.edges) 0 ms := by rw [h2, a2]
  have hf : m'.faces = shiftedFrom (·.faces) 0 ms := by rw [h3, a3]
  have hc : m'.cells = shiftedFrom (·.cells) 0 ms := by rw [h4, a4]
  have ce : m'.edges = [] ↔ ∀ m ∈ ms, m.edges = [] := by rw [he]; exact shiftedFrom_eq_nil _ ms 0
  have cf : m'.faces = [] ↔ ∀ m ∈ ms, m.faces = [] := by rw [hf]; exact shiftedFrom_eq_nil _ ms 0
  have cc : m'.cells = [] ↔ ∀ m ∈ ms, m.cells = [] := by rw [hc]; exact shiftedFrom_eq_nil _ ms 0
  refine ⟨m', h1, by rw [h5, a1], by rw [h6, a1, length_flatMap_coords, List.length_range'], he, hf, hc, ?_, ?_, ?_, ?_, h8⟩
  · intro m hm
    unfold Mesh.dim
    by_cases c' : m'.cells = []
    · have cm := (cc.mp c') m hm
      by_cases f' : m'.faces = []
      · have fm := (cf.mp f') m hm
        by_cases e' : m'.edges = []
        · have em := (ce.mp e') m hm
          simp [c', cm, f', fm, e', em]
        · simp [c', cm, f', fm, e']; split <;> omega
      · simp [c', cm, f']; split <;> (try split) <;> omega
    · simp [c']; split <;> (try split) <;> (try split) <;> omega
  · intro hne
    by_cases c' : m'.cells = []
    · by_cases f' : m'.faces = []
      · by_cases e' : m'.edges = []
        · obtain ⟨m, hm⟩ := List.exists_mem_of_ne_nil ms hne
          exact ⟨m, hm, by simp [Mesh.dim, c', f', e', (cc.mp c') m hm, (cf.mp f') m hm, (ce.mp e') m hm]⟩
        · have : ¬ ∀ m ∈ ms, m.edges = [] := fun h => e' (ce.mpr h)
          simp only [not_forall] at this
          obtain ⟨m, hm, hme⟩ := this
          exact ⟨m, hm, by simp [Mesh.dim, c', f', e', (cc.mp c') m hm, (cf.mp f') m hm, hme]⟩
      · have : ¬ ∀ m ∈ ms, m.faces = [] := fun h => f' (cf.mpr h)
        simp only [not_forall] at this
        obtain ⟨m, hm, hmf⟩ := this
        exact ⟨m, hm, by simp [Mesh.dim, c', f', (cc.mp c') m hm, hmf]⟩
    · have : ¬ ∀ m ∈ ms, m.cells = [] := fun h => c' (cc.mpr h)
      simp only [not_forall] at this
      obtain ⟨m, hm, hmc⟩ := this
      exact ⟨m, hm, by simp [Mesh.dim, c', hmc]⟩
  · intro r hr
    rw [h6] at hr
    have := mem_range'_iff.mp hr
    exact ⟨this.1, fun m0 hm0 hin => by have := hwf m0 hm0 r hin; omega⟩
  · rw [h6]; exact List.nodup_range'

/-- P0 `merge_indices_in_block`: when every input's elements index its own vertices, every index of every merged element
lies in `[offset, offset + total)` — in particular the merged elements index the merged vertices -/
theorem merge_indices_in_block (sel : Mesh → List (List Nat)) (ms : List Mesh) (off : Nat)
    (hv : ∀ m ∈ ms, ∀ e ∈ sel m, ∀ u ∈ e, u < m.verts.length) :
    ∀ e ∈ shiftedFrom sel off ms, ∀ u ∈ e, off ≤ u ∧ u < off + totalVerts ms :=
  shiftedFrom_block sel ms off hv

/-! ## transforms -/

/-- the rebinding transforms of transform.py are instances of one loop -/
theorem transforms_are_rebinding (t o : V3) (k fx fy fz : Rat) (r : M3) :
    translate t = mapRebind (fun p => p.add t) ∧ scale k o = mapRebind (scaleMap k o) ∧
    scaleXyz fx fy fz o = mapRebind (scaleXyzMap fx fy fz o) ∧ rotate r o = mapRebind (rotateMap r o) ∧
    (∀ d, flatten d = mapInPlace (fun p => p.set d 0)) :=
  ⟨rfl, rfl, rfl, rfl, fun _ => rfl⟩

/-- P0 `transform_exact`: a rebinding transform (translate, scale, scale_xyz, rotate: any map `f`) applied to mesh `i`
moves EVERY vertex of mesh `i` EXACTLY ONCE by `f` — even if the mesh lists a reference twice or shares references with
other meshes — keeps its elements, and changes NO other mesh. No alias-freedom hypothesis is needed. -/
theorem transform_exact (f : V3 → V3) (s : State) (i : Nat) (m : Mesh) (hm : s.meshes[i]? = some m) (hwf : WF s) :
    (mapRebind f s i).meshes.length = s.meshes.length ∧
    (∃ m', (mapRebind f s i).meshes[i]? = some m' ∧ coords (mapRebind f s i).heap m' = (coords s.heap m).map f ∧
        m'.edges = m.edges ∧ m'.faces = m.faces ∧ m'.cells = m.cells) ∧
    (∀ j mj, j ≠ i → s.meshes[j]? = some mj →
        (mapRebind f s i).meshes[j]? = some mj ∧ coords (mapRebind f s i).heap mj = coords s.heap mj) := by
  obtain ⟨h1, ⟨m', h2, h3, h4, h5, h6, _⟩, h7⟩ := mapRebind_spec f s i m hm hwf
  exact ⟨h1, ⟨m', h2, h3, h4, h5, h6⟩, h7⟩

/-- P0 `inplace_exact`: an in-place transform (`flatten`; the pre-repair `translate`) applied to mesh `i` of an
ALIAS-FREE state maps every vertex of mesh `i` exactly once and changes no other mesh -/
theorem inplace_exact (f : V3 → V3) (s : State) (i : Nat) (m : Mesh) (hm : s.meshes[i]? = some m) (haf : AliasFree s) :
    (mapInPlace f s i).meshes = s.meshes ∧
    coords (mapInPlace f s i).heap m = (coords s.heap m).map f ∧
    (∀ j mj, j ≠ i → s.meshes[j]? = some mj → coords (mapInPlace f s i).heap mj = coords s.heap mj) :=
  mapInPlace_spec f s i m hm haf

/-- editing one coordinate of one vertex of one mesh of an alias-free state changes exactly that vertex -/
theorem edit_isolated (s : State) (i v c : Nat) (x : Rat) (m : Mesh) (r : Nat) (hm : s.meshes[i]? = some m)
    (hv : m.verts[v]? = some r) (haf : AliasFree s) :
    (editVertex s i v c x).meshes = s.meshes ∧
    (∀ j mj b rb, s.meshes[j]? = some mj → mj.verts[b]? = some rb → (j ≠ i ∨ b ≠ v) →
        deref (editVertex s i v c x).heap rb = deref s.heap rb) ∧
    deref (editVertex s i v c x).heap r = (deref s.heap r).set c x :=
  editVertex_spec s i v c x m r hm hv haf

/-- every operation preserves alias freedom … -/
theorem alias_free_step (s : State) (op : Op) (haf : AliasFree s) : AliasFree (step s op) := by
  cases op with
  | new vs e f c => exact aliasFree_newMesh s vs e f c haf
  | copy i =>
    simp only [step, copyMesh]
    cases s.meshes[i]? with
    | none => exact haf
    | some m => exact aliasFree_newMesh s _ _ _ _ haf
  | merge ids =>
    simp only [step, mergeMeshes]
    cases lookupAll s.meshes ids with
    | none => exact haf
    | some ms => exact aliasFree_newMesh s _ _ _ _ haf
  | translate i t => exact aliasFree_mapRebind _ s i haf
  | scale i k o => exact aliasFree_mapRebind _ s i haf
  | scaleXyz i fx fy fz o => exact aliasFree_mapRebind _ s i haf
  | rotate i r o => exact aliasFree_mapRebind _ s i haf
  | flatten i d => exact aliasFree_mapInPlace _ s i haf
  | normalize i c =>
    simp only [step, normalize]
    cases s.meshes[i]? with
    | none => exact haf
    | some m =>
      simp only
      split
      · exact aliasFree_mapRebind _ _ i (aliasFree_mapRebind _ s i haf)
      · exact aliasFree_mapRebind _ _ i (aliasFree_mapRebind _ s i haf)
  | toOrigin i =>
    simp only [step, translateToOrigin]
    cases s.meshes[i]? with
    | none => exact haf
    | some m => exact aliasFree_mapRebind _ s i haf
  | edit i v c x => exact aliasFree_editVertex s i v c x haf

/-- P0 `alias_free_run`: … hence after EVERY operation sequence (new / copy / merge with repeated inputs / transforms /
in-place edits) no two vertex entries of any meshes share a cell -/
theorem alias_free_run (ops : List Op) : AliasFree (run init ops) := by
  have h0 : AliasFree init := ⟨(fun m hm => by cases hm), (fun i j mi mj a b r hi => by simp [init] at hi)⟩
  suffices ∀ s, AliasFree s → AliasFree (run s ops) from this init h0
  induction ops with
  | nil => intro s h; exact h
  | cons op ops ih => intro s h; exact ih _ (alias_free_step s op h)

/-! ## round trips over `Rat` -/

/-- two rebinding transforms whose maps are inverse restore the coordinates of mesh `i` and leave the others alone -/
theorem rebind_round_trip (f g : V3 → V3) (hfg : ∀ p, g (f p) = p) (s : State) (i : Nat) (m : Mesh)
    (hm : s.meshes[i]? = some m) (hwf : WF s) :
    ∃ m2, (mapRebind g (mapRebind f s i) i).meshes[i]? = some m2 ∧
      coords (mapRebind g (mapRebind f s i) i).heap m2 = coords s.heap m ∧
      m2.edges = m.edges ∧ m2.faces = m.faces ∧ m2.cells = m.cells ∧
      (∀ j mj, j ≠ i → s.meshes[j]? = some mj →
        (mapRebind g (mapRebind f s i) i).meshes[j]? = some mj ∧
        coords (mapRebind g (mapRebind f s i) i).heap mj = coords s.heap mj) := by
  obtain ⟨_, ⟨m1, a2, a3, a4, a5, a6, _⟩, a7⟩ := mapRebind_spec f s i m hm hwf
  obtain ⟨_, ⟨m2, b2, b3, b4, b5, b6, _⟩, b7⟩ := mapRebind_spec g (mapRebind f s i) i m1 a2 (wf_mapRebind f s i hwf)
  refine ⟨m2, b2, by rw [b3, a3]; exact map_map_id hfg _, by rw [b4, a4], by rw [b5, a5], by rw [b6, a6], ?_⟩
  intro j mj hji hj
  obtain ⟨c1, c2⟩ := a7 j mj hji hj
  obtain ⟨d1, d2⟩ := b7 j mj hji c1
  exact ⟨d1, by rw [d2, c2]⟩

/-- P0: `translate(t)` then `translate(-t)` restores the coordinates -/
theorem translate_round_trip (t : V3) (s : State) (i : Nat) (m : Mesh) (hm : s.meshes[i]? = some m) (hwf : WF s) :
    ∃ m2, (translate t.neg (translate t s i) i).meshes[i]? = some m2 ∧
      coords (translate t.neg (translate t s i) i).heap m2 = coords s.heap m := by
  obtain ⟨m2, h1, h2, _⟩ := rebind_round_trip (fun p => p.add t) (fun p => p.add t.neg) (translate_inv t) s i m hm hwf
  exact ⟨m2, h1, h2⟩

/-- P0: `scale(k)` then `scale(1/k)` (same fixed point, `k ≠ 0`) restores the coordinates -/
theorem scale_round_trip (k : Rat) (hk : k ≠ 0) (o : V3) (s : State) (i : Nat) (m : Mesh) (hm : s.meshes[i]? = some m) (hwf : WF s) :
    ∃ m2, (scale (1 / k) o (scale k o s i) i).meshes[i]? = some m2 ∧
      coords (scale (1 / k) o (scale k o s i) i).heap m2 = coords s.heap m := by
  obtain ⟨m2, h1, h2, _⟩ := rebind_round_trip (scaleMap k o) (scaleMap (1 / k) o) (scale_inv k hk o) s i m hm hwf
  exact ⟨m2, h1, h2⟩

/-- P0: `rotate(R)` then `rotate(Rᵀ)` (same origin, `RᵀR = I`) restores the coordinates -/
theorem rotate_round_trip (r : M3) (hr : Ortho r) (o : V3) (s : State) (i : Nat) (m : Mesh) (hm : s.meshes[i]? = some m) (hwf : WF s) :
    ∃ m2, (rotate r.transpose o (rotate r o s i) i).meshes[i]? = some m2 ∧
      coords (rotate r.transpose o (rotate r o s i) i).heap m2 = coords s.heap m := by
  obtain ⟨m2, h1, h2, _⟩ := rebind_round_trip (rotateMap r o) (rotateMap r.transpose o) (rotate_inv r hr o) s i m hm hwf
  exact ⟨m2, h1, h2⟩

/-- rotations are isometries: squared distances between vertices are preserved exactly -/
theorem rotate_preserves_sqdist (r : M3) (hr : Ortho r) (o p q : V3) :
    ((rotateMap r o p).sub (rotateMap r o q)).dot ((rotateMap r o p).sub (rotateMap r o q)) = (p.sub q).dot (p.sub q) :=
  rotate_isometry r hr o p q

/-! ## P1: normalising -/

/-- P1 `normalize_bbox`: for a mesh whose bounding box is not a point, `normalize` leaves the box centred at the origin
with largest extent 2 (`center_at_zero=True`) or anchored at the origin with largest extent 1 (`False`,
= `fit_into_unit_cube`), and changes no other mesh -/
theorem normalize_bbox (centered : Bool) (s : State) (i : Nat) (m : Mesh) (hm : s.meshes[i]? = some m) (hwf : WF s)
    (hne : m.verts ≠ []) (hs : 0 < maxSpan (coords s.heap m)) :
    ∃ m2, (normalize centered s i).meshes[i]? = some m2 ∧
      (centered = true → center (coords (normalize centered s i).heap m2) = V3.zero ∧
                          maxSpan (coords (normalize centered s i).heap m2) = 2) ∧
      (centered = false → bbMin (coords (normalize centered s i).heap m2) = V3.zero ∧
                           maxSpan (coords (normalize centered s i).heap m2) = 1) ∧
      (∀ j mj, j ≠ i → s.meshes[j]? = some mj →
        (normalize centered s i).meshes[j]? = some mj ∧ coords (normalize centered s i).heap mj = coords s.heap mj) := by
  have hcs : coords s.heap m ≠ [] := by simpa [coords] using hne
  cases centered with
  | true =>
    simp only [normalize, hm, if_true]
    obtain ⟨_, ⟨m1, a2, a3, _⟩, a7⟩ := mapRebind_spec (fun p => p.add (center (coords s.heap m)).neg) s i m hm hwf
    obtain ⟨_, ⟨m2, b2, b3, _⟩, b7⟩ := mapRebind_spec (scaleMap (2 * (1 / maxSpan (coords s.heap m))) V3.zero)
      (mapRebind (fun p => p.add (center (coords s.heap m)).neg) s i) i m1 a2 (wf_mapRebind _ s i hwf)
    refine ⟨m2, b2, ?_, (fun h => by cases h), ?_⟩
    · intro _
      have : coords (scale (2 * (1 / maxSpan (coords s.heap m))) V3.zero (translate (center (coords s.heap m)).neg s i) i).heap m2
          = (coords s.heap m).map (affine (2 * (1 / maxSpan (coords s.heap m))) (center (coords s.heap m))) := by
        show coords (mapRebind _ (mapRebind _ s i) i).heap m2 = _
        rw [b3, a3]; exact normalize_centered_map _
      rw [this]; exact bbox_normalize_centered _ hcs hs
    · intro j mj hji hj
      obtain ⟨c1, c2⟩ := a7 j mj hji hj
      obtain ⟨d1, d2⟩ := b7 j mj hji c1
      exact ⟨d1, by rw [← c2]; exact d2⟩
  | false =>
    simp only [normalize, hm, Bool.false_eq_true, if_false]
    obtain ⟨_, ⟨m1, a2, a3, _⟩, a7⟩ := mapRebind_spec (fun p => p.add (bbMin (coords s.heap m)).neg) s i m hm hwf
    obtain ⟨_, ⟨m2, b2, b3, _⟩, b7⟩ := mapRebind_spec (scaleMap (1 / maxSpan (coords s.heap m)) V3.zero)
      (mapRebind (fun p => p.add (bbMin (coords s.heap m)).neg) s i) i m1 a2 (wf_mapRebind _ s i hwf)
    refine ⟨m2, b2, (fun h => by cases h), ?_, ?_⟩
    · intro _
      have : coords (scale (1 / maxSpan (coords s.heap m)) V3.zero (translate (bbMin (coords s.heap m)).neg s i) i).heap m2
          = (coords s.heap m).map (affine (1 / maxSpan (coords s.heap m)) (bbMin (coords s.heap m))) := by
        show coords (mapRebind _ (mapRebind _ s i) i).heap m2 = _
        rw [b3, a3]; exact normalize_anchored_map _
      rw [this]; exact bbox_normalize_anchored _ hcs hs
    · intro j mj hji hj
      obtain ⟨c1, c2⟩ := a7 j mj hji hj
      obtain ⟨d1, d2⟩ := b7 j mj hji c1
      exact ⟨d1, by rw [← c2]; exact d2⟩

/-! ## the pre-repair code, refuted on a witness (P1 `merge_alias_free`) -/

/-- one segment mesh, merged with itself the way `merge` was written (shared references), then translated the way
`translate` was written (in place): the INPUT mesh has moved, and by TWICE the vector -/
def legacyWitness : State :=
  legacyTranslate ⟨1, 0, 0⟩ (legacyMerge (newMesh init [⟨0, 0, 0⟩, ⟨0, 1, 0⟩] [[0, 1]] [] []) [0, 0]) 1

theorem legacy_merge_aliases :
    ¬ NoShare (legacyMerge (newMesh init [⟨0, 0, 0⟩, ⟨0, 1, 0⟩] [[0, 1]] [] []) [0, 0]).meshes ∧
    (legacyWitness.meshes[0]?.map (coords legacyWitness.heap)) = some [⟨2, 0, 0⟩, ⟨2, 1, 0⟩] := by
  constructor
  · intro h
    have := h 0 1 ⟨[0, 1], [[0, 1]], [], []⟩ ⟨[0, 1, 0, 1], [[0, 1], [2, 3]], [], []⟩ 0 0 0 rfl rfl rfl rfl
    omega
  · decide +kernel

/-- the repaired code on the same history: the input stays where it was and the merged mesh moved once -/
example :
    let s := translate ⟨1, 0, 0⟩ (mergeMeshes (newMesh init [⟨0, 0, 0⟩, ⟨0, 1, 0⟩] [[0, 1]] [] []) [0, 0]) 1
    s.meshes.map (coords s.heap) = [[⟨0, 0, 0⟩, ⟨0, 1, 0⟩], [⟨1, 0, 0⟩, ⟨1, 1, 0⟩, ⟨1, 0, 0⟩, ⟨1, 1, 0⟩]] := by
  decide +kernel

/-- non-vacuity of `Ortho`: the 3-4-5 rotation about z -/
example : Ortho ⟨⟨3/5, -4/5, 0⟩, ⟨4/5, 3/5, 0⟩, ⟨0, 0, 1⟩⟩ := by
  unfold Ortho; simp only [M3.transpose, V3.dot]; norm_num

end Mouette.Props.C06
