import Mouette.Lemmas.MeshHeap
import Mouette.Lemmas.MeshAlgebra
import Mouette.Lemmas.MeshBBox
import Mouette.Lemmas.MeshCopy
import Mouette.Generated.C06
/-
C06 — meshes have value semantics: copy, merge and transforms never alias.

Model: `Mouette.MeshHeap` (Model/MeshHeap.lean): meshes are lists of references into a heap of `Rat³` cells;
`mesh.vertices[i] = e` rebinds (fresh cell), `mesh.vertices[i][c] = x` updates in place.
`WF` = every reference points into the heap; `AliasFree` = `WF` and no reference is listed twice anywhere in the state.
All theorems hold for EVERY state / mesh / parameter; `alias_free_run` for every operation sequence.
-/
namespace Mouette.Props.C06
open Mouette.MeshHeap

/-! ## copy -/

/-- P0 `copy_equal_disjoint`: the copy has the coordinates, elements and class of its source, lives in FRESH cells
(distinct from every reference of every existing mesh, pairwise distinct), and no existing mesh changes -/
theorem copy_equal_disjoint (s : State) (i : Nat) (m : Mesh) (hm : s.meshes[i]? = some m) (hwf : WF s) :
    ∃ m', (copyMesh s i).meshes = s.meshes ++ [m'] ∧
      coords (copyMesh s i).heap m' = coords s.heap m ∧
      m'.edges = m.edges ∧ m'.faces = m.faces ∧ m'.cells = m.cells ∧ m'.dim = m.dim ∧
      (∀ r ∈ m'.verts, s.heap.length ≤ r ∧ ∀ m0 ∈ s.meshes, r ∉ m0.verts) ∧ m'.verts.Nodup ∧
      (∀ m0 ∈ s.meshes, coords (copyMesh s i).heap m0 = coords s.heap m0) := by
  obtain ⟨m', h1, h2, h3, h4, h5, h6, _, h8⟩ := newMesh_spec s (coords s.heap m) m.edges m.faces m.cells hwf
  simp only [copyMesh, hm]
  refine ⟨m', h1, h5, h2, h3, h4, by simp only [Mesh.dim, h2, h3, h4], ?_, ?_, h8⟩
  · intro r hr
    rw [h6] at hr
    have := mem_range'_iff.mp hr
    exact ⟨this.1, fun m0 hm0 hin => by have := hwf m0 hm0 r hin; omega⟩
  · rw [h6]; exact List.nodup_range'

/-! ## merge -/

/-- P0 `merge_is_disjoint_union`: the merged mesh holds the concatenated coordinates of its inputs in FRESH cells
(also when the same mesh is listed twice), its elements are the inputs' elements shifted by the running vertex count,
its class is the maximum of the input classes, and no existing mesh changes -/
theorem merge_is_disjoint_union (s : State) (ids : List Nat) (ms : List Mesh)
    (hl : lookupAll s.meshes ids = some ms) (hwf : WF s) :
    ∃ m', (mergeMeshes s ids).meshes = s.meshes ++ [m'] ∧
      coords (mergeMeshes s ids).heap m' = ms.flatMap (coords s.heap) ∧
      m'.verts.length = totalVerts ms ∧
      m'.edges = shiftedFrom (·.edges) 0 ms ∧ m'.faces = shiftedFrom (·.faces) 0 ms ∧ m'.cells = shiftedFrom (·.cells) 0 ms ∧
      (∀ m ∈ ms, m.dim ≤ m'.dim) ∧ (ms ≠ [] → ∃ m ∈ ms, m.dim = m'.dim) ∧
      (∀ r ∈ m'.verts, s.heap.length ≤ r ∧ ∀ m0 ∈ s.meshes, r ∉ m0.verts) ∧ m'.verts.Nodup ∧
      (∀ m0 ∈ s.meshes, coords (mergeMeshes s ids).heap m0 = coords s.heap m0) := by
  obtain ⟨a1, a2, a3, a4, _⟩ := mergeLoop_spec (coords s.heap) ms
  obtain ⟨m', h1, h2, h3, h4, h5, h6, _, h8⟩ := newMesh_spec s (mergeLoop (coords s.heap) ms).verts
    (mergeLoop (coords s.heap) ms).edges (mergeLoop (coords s.heap) ms).faces (mergeLoop (coords s.heap) ms).cells hwf
  simp only [mergeMeshes, hl]
  have he : m'.edges = shiftedFrom (·.edges) 0 ms := by rw [h2, a2]
  have hf : m'.faces = shiftedFrom (·.faces) 0 ms := by rw [h3, a3]
  have hc : m'.cells = shiftedFrom (·.cells) 0 ms := by rw [h4, a4]
  have ce : m'.edges = [] ↔ ∀ m ∈ ms, m.edges = [] := by rw [he]; exact shiftedFrom_eq_nil _ ms 0
  have cf : m'.faces = [] ↔ ∀ m ∈ ms, m.faces = [] := by rw [hf]; exact shiftedFrom_eq_nil _ ms 0
  have cc : m'.cells = [] ↔ ∀ m ∈ ms, m.cells = [] := by rw [hc]; exact shiftedFrom_eq_nil _ ms 0
  refine ⟨m', h1, by rw [h5, a1], by rw [h6, a1, length_flatMap_coords, List.length_range'], he, hf, hc, ?_, ?_, ?_, ?_, h8⟩
  · intro m hm
    unfold Mesh.dim
    by_cases c' : m'.cells = []
    · have cm := (cc.mp c') m hm
      by_cases f' : m'.faces = []
      · have fm := (cf.mp f') m hm
        by_cases e' : m'.edges = []
        · have em := (ce.mp e') m hm
          simp [c', cm, f', fm, e', em]
        · simp [c', cm, f', fm, e']; split <;> omega
      · simp [c', cm, f']; split <;> (try split) <;> omega
    · simp [c']; split <;> (try split) <;> (try split) <;> omega
  · intro hne
    by_cases c' : m'.cells = []
    · by_cases f' : m'.faces = []
      · by_cases e' : m'.edges = []
        · obtain ⟨m, hm⟩ := List.exists_mem_of_ne_nil ms hne
          exact ⟨m, hm, by simp [Mesh.dim, c', f', e', (cc.mp c') m hm, (cf.mp f') m hm, (ce.mp e') m hm]⟩
        · have : ¬ ∀ m ∈ ms, m.edges = [] := fun h => e' (ce.mpr h)
          simp only [not_forall] at this
          obtain ⟨m, hm, hme⟩ := this
          exact ⟨m, hm, by simp [Mesh.dim, c', f', e', (cc.mp c') m hm, (cf.mp f') m hm, hme]⟩
      · have : ¬ ∀ m ∈ ms, m.faces = [] := fun h => f' (cf.mpr h)
        simp only [not_forall] at this
        obtain ⟨m, hm, hmf⟩ := this
        exact ⟨m, hm, by simp [Mesh.dim, c', f', (cc.mp c') m hm, hmf]⟩
    · have : ¬ ∀ m ∈ ms, m.cells = [] := fun h => c' (cc.mpr h)
      simp only [not_forall] at this
      obtain ⟨m, hm, hmc⟩ := this
      exact ⟨m, hm, by simp [Mesh.dim, c', hmc]⟩
  · intro r hr
    rw [h6] at hr
    have := mem_range'_iff.mp hr
    exact ⟨this.1, fun m0 hm0 hin => by have := hwf m0 hm0 r hin; omega⟩
  · rw [h6]; exact List.nodup_range'

/-- P0 `merge_indices_in_block`: when every input's elements index its own vertices, every index of every merged element
lies in `[offset, offset + total)` — in particular the merged elements index the merged vertices -/
theorem merge_indices_in_block (sel : Mesh → List (List Nat)) (ms : List Mesh) (off : Nat)
    (hv : ∀ m ∈ ms, ∀ e ∈ sel m, ∀ u ∈ e, u < m.verts.length) :
    ∀ e ∈ shiftedFrom sel off ms, ∀ u ∈ e, off ≤ u ∧ u < off + totalVerts ms :=
  shiftedFrom_block sel ms off hv

/-! ## transforms -/

/-- the rebinding transforms of transform.py are instances of one loop -/
theorem transforms_are_rebinding (t o : V3) (k fx fy fz : Rat) (r : M3) :
    translate t = mapRebind (fun p => p.add t) ∧ scale k o = mapRebind (scaleMap k o) ∧
    scaleXyz fx fy fz o = mapRebind (scaleXyzMap fx fy fz o) ∧ rotate r o = mapRebind (rotateMap r o) ∧
    (∀ d, flatten d = mapRebind (fun p => p.set d 0)) :=
  ⟨rfl, rfl, rfl, rfl, fun _ => rfl⟩

/-- P0 `transform_exact`: a rebinding transform (translate, scale, scale_xyz, rotate: any map `f`) applied to mesh `i`
moves EVERY vertex of mesh `i` EXACTLY ONCE by `f` — even if the mesh lists a reference twice or shares references with
other meshes — keeps its elements, and changes NO other mesh. No alias-freedom hypothesis is needed. -/
theorem transform_exact (f : V3 → V3) (s : State) (i : Nat) (m : Mesh) (hm : s.meshes[i]? = some m) (hwf : WF s) :
    (mapRebind f s i).meshes.length = s.meshes.length ∧
    (∃ m', (mapRebind f s i).meshes[i]? = some m' ∧ coords (mapRebind f s i).heap m' = (coords s.heap m).map f ∧
        m'.edges = m.edges ∧ m'.faces = m.faces ∧ m'.cells = m.cells) ∧
    (∀ j mj, j ≠ i → s.meshes[j]? = some mj →
        (mapRebind f s i).meshes[j]? = some mj ∧ coords (mapRebind f s i).heap mj = coords s.heap mj) := by
  obtain ⟨h1, ⟨m', h2, h3, h4, h5, h6, _⟩, h7⟩ := mapRebind_spec f s i m hm hwf
  exact ⟨h1, ⟨m', h2, h3, h4, h5, h6⟩, h7⟩

/-- P0 `inplace_exact`: an in-place transform (`flatten`; the pre-repair `translate`) applied to mesh `i` of an
ALIAS-FREE state maps every vertex of mesh `i` exactly once and changes no other mesh -/
theorem inplace_exact (f : V3 → V3) (s : State) (i : Nat) (m : Mesh) (hm : s.meshes[i]? = some m) (haf : AliasFree s) :
    (mapInPlace f s i).meshes = s.meshes ∧
    coords (mapInPlace f s i).heap m = (coords s.heap m).map f ∧
    (∀ j mj, j ≠ i → s.meshes[j]? = some mj → coords (mapInPlace f s i).heap mj = coords s.heap mj) :=
  mapInPlace_spec f s i m hm haf

/-- editing one coordinate of one vertex of one mesh of an alias-free state changes exactly that vertex -/
theorem edit_isolated (s : State) (i v c : Nat) (x : Rat) (m : Mesh) (r : Nat) (hm : s.meshes[i]? = some m)
    (hv : m.verts[v]? = some r) (haf : AliasFree s) :
    (editVertex s i v c x).meshes = s.meshes ∧
    (∀ j mj b rb, s.meshes[j]? = some mj → mj.verts[b]? = some rb → (j ≠ i ∨ b ≠ v) →
        deref (editVertex s i v c x).heap rb = deref s.heap rb) ∧
    deref (editVertex s i v c x).heap r = (deref s.heap r).set c x :=
  editVertex_spec s i v c x m r hm hv haf

/-- every operation preserves alias freedom … -/
theorem alias_free_step (s : State) (op : Op) (haf : AliasFree s) : AliasFree (step s op) := by
  cases op with
  | new vs e f c => exact aliasFree_newMesh s vs e f c haf
  | copy i =>
    simp only [step, copyMesh]
    cases s.meshes[i]? with
    | none => exact haf
    | some m => exact aliasFree_newMesh s _ _ _ _ haf
  | merge ids =>
    simp only [step, mergeMeshes]
    cases lookupAll s.meshes ids with
    | none => exact haf
    | some ms => exact aliasFree_newMesh s _ _ _ _ haf
  | translate i t => exact aliasFree_mapRebind _ s i haf
  | scale i k o => exact aliasFree_mapRebind _ s i haf
  | scaleXyz i fx fy fz o => exact aliasFree_mapRebind _ s i haf
  | rotate i r o => exact aliasFree_mapRebind _ s i haf
  | flatten i d => exact aliasFree_mapRebind _ s i haf
  | normalize i c =>
    simp only [step, normalize]
    cases s.meshes[i]? with
    | none => exact haf
    | some m =>
      simp only
      split
      · exact aliasFree_mapRebind _ _ i (aliasFree_mapRebind _ s i haf)
      · exact aliasFree_mapRebind _ _ i (aliasFree_mapRebind _ s i haf)
  | toOrigin i =>
    simp only [step, translateToOrigin]
    cases s.meshes[i]? with
    | none => exact haf
    | some m => exact aliasFree_mapRebind _ s i haf
  | edit i v c x => exact aliasFree_editVertex s i v c x haf

/-- P0 `alias_free_run`: … hence after EVERY operation sequence (new / copy / merge with repeated inputs / transforms /
in-place edits) no two vertex entries of any meshes share a cell -/
theorem alias_free_run (ops : List Op) : AliasFree (run init ops) := by
  have h0 : AliasFree init := ⟨(fun m hm => by cases hm), (fun i j mi mj a b r hi => by simp [init] at hi)⟩
  suffices ∀ s, AliasFree s → AliasFree (run s ops) from this init h0
  induction ops with
  | nil => intro s h; exact h
  | cons op ops ih => intro s h; exact ih _ (alias_free_step s op h)

/-! ## round trips over `Rat` -/

/-- two rebinding transforms whose maps are inverse restore the coordinates of mesh `i` and leave the others alone -/
theorem rebind_round_trip (f g : V3 → V3) (hfg : ∀ p, g (f p) = p) (s : State) (i : Nat) (m : Mesh)
    (hm : s.meshes[i]? = some m) (hwf : WF s) :
    ∃ m2, (mapRebind g (mapRebind f s i) i).meshes[i]? = some m2 ∧
      coords (mapRebind g (mapRebind f s i) i).heap m2 = coords s.heap m ∧
      m2.edges = m.edges ∧ m2.faces = m.faces ∧ m2.cells = m.cells ∧
      (∀ j mj, j ≠ i → s.meshes[j]? = some mj →
        (mapRebind g (mapRebind f s i) i).meshes[j]? = some mj ∧
        coords (mapRebind g (mapRebind f s i) i).heap mj = coords s.heap mj) := by
  obtain ⟨_, ⟨m1, a2, a3, a4, a5, a6, _⟩, a7⟩ := mapRebind_spec f s i m hm hwf
  obtain ⟨_, ⟨m2, b2, b3, b4, b5, b6, _⟩, b7⟩ := mapRebind_spec g (mapRebind f s i) i m1 a2 (wf_mapRebind f s i hwf)
  refine ⟨m2, b2, by rw [b3, a3]; exact map_map_id hfg _, by rw [b4, a4], by rw [b5, a5], by rw [b6, a6], ?_⟩
  intro j mj hji hj
  obtain ⟨c1, c2⟩ := a7 j mj hji hj
  obtain ⟨d1, d2⟩ := b7 j mj hji c1
  exact ⟨d1, by rw [d2, c2]⟩

/-- P0: `translate(t)` then `translate(-t)` restores the coordinates -/
theorem translate_round_trip (t : V3) (s : State) (i : Nat) (m : Mesh) (hm : s.meshes[i]? = some m) (hwf : WF s) :
    ∃ m2, (translate t.neg (translate t s i) i).meshes[i]? = some m2 ∧
      coords (translate t.neg (translate t s i) i).heap m2 = coords s.heap m := by
  obtain ⟨m2, h1, h2, _⟩ := rebind_round_trip (fun p => p.add t) (fun p => p.add t.neg) (translate_inv t) s i m hm hwf
  exact ⟨m2, h1, h2⟩

/-- P0: `scale(k)` then `scale(1/k)` (same fixed point, `k ≠ 0`) restores the coordinates -/
theorem scale_round_trip (k : Rat) (hk : k ≠ 0) (o : V3) (s : State) (i : Nat) (m : Mesh) (hm : s.meshes[i]? = some m) (hwf : WF s) :
    ∃ m2, (scale (1 / k) o (scale k o s i) i).meshes[i]? = some m2 ∧
      coords (scale (1 / k) o (scale k o s i) i).heap m2 = coords s.heap m := by
  obtain ⟨m2, h1, h2, _⟩ := rebind_round_trip (scaleMap k o) (scaleMap (1 / k) o) (scale_inv k hk o) s i m hm hwf
  exact ⟨m2, h1, h2⟩

/-- P0: `rotate(R)` then `rotate(Rᵀ)` (same origin, `RᵀR = I`) restores the coordinates -/
theorem rotate_round_trip (r : M3) (hr : Ortho r) (o : V3) (s : State) (i : Nat) (m : Mesh) (hm : s.meshes[i]? = some m) (hwf : WF s) :
    ∃ m2, (rotate r.transpose o (rotate r o s i) i).meshes[i]? = some m2 ∧
      coords (rotate r.transpose o (rotate r o s i) i).heap m2 = coords s.heap m := by
  obtain ⟨m2, h1, h2, _⟩ := rebind_round_trip (rotateMap r o) (rotateMap r.transpose o) (rotate_inv r hr o) s i m hm hwf
  exact ⟨m2, h1, h2⟩

/-- rotations are isometries: squared distances between vertices are preserved exactly -/
theorem rotate_preserves_sqdist (r : M3) (hr : Ortho r) (o p q : V3) :
    ((rotateMap r o p).sub (rotateMap r o q)).dot ((rotateMap r o p).sub (rotateMap r o q)) = (p.sub q).dot (p.sub q) :=
  rotate_isometry r hr o p q

/-! ## P1: normalising -/

/-- P1 `normalize_bbox`: for a mesh whose bounding box is not a point, `normalize` leaves the box centred at the origin
with largest extent 2 (`center_at_zero=True`) or anchored at the origin with largest extent 1 (`False`,
= `fit_into_unit_cube`), and changes no other mesh -/
theorem normalize_bbox (centered : Bool) (s : State) (i : Nat) (m : Mesh) (hm : s.meshes[i]? = some m) (hwf : WF s)
    (hne : m.verts ≠ []) (hs : 0 < maxSpan (coords s.heap m)) :
    ∃ m2, (normalize centered s i).meshes[i]? = some m2 ∧
      (centered = true → center (coords (normalize centered s i).heap m2) = V3.zero ∧
                          maxSpan (coords (normalize centered s i).heap m2) = 2) ∧
      (centered = false → bbMin (coords (normalize centered s i).heap m2) = V3.zero ∧
                           maxSpan (coords (normalize centered s i).heap m2) = 1) ∧
      (∀ j mj, j ≠ i → s.meshes[j]? = some mj →
        (normalize centered s i).meshes[j]? = some mj ∧ coords (normalize centered s i).heap mj = coords s.heap mj) := by
  have hcs : coords s.heap m ≠ [] := by simpa [coords] using hne
  cases centered with
  | true =>
    simp only [normalize, hm, if_true]
    obtain ⟨_, ⟨m1, a2, a3, _⟩, a7⟩ := mapRebind_spec (fun p => p.add (center (coords s.heap m)).neg) s i m hm hwf
    obtain ⟨_, ⟨m2, b2, b3, _⟩, b7⟩ := mapRebind_spec (scaleMap (2 * (1 / maxSpan (coords s.heap m))) V3.zero)
      (mapRebind (fun p => p.add (center (coords s.heap m)).neg) s i) i m1 a2 (wf_mapRebind _ s i hwf)
    refine ⟨m2, b2, ?_, (fun h => by cases h), ?_⟩
    · intro _
      have : coords (scale (2 * (1 / maxSpan (coords s.heap m))) V3.zero (translate (center (coords s.heap m)).neg s i) i).heap m2
          = (coords s.heap m).map (affine (2 * (1 / maxSpan (coords s.heap m))) (center (coords s.heap m))) := by
        show coords (mapRebind _ (mapRebind _ s i) i).heap m2 = _
        rw [b3, a3]; exact normalize_centered_map _
      rw [this]; exact bbox_normalize_centered _ hcs hs
    · intro j mj hji hj
      obtain ⟨c1, c2⟩ := a7 j mj hji hj
      obtain ⟨d1, d2⟩ := b7 j mj hji c1
      exact ⟨d1, by rw [← c2]; exact d2⟩
  | false =>
    simp only [normalize, hm, Bool.false_eq_true, if_false]
    obtain ⟨_, ⟨m1, a2, a3, _⟩, a7⟩ := mapRebind_spec (fun p => p.add (bbMin (coords s.heap m)).neg) s i m hm hwf
    obtain ⟨_, ⟨m2, b2, b3, _⟩, b7⟩ := mapRebind_spec (scaleMap (1 / maxSpan (coords s.heap m)) V3.zero)
      (mapRebind (fun p => p.add (bbMin (coords s.heap m)).neg) s i) i m1 a2 (wf_mapRebind _ s i hwf)
    refine ⟨m2, b2, (fun h => by cases h), ?_, ?_⟩
    · intro _
      have : coords (scale (1 / maxSpan (coords s.heap m)) V3.zero (translate (bbMin (coords s.heap m)).neg s i) i).heap m2
          = (coords s.heap m).map (affine (1 / maxSpan (coords s.heap m)) (bbMin (coords s.heap m))) := by
        show coords (mapRebind _ (mapRebind _ s i) i).heap m2 = _
        rw [b3, a3]; exact normalize_anchored_map _
      rw [this]; exact bbox_normalize_anchored _ hcs hs
    · intro j mj hji hj
      obtain ⟨c1, c2⟩ := a7 j mj hji hj
      obtain ⟨d1, d2⟩ := b7 j mj hji c1
      exact ⟨d1, by rw [← c2]; exact d2⟩

/-! ## the pre-repair code, refuted on a witness (P1 `merge_alias_free`) -/

/-- one segment mesh, merged with itself the way `merge` was written (shared references), then translated the way
`translate` was written (in place): the INPUT mesh has moved, and by TWICE the vector -/
def legacyWitness : State :=
  legacyTranslate ⟨1, 0, 0⟩ (legacyMerge (newMesh init [⟨0, 0, 0⟩, ⟨0, 1, 0⟩] [[0, 1]] [] []) [0, 0]) 1

theorem legacy_merge_aliases :
    ¬ NoShare (legacyMerge (newMesh init [⟨0, 0, 0⟩, ⟨0, 1, 0⟩] [[0, 1]] [] []) [0, 0]).meshes ∧
    (legacyWitness.meshes[0]?.map (coords legacyWitness.heap)) = some [⟨2, 0, 0⟩, ⟨2, 1, 0⟩] := by
  constructor
  · intro h
    have := h 0 1 ⟨[0, 1], [[0, 1]], [], []⟩ ⟨[0, 1, 0, 1], [[0, 1], [2, 3]], [], []⟩ 0 0 0 rfl rfl rfl rfl
    omega
  · decide +kernel

/-- the repaired code on the same history: the input stays where it was and the merged mesh moved once -/
example :
    let s := translate ⟨1, 0, 0⟩ (mergeMeshes (newMesh init [⟨0, 0, 0⟩, ⟨0, 1, 0⟩] [[0, 1]] [] []) [0, 0]) 1
    s.meshes.map (coords s.heap) = [[⟨0, 0, 0⟩, ⟨0, 1, 0⟩], [⟨1, 0, 0⟩, ⟨1, 1, 0⟩, ⟨1, 0, 0⟩, ⟨1, 1, 0⟩]] := by
  decide +kernel

/-- non-vacuity of `Ortho`: the 3-4-5 rotation about z -/
example : Ortho ⟨⟨3/5, -4/5, 0⟩, ⟨4/5, 3/5, 0⟩, ⟨0, 0, 1⟩⟩ := by
  unfold Ortho; simp only [M3.transpose, V3.dot]; norm_num

/-! ## round 2: copy switches, mixed-kind merges, rotations about an origin, anisotropic scalings

Extended model `Mouette.MeshHeap.stepX` (Model/MeshCopy.lean): per mesh one vertex attribute `"w"` (one heap cell per row)
and the identity / back-reference of its connectivity handler. -/

/-- P0 `copy_switches`: `copy(mesh, copy_attributes, copy_connectivity)`: coordinates and elements as in
`copy_equal_disjoint`; the attribute rows are those of the source iff `copy_attributes` (none otherwise), in FRESH cells;
for BOTH values of `copy_connectivity` the copy owns a NEW connectivity handler whose back-reference is the copy; no
existing mesh / attribute changes -/
theorem copy_switches (s : StateX) (i : Nat) (attrs conn : Bool) (m : Mesh) (e : MeshX)
    (hm : s.st.meshes[i]? = some m) (he : s.extras[i]? = some e) (hwf : WF s.st) (hawf : AttrWF s) :
    ∃ m' e', (stepX s (.copyX i attrs conn)).st.meshes = s.st.meshes ++ [m'] ∧
      (stepX s (.copyX i attrs conn)).extras = s.extras ++ [e'] ∧
      coords (stepX s (.copyX i attrs conn)).st.heap m' = coords s.st.heap m ∧
      m'.edges = m.edges ∧ m'.faces = m.faces ∧ m'.cells = m.cells ∧
      attrRows (stepX s (.copyX i attrs conn)).st.heap e' = (if attrs then attrRows s.st.heap e else none) ∧
      (∀ r ∈ m'.verts, s.st.heap.length ≤ r) ∧ (∀ refs, e'.attr = some refs → ∀ r ∈ refs, s.st.heap.length ≤ r) ∧
      e'.conn = s.conns.length ∧
      (stepX s (.copyX i attrs conn)).conns = s.conns ++ [{ master := s.st.meshes.length }] ∧
      (∀ m0 ∈ s.st.meshes, coords (stepX s (.copyX i attrs conn)).st.heap m0 = coords s.st.heap m0) ∧
      (∀ e0 ∈ s.extras, attrRows (stepX s (.copyX i attrs conn)).st.heap e0 = attrRows s.st.heap e0) := by
  obtain ⟨m', h1, h2, h3, h4, h5, h6, h7, h8⟩ := newMesh_spec s.st (coords s.st.heap m) m.edges m.faces m.cells hwf
  have hcm : copyMesh s.st i = newMesh s.st (coords s.st.heap m) m.edges m.faces m.cells := by simp only [copyMesh, hm]
  have hfresh : ∀ r ∈ m'.verts, s.st.heap.length ≤ r ∧ r < (copyMesh s.st i).heap.length := by
    intro r hr; rw [h6] at hr; have := mem_range'_iff.mp hr
    rw [hcm, h7, List.length_append]; omega
  have hplain : ∀ (hx : attrs = false ∨ e.attr = none),
      (∃ m' e', (pushPlain s (copyMesh s.st i)).st.meshes = s.st.meshes ++ [m'] ∧
      (pushPlain s (copyMesh s.st i)).extras = s.extras ++ [e'] ∧
      coords (pushPlain s (copyMesh s.st i)).st.heap m' = coords s.st.heap m ∧
      m'.edges = m.edges ∧ m'.faces = m.faces ∧ m'.cells = m.cells ∧
      attrRows (pushPlain s (copyMesh s.st i)).st.heap e' = (if attrs then attrRows s.st.heap e else none) ∧
      (∀ r ∈ m'.verts, s.st.heap.length ≤ r) ∧ (∀ refs, e'.attr = some refs → ∀ r ∈ refs, s.st.heap.length ≤ r) ∧
      e'.conn = s.conns.length ∧
      (pushPlain s (copyMesh s.st i)).conns = s.conns ++ [{ master := s.st.meshes.length }] ∧
      (∀ m0 ∈ s.st.meshes, coords (pushPlain s (copyMesh s.st i)).st.heap m0 = coords s.st.heap m0) ∧
      (∀ e0 ∈ s.extras, attrRows (pushPlain s (copyMesh s.st i)).st.heap e0 = attrRows s.st.heap e0)) := by
    intro hx
    refine ⟨m', { attr := none, conn := s.conns.length }, (by simp only [pushPlain, hcm]; exact h1), rfl,
      (by simp only [pushPlain, hcm]; exact h5), h2, h3, h4, ?_, (fun r hr => (hfresh r hr).1), (fun refs h => by cases h), rfl, rfl,
      (by simp only [pushPlain, hcm]; exact h8), ?_⟩
    · rcases hx with hx | hx
      · simp [hx, attrRows]
      · simp [attrRows, hx]
    · intro e0 he0; simp only [pushPlain, hcm, h7]
      exact attrRows_append _ _ e0 (hawf e0 he0)
  simp only [stepX, copyX, hm, he]
  cases hat : e.attr with
  | none => simp only; exact hplain (Or.inr hat)
  | some refs =>
    cases attrs with
    | false => simp only; exact hplain (Or.inl rfl)
    | true =>
      simp only [alloc]
      have hrl : ∀ r ∈ refs, r < s.st.heap.length := hawf e (List.mem_of_getElem? he) refs hat
      have hst1 : (copyMesh s.st i).heap = s.st.heap ++ coords s.st.heap m := by rw [hcm]; exact h7
      refine ⟨m', { attr := some (List.range' (copyMesh s.st i).heap.length (refs.map (deref s.st.heap)).length), conn := s.conns.length },
        (by simp only [hcm]; exact h1), (by first | trivial | rfl), ?_, h2, h3, h4, ?_, (fun r hr => (hfresh r hr).1), ?_, (by first | trivial | rfl), (by first | trivial | rfl), ?_, ?_⟩
      · rw [coords_append _ _ (fun r hr => (hfresh r hr).2)]; rw [hcm]; exact h5
      · simp only [attrRows, Option.map_some, if_true, hat]
        rw [map_deref_range]
      · intro refs' h r hr
        simp only [Option.some.injEq] at h; rw [← h] at hr
        have := mem_range'_iff.mp hr
        rw [hst1, List.length_append] at this; omega
      · intro m0 hm0
        rw [coords_append _ _ (fun r hr => by rw [hst1, List.length_append]; have := hwf m0 hm0 r hr; omega)]
        rw [hcm]; exact h8 m0 hm0
      · intro e0 he0
        rw [attrRows_append _ _ e0 (fun refs0 h r hr => by rw [hst1, List.length_append]; have := hawf e0 he0 refs0 h r hr; omega)]
        rw [hst1]; exact attrRows_append _ _ e0 (hawf e0 he0)

/-- P0 `copy_isolated`: a cell edit (`mesh.vertices[v][c] = x`, `attr[v][c] = x`, `attr[v] = …`) on one side of the
boundary between old and fresh cells changes neither coordinates nor attribute rows of a mesh living on the other side:
with `copy_switches` (the copy lives entirely in fresh cells, the existing meshes entirely in old ones) editing the copy
never changes the source and editing the source never changes the copy — attributes included -/
theorem copy_isolated (h : Heap) (L r : Nat) (v : V3) (m0 : Mesh) (e0 : MeshX) :
    (L ≤ r → (∀ r0 ∈ m0.verts, r0 < L) → (∀ refs, e0.attr = some refs → ∀ r0 ∈ refs, r0 < L) →
        coords (h.set r v) m0 = coords h m0 ∧ attrRows (h.set r v) e0 = attrRows h e0) ∧
    (r < L → (∀ r0 ∈ m0.verts, L ≤ r0) → (∀ refs, e0.attr = some refs → ∀ r0 ∈ refs, L ≤ r0) →
        coords (h.set r v) m0 = coords h m0 ∧ attrRows (h.set r v) e0 = attrRows h e0) := by
  constructor
  · intro hr hv ha
    exact ⟨coords_set_far h r v m0 (fun r0 h0 => by have := hv r0 h0; omega),
           attrRows_set_far h r v e0 (fun refs hh r0 h0 => by have := ha refs hh r0 h0; omega)⟩
  · intro hr hv ha
    exact ⟨coords_set_far h r v m0 (fun r0 h0 => by have := hv r0 h0; omega),
           attrRows_set_far h r v e0 (fun refs hh r0 h0 => by have := ha refs hh r0 h0; omega)⟩

/-- P0 `conn_own_run`: after EVERY sequence of base operations, copies with any switches and attribute operations,
every mesh owns one connectivity handler whose back-reference points at that mesh (so no two meshes share a handler) -/
theorem conn_own_run (ops : List OpX) :
    ConnOwn (runX initX ops) ∧
    ∀ (i j : Nat) (ei ej : MeshX), (runX initX ops).extras[i]? = some ei → (runX initX ops).extras[j]? = some ej → ei.conn = ej.conn → i = j := by
  have h : ConnOwn (runX initX ops) := connOwn_run ops initX ⟨rfl, fun i e he => by simp [initX] at he⟩
  refine ⟨h, ?_⟩
  intro i j ei ej hi hj hc
  have h1 := h.2 i ei hi
  have h2 := h.2 j ej hj
  rw [hc, h2] at h1
  injection h1 with h1; injection h1 with h1; exact h1.symm

/-- the pre-repair `copy(copy_connectivity=True)` refuted on a witness: the copy (mesh 1) holds the handler object of
the source (mesh 0), whose back-reference is mesh 0 -/
theorem legacy_copy_shares_connectivity :
    let s := legacyCopyX (stepX initX (.base (.new [⟨0, 0, 0⟩, ⟨1, 0, 0⟩] [[0, 1]] [] []))) 0
    (s.extras[1]?.map (·.conn)) = (s.extras[0]?.map (·.conn)) ∧
    ((s.extras[1]?.bind (fun e => s.conns[e.conn]?)).map (·.master)) = some 0 ∧ ¬ ConnOwn s := by
  refine ⟨by decide, by decide, ?_⟩
  intro h
  have := h.2 1 { attr := none, conn := 0 } (by decide)
  revert this; decide

/-- P0 `merge_pointcloud_first`: a mesh without elements of a kind (a point cloud before a polyline / surface) still
advances the running offset by ITS vertex count: the elements of what follows are shifted past its vertices -/
theorem merge_pointcloud_first (sel : Mesh → List (List Nat)) (pc : Mesh) (rest : List Mesh) (h : sel pc = []) :
    shiftedFrom sel 0 (pc :: rest) = shiftedFrom sel pc.verts.length rest ∧
    (∀ e ∈ shiftedFrom sel 0 (pc :: rest), (∀ m ∈ rest, ∀ e' ∈ sel m, ∀ u ∈ e', u < m.verts.length) →
        ∀ u ∈ e, pc.verts.length ≤ u) := by
  have h0 : shiftedFrom sel 0 (pc :: rest) = shiftedFrom sel pc.verts.length rest := by
    have := shiftedFrom_skip sel pc rest 0 h; simpa using this
  refine ⟨h0, ?_⟩
  intro e he hv u hu
  rw [h0] at he
  exact (shiftedFrom_block sel rest pc.verts.length hv e he u hu).1

/-- P0 `rotate_about_origin`: rotating about an origin `o ≠ 0` is translate(−o), rotate about 0, translate(o); `o` itself
is fixed -/
theorem rotate_about_origin (r : M3) (o p : V3) :
    rotateMap r o p = (rotateMap r V3.zero (p.sub o)).add o ∧ rotateMap r o o = o :=
  ⟨Mouette.MeshHeap.rotate_about_origin r o p, rotate_fixes_origin r o⟩

/-- P0 `scale_xyz_round_trip`: `scale_xyz(fx,fy,fz)` then `scale_xyz(1/fx,1/fy,1/fz)` about the same origin restores
the coordinates for all NON-ZERO factors, negative ones (mirrorings) included; the origin is a fixed point -/
theorem scale_xyz_round_trip (fx fy fz : Rat) (hx : fx ≠ 0) (hy : fy ≠ 0) (hz : fz ≠ 0) (o : V3) (s : State) (i : Nat)
    (m : Mesh) (hm : s.meshes[i]? = some m) (hwf : WF s) :
    (∃ m2, (scaleXyz (1 / fx) (1 / fy) (1 / fz) o (scaleXyz fx fy fz o s i) i).meshes[i]? = some m2 ∧
      coords (scaleXyz (1 / fx) (1 / fy) (1 / fz) o (scaleXyz fx fy fz o s i) i).heap m2 = coords s.heap m) ∧
    scaleXyzMap fx fy fz o o = o := by
  obtain ⟨m2, h1, h2, _⟩ := rebind_round_trip (scaleXyzMap fx fy fz o) (scaleXyzMap (1 / fx) (1 / fy) (1 / fz) o)
    (scaleXyz_inv fx fy fz hx hy hz o) s i m hm hwf
  exact ⟨⟨m2, h1, h2⟩, scaleXyz_fixes_origin fx fy fz o⟩

/-- `scale_xyz` without an origin scales about the FIRST vertex (the object bound before the loop): it stays put -/
theorem scale_xyz_default_origin (fx fy fz : Rat) (s : State) (i : Nat) (m : Mesh) (hm : s.meshes[i]? = some m) (hwf : WF s)
    (p0 : V3) (rest : List V3) (hc : coords s.heap m = p0 :: rest) :
    ∃ m', (step s (.scaleXyz i fx fy fz none)).meshes[i]? = some m' ∧
      coords (step s (.scaleXyz i fx fy fz none)).heap m' = p0 :: rest.map (scaleXyzMap fx fy fz p0) := by
  simp only [step, hm, hc, List.getD_cons_zero]
  obtain ⟨_, ⟨m', a2, a3, _⟩, _⟩ := mapRebind_spec (scaleXyzMap fx fy fz p0) s i m hm hwf
  refine ⟨m', a2, ?_⟩
  show coords (mapRebind _ s i).heap m' = _
  rw [a3, hc, List.map_cons, scaleXyz_fixes_origin]

/-- non-vacuity (a test): a point cloud merged BEFORE a segment; a copy with attributes whose attribute is then edited -/
example :
    let s := runX initX [.base (.new [⟨5, 5, 5⟩, ⟨6, 6, 6⟩, ⟨7, 7, 7⟩] [] [] []), .base (.new [⟨0, 0, 0⟩, ⟨1, 0, 0⟩] [[0, 1]] [] []),
      .base (.merge [0, 1]), .createAttr 1, .setAttr 1 0 ⟨1, 2, 3⟩, .copyX 1 true true, .editAttr 3 0 2 9]
    (s.st.meshes[2]?.map (·.edges)) = some [[3, 4]] ∧
    (s.extras.map (attrRows s.st.heap)) = [none, some [⟨1, 2, 3⟩, ⟨0, 0, 0⟩], none, some [⟨1, 2, 9⟩, ⟨0, 0, 0⟩]] := by
  refine ⟨by decide, by decide +kernel⟩

/-- the hypotheses of `copy_switches` hold in every reachable state: after EVERY sequence of extended operations the
coordinates are alias-free and every attribute reference points into the heap -/
theorem wfx_run (ops : List OpX) : AliasFree (runX initX ops).st ∧ AttrWF (runX initX ops) := by
  have hstep : ∀ (s : StateX) (op : OpX), AliasFree s.st → AttrWF s → AliasFree (stepX s op).st ∧ AttrWF (stepX s op) := by
    intro s op h1 h2
    have happ : ∀ vs : Heap, AliasFree { s.st with heap := s.st.heap ++ vs } := fun vs =>
      ⟨fun m hm r hr => by simp only [List.length_append]; have := h1.1 m hm r hr; omega, h1.2⟩
    have hset : ∀ (r : Nat) (v : V3), AliasFree { s.st with heap := s.st.heap.set r v } := fun r v =>
      ⟨fun m hm r0 hr0 => by simp only [List.length_set]; exact h1.1 m hm r0 hr0, h1.2⟩
    have hset2 : ∀ (r : Nat) (v : V3), AttrWF { s with st := { s.st with heap := s.st.heap.set r v } } := fun r v =>
      fun e he refs ha r0 hr0 => by simp only [List.length_set]; exact h2 e he refs ha r0 hr0
    cases op with
    | base op =>
      simp only [stepX]
      have ha := alias_free_step s.st op h1
      obtain ⟨hmono, _⟩ := step_mono s.st op
      have hold : ∀ e ∈ s.extras, ∀ refs, e.attr = some refs → ∀ r ∈ refs, r < (step s.st op).heap.length :=
        fun e he refs hr r hrr => Nat.lt_of_lt_of_le (h2 e he refs hr r hrr) hmono
      by_cases hlt : s.st.meshes.length < (step s.st op).meshes.length
      · rw [if_pos hlt]
        refine ⟨ha, ?_⟩
        intro e he refs hr r hrr
        simp only [pushPlain, List.mem_append, List.mem_singleton] at he
        rcases he with he | he
        · exact hold e he refs hr r hrr
        · rw [he] at hr; cases hr
      · rw [if_neg hlt]; exact ⟨ha, hold⟩
    | copyX i attrs conn =>
      simp only [stepX, copyX]
      cases hm : s.st.meshes[i]? with
      | none => exact ⟨h1, h2⟩
      | some m =>
        cases he : s.extras[i]? with
        | none => exact ⟨h1, h2⟩
        | some e =>
          simp only
          have hc : AliasFree (copyMesh s.st i) := by
            have := alias_free_step s.st (.copy i) h1; simpa [step] using this
          have hmono : s.st.heap.length ≤ (copyMesh s.st i).heap.length := by
            have := (step_mono s.st (.copy i)).1; simpa [step] using this
          have hplain : AliasFree (pushPlain s (copyMesh s.st i)).st ∧ AttrWF (pushPlain s (copyMesh s.st i)) := by
            refine ⟨hc, ?_⟩
            intro e0 he0 refs hr r hrr
            simp only [pushPlain, List.mem_append, List.mem_singleton] at he0
            rcases he0 with he0 | he0
            · exact Nat.lt_of_lt_of_le (h2 e0 he0 refs hr r hrr) hmono
            · rw [he0] at hr; cases hr
          cases hat : e.attr with
          | none => simp only; exact hplain
          | some refs =>
            cases attrs with
            | false => simp only; exact hplain
            | true =>
              simp only [alloc]
              refine ⟨⟨fun m0 hm0 r hr => by simp only [List.length_append]; have := hc.1 m0 hm0 r hr; omega, hc.2⟩, ?_⟩
              intro e0 he0 refs0 hr r hrr
              simp only [List.mem_append, List.mem_singleton] at he0
              simp only [List.length_append]
              rcases he0 with he0 | he0
              · have := h2 e0 he0 refs0 hr r hrr; omega
              · rw [he0] at hr; simp only [Option.some.injEq] at hr; rw [← hr] at hrr
                have := mem_range'_iff.mp hrr; omega
    | createAttr i =>
      simp only [stepX]
      cases hm : s.st.meshes[i]? with
      | none => exact ⟨h1, h2⟩
      | some m =>
        cases he : s.extras[i]? with
        | none => exact ⟨h1, h2⟩
        | some e =>
          simp only [alloc]
          refine ⟨happ _, ?_⟩
          intro e0 he0 refs0 hr r hrr
          simp only [List.length_append, List.length_replicate]
          rcases List.mem_or_eq_of_mem_set he0 with he0 | he0
          · have := h2 e0 he0 refs0 hr r hrr; omega
          · rw [he0] at hr; simp only [Option.some.injEq] at hr; rw [← hr] at hrr
            have := mem_range'_iff.mp hrr; simp only [List.length_replicate] at this; omega
    | setAttr i v val =>
      simp only [stepX]
      cases s.extras[i]? with
      | none => exact ⟨h1, h2⟩
      | some e =>
        simp only
        cases e.attr with
        | none => exact ⟨h1, h2⟩
        | some refs =>
          simp only
          cases refs[v]? with
          | none => exact ⟨h1, h2⟩
          | some r => exact ⟨hset r val, hset2 r val⟩
    | editAttr i v c x =>
      simp only [stepX]
      cases s.extras[i]? with
      | none => exact ⟨h1, h2⟩
      | some e =>
        simp only
        cases e.attr with
        | none => exact ⟨h1, h2⟩
        | some refs =>
          simp only
          cases refs[v]? with
          | none => exact ⟨h1, h2⟩
          | some r => exact ⟨hset r _, hset2 r _⟩
  have h0 : AliasFree initX.st ∧ AttrWF initX :=
    ⟨⟨(fun m hm => by cases hm), (fun i j mi mj a b r hi => by simp [initX, init] at hi)⟩, (fun e he => by cases he)⟩
  suffices ∀ s, (AliasFree s.st ∧ AttrWF s) → AliasFree (runX s ops).st ∧ AttrWF (runX s ops) from this initX h0
  induction ops with
  | nil => intro s h; exact h
  | cons op ops ih => intro s h; exact ih _ (hstep s op h.1 h.2)

/-! ## round 3: translated fragments of transform.py / mesh.py (re-extracted from the source on every run) -/

/-- bridge: the per-vertex expression of `translate` written in the source is the model's map (and the loop REBINDS:
the translator refuses an in-place `+=`) -/
theorem gen_translate_eq (p t : V3) : Generated.C06.translateExpr p t = p.add t := by
  cases p; cases t
  try simp only [Generated.C06.translateExpr, V3.add, V3.mk.injEq]
  try (refine ⟨by ring, by ring, by ring⟩)

/-- bridge: `scale` -/
theorem gen_scale_eq (k : Rat) (o p : V3) : Generated.C06.scaleExpr k o p = scaleMap k o p := by
  cases p; cases o
  try simp only [Generated.C06.scaleExpr, scaleMap, V3.add, V3.sub, V3.smul, V3.mk.injEq]
  try (refine ⟨by ring, by ring, by ring⟩)

/-- bridge: `rotate` -/
theorem gen_rotate_eq (r : M3) (o p : V3) : Generated.C06.rotateExpr r o p = rotateMap r o p := by
  obtain ⟨⟨a11, a12, a13⟩, ⟨a21, a22, a23⟩, ⟨a31, a32, a33⟩⟩ := r
  cases p; cases o
  try simp only [Generated.C06.rotateExpr, rotateMap, M3.apply, V3.add, V3.sub, V3.dot, V3.mk.injEq]
  try (refine ⟨by ring, by ring, by ring⟩)

/-- bridge: `scale_xyz` -/
theorem gen_scaleXyz_eq (fx fy fz : Rat) (o p : V3) : Generated.C06.scaleXyzExpr fx fy fz o p = scaleXyzMap fx fy fz o p := by
  cases p; cases o
  try simp only [Generated.C06.scaleXyzExpr, scaleXyzMap, V3.add, V3.mk.injEq]
  try (refine ⟨by ring, by ring, by ring⟩)

/-- bridge: `normalize` as written (which box point is subtracted, which multiple of `1/max span` is applied, per value
of `center_at_zero`) is the model's `normalize` -/
theorem gen_normalize_eq (c : Bool) (s : State) (i : Nat) (m : Mesh) (hm : s.meshes[i]? = some m) :
    normalize c s i =
      scale ((Generated.C06.normalizeSpec c).2 * (1 / maxSpan (coords s.heap m))) V3.zero
        (translate (match (Generated.C06.normalizeSpec c).1 with
                    | .center => center (coords s.heap m)
                    | .mini => bbMin (coords s.heap m)).neg s i) i := by
  cases c with
  | true => simp only [normalize, hm, if_true, Generated.C06.normalizeSpec]
  | false =>
    simp only [normalize, hm, Bool.false_eq_true, if_false, Generated.C06.normalizeSpec]
    rw [one_mul]

/-- bridge: `merge`: the index shift and the running offset written in the source are the model's (`shift`,
`mergeStep`), the offset advancing by the vertex count of EVERY input, whatever its kind -/
theorem gen_merge_eq (off u n : Nat) :
    Generated.C06.mergeShift off u = u + off ∧ Generated.C06.mergeOffsetAfter off n = off + n ∧
    Generated.C06.mergeElementKinds = ["edges", "faces", "cells"] ∧
    (∀ (m : Mesh) (acc : MergeAcc Nat) (pl : Mesh → List Nat),
      (mergeStep pl acc m).offset = Generated.C06.mergeOffsetAfter acc.offset m.verts.length ∧
      (mergeStep pl acc m).edges = acc.edges ++ m.edges.map (fun e => e.map (Generated.C06.mergeShift acc.offset))) := by
  refine ⟨by simp only [Generated.C06.mergeShift]; omega, rfl, rfl, ?_⟩
  intro m acc pl
  refine ⟨rfl, ?_⟩
  simp only [mergeStep, shift, Generated.C06.mergeShift]
  congr 1
  apply List.map_congr_left; intro e _
  apply List.map_congr_left; intro u _; simp only [Generated.C06.mergeShift]; omega

/-! ## round 3: histories on one object -/

/-- P0 `transform_twice`: applying two rebinding transforms one after the other to the SAME mesh is the composition of
the two maps (the n-th transform of a used mesh acts on what the previous ones left), other meshes untouched -/
theorem transform_twice (f g : V3 → V3) (s : State) (i : Nat) (m : Mesh) (hm : s.meshes[i]? = some m) (hwf : WF s) :
    ∃ m2, (mapRebind g (mapRebind f s i) i).meshes[i]? = some m2 ∧
      coords (mapRebind g (mapRebind f s i) i).heap m2 = (coords s.heap m).map (g ∘ f) ∧
      (∀ j mj, j ≠ i → s.meshes[j]? = some mj →
        (mapRebind g (mapRebind f s i) i).meshes[j]? = some mj ∧
        coords (mapRebind g (mapRebind f s i) i).heap mj = coords s.heap mj) := by
  obtain ⟨_, ⟨m1, a2, a3, _⟩, a7⟩ := mapRebind_spec f s i m hm hwf
  obtain ⟨_, ⟨m2, b2, b3, _⟩, b7⟩ := mapRebind_spec g (mapRebind f s i) i m1 a2 (wf_mapRebind f s i hwf)
  refine ⟨m2, b2, by rw [b3, a3, List.map_map], ?_⟩
  intro j mj hji hj
  obtain ⟨c1, c2⟩ := a7 j mj hji hj
  obtain ⟨d1, d2⟩ := b7 j mj hji c1
  exact ⟨d1, by rw [d2, c2]⟩

/-- P0 `copy_of_copy`: a copy of a copy has the coordinates and elements of the ORIGINAL and lives in cells disjoint from
both (the history "copy, then copy the copy" on one mesh) -/
theorem copy_of_copy (s : State) (i : Nat) (m : Mesh) (hm : s.meshes[i]? = some m) (hwf : WF s) :
    ∃ m1 m2, (copyMesh (copyMesh s i) s.meshes.length).meshes = s.meshes ++ [m1, m2] ∧
      coords (copyMesh (copyMesh s i) s.meshes.length).heap m2 = coords s.heap m ∧
      coords (copyMesh (copyMesh s i) s.meshes.length).heap m1 = coords s.heap m ∧
      m2.edges = m.edges ∧ m2.faces = m.faces ∧ m2.cells = m.cells ∧
      (∀ r ∈ m2.verts, r ∉ m1.verts ∧ r ∉ m.verts) := by
  obtain ⟨m1, a1, a2, a3, a4, a5, _, a7, a8, a9⟩ := copy_equal_disjoint s i m hm hwf
  have hwf1 : WF (copyMesh s i) := by
    have : copyMesh s i = newMesh s (coords s.heap m) m.edges m.faces m.cells := by simp only [copyMesh, hm]
    rw [this]; exact wf_newMesh s _ _ _ _ hwf
  have hm1 : (copyMesh s i).meshes[s.meshes.length]? = some m1 := by
    rw [a1, List.getElem?_append_right (Nat.le_refl _)]; simp
  obtain ⟨m2, b1, b2, b3, b4, b5, _, b7, b8, b9⟩ := copy_equal_disjoint (copyMesh s i) s.meshes.length m1 hm1 hwf1
  refine ⟨m1, m2, by rw [b1, a1]; simp, by rw [b2, a2], ?_, by rw [b3, a3], by rw [b4, a4], by rw [b5, a5], ?_⟩
  · rw [b9 m1 (by rw [a1]; simp), a2]
  · intro r hr
    obtain ⟨_, hnot⟩ := b7 r hr
    exact ⟨hnot m1 (by rw [a1]; simp), hnot m (by rw [a1]; exact List.mem_append_left _ (mem_of_getElem? hm))⟩

/-- P0 `merge_with_own_copy`: merging a mesh with its own copy (or with itself) gives two shifted blocks of the same
coordinates in fresh cells: instance of `merge_is_disjoint_union` for the id lists `[i, j]` / `[i, i]` -/
theorem merge_with_own_copy (s : State) (i j : Nat) (mi mj : Mesh) (hi : s.meshes[i]? = some mi) (hj : s.meshes[j]? = some mj)
    (hwf : WF s) :
    ∃ m', (mergeMeshes s [i, j]).meshes = s.meshes ++ [m'] ∧
      coords (mergeMeshes s [i, j]).heap m' = coords s.heap mi ++ coords s.heap mj ∧
      m'.edges = shift 0 mi.edges ++ shift mi.verts.length mj.edges ∧
      (∀ r ∈ m'.verts, ∀ m0 ∈ s.meshes, r ∉ m0.verts) ∧ m'.verts.Nodup := by
  have hl : lookupAll s.meshes [i, j] = some [mi, mj] := by simp [lookupAll, hi, hj]
  obtain ⟨m', h1, h2, _, h4, _, _, _, _, h9, h10, _⟩ := merge_is_disjoint_union s [i, j] [mi, mj] hl hwf
  refine ⟨m', h1, by rw [h2]; simp, by rw [h4]; simp [shiftedFrom], fun r hr m0 hm0 => (h9 r hr).2 m0 hm0, h10⟩

end Mouette.Props.C06
