import Mouette.Generated.C08Src
import Mouette.Lemmas.GeomSource
import Mouette.Lemmas.OpLemmas
import Mouette.Lemmas.C18Source
/-
C08 — bridges between the assembly loops TRANSLATED from the working tree (`Generated/C08Src.lean`: the nested accumulation loops
of `operators/mass.py`, read statement by statement on every run) and the triplet model `Model/Operators.lean` about which the
theorems of `Props/C08.lean` (`mass_diagonal`, `mass_pos`, `mass_total_triangles`, `mass_total_tets`, ...) are proved.
-/
namespace Mouette.Props.C08Source
open Mouette.Geom Mouette.Ops Mouette.GeomSrc Mouette.Generated

/-- the inner loop `for u in T: A[u] += c` adds `c` once per occurrence of the vertex in the element -/
theorem mass_inner (f : Face) (A : Attr Rat) (c : Rat) (u : Nat) :
    forEach f A (fun A v => upd A v (fun t => t + c)) u = A u + toFun (f.map (fun v => (v, v, c))) u u := by
  induction f generalizing A with
  | nil => simp [forEach, toFun, rsum]
  | cons v vs ih =>
    simp only [forEach, List.foldl_cons, List.map_cons] at ih ⊢
    rw [ih, toFun_cons]
    by_cases h : v = u
    · subst h; simp [upd]; ring
    · have h' : ¬ u = v := fun e => h e.symm
      simp [upd, h, h']

/-- the whole assembly, for any starting array and any element offset -/
theorem mass_outer (ar : Nat → Rat) (fs : List Face) (t : Nat) (A : Attr Rat) (u : Nat) :
    forEnumFrom t fs A (fun A i f => forEach f A (fun A v => upd A v (fun x => x + ar i))) u = A u + toFun (massAux ar fs t) u u := by
  induction fs generalizing t A with
  | nil => simp [forEnumFrom, massAux, toFun, rsum]
  | cons f fs ih =>
    rw [forEnumFrom, ih, mass_inner, massAux, Mouette.Ops.toFun_append]
    ring

/-- `area_weight_matrix`: the array `A` after `for iT,T in enumerate(mesh.faces): for u in T: A[u] += area[iT]` is the diagonal of the
model's lumped mass matrix -/
theorem area_weight_matrix_bridge (faces : List Face) (area : Attr Rat) (u : Nat) :
    C08Src.area_weight_matrix faces area u = toFun (mass area faces) u u := by
  unfold C08Src.area_weight_matrix
  simp only [forEnum, mass]
  rw [mass_outer]; simp

/-- `volume_weight_matrix`: same loop over the cells -/
theorem volume_weight_matrix_bridge (cells : List Face) (volume : Attr Rat) (u : Nat) :
    C08Src.volume_weight_matrix cells volume u = toFun (mass volume cells) u u := by
  unfold C08Src.volume_weight_matrix
  simp only [forEnum, mass]
  rw [mass_outer]; simp

/-- the elementwise tail of every mass function: the optional square root and inverse (in either order: `√(1/x) = 1/√x`), then
`sp.diags`; nothing else is done to the assembled values -/
theorem mass_tail_order : ∀ p ∈ C08Src.massTails,
    p.2 = ["sqrt", "inverse", "diags"] ∨ p.2 = ["inverse", "sqrt", "diags"] ∨ p.2 = ["inverse", "diags"] := by decide

/-- `area_weight_matrix_faces`: the diagonal is the face-area attribute read as an array of `len(mesh.faces)` values: the model's `diagMass` -/
theorem area_weight_matrix_faces_bridge (faces : List Face) (area : Attr Rat) :
    (C08Src.area_weight_matrix_faces faces area).mapIdx (fun t a => ((t, t, a) : Trip)) = diagMass area faces.length := by
  simp only [C08Src.area_weight_matrix_faces, tab, diagMass]
  apply List.ext_getElem <;> simp

/-- `volume_weight_matrix_cells`: same on the cells -/
theorem volume_weight_matrix_cells_bridge (cells : List Face) (volume : Attr Rat) :
    (C08Src.volume_weight_matrix_cells cells volume).mapIdx (fun t a => ((t, t, a) : Trip)) = diagMass volume cells.length := by
  simp only [C08Src.volume_weight_matrix_cells, tab, diagMass]
  apply List.ext_getElem <;> simp

/-- `area_weight_matrix_edges`: edge `e` accumulates `area[T]/3` for each of its (at most two) faces `edge_to_faces(A,B)`, skipping `None`:
the diagonal entry of the model's `massEdges` -/
theorem area_weight_matrix_edges_at (faces : List Face) (edges : List (Nat × Nat)) (area : Attr Rat) (e : Nat) (he : e < edges.length) :
    C08Src.area_weight_matrix_edges faces edges area e = rsum ((edgeFaceList faces edges[e]).map (fun t => area t / 3)) := by
  unfold C08Src.area_weight_matrix_edges
  simp only []
  rw [forEnum_local_get _ _ _ _ e he]
  · simp only [forEach, List.foldl_cons, List.foldl_nil, edgeFaceList, edgeFaces]
    cases h1 : directFace faces edges[e].1 edges[e].2 <;> cases h2 : directFace faces edges[e].2 edges[e].1 <;>
      simp [upd, rsum] <;> ring
  · intro a i x
    funext k
    simp only [forEach, List.foldl_cons, List.foldl_nil]
    split_ifs <;> simp_all [upd]

/-! ## adjacency_matrix: COO assembly, two coefficients per edge at positions `2e`, `2e+1` -/

/-- the writes `x[2*e] = p(elem); x[2*e+1] = q(elem)` are local to the block of the element -/
theorem pair_writes_block {α β : Type} (p q : β → α) :
    IsBlockE 2 (fun (r : Attr α) e (ab : β) => wr (wr r (2 * e) (p ab)) (2 * e + 1) (q ab)) := by
  intro a i x j
  simp only [wr]
  split_ifs <;> first | rfl | omega

theorem pair_writes_get {α β : Type} (p q : β → α) (l : List β) (a : Attr α) (j : Nat) (hj : j / 2 < l.length) :
    forEnum l a (fun (r : Attr α) e (ab : β) => wr (wr r (2 * e) (p ab)) (2 * e + 1) (q ab)) j
      = if j % 2 = 0 then p l[j / 2] else q l[j / 2] := by
  rw [forEnum_block_get 2 _ (pair_writes_block p q) a l j hj]
  simp only [wr]
  split_ifs <;> first | rfl | omega

theorem pair_writes_range_get {α : Type} (g : Nat → α) (n : Nat) (a : Attr α) (j : Nat) (hj : j / 2 < n) :
    forRange n a (fun (r : Attr α) e => wr (wr r (2 * e) (g e)) (2 * e + 1) (g e)) j = g (j / 2) := by
  rw [forRange_block_at 2 _ (by intro a i j; simp only [wr]; split_ifs <;> first | rfl | omega)]
  simp only [hj, if_true, wr]
  split_ifs <;> first | rfl | omega

theorem adjacencyAux_length (w : Nat → Rat) (es : List (Nat × Nat)) (k : Nat) : (adjacencyAux w es k).length = 2 * es.length := by
  induction es generalizing k with
  | nil => rfl
  | cons e es ih => simp only [adjacencyAux, List.length_cons, ih]; omega

/-- entry `j` of the model's triplet list -/
theorem adjacencyAux_get (w : Nat → Rat) : ∀ (es : List (Nat × Nat)) (k j : Nat) (hj : j / 2 < es.length),
    (adjacencyAux w es k)[j]? = some (if j % 2 = 0 then (es[j / 2].1, es[j / 2].2, w (k + j / 2)) else (es[j / 2].2, es[j / 2].1, w (k + j / 2))) := by
  intro es
  induction es with
  | nil => intro k j hj; simp at hj
  | cons e es ih =>
    intro k j hj
    match j with
    | 0 => simp [adjacencyAux]
    | 1 => simp [adjacencyAux]
    | j + 2 =>
      have h1 : (j + 2) / 2 = j / 2 + 1 := by omega
      have h2 : (j + 2) % 2 = j % 2 := by omega
      have hj' : j / 2 < es.length := by simp only [h1, List.length_cons] at hj; omega
      have h3 : k + 1 + j / 2 = k + (j / 2 + 1) := by omega
      simp only [adjacencyAux, List.getElem?_cons_succ, ih (k + 1) j hj', h1, h2, List.getElem_cons_succ, h3]

/-- the triplets of `adjacency_matrix`, whatever the three arrays of coefficients: rows/cols as the model says -/
theorem adjacency_matrix_modes (vs : List V3) (edges : List (Nat × Nat)) (elen : V3 → V3 → Rat) (wdict : Attr Rat) (weights : String) :
    C08Src.adjacency_matrix vs edges elen wdict weights =
      adjacency (if weights = "one" then fun _ => 1
                 else if weights = "length" then fun k => elen (pt vs (edges.getD k (0, 0)).1) (pt vs (edges.getD k (0, 0)).2)
                 else wdict) edges := by
  unfold C08Src.adjacency_matrix adjacency
  simp only []
  rw [forEnum, forEnumFrom_pair (fun (r : Attr Nat) e (ab : Nat × Nat) => wr (wr r (2 * e) ab.1) (2 * e + 1) ab.2)
    (fun (r : Attr Nat) e (ab : Nat × Nat) => wr (wr r (2 * e) ab.2) (2 * e + 1) ab.1)]
  apply List.ext_getElem?
  intro j
  by_cases hj : j / 2 < edges.length
  · have hj2 : j < 2 * edges.length := by omega
    rw [adjacencyAux_get _ _ _ _ hj]
    simp only [List.getElem?_map, List.getElem?_range hj2, Option.map_some]
    have hr := pair_writes_get (fun ab : Nat × Nat => ab.1) (fun ab => ab.2) edges (fun _ => 0) j hj
    have hc := pair_writes_get (fun ab : Nat × Nat => ab.2) (fun ab => ab.1) edges (fun _ => 0) j hj
    simp only [forEnum] at hr hc
    rw [hr, hc]
    by_cases h1 : weights = "one"
    · subst h1; simp; split_ifs <;> rfl
    · by_cases h2 : weights = "length"
      · subst h2
        have hv := pair_writes_get (fun ab : Nat × Nat => elen (pt vs ab.1) (pt vs ab.2)) (fun ab => elen (pt vs ab.1) (pt vs ab.2)) edges (fun _ => 0) j hj
        simp only [forEnum] at hv ⊢
        simp [hv, List.getD_eq_getElem?_getD, hj]; split_ifs <;> rfl
      · have hv := pair_writes_range_get wdict edges.length (fun _ => 0) j hj
        simp [h1, h2, hv]; split_ifs <;> rfl
  · have hj2 : ¬ j < 2 * edges.length := by omega
    have : (adjacencyAux (if weights = "one" then fun _ => 1 else if weights = "length" then fun k => elen (pt vs (edges.getD k (0, 0)).1) (pt vs (edges.getD k (0, 0)).2) else wdict) edges 0)[j]? = none := by
      rw [List.getElem?_eq_none]; rw [adjacencyAux_length]; omega
    rw [this, List.getElem?_eq_none]; simp; omega

/-! ## vertex_to_edge_operator / vertex_to_face_operator: `lil_matrix` assignments (an entry written twice keeps the LAST value) -/

/-- the edge loop, for any starting matrix that is still empty from column `k` on; edges have two distinct end points -/
theorem vertex_to_edge_fold (oriented : Bool) : ∀ (es : List (Nat × Nat)) (k : Nat) (m : Attr2 Rat),
    (∀ a b, k ≤ b → m a b = 0) → (∀ e ∈ es, e.1 ≠ e.2) → ∀ i j,
      forEnumFrom k es m (fun m e ab => wr2 (wr2 m ab.1 e (if oriented then -1 else 1)) ab.2 e 1) i j
        = m i j + toFun (vertexToEdgeAux oriented es k) i j := by
  intro es
  induction es with
  | nil => intro k m _ _ i j; simp [forEnumFrom, vertexToEdgeAux, toFun, rsum]
  | cons e es ih =>
    intro k m hm hd i j
    have hne : e.1 ≠ e.2 := hd e (by simp)
    rw [forEnumFrom, ih (k + 1) _ _ (fun e' he' => hd e' (by simp [he']))]
    · rw [vertexToEdgeAux, toFun_cons, toFun_cons]
      simp only [wr2]
      by_cases hj : j = k
      · subst hj
        have h0 : m i j = 0 := hm i j (Nat.le_refl _)
        by_cases h1 : i = e.1 <;> by_cases h2 : i = e.2 <;> simp_all [eq_comm] <;> ring
      · have hj' : ¬ k = j := fun h => hj h.symm
        simp [hj, hj']
    · intro a b hb
      have : ¬ b = k := by omega
      simp only [wr2, this, and_false, if_false]
      exact hm a b (by omega)

/-- `vertex_to_edge_operator`: every entry is the entry of the model's triplet list (one `±1` per incidence) -/
theorem vertex_to_edge_operator_bridge (vs : List V3) (edges : List (Nat × Nat)) (oriented : Bool) (hd : ∀ e ∈ edges, e.1 ≠ e.2) (i j : Nat) :
    C08Src.vertex_to_edge_operator vs edges oriented i j = toFun (vertexToEdge oriented edges) i j := by
  unfold C08Src.vertex_to_edge_operator vertexToEdge
  simp only [forEnum]
  rw [vertex_to_edge_fold oriented edges 0 _ (fun _ _ _ => rfl) hd]; simp

theorem row_writes (f : Face) (t : Nat) (a : Rat) : ∀ (m : Attr2 Rat) (i j : Nat),
    forEach f m (fun m v => wr2 m t v a) i j = if i = t ∧ j ∈ f then a else m i j := by
  induction f with
  | nil => intro m i j; simp [forEach]
  | cons v vs ih =>
    intro m i j
    simp only [forEach, List.foldl_cons] at ih ⊢
    rw [ih]
    simp only [wr2, List.mem_cons]
    by_cases h1 : i = t <;> by_cases h2 : j ∈ vs <;> by_cases h3 : j = v <;> simp [h1, h2, h3]

theorem toFun_row (f : Face) (hf : f.Nodup) (t : Nat) (a : Rat) (i j : Nat) :
    toFun (f.map (fun v => ((t, v, a) : Trip))) i j = if i = t ∧ j ∈ f then a else 0 := by
  induction f with
  | nil => simp [toFun, rsum]
  | cons v vs ih =>
    have hv : v ∉ vs := (List.nodup_cons.mp hf).1
    rw [List.map_cons, toFun_cons, ih (List.nodup_cons.mp hf).2]
    simp only [List.mem_cons]
    by_cases h1 : i = t <;> by_cases h3 : j = v
    · subst h3; simp [h1, hv]
    · have : ¬ v = j := fun e => h3 e.symm
      simp [h1, h3, this]
    · have : ¬ t = i := fun e => h1 e.symm
      simp [h1, this]
    · have : ¬ t = i := fun e => h1 e.symm
      simp [h1, this]

/-- the face loop, for any starting matrix that is still empty from row `k` on; a face does not repeat a vertex -/
theorem vertex_to_face_fold : ∀ (fs : List Face) (k : Nat) (m : Attr2 Rat),
    (∀ a b, k ≤ a → m a b = 0) → (∀ f ∈ fs, f.Nodup) → ∀ i j,
      forEnumFrom k fs m (fun m t f => forEach f m (fun m v => wr2 m t v (1 / (f.length : Rat)))) i j
        = m i j + toFun (vertexToFaceAux fs k) i j := by
  intro fs
  induction fs with
  | nil => intro k m _ _ i j; simp [forEnumFrom, vertexToFaceAux, toFun, rsum]
  | cons f fs ih =>
    intro k m hm hd i j
    rw [forEnumFrom, ih (k + 1) _ _ (fun f' hf' => hd f' (by simp [hf']))]
    · rw [vertexToFaceAux, Mouette.Ops.toFun_append, toFun_row f (hd f (by simp)), row_writes]
      by_cases h1 : i = k ∧ j ∈ f
      · have : m k j = 0 := hm k j (Nat.le_refl _)
        simp [h1, this]
      · simp [h1]
    · intro a b ha
      rw [row_writes]
      have : ¬ a = k := by omega
      simp only [this, false_and, if_false]
      exact hm a b (by omega)

/-- `vertex_to_face_operator`: `mat[iT, V] = 1/len(T)`, one entry per incidence: the model's triplet list, entry by entry -/
theorem vertex_to_face_operator_bridge (vs : List V3) (faces : List Face) (hd : ∀ f ∈ faces, f.Nodup) (i j : Nat) :
    C08Src.vertex_to_face_operator vs faces i j = toFun (vertexToFace faces) i j := by
  unfold C08Src.vertex_to_face_operator vertexToFace
  simp only [forEnum]
  rw [vertex_to_face_fold faces 0 _ (fun _ _ _ => rfl) hd]; simp

/-! ## laplacian: the whole body is translated by C18's translator (`Generated/C18Src.lean: laplacianTriplets`, the running-counter COO
writes of BOTH branches, regenerated by this check too); here its scalar branch is bridged to this property's model -/

/-- the scalar branch (`connection is None`) of the translated `laplacian`, face by face: 12 triplets per face -/
theorem laplacian_source_scalar_flat (U : Rat → Mouette.FF.Cpx) (order : Nat) (cotan : Bool) (cot tr : Nat → Nat → Rat)
    (faces : List (Nat × Nat × Nat × Nat)) :
    Mouette.Generated.C18S.laplacianTriplets U order cotan false faces cot tr
      = faces.flatMap (fun it =>
          let a : Rat := if cotan then cot it.1 it.2.1 / ((2 : Rat) / 1) else ((1 : Rat) / 2)
          let b : Rat := if cotan then cot it.1 it.2.2.1 / ((2 : Rat) / 1) else ((1 : Rat) / 2)
          let c : Rat := if cotan then cot it.1 it.2.2.2 / ((2 : Rat) / 1) else ((1 : Rat) / 2)
          [(it.2.1, it.2.2.1, c), (it.2.2.1, it.2.2.2, a), (it.2.2.2, it.2.1, b)].flatMap (fun h =>
            [(h.1, h.1, Mouette.FF.ofReal h.2.2), (h.2.1, h.2.1, Mouette.FF.ofReal h.2.2),
             (h.1, h.2.1, Mouette.FF.cneg (Mouette.FF.ofReal h.2.2)), (h.2.1, h.1, Mouette.FF.cneg (Mouette.FF.ofReal h.2.2))])) := by
  unfold Mouette.Generated.C18S.laplacianTriplets
  have := Mouette.Lemmas.C18S.foldl_step_append
    (fun (acc : List (Nat × Nat × Mouette.FF.Cpx)) (it : Nat × Nat × Nat × Nat) =>
      [(it.2.1, it.2.2.1, (if cotan then cot it.1 it.2.2.2 / ((2 : Rat) / 1) else ((1 : Rat) / 2))),
       (it.2.2.1, it.2.2.2, (if cotan then cot it.1 it.2.1 / ((2 : Rat) / 1) else ((1 : Rat) / 2))),
       (it.2.2.2, it.2.1, (if cotan then cot it.1 it.2.2.1 / ((2 : Rat) / 1) else ((1 : Rat) / 2)))].foldl (fun acc h =>
          acc ++ [(h.1, h.1, Mouette.FF.ofReal h.2.2)] ++ [(h.2.1, h.2.1, Mouette.FF.ofReal h.2.2)]
            ++ [(h.1, h.2.1, Mouette.FF.cneg (Mouette.FF.ofReal h.2.2))] ++ [(h.2.1, h.1, Mouette.FF.cneg (Mouette.FF.ofReal h.2.2))]) acc)
    (fun it =>
      [(it.2.1, it.2.2.1, (if cotan then cot it.1 it.2.2.2 / ((2 : Rat) / 1) else ((1 : Rat) / 2))),
       (it.2.2.1, it.2.2.2, (if cotan then cot it.1 it.2.1 / ((2 : Rat) / 1) else ((1 : Rat) / 2))),
       (it.2.2.2, it.2.1, (if cotan then cot it.1 it.2.2.1 / ((2 : Rat) / 1) else ((1 : Rat) / 2)))].flatMap (fun h =>
        [(h.1, h.1, Mouette.FF.ofReal h.2.2), (h.2.1, h.2.1, Mouette.FF.ofReal h.2.2),
         (h.1, h.2.1, Mouette.FF.cneg (Mouette.FF.ofReal h.2.2)), (h.2.1, h.1, Mouette.FF.cneg (Mouette.FF.ofReal h.2.2))]))
    (by intro acc it; simp [List.foldl_cons, List.flatMap_cons])
    faces []
  simpa using this

/-- … and these are exactly the model's `lapSAux` evaluated at the weights `cot[corner]/2` (cotan) resp. `1/2` (uniform), in the same order,
for every face list and offset (real parts; the imaginary parts of the scalar branch are `0`) -/
theorem laplacian_source_scalar_aux (U : Rat → Mouette.FF.Cpx) (order : Nat) (cotan : Bool) (cot tr : Nat → Nat → Rat) :
    ∀ (fs : List F3) (t : Nat) (w : Nat → Rat),
      (∀ i (h : i < fs.length), w (3 * (t + i)) = (if cotan then cot (t + i) fs[i].1 / 2 else 1 / 2)
        ∧ w (3 * (t + i) + 1) = (if cotan then cot (t + i) fs[i].2.1 / 2 else 1 / 2)
        ∧ w (3 * (t + i) + 2) = (if cotan then cot (t + i) fs[i].2.2 / 2 else 1 / 2)) →
      (Mouette.Generated.C18S.laplacianTriplets U order cotan false (faceIds fs t) cot tr).map (fun e => ((e.1, e.2.1, e.2.2.1) : Trip))
        = eval w (lapSAux fs t) := by
  intro fs
  induction fs with
  | nil => intro t w _; simp [laplacian_source_scalar_flat, faceIds, lapSAux, eval]
  | cons f fs ih =>
    intro t w hw
    have h0 := hw 0 (by simp)
    simp only [Nat.add_zero, List.getElem_cons_zero] at h0
    have hrest : ∀ i (h : i < fs.length), w (3 * (t + 1 + i)) = (if cotan then cot (t + 1 + i) fs[i].1 / 2 else 1 / 2)
        ∧ w (3 * (t + 1 + i) + 1) = (if cotan then cot (t + 1 + i) fs[i].2.1 / 2 else 1 / 2)
        ∧ w (3 * (t + 1 + i) + 2) = (if cotan then cot (t + 1 + i) fs[i].2.2 / 2 else 1 / 2) := by
      intro i h
      have := hw (i + 1) (by simp; omega)
      simp only [List.getElem_cons_succ] at this
      have e : t + (i + 1) = t + 1 + i := by omega
      rw [e] at this; exact this
    have ihh := ih (t + 1) w hrest
    rw [laplacian_source_scalar_flat] at ihh ⊢
    rw [faceIds, List.flatMap_cons, List.map_append, ihh, lapSAux, eval_append]
    congr 1
    simp only [faceLapS, edgeBlockS, eval, List.map_append, List.map_cons, List.map_nil, List.flatMap_cons, List.flatMap_nil,
      List.append_nil, List.cons_append, List.nil_append, h0.1, h0.2.1, h0.2.2, Mouette.FF.ofReal, Mouette.FF.cneg]
    norm_num
    cases cotan <;> simp

/-- `laplacian(mesh, cotan)` without connection, as read from the source: the triplets of the whole mesh are the model's `laplacian w faces`
with `w (3t+k) = cot[corner k of face t]/2` (resp. `1/2`): every theorem of Props/C08 about `laplacian w faces` (equals the stiffness matrix
entrywise, symmetric, zero row sums, quadratic form) speaks about the translated body -/
theorem laplacian_source_scalar (U : Rat → Mouette.FF.Cpx) (order : Nat) (cotan : Bool) (cot tr : Nat → Nat → Rat) (faces : List F3) :
    (Mouette.Generated.C18S.laplacianTriplets U order cotan false (faceIds faces 0) cot tr).map (fun e => ((e.1, e.2.1, e.2.2.1) : Trip))
      = laplacian (fun c => if cotan then cot (c / 3)
          (if c % 3 = 0 then (faces.getD (c / 3) (0, 0, 0)).1 else if c % 3 = 1 then (faces.getD (c / 3) (0, 0, 0)).2.1 else (faces.getD (c / 3) (0, 0, 0)).2.2) / 2
          else 1 / 2) faces := by
  unfold laplacian lapS
  apply laplacian_source_scalar_aux
  intro i h
  simp only [Nat.zero_add]
  have e0 : 3 * i / 3 = i := by omega
  have e1 : (3 * i + 1) / 3 = i := by omega
  have e2 : (3 * i + 2) / 3 = i := by omega
  have m0 : 3 * i % 3 = 0 := by omega
  have m1 : (3 * i + 1) % 3 = 1 := by omega
  have m2 : (3 * i + 2) % 3 = 2 := by omega
  simp [e0, e1, e2, m0, m1, m2, List.getD_eq_getElem?_getD, h]

/-! ## laplacian_triangles: the rows of `Nabla` (translated by C18's translator: `Generated/C18Src.lean: nablaRows`) -/

theorem nablaRows_flat (U : Rat → Mouette.FF.Cpx) (order : Nat) (tr : Nat → Nat → Rat) (edges : List (Nat × Option Nat × Option Nat)) :
    Mouette.Generated.C18S.nablaRows U order false edges tr
      = edges.flatMap (pairRow (Mouette.FF.cneg Mouette.FF.cone) Mouette.FF.cone) := by
  unfold Mouette.Generated.C18S.nablaRows
  have h := Mouette.Lemmas.C18S.foldl_step_append
    (fun (acc : List (Nat × List (Nat × Mouette.FF.Cpx))) (it : Nat × Option Nat × Option Nat) =>
      acc ++ pairRow (Mouette.FF.cneg Mouette.FF.cone) Mouette.FF.cone it)
    (pairRow (Mouette.FF.cneg Mouette.FF.cone) Mouette.FF.cone) (fun _ _ => rfl) edges []
  rw [List.nil_append] at h
  rw [← h]
  congr 1
  funext acc it
  rcases it with ⟨i, _ | a, _ | b⟩ <;> simp [pairRow]

theorem pairRow_real (faces : List Face) (e : Nat × Nat) (k : Nat) (o1 o2 : Option Nat) (h : edgeFaces faces e = (o1, o2)) :
    (pairRow (Mouette.FF.cneg Mouette.FF.cone) Mouette.FF.cone (k, o1, o2)).map (fun r => r.2.map (fun c => ((c.1, c.2.1) : Nat × Rat)))
      = [nablaRow faces e].filter (fun r => !r.isEmpty) := by
  unfold nablaRow
  rw [h]
  cases o1 <;> cases o2 <;> simp [pairRow, Mouette.FF.cneg, Mouette.FF.cone]

/-- `laplacian_triangles` without connection, as read from the source: one row of `Nabla` per edge that has a face on BOTH sides, and that
row is the model's `nablaRow` (`-1` at `T1`, `+1` at `T2`); border edges contribute no row -/
theorem laplacian_triangles_source_rows (U : Rat → Mouette.FF.Cpx) (order : Nat) (tr : Nat → Nat → Rat) (faces : List Face) :
    ∀ (es : List (Nat × Nat)) (k : Nat),
      (Mouette.Generated.C18S.nablaRows U order false (edgeIds faces es k) tr).map (fun r => r.2.map (fun c => ((c.1, c.2.1) : Nat × Rat)))
        = (es.map (nablaRow faces)).filter (fun r => !r.isEmpty) := by
  intro es
  induction es with
  | nil => intro k; simp [nablaRows_flat, edgeIds]
  | cons e es ih =>
    intro k
    have ihh := ih (k + 1)
    rw [nablaRows_flat] at ihh ⊢
    rw [edgeIds, List.flatMap_cons, List.map_append, ihh, List.map_cons,
      pairRow_real faces e k _ _ (by simp [edgeFaces, edgeFacesOpt])]
    rw [← List.filter_append]; rfl

example : C08Src.adjacency_matrix [⟨0,0,0⟩, ⟨1,0,0⟩] [(0, 1)] (fun _ _ => 2) (fun _ => 5) "length" = [(0, 1, 2), (1, 0, 2)] := by decide +kernel
example : C08Src.vertex_to_edge_operator [] [(0, 1), (1, 2)] true 1 0 = 1 ∧ C08Src.vertex_to_edge_operator [] [(0, 1), (1, 2)] true 1 1 = -1 := by
  constructor <;> decide +kernel
example : C08Src.area_weight_matrix [[0, 1, 2], [1, 0, 3]] (fun t => if t = 0 then 2 else 3) 1 = 5 := by decide +kernel

end Mouette.Props.C08Source
