import Mouette.Generated.C08Src
import Mouette.Lemmas.GeomSource
import Mouette.Lemmas.OpLemmas
/-
C08 — bridges between the assembly loops TRANSLATED from the working tree (`Generated/C08Src.lean`: the nested accumulation loops
of `operators/mass.py`, read statement by statement on every run) and the triplet model `Model/Operators.lean` about which the
theorems of `Props/C08.lean` (`mass_diagonal`, `mass_pos`, `mass_total_triangles`, `mass_total_tets`, ...) are proved.
-/
namespace Mouette.Props.C08Source
open Mouette.Geom Mouette.Ops Mouette.GeomSrc Mouette.Generated

/-- the inner loop `for u in T: A[u] += c` adds `c` once per occurrence of the vertex in the element -/
theorem mass_inner (f : Face) (A : Attr Rat) (c : Rat) (u : Nat) :
    forEach f A (fun A v => upd A v (fun t => t + c)) u = A u + toFun (f.map (fun v => (v, v, c))) u u := by
  induction f generalizing A with
  | nil => simp [forEach, toFun, rsum]
  | cons v vs ih =>
    simp only [forEach, List.foldl_cons, List.map_cons] at ih ⊢
    rw [ih, toFun_cons]
    by_cases h : v = u
    · subst h; simp [upd]; ring
    · have h' : ¬ u = v := fun e => h e.symm
      simp [upd, h, h']

/-- the whole assembly, for any starting array and any element offset -/
theorem mass_outer (ar : Nat → Rat) (fs : List Face) (t : Nat) (A : Attr Rat) (u : Nat) :
    forEnumFrom t fs A (fun A i f => forEach f A (fun A v => upd A v (fun x => x + ar i))) u = A u + toFun (massAux ar fs t) u u := by
  induction fs generalizing t A with
  | nil => simp [forEnumFrom, massAux, toFun, rsum]
  | cons f fs ih =>
    rw [forEnumFrom, ih, mass_inner, massAux, Mouette.Ops.toFun_append]
    ring

/-- `area_weight_matrix`: the array `A` after `for iT,T in enumerate(mesh.faces): for u in T: A[u] += area[iT]` is the diagonal of the
model's lumped mass matrix -/
theorem area_weight_matrix_bridge (faces : List Face) (area : Attr Rat) (u : Nat) :
    C08Src.area_weight_matrix faces area u = toFun (mass area faces) u u := by
  unfold C08Src.area_weight_matrix
  simp only [forEnum, mass]
  rw [mass_outer]; simp

/-- `volume_weight_matrix`: same loop over the cells -/
theorem volume_weight_matrix_bridge (cells : List Face) (volume : Attr Rat) (u : Nat) :
    C08Src.volume_weight_matrix cells volume u = toFun (mass volume cells) u u := by
  unfold C08Src.volume_weight_matrix
  simp only [forEnum, mass]
  rw [mass_outer]; simp

/-- the elementwise tail of every mass function: the optional square root and inverse (in either order: `√(1/x) = 1/√x`), then
`sp.diags`; nothing else is done to the assembled values -/
theorem mass_tail_order : ∀ p ∈ C08Src.massTails,
    p.2 = ["sqrt", "inverse", "diags"] ∨ p.2 = ["inverse", "sqrt", "diags"] ∨ p.2 = ["inverse", "diags"] := by decide

/-- `area_weight_matrix_faces`: the diagonal is the face-area attribute read as an array of `len(mesh.faces)` values: the model's `diagMass` -/
theorem area_weight_matrix_faces_bridge (faces : List Face) (area : Attr Rat) :
    (C08Src.area_weight_matrix_faces faces area).mapIdx (fun t a => ((t, t, a) : Trip)) = diagMass area faces.length := by
  simp only [C08Src.area_weight_matrix_faces, tab, diagMass]
  apply List.ext_getElem <;> simp

/-- `volume_weight_matrix_cells`: same on the cells -/
theorem volume_weight_matrix_cells_bridge (cells : List Face) (volume : Attr Rat) :
    (C08Src.volume_weight_matrix_cells cells volume).mapIdx (fun t a => ((t, t, a) : Trip)) = diagMass volume cells.length := by
  simp only [C08Src.volume_weight_matrix_cells, tab, diagMass]
  apply List.ext_getElem <;> simp

/-- `area_weight_matrix_edges`: edge `e` accumulates `area[T]/3` for each of its (at most two) faces `edge_to_faces(A,B)`, skipping `None`:
the diagonal entry of the model's `massEdges` -/
theorem area_weight_matrix_edges_at (faces : List Face) (edges : List (Nat × Nat)) (area : Attr Rat) (e : Nat) (he : e < edges.length) :
    C08Src.area_weight_matrix_edges faces edges area e = rsum ((edgeFaceList faces edges[e]).map (fun t => area t / 3)) := by
  unfold C08Src.area_weight_matrix_edges
  simp only []
  rw [forEnum_local_get _ _ _ _ e he]
  · simp only [forEach, List.foldl_cons, List.foldl_nil, edgeFaceList, edgeFaces]
    cases h1 : directFace faces edges[e].1 edges[e].2 <;> cases h2 : directFace faces edges[e].2 edges[e].1 <;>
      simp [upd, rsum] <;> ring
  · intro a i x
    funext k
    simp only [forEach, List.foldl_cons, List.foldl_nil]
    split_ifs <;> simp_all [upd]

example : C08Src.area_weight_matrix [[0, 1, 2], [1, 0, 3]] (fun t => if t = 0 then 2 else 3) 1 = 5 := by decide +kernel

end Mouette.Props.C08Source
