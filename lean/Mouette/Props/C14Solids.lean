import Mouette.Props.C14
import Mouette.Props.C14Derived
import Mouette.Generated.C14Solids
import Mouette.Generated.C14SolidsGeom
import Mouette.Lemmas.C14SolidsLemmas
import Mathlib.Tactic.FieldSimp
/-!
# C14 (round 4) — the generators that are not loop nests, from their whole translated bodies

`Mouette.Generated.C14Solids` / `C14SolidsGeom` are re-extracted on every run (vlib/gen/c14solids.py): for `tetrahedron` and
`hexahedron` the complete switch structure (what goes to `faces`, to `cells`, which colour is written at which face id), the
corner expressions stored by `triangle`, `quad`, `tetrahedron`, `hexahedron`, `icosahedron`, those handed on by
`hexahedron_4pts` / `axis_aligned_cube`, the loop skeleton of `icosphere`, the argument bindings of `spherify_vertices` /
`cylindrify_edges`, the mode dispatch of `dual_mesh`, the orientation branch of `sphere_fibonacci`.

* bridges: `tetrahedron_body`, `hexahedron_body` — the whole-body terms equal the face tables of Props/C14.lean for the switch
  values that produce a surface, so `*_closed_oriented` speak about what the body does; `volume` gives exactly one cell and no face;
* switches honoured as named: `hexahedron_colors_valid`, `hexahedron_colors_by_axis`, `axis_cube_forwards`, `transform_bindings`,
  `dual_modes_as_named`;
* orientation OUTWARD: `tetrahedron_outward`, `hexahedron_4pts_outward` (any parallelepiped), `axis_cube_outward`,
  `icosahedron_outward`, `fibonacci_outward`;
* shape: `quad_parallelogram_corners`, `hexahedron_4pts_parallelepiped`, `axis_cube_is_unit_cube`, `icosahedron_on_sphere`,
  `icosahedron_regular`;
* counts: `icosphere_counts`, `cylindrify_counts`, `spherify_counts`.
-/
namespace Mouette.Props.C14
open Mouette.Generated.C14 Mouette.Generated.C14Solids Mouette.Generated.C14SolidsGeom Mouette.MeshCheck Mouette.C14Solids
open Mouette.ListCount

/-! ## tetrahedron -/

/-- whole body: the face container does not depend on `volume` and is the table of `tetrahedron_closed_oriented`;
`volume` adds exactly the cell (0,1,2,3) -/
theorem tetrahedron_body (v : Bool) : tetrahedronFacesAll v = tetrahedronFaces ∧
    tetrahedronCells true = [[0, 1, 2, 3]] ∧ tetrahedronCells false = [] := by cases v <;> decide

/-- the four faces are the four vertex triples of the cell: each lies in the cell and each cell vertex is omitted by one face -/
theorem tetrahedron_faces_bound_the_cell :
    (tetrahedronCells true).all (fun c => tetrahedronFaces.all (fun f => f.all (c.contains ·)) &&
      c.all (fun v => (tetrahedronFaces.filter (fun f => !f.contains v)).length == 1)) = true := by decide

section geom
variable {K : Type} [Field K]

/-- vertex k is the k-th point given -/
theorem tetrahedron_corners (P1 P2 P3 P4 : K × K × K) : tetrahedronCorners P1 P2 P3 P4 = [P1, P2, P3, P4] := rfl

/-- OUTWARD: for every face, normal · (face − omitted vertex) = det [P2−P1; P3−P1; P4−P1]: for positively oriented corners
every face looks away from the fourth vertex (and for negatively oriented corners all four look inward — consistently) -/
theorem tetrahedron_outward (P1 P2 P3 P4 : K × K × K) : ∀ f ∈ tetrahedronFaces,
    awayFrom (tetrahedronCorners P1 P2 P3 P4) f (pt (tetrahedronCorners P1 P2 P3 P4) (6 - f.sum)) =
      det3 (vsub P2 P1) (vsub P3 P1) (vsub P4 P1) := by
  intro f hf
  simp only [tetrahedronFaces, List.mem_cons, List.mem_nil_iff, or_false] at hf
  rcases hf with rfl | rfl | rfl | rfl <;>
    (simp [awayFrom, faceNormal, pt, tetrahedronCorners, det3, dot, cross, vsub]; ring)

end geom

/-! ## hexahedron -/

/-- whole body: with `volume` no face is stored and the single cell (0,…,7); otherwise no cell and the triangle / quad table of
`hexahedron_tri_closed_oriented` / `hexahedron_quad_closed_oriented` according to `triangulate`; `colored` changes neither -/
theorem hexahedron_body (c t : Bool) : hexahedronFacesAll c t true = [] ∧
    hexahedronCells c t true = [[0, 1, 2, 3, 4, 5, 6, 7]] ∧ hexahedronCells c t false = [] ∧
    hexahedronFacesAll c true false = hexahedronFacesTri ∧ hexahedronFacesAll c false false = hexahedronFacesQuad := by
  cases c <;> cases t <;> decide

/-- `colored`: every colour is written at an existing face id, none twice, and (colored surface) every face gets one;
without `colored`, or for a volume mesh, nothing is written -/
theorem hexahedron_colors_valid (c t v : Bool) :
    colorsValid (hexahedronFacesAll c t v) (hexahedronColorWrites c t v) (c && !v) = true ∧
    ((c = false ∨ v = true) → hexahedronColorWrites c t v = []) := by
  cases c <;> cases t <;> cases v <;> decide

/-- the colours mark the three axes: two faces have the same colour iff they lie in the same or in opposite sides -/
theorem hexahedron_colors_by_axis (t : Bool) :
    colorsByAxis hexahedronFacesQuad (hexahedronFacesAll true t false) (hexahedronColorWrites true t false) = true := by
  cases t <;> decide +kernel

/-! ## axis_aligned_cube, hexahedron_4pts -/

/-- both switches reach the parameter of the same name; the corners are the 8 points (±½, ±½, ±½) (twice: ±1), all distinct -/
theorem axis_cube_forwards : axisCubeBinding = [("colored", "colored"), ("triangulate", "triangulate")] := by decide

theorem axis_cube_is_unit_cube : axisCubeCoords2.length = 8 ∧ axisCubeCoords2.Nodup ∧
    axisCubeCoords2.all (fun p => (p.1 == 1 || p.1 == -1) && (p.2.1 == 1 || p.2.1 == -1) && (p.2.2 == 1 || p.2.2 == -1)) = true := by
  decide

/-- OUTWARD: with these corners every face of both hexahedron tables has its right-hand-rule normal pointing away from the
centre (the origin) -/
theorem axis_cube_outward : outwardFromOrigin axisCubeCoords2 hexahedronFacesQuad = true ∧
    outwardFromOrigin axisCubeCoords2 hexahedronFacesTri = true := by decide +kernel

section geom
variable {K : Type} [Field K]

/-- the corners handed to hexahedron(): P1 + a·X + b·Y + c·Z with X = P2 − P1, Y = P3 − P1, Z = P4 − P1, a, b, c ∈ {0, 1},
in the documented order (0: origin, 1: +X, 2: +X+Y, 3: +Y, then the same four shifted by Z) -/
theorem hexahedron_4pts_parallelepiped (P1 P2 P3 P4 : K × K × K) :
    let X := vsub P2 P1; let Y := vsub P3 P1; let Z := vsub P4 P1
    hexa4ptsCorners P1 P2 P3 P4 = [P1, vadd P1 X, vadd (vadd P1 X) Y, vadd P1 Y,
      vadd P1 Z, vadd (vadd P1 Z) X, vadd (vadd (vadd P1 Z) X) Y, vadd (vadd P1 Z) Y] := by
  obtain ⟨a1, a2, a3⟩ := P1; obtain ⟨b1, b2, b3⟩ := P2; obtain ⟨c1, c2, c3⟩ := P3; obtain ⟨d1, d2, d3⟩ := P4
  simp only [hexa4ptsCorners, vadd, vsub, List.cons.injEq, Prod.mk.injEq, and_true]
  repeat' constructor
  all_goals ring

/-- OUTWARD for every parallelepiped: for every face of both tables, normal · (2·first corner − (corner 0 + corner 6)) equals
det [X; Y; Z] (corner 0 + corner 6 = twice the centre): a right-handed basis gives outward faces -/
theorem hexahedron_4pts_outward (P1 P2 P3 P4 : K × K × K) : ∀ f ∈ hexahedronFacesQuad ++ hexahedronFacesTri,
    let ps := hexa4ptsCorners P1 P2 P3 P4
    dot (faceNormal ps f) (vsub (vadd (pt ps (f.getD 0 0)) (pt ps (f.getD 0 0))) (vadd (pt ps 0) (pt ps 6))) =
      det3 (vsub P2 P1) (vsub P3 P1) (vsub P4 P1) := by
  intro f hf
  simp only [hexahedronFacesQuad, hexahedronFacesTri, List.cons_append, List.nil_append, List.mem_cons, List.mem_nil_iff,
    or_false] at hf
  rcases hf with rfl | rfl | rfl | rfl | rfl | rfl | rfl | rfl | rfl | rfl | rfl | rfl | rfl | rfl | rfl | rfl | rfl | rfl <;>
    (simp [faceNormal, pt, hexa4ptsCorners, det3, dot, cross, vsub, vadd]; ring)

/-! ## triangle, quad -/

theorem triangle_corners (P0 P1 P2 : K × K × K) : triangleCorners P0 P1 P2 = [P0, P1, P2] := rfl

/-- the stored corners are P0, P1, P1 + (P2 − P0), P2: walking the face (0,1,2,3) goes round a parallelogram (opposite sides are
equal vectors) whose corners 0, 1, 3 are the three points given -/
theorem quad_parallelogram_corners (P0 P1 P2 : K × K × K) :
    let cs := quadCorners P0 P1 P2
    pt cs 0 = P0 ∧ pt cs 1 = P1 ∧ pt cs 3 = P2 ∧ vsub (pt cs 2) (pt cs 1) = vsub (pt cs 3) (pt cs 0) ∧
      vsub (pt cs 2) (pt cs 3) = vsub (pt cs 1) (pt cs 0) := by
  refine ⟨rfl, rfl, rfl, ?_, ?_⟩ <;>
    (simp only [pt, quadCorners, vsub, List.getD_cons_succ, List.getD_cons_zero, Prod.mk.injEq]
     exact ⟨by ring, by ring, by ring⟩)

/-! ## icosahedron -/

/-- every vertex is at squared distance radius²·(1 + φ²) from the centre (whatever φ) -/
theorem icosahedron_on_sphere (phi r : K) (c : K × K × K) : ∀ p ∈ icosahedronCorners phi r c,
    dist2 p c = r ^ 2 * (1 + phi ^ 2) := by
  intro p hp
  simp only [icosahedronCorners, List.mem_cons, List.mem_nil_iff, or_false] at hp
  rcases hp with rfl | rfl | rfl | rfl | rfl | rfl | rfl | rfl | rfl | rfl | rfl | rfl <;>
    (simp only [dist2, dot, vsub]; ring)

/-- REGULAR: with φ² = φ + 1 every side of every face of the translated table has squared length (2·radius)² -/
theorem icosahedron_regular (phi r : K) (c : K × K × K) (h : phi ^ 2 = phi + 1) : ∀ f ∈ icosahedronFaces, ∀ e ∈ sides f,
    dist2 (pt (icosahedronCorners phi r c) e.1) (pt (icosahedronCorners phi r c) e.2) = (2 * r) ^ 2 := by
  intro f hf
  simp only [icosahedronFaces, List.mem_cons, List.mem_nil_iff, or_false] at hf
  rcases hf with rfl | rfl | rfl | rfl | rfl | rfl | rfl | rfl | rfl | rfl | rfl | rfl | rfl | rfl | rfl | rfl | rfl | rfl | rfl | rfl <;>
  · intro e he
    simp only [sides, List.tail_cons, List.cons_append, List.nil_append, List.zip_cons_cons, List.zip_nil_right, List.mem_cons,
      List.mem_nil_iff, or_false] at he
    rcases he with rfl | rfl | rfl <;>
      (simp [pt, icosahedronCorners, dist2, dot, vsub]
       first | ring1 | linear_combination (2 * r ^ 2) * h)

/-- `sphere_fibonacci`: every sampled point is at the named radius from the origin — given cos² + sin² = 1 and that `sqrt`
squares back to its (non-negative: |j| < n_pts) argument — for every n_pts ≠ 0 and every index -/
theorem fibonacci_point_on_sphere (cos sin sqrt : K → K) (pi phi radius n i : K) (hcs : ∀ t, cos t ^ 2 + sin t ^ 2 = 1)
    (hn : n ≠ 0)
    (hsq : sqrt ((n + (2 * i - (n - 1))) * (n - (2 * i - (n - 1)))) ^ 2 = (n + (2 * i - (n - 1))) * (n - (2 * i - (n - 1)))) :
    (fibonacciPoint cos sin sqrt pi phi radius n i).1 ^ 2 + (fibonacciPoint cos sin sqrt pi phi radius n i).2.1 ^ 2 +
      (fibonacciPoint cos sin sqrt pi phi radius n i).2.2 ^ 2 = radius ^ 2 := by
  simp only [fibonacciPoint]
  have h1 := hcs (2 * pi * (2 * i - (n - 1)) / phi)
  generalize sqrt ((n + (2 * i - (n - 1))) * (n - (2 * i - (n - 1)))) = s at hsq ⊢
  generalize cos (2 * pi * (2 * i - (n - 1)) / phi) = ct at h1 ⊢
  generalize sin (2 * pi * (2 * i - (n - 1)) / phi) = st at h1 ⊢
  field_simp
  linear_combination (radius ^ 2 * s ^ 2) * h1 + radius ^ 2 * hsq

/-- `vector_field`: per row the segment from the origin to origin + length_mult · vector -/
theorem vector_field_points (lm : K) (o v : K × K × K) :
    pt (vectorFieldPts lm o v) 0 = o ∧ vsub (pt (vectorFieldPts lm o v) 1) o = (lm * v.1, lm * v.2.1, lm * v.2.2) := by
  refine ⟨rfl, ?_⟩
  simp only [pt, vectorFieldPts, vsub, List.getD_cons_succ, List.getD_cons_zero, Prod.mk.injEq]
  exact ⟨by ring, by ring, by ring⟩

end geom

section ordered
variable {K : Type} [Field K] [LinearOrder K] [IsStrictOrderedRing K]

/-- OUTWARD: for φ > 0 and radius > 0 every face of the table looks away from the centre -/
theorem icosahedron_outward (phi r : K) (c : K × K × K) (hphi : 0 < phi) (hr : 0 < r) : ∀ f ∈ icosahedronFaces,
    0 < awayFrom (icosahedronCorners phi r c) f c := by
  intro f hf
  have h1 : 0 < r ^ 3 * (phi ^ 3 + 1) := by positivity
  have h2 : 0 < r ^ 3 * (2 * phi ^ 2) := by positivity
  have key : awayFrom (icosahedronCorners phi r c) f c = r ^ 3 * (phi ^ 3 + 1) ∨
      awayFrom (icosahedronCorners phi r c) f c = r ^ 3 * (2 * phi ^ 2) := by
    simp only [icosahedronFaces, List.mem_cons, List.mem_nil_iff, or_false] at hf
    rcases hf with rfl | rfl | rfl | rfl | rfl | rfl | rfl | rfl | rfl | rfl | rfl | rfl | rfl | rfl | rfl | rfl | rfl | rfl | rfl | rfl <;>
      (simp only [awayFrom, faceNormal, pt, icosahedronCorners, dot, cross, vsub, List.getD_cons_succ, List.getD_cons_zero]
       first | (left; ring1) | (right; ring1))
  rcases key with k | k <;> rw [k] <;> assumption

/-- `sphere_fibonacci` stores (A, C, B) when (pA+pB+pC)/3 · cross(pB−pA, pC−pA) < 0 and (A, B, C) otherwise: in both cases the
stored triangle's normal has a non-negative component along its centroid — it looks away from the centre of the sphere -/
theorem fibonacci_outward (pA pB pC : K × K × K) :
    let ps := [pA, pB, pC]
    let d := dot (vadd (vadd pA pB) pC) (cross (vsub pB pA) (vsub pC pA))
    (d < 0 → 0 ≤ dot (vadd (vadd pA pB) pC) (faceNormal ps fibonacciFaceNeg)) ∧
    (¬ d < 0 → 0 ≤ dot (vadd (vadd pA pB) pC) (faceNormal ps fibonacciFacePos)) := by
  constructor
  · intro hd
    have : dot (vadd (vadd pA pB) pC) (faceNormal [pA, pB, pC] fibonacciFaceNeg) =
        - dot (vadd (vadd pA pB) pC) (cross (vsub pB pA) (vsub pC pA)) := by
      simp [faceNormal, pt, fibonacciFaceNeg, dot, cross, vsub, vadd]; ring
    rw [this]; linarith
  · intro hd
    have : dot (vadd (vadd pA pB) pC) (faceNormal [pA, pB, pC] fibonacciFacePos) =
        dot (vadd (vadd pA pB) pC) (cross (vsub pB pA) (vsub pC pA)) := by
      simp [faceNormal, pt, fibonacciFacePos, dot, cross, vsub, vadd]
    rw [this]; exact not_lt.mp hd

end ordered

/-! ## icosphere, spherify_vertices, cylindrify_edges, dual_mesh -/

/-- `icosphere(n)`: n subdivision steps (one per round), each followed by the projection, starting from
icosahedron(center, radius); hence 10·4ⁿ+2 vertices, 30·4ⁿ edges, 20·4ⁿ faces, χ = 2 -/
theorem icosphere_counts (n : Nat) : icosphereSteps n = n ∧
    icosphereBaseBinding = [("center", "center"), ("radius", "radius")] ∧
    subdivIter (icosphereSteps n) (icosahedronNVerts, numEdges icosahedronFaces, icosahedronFaces.length) =
      (10 * 4 ^ n + 2, 30 * 4 ^ n, 20 * 4 ^ n) ∧
    ((10 * 4 ^ n + 2 : Nat) : Int) - (30 * 4 ^ n : Nat) + (20 * 4 ^ n : Nat) = 2 := by
  have hs : icosphereSteps n = n := by
    unfold icosphereSteps; rw [length_flatMap_const _ _ 1] <;> simp
  have hc : (icosahedronNVerts, numEdges icosahedronFaces, icosahedronFaces.length) = (12, 30, 20) := by decide +kernel
  refine ⟨hs, by decide, ?_, ?_⟩
  · rw [hs, hc, subdivIter_ico]
  · push_cast; ring

/-- the arguments reach the parameters they are named after: the sphere is centred at the point with the given radius and
subdivision depth; the tube runs from one end of the edge to the other, open, with N segments and radius L·radius -/
theorem transform_bindings :
    spherifyBinding = [("center", "point"), ("n_refine", "n_subdiv"), ("radius", "radius")] ∧
    cylindrifyBinding = [("N", "N"), ("P1", "end0"), ("P2", "end1"), ("fill_caps", "False"), ("radius", "L * radius")] ∧
    cylindrifyL = "mean_edge_length(mesh)" ∧ cylindrifyFillCaps = false := by decide

/-- `cylindrify_edges` on nE edges: 2·N vertices and 2·N triangles per edge (open tubes), from the translated `cylinder` -/
theorem cylindrify_counts (nE N : Nat) : cylindrifyNVerts nE N = nE * (2 * N) ∧ cylindrifyNFaces nE N = nE * (2 * N) := by
  have hf : cylindrifyFillCaps = false := by decide
  constructor
  · unfold cylindrifyNVerts
    rw [length_flatMap_const _ _ (2 * N)]
    · simp
    · intro a _; rw [List.length_replicate, hf, cylinder_nverts]; simp
  · unfold cylindrifyNFaces
    rw [length_flatMap_const _ _ (2 * N)]
    · simp
    · intro a _; rw [List.length_map, hf, cylinder_nfaces]; simp

/-- `spherify_vertices` on nP points with depth k: nP disjoint icospheres — nP·(10·4ᵏ+2) vertices, nP·20·4ᵏ faces, χ = 2·nP -/
theorem spherify_counts (nP k : Nat) :
    let c := subdivIter (icosphereSteps k) (12, 30, 20)
    (nP * c.1, nP * c.2.2) = (nP * (10 * 4 ^ k + 2), nP * (20 * 4 ^ k)) ∧
    ((nP * c.1 : Nat) : Int) - (nP * c.2.1 : Nat) + (nP * c.2.2 : Nat) = 2 * nP := by
  have hs : icosphereSteps k = k := (icosphere_counts k).1
  simp only [hs, subdivIter_ico, true_and]
  push_cast; ring

/-- `dual_mesh`: "barycenter" takes the face barycentres, "circumcenter" the circumcentres (mode compared lower-cased); one vertex
`dual_pts[F]` per face id F, one face `vertex_to_faces(V)` per vertex id V -/
theorem dual_modes_as_named :
    dualModes = [("barycenter", "face_barycenter"), ("circumcenter", "face_circumcenter")] ∧
    dualVertexLoop = ("mesh.id_faces", "dual_pts[i]") ∧
    dualFaceLoop = ("mesh.id_vertices", "mesh.connectivity.vertex_to_faces(i)") := by decide

/-! ## non-vacuity -/

example : hexahedronColorWrites true false false = [[0, 1, 0, 0], [5, 1, 0, 0], [1, 0, 1, 0], [3, 0, 1, 0], [2, 0, 0, 1], [4, 0, 0, 1]] := by
  decide
example : (hexahedronColorWrites true true false).length = 12 ∧ hexahedronCells true true true = [[0, 1, 2, 3, 4, 5, 6, 7]] := by decide
example : det3 (vsub ((1 : ℚ), (0 : ℚ), (0 : ℚ)) (0, 0, 0)) (vsub (0, 1, 0) (0, 0, 0)) (vsub (0, 0, 1) (0, 0, 0)) = 1 := by
  simp [det3, dot, cross, vsub]
example : icosphereSteps 3 = 3 ∧ subdivIter 2 (12, 30, 20) = (162, 480, 320) := by decide
example : cylindrifyNVerts 2 5 = 20 ∧ cylindrifyNFaces 2 5 = 20 := by decide
/-- the hypotheses of `icosahedron_outward` / `icosahedron_regular` are satisfiable together over an ordered field (ℝ, φ the golden
ratio); over ℚ: `icosahedron_on_sphere` at φ = 2 -/
example : dist2 (pt (icosahedronCorners (2 : ℚ) 3 (1, 1, 1)) 4) (1, 1, 1) = 3 ^ 2 * (1 + 2 ^ 2) := by
  simp [pt, icosahedronCorners, dist2, dot, vsub]; norm_num

end Mouette.Props.C14
