import Mouette.Model.IO
import Mouette.Model.IOGeogram
import Mouette.Generated.C04Medit
import Mouette.Lemmas.C04Codecs
import Mouette.Lemmas.C04Medit
import Mouette.Lemmas.C04Stl
import Mouette.Lemmas.C04GeoChunks
import Mouette.Lemmas.C04MeditRef
/-
C04 — saving then loading a mesh is lossless within each format's vocabulary.

Models: `Mouette/Model/IO.lean` (obj, off, tet, xyz, medit, stl), `Mouette/Model/IOGeogram.lean`.
All theorems are for ALL meshes `m` (any number of vertices / edges / faces / cells, any arities, any indices)
and any coordinate type `C` whose text codec round-trips (`RoundTrips cd : ∀ c, parse (fmt c) = some c`,
trusted-base item T5, sampled by the harness on adversarial doubles).  `restrict_f m` is the vocabulary table
of DESIGN.md applied to `m`: same vertices, same elements in the same vertex order for every kind the format can
express, other kinds absent.
-/
namespace Mouette.Props.C04
open Mouette.IO

variable {C : Type}

/-! ### translated fragment -/

/-- the dispatch table read from medit.py *now* is the table the model (and `medit_load_save`) uses -/
theorem medit_rows_bridge : Mouette.Generated.C04Medit.rows = meditRows := by decide

/-! ### P0: load (save m) = restrict m, per format -/

/-- obj: vertices, the edges written as `l` lines (hard edges, or all edges for a polyline / without completion),
faces of ANY arity, in order; no cells. -/
theorem obj_load_save (cd : Codec C) (h : RoundTrips cd) (cfg : Cfg) (m : Raw C) :
    importObj cd (exportObj cd cfg m) = some (restrictObj cfg m) :=
  importObj_exportObj cd h cfg m

/-- tet: vertices and cells (arity-prefixed records, any arity) -/
theorem tet_load_save (cd : Codec C) (h : RoundTrips cd) (m : Raw C) :
    importTet cd (exportTet cd m) = some (restrictTet m) :=
  importTet_exportTet cd h m

/-- xyz: vertices only -/
theorem xyz_load_save (cd : Codec C) (h : RoundTrips cd) (m : Raw C) :
    importXyz cd (exportXyz cd m) = some (restrictXyz m) :=
  importXyz_exportXyz cd h m

/-- medit: vertices, declared edges, triangles then quads, hexahedra then tetrahedra (per-kind blocks, order
inside a kind preserved); other arities absent.  Holds for the repaired reader (Hexahedra arity 8): with the
table of the pinned tree `medit_rows_bridge` does not compile. -/
theorem medit_load_save (cd : Codec C) (h : RoundTrips cd) (m : Raw C) :
    importMedit cd (exportMedit cd m) = some (restrictMedit m) :=
  importMedit_exportMedit cd h m

/-- the same statement about the table extracted from the source -/
theorem medit_load_save_generated (cd : Codec C) (h : RoundTrips cd) (m : Raw C) :
    importMeditWith cd Mouette.Generated.C04Medit.rows (exportMedit cd m) = some (restrictMedit m) := by
  rw [medit_rows_bridge]; exact importMedit_exportMedit cd h m

/-- P1, interoperability: a medit file laid out by an INDEPENDENT writer (`refExportMedit`: version 2, reference
column 0, quads before triangles, tetrahedra before hexahedra, edges last, closing `End`) is read by mouette's
reader as the same vertices, all edges, and the same elements per kind, for ALL meshes -/
theorem medit_reads_reference (cd : Codec C) (h : RoundTrips cd) (m : Raw C) :
    importMedit cd (refExportMedit cd m) = some (refMeditContent m)
    ∧ (refMeditContent m).verts = m.verts ∧ (refMeditContent m).edges = m.edges
    ∧ (∀ n, ofArity n (refMeditContent m).faces = ofArity n (ofArity 4 m.faces ++ ofArity 3 m.faces)) :=
  ⟨importMedit_refExportMedit cd h m, rfl, rfl, fun _ => rfl⟩

/- off, FULL statement (does NOT hold for the code as it is — open findings C04/off/quad-face, C04/off/polygon-face):
     ∀ m, importOff cd (exportOff cd m) = some (restrictOff m)
   What holds: -/

/-- off, under the exact restriction: every face is a triangle -/
theorem off_load_save_partial (cd : Codec C) (h : RoundTrips cd) (m : Raw C)
    (hall : ∀ f ∈ m.faces, f.length = 3) :
    importOff cd (exportOff cd m) = some (restrictOff m) := by
  rw [importOff_exportOff_actual cd h m (fun f hf => by rw [hall f hf]; decide)]
  rw [ofArity_all 3 m.faces hall, ofArity_none 4 m.faces (fun f hf => by rw [hall f hf]; decide)]
  rfl

/-- off, what the code really does for every mesh without 2-gons: triangles come back, quads come back as
*cells*, every other face is dropped -/
theorem off_load_save_actual (cd : Codec C) (h : RoundTrips cd) (m : Raw C) (hf : ∀ f ∈ m.faces, f.length ≠ 2) :
    importOff cd (exportOff cd m)
      = some { verts := m.verts, faces := ofArity 3 m.faces, cells := ofArity 4 m.faces } :=
  importOff_exportOff_actual cd h m hf

/-- a codec on a one-point coordinate type: shows `RoundTrips` is satisfiable and makes witnesses decidable -/
def unitCodec : Codec Unit := { fmt := fun _ => "0", parse := fun _ => some (), r32 := id, zero := () }

example : RoundTrips unitCodec := fun _ => rfl

def quadMesh : Raw Unit :=
  { verts := [((), (), ()), ((), (), ()), ((), (), ()), ((), (), ())], faces := [[0, 1, 2, 3]] }

def pentaMesh : Raw Unit :=
  { verts := [((), (), ()), ((), (), ()), ((), (), ()), ((), (), ()), ((), (), ())], faces := [[0, 1, 2, 3, 4]] }

/-- the full off statement is false on one quad: it is "turned into something else" (a cell) -/
theorem off_quad_refuted :
    importOff unitCodec (exportOff unitCodec quadMesh) ≠ some (restrictOff quadMesh)
    ∧ (importOff unitCodec (exportOff unitCodec quadMesh)).map (·.cells) = some [[0, 1, 2, 3]] := by decide

/-- … and on one pentagon: it is dropped -/
theorem off_polygon_refuted :
    importOff unitCodec (exportOff unitCodec pentaMesh) ≠ some (restrictOff pentaMesh) := by decide

/- stl, FULL statement (does NOT hold — open findings C04/stl/quad-face, C04/stl/polygon-face):
     ∀ m file, exportStl cd m = some file ∧ stlSoup cd file = restrictStlSoup cd m
   (the triangle soup of the file is exactly the triangles of m, rounded to binary32; other faces absent). -/

/-- stl, what the writer really does: the soup of the file is every triangle the writer emitted (quads split in
two), rounded to binary32, in order -/
theorem stl_load_save_actual (cd : Codec C) (h : RoundTrips cd) (m : Raw C) (ts : List (Tri C))
    (ht : stlTris m = some ts) :
    ∃ file, exportStl cd m = some file ∧ stlSoup cd file = some (ts.map (r32tri cd)) :=
  stlSoup_exportStl cd h m ts ht

/-- stl under the exact restriction: all faces are triangles (and the writer did not raise) -/
theorem stl_load_save_partial (cd : Codec C) (h : RoundTrips cd) (m : Raw C)
    (hall : ∀ f ∈ m.faces, f.length = 3) (ts : List (Tri C)) (ht : stlTris m = some ts) :
    ∃ file, exportStl cd m = some file ∧ stlSoup cd file = restrictStlSoup cd m := by
  obtain ⟨file, h1, h2⟩ := stlSoup_exportStl cd h m ts ht
  exact ⟨file, h1, by rw [h2, stlTris_triangles cd m hall ts ht]⟩

/-- the full stl statement is false on one quad: two triangles are written where none may be -/
theorem stl_quad_refuted :
    (exportStl unitCodec quadMesh).bind (stlSoup unitCodec) ≠ restrictStlSoup unitCodec quadMesh
    ∧ ((exportStl unitCodec quadMesh).bind (stlSoup unitCodec)).map List.length = some 2 := by decide

/-- … and the writer raises on a pentagon -/
theorem stl_polygon_refuted : exportStl unitCodec pentaMesh = none := by decide

/-! ### geogram_ascii (chunk level: a file is the list of its [HEAD]/[ATTS]/[ATTR] chunks) -/

/- geogram, FULL statement:
     ∀ g, importGeo cd (exportGeo cd g) = some (restrictGeo g)        (file level, all attributes, all cell kinds)
   Proved below: the chunk-level statement for meshes without user attributes whose cells are tetrahedra (the
   exporter writes no cell_ptr; saving hexahedra fails earlier: open finding C04/geogram_ascii/hex-cell), faces of ANY
   arity.  The splitting of the token file into chunks (`parseFile`) and the attribute chunks in context are covered by
   the correspondence and by `geo_attr_chunk_partial`. -/

/-- geogram elements: vertices, ALL edges, faces of any arity (facet_ptr written by the repaired exporter and decoded
by the importer), tetrahedra, cell adjacency.  `expectedG g` is `g` itself plus the `facet_ptr` block re-read as an
integer attribute of the facets (what the Python importer does). -/
theorem geo_elements_load_save_partial (cd : Codec C) (h : RoundTrips cd) (g : Geo.GMesh C) (ha : g.attrs = [])
    (htet : ∀ c ∈ g.raw.cells, c.length = 4) :
    Geo.importChunks cd (Geo.exportChunks cd g) = some (Geo.expectedG g)
    ∧ (Geo.expectedG g).raw = { g.raw with hard := none } :=
  ⟨Geo.importChunks_exportChunks cd h g ha htet, rfl⟩

/-- pointer arithmetic for ALL element lists: the prefix sums written as facet_ptr / cell_ptr give back the element
sizes and the elements themselves -/
theorem geo_ptr_decode (fs : List (List Nat)) (hne : fs ≠ []) :
    Geo.ptrSizes fs.length fs.flatten.length (Geo.prefixSums 0 fs) = some (fs.map List.length)
    ∧ Geo.buildElems fs.flatten fs.length (fs.map List.length, Geo.prefixSums 0 fs) = some fs :=
  ⟨Geo.ptrSizes_export fs hne, Geo.buildElems_ptr fs⟩

/-- without facet_ptr (the pinned tree's exporter) the "all triangles" convention mis-decodes a quad: this is the
defect repaired by `fix: geogram_ascii export writes facet_ptr …` -/
theorem geo_quad_without_ptr_refuted :
    Geo.buildElems [0, 1, 2, 3] 1 (Geo.defaultPtr 3 1 ([], [])) = some [[0, 1, 2]] := by decide

/-- P1 (partial): one user attribute chunk is read back with its container, name, type, arity and values -/
theorem geo_attr_chunk_partial (cd : Codec C) (sz : Geo.Sizes) (fp cp : List Nat × List Nat) (g : Geo.GMesh C)
    (a : Geo.GAttr) (hd : a.dim ≠ 0) (hv : Geo.convVals cd a.typ a.vals = some a.vals)
    (hn : a.name ≠ "\"point\"" ∧ a.name ≠ "\"GEO::Mesh::edges::edge_vertex\"" ∧
          a.name ≠ "\"GEO::Mesh::facet_corners::corner_vertex\"" ∧ a.name ≠ "\"GEO::Mesh::cell_corners::corner_vertex\"" ∧
          a.name ≠ "\"GEO::Mesh::cell_facets::adjacent_cell\"") :
    Geo.stepImport cd sz fp cp g (Geo.attrChunk a) = some { g with attrs := g.attrs ++ [a] } :=
  Geo.stepImport_attrChunk cd sz fp cp g a hd hv hn

/-! ### kinds outside the vocabulary are absent -/

theorem obj_no_cells (cfg : Cfg) (m : Raw C) : (restrictObj cfg m).cells = [] := rfl
theorem xyz_only_vertices (m : Raw C) :
    (restrictXyz m).edges = [] ∧ (restrictXyz m).faces = [] ∧ (restrictXyz m).cells = [] := ⟨rfl, rfl, rfl⟩
theorem tet_no_faces (m : Raw C) : (restrictTet m).faces = [] ∧ (restrictTet m).edges = [] := ⟨rfl, rfl⟩

theorem medit_vocabulary (m : Raw C) :
    (∀ f ∈ (restrictMedit m).faces, f.length = 3 ∨ f.length = 4) ∧
    (∀ c ∈ (restrictMedit m).cells, c.length = 8 ∨ c.length = 4) := by
  constructor
  · intro f hf
    simp only [restrictMedit, List.mem_append] at hf
    rcases hf with hf | hf
    · exact Or.inl (ofArity_length 3 _ f hf)
    · exact Or.inr (ofArity_length 4 _ f hf)
  · intro c hc
    simp only [restrictMedit, List.mem_append] at hc
    rcases hc with hc | hc
    · exact Or.inl (ofArity_length 8 _ c hc)
    · exact Or.inr (ofArity_length 4 _ c hc)

/-- medit keeps every triangle / quad / tet / hex of the mesh: for a mesh inside the vocabulary nothing is lost
except the interleaving of kinds -/
theorem medit_keeps_all (m : Raw C) (hall : ∀ f ∈ m.faces, f.length = 3) : (restrictMedit m).faces = m.faces := by
  simp only [restrictMedit]
  rw [ofArity_all 3 m.faces hall, ofArity_none 4 m.faces (fun f hf => by rw [hall f hf]; decide)]
  simp

/-! ### the class of the loaded object = dimensionality of the restricted content -/

theorem load_class (cd : Codec C) (h : RoundTrips cd) (cfg : Cfg) (m : Raw C) :
    (importObj cd (exportObj cd cfg m)).map dim = some (dim (restrictObj cfg m)) ∧
    (importMedit cd (exportMedit cd m)).map dim = some (dim (restrictMedit m)) ∧
    (importTet cd (exportTet cd m)).map dim = some (dim (restrictTet m)) ∧
    (importXyz cd (exportXyz cd m)).map dim = some 0 := by
  rw [obj_load_save cd h, medit_load_save cd h, tet_load_save cd h, xyz_load_save cd h]
  exact ⟨rfl, rfl, rfl, rfl⟩

/-- `ignore_elements` acts before the writer: what comes back is the vocabulary of the remaining content -/
theorem obj_load_save_ignore (cd : Codec C) (h : RoundTrips cd) (cfg : Cfg) (ig : Ignore) (m : Raw C) :
    importObj cd (exportObj cd cfg (applyIgnore ig m)) = some (restrictObj cfg (applyIgnore ig m)) :=
  obj_load_save cd h cfg _

/-! ### tests of the executable model (decide on concrete meshes; NOT proofs of the property) -/

def hexMesh : Raw Unit :=
  { verts := List.replicate 9 ((), (), ()), cells := [[0, 1, 2, 3, 4, 5, 6, 7], [4, 5, 6, 8]],
    faces := [[0, 1, 2, 3], [4, 5, 6]], edges := [(0, 1), (2, 5)], hard := some [1] }

example : importMedit unitCodec (exportMedit unitCodec hexMesh) = some (restrictMedit hexMesh) := by decide
example : (restrictMedit hexMesh).edges = [(2, 5)] := by decide
example : importObj unitCodec (exportObj unitCodec {} hexMesh) = some (restrictObj {} hexMesh) := by decide
example : dim (restrictObj {} hexMesh) = 2 ∧ dim (restrictMedit hexMesh) = 3 := by decide

def geoMesh : Geo.GMesh Unit :=
  { raw := { verts := List.replicate 6 ((), (), ()), edges := [(0, 1)], faces := [[0, 1, 2, 3], [3, 4, 5]],
             cells := [[0, 1, 2, 4]] },
    attrs := [{ cont := .vertices, name := "\"w\"", typ := .int, dim := 1, vals := List.replicate 6 (.int 7) },
              { cont := .facetCorners, name := "\"b\"", typ := .bool, dim := 1, vals := List.replicate 7 (.int 1) }],
    adj := [4294967295, 4294967295, 4294967295, 4294967295] }

-- file level (tokens → chunks → mesh), with attributes: a test on one mesh
set_option maxRecDepth 100000 in
example : (Geo.importGeo unitCodec (Geo.exportGeo unitCodec geoMesh)).map (fun g => (g.raw, g.adj))
    = some ({ geoMesh.raw with hard := none }, geoMesh.adj) := by decide

end Mouette.Props.C04
