import Mouette.Model.IO
import Mouette.Model.IOGeogram
import Mouette.Generated.C04Medit
import Mouette.Lemmas.C04Codecs
import Mouette.Lemmas.C04Medit
import Mouette.Lemmas.C04Stl
import Mouette.Lemmas.C04GeoChunks
import Mouette.Lemmas.C04MeditRef
import Mouette.Lemmas.C04Ref
import Mouette.Lemmas.C04GeoAttrs
import Mouette.Lemmas.C04GeoRef
import Mouette.Lemmas.C04Tables
import Mouette.Lemmas.C04GeoFile
import Mouette.Lemmas.C04Save
import Mouette.Lemmas.C04Repr
import Mouette.Lemmas.C04StlReader
import Mouette.Generated.C04Save
import Mouette.Generated.C04Tables
/-
C04 — saving then loading a mesh is lossless within each format's vocabulary.

Models: `Mouette/Model/IO.lean` (obj, off, tet, xyz, medit, stl), `Mouette/Model/IOGeogram.lean`.
All theorems are for ALL meshes `m` (any number of vertices / edges / faces / cells, any arities, any indices)
and any coordinate type `C` whose text codec round-trips (`RoundTrips cd : ∀ c, parse (fmt c) = some c`,
trusted-base item T5, sampled by the harness on adversarial doubles).  `restrict_f m` is the vocabulary table
of DESIGN.md applied to `m`: same vertices, same elements in the same vertex order for every kind the format can
express, other kinds absent.
-/
namespace Mouette.Props.C04
open Mouette.IO

variable {C : Type}

/-! ### translated fragment -/

/-- the dispatch table read from medit.py *now* is the table the model (and `medit_load_save`) uses -/
theorem medit_rows_bridge : Mouette.Generated.C04Medit.rows = meditRows := by decide

/-! ### P0: load (save m) = restrict m, per format -/

/-- obj: vertices, the edges written as `l` lines (hard edges, or all edges for a polyline / without completion),
faces of ANY arity, in order; no cells. -/
theorem obj_load_save (cd : Codec C) (h : RoundTrips cd) (cfg : Cfg) (m : Raw C) :
    importObj cd (exportObj cd cfg m) = some (restrictObj cfg m) :=
  importObj_exportObj cd h cfg m

/-- tet: vertices and cells (arity-prefixed records, any arity) -/
theorem tet_load_save (cd : Codec C) (h : RoundTrips cd) (m : Raw C) :
    importTet cd (exportTet cd m) = some (restrictTet m) :=
  importTet_exportTet cd h m

/-- xyz: vertices only -/
theorem xyz_load_save (cd : Codec C) (h : RoundTrips cd) (m : Raw C) :
    importXyz cd (exportXyz cd m) = some (restrictXyz m) :=
  importXyz_exportXyz cd h m

/-- medit: vertices, declared edges, triangles then quads, hexahedra then tetrahedra (per-kind blocks, order
inside a kind preserved); other arities absent.  Holds for the repaired reader (Hexahedra arity 8): with the
table of the pinned tree `medit_rows_bridge` does not compile. -/
theorem medit_load_save (cd : Codec C) (h : RoundTrips cd) (m : Raw C) :
    importMedit cd (exportMedit cd m) = some (restrictMedit m) :=
  importMedit_exportMedit cd h m

/-- the same statement about the table extracted from the source -/
theorem medit_load_save_generated (cd : Codec C) (h : RoundTrips cd) (m : Raw C) :
    importMeditWith cd Mouette.Generated.C04Medit.rows (exportMedit cd m) = some (restrictMedit m) := by
  rw [medit_rows_bridge]; exact importMedit_exportMedit cd h m

/-- P1, interoperability: a medit file laid out by an INDEPENDENT writer (`refExportMedit`: version 2, reference
column 0, quads before triangles, tetrahedra before hexahedra, edges last, closing `End`) is read by mouette's
reader as the same vertices, all edges, and the same elements per kind, for ALL meshes -/
theorem medit_reads_reference (cd : Codec C) (h : RoundTrips cd) (m : Raw C) :
    importMedit cd (refExportMedit cd m) = some (refMeditContent m)
    ∧ (refMeditContent m).verts = m.verts ∧ (refMeditContent m).edges = m.edges
    ∧ (∀ n, ofArity n (refMeditContent m).faces = ofArity n (ofArity 4 m.faces ++ ofArity 3 m.faces)) :=
  ⟨importMedit_refExportMedit cd h m, rfl, rfl, fun _ => rfl⟩

/- off, FULL statement (does NOT hold for the code as it is — open findings C04/off/quad-face, C04/off/polygon-face):
     ∀ m, importOff cd (exportOff cd m) = some (restrictOff m)
   What holds: -/

/-- off, under the exact restriction: every face is a triangle -/
theorem off_load_save_partial (cd : Codec C) (h : RoundTrips cd) (m : Raw C)
    (hall : ∀ f ∈ m.faces, f.length = 3) :
    importOff cd (exportOff cd m) = some (restrictOff m) := by
  rw [importOff_exportOff_actual cd h m (fun f hf => by rw [hall f hf]; decide)]
  rw [ofArity_all 3 m.faces hall, ofArity_none 4 m.faces (fun f hf => by rw [hall f hf]; decide)]
  rfl

/-- off, what the code really does for every mesh without 2-gons: triangles come back, quads come back as
*cells*, every other face is dropped -/
theorem off_load_save_actual (cd : Codec C) (h : RoundTrips cd) (m : Raw C) (hf : ∀ f ∈ m.faces, f.length ≠ 2) :
    importOff cd (exportOff cd m)
      = some { verts := m.verts, faces := ofArity 3 m.faces, cells := ofArity 4 m.faces } :=
  importOff_exportOff_actual cd h m hf

/-- a codec on a one-point coordinate type: shows `RoundTrips` is satisfiable and makes witnesses decidable -/
def unitCodec : Codec Unit := { fmt := fun _ => "0", parse := fun _ => some (), r32 := id, zero := () }

example : RoundTrips unitCodec := fun _ => rfl

def quadMesh : Raw Unit :=
  { verts := [((), (), ()), ((), (), ()), ((), (), ()), ((), (), ())], faces := [[0, 1, 2, 3]] }

def pentaMesh : Raw Unit :=
  { verts := [((), (), ()), ((), (), ()), ((), (), ()), ((), (), ()), ((), (), ())], faces := [[0, 1, 2, 3, 4]] }

/-- the full off statement is false on one quad: it is "turned into something else" (a cell) -/
theorem off_quad_refuted :
    importOff unitCodec (exportOff unitCodec quadMesh) ≠ some (restrictOff quadMesh)
    ∧ (importOff unitCodec (exportOff unitCodec quadMesh)).map (·.cells) = some [[0, 1, 2, 3]] := by decide

/-- … and on one pentagon: it is dropped -/
theorem off_polygon_refuted :
    importOff unitCodec (exportOff unitCodec pentaMesh) ≠ some (restrictOff pentaMesh) := by decide

/- stl, FULL statement (does NOT hold — open findings C04/stl/quad-face, C04/stl/polygon-face):
     ∀ m file, exportStl cd m = some file ∧ stlSoup cd file = restrictStlSoup cd m
   (the triangle soup of the file is exactly the triangles of m, rounded to binary32; other faces absent). -/

/-- stl, what the writer really does: the soup of the file is every triangle the writer emitted (quads split in
two), rounded to binary32, in order -/
theorem stl_load_save_actual (cd : Codec C) (h : RoundTrips cd) (m : Raw C) (ts : List (Tri C))
    (ht : stlTris m = some ts) :
    ∃ file, exportStl cd m = some file ∧ stlSoup cd file = some (ts.map (r32tri cd)) :=
  stlSoup_exportStl cd h m ts ht

/-- stl under the exact restriction: all faces are triangles (and the writer did not raise) -/
theorem stl_load_save_partial (cd : Codec C) (h : RoundTrips cd) (m : Raw C)
    (hall : ∀ f ∈ m.faces, f.length = 3) (ts : List (Tri C)) (ht : stlTris m = some ts) :
    ∃ file, exportStl cd m = some file ∧ stlSoup cd file = restrictStlSoup cd m := by
  obtain ⟨file, h1, h2⟩ := stlSoup_exportStl cd h m ts ht
  exact ⟨file, h1, by rw [h2, stlTris_triangles cd m hall ts ht]⟩

/-- the full stl statement is false on one quad: two triangles are written where none may be -/
theorem stl_quad_refuted :
    (exportStl unitCodec quadMesh).bind (stlSoup unitCodec) ≠ restrictStlSoup unitCodec quadMesh
    ∧ ((exportStl unitCodec quadMesh).bind (stlSoup unitCodec)).map List.length = some 2 := by decide

/-- … and the writer raises on a pentagon -/
theorem stl_polygon_refuted : exportStl unitCodec pentaMesh = none := by decide

/-! ### geogram_ascii (chunk level: a file is the list of its [HEAD]/[ATTS]/[ATTR] chunks) -/

/- geogram, FULL statement:
     ∀ g, importGeo cd (exportGeo cd g) = some (restrictGeo g)        (file level, all attributes, all cell kinds)
   Proved below: the chunk-level statement for meshes without user attributes whose cells are tetrahedra (the
   exporter writes no cell_ptr; saving hexahedra fails earlier: open finding C04/geogram_ascii/hex-cell), faces of ANY
   arity.  The splitting of the token file into chunks (`parseFile`) and the attribute chunks in context are covered by
   the correspondence and by `geo_attr_chunk_partial`. -/

/-- geogram elements (no user attributes): vertices, ALL edges, faces AND cells of any arity (facet_ptr / cell_ptr
written by the repaired exporter and decoded by the importer), cell adjacency.  `expectedGA g` is `g` itself plus the
`*_ptr` blocks re-read as integer attributes (what the Python importer does). -/
theorem geo_elements_load_save_partial (cd : Codec C) (h : RoundTrips cd) (g : Geo.GMesh C) (ha : g.attrs = []) :
    Geo.importChunks cd (Geo.exportChunks cd g) = some (Geo.expectedGA g)
    ∧ (Geo.expectedGA g).raw = { g.raw with hard := none } :=
  ⟨Geo.importChunks_exportChunks_attrs cd h g (by rw [ha]; intro a hm; cases hm), rfl⟩

/-- pointer arithmetic for ALL element lists: the prefix sums written as facet_ptr / cell_ptr give back the element
sizes and the elements themselves -/
theorem geo_ptr_decode (fs : List (List Nat)) (hne : fs ≠ []) :
    Geo.ptrSizes fs.length fs.flatten.length (Geo.prefixSums 0 fs) = some (fs.map List.length)
    ∧ Geo.buildElems fs.flatten fs.length (fs.map List.length, Geo.prefixSums 0 fs) = some fs :=
  ⟨Geo.ptrSizes_export fs hne, Geo.buildElems_ptr fs⟩

/-- without facet_ptr (the pinned tree's exporter) the "all triangles" convention mis-decodes a quad: this is the
defect repaired by `fix: geogram_ascii export writes facet_ptr …` -/
theorem geo_quad_without_ptr_refuted :
    Geo.buildElems [0, 1, 2, 3] 1 (Geo.defaultPtr 3 1 ([], [])) = some [[0, 1, 2]] := by decide

/-- P1 (partial): one user attribute chunk is read back with its container, name, type, arity and values -/
theorem geo_attr_chunk_partial (cd : Codec C) (sz : Geo.Sizes) (fp cp : List Nat × List Nat) (g : Geo.GMesh C)
    (a : Geo.GAttr) (hd : a.dim ≠ 0) (hv : Geo.convVals cd a.typ a.vals = some a.vals)
    (hn : a.name ≠ "\"point\"" ∧ a.name ≠ "\"GEO::Mesh::edges::edge_vertex\"" ∧
          a.name ≠ "\"GEO::Mesh::facet_corners::corner_vertex\"" ∧ a.name ≠ "\"GEO::Mesh::cell_corners::corner_vertex\"" ∧
          a.name ≠ "\"GEO::Mesh::cell_facets::adjacent_cell\"") :
    Geo.stepImport cd sz fp cp g (Geo.attrChunk a) = some { g with attrs := g.attrs ++ [a] } :=
  Geo.stepImport_attrChunk cd sz fp cp g a hd hv hn

/-! ### round 2 — P1 interoperability for obj, off, tet, xyz (Model/IORef.lean: independent writers and readers) -/

/-- obj: mouette reads the layout of an independent writer (comment, `o`/`g` statements, `v x y z w`, faces before
line elements): same vertices, every edge (undirected), every face of any arity, for ALL meshes -/
theorem obj_reads_reference (cd : Codec C) (h : RoundTrips cd) (m : Raw C) :
    importObj cd (refExportObj cd m) = some (refObjContent m)
    ∧ (refObjContent m).verts = m.verts ∧ (refObjContent m).faces = m.faces
    ∧ (refObjContent m).edges = m.edges.map keyify :=
  ⟨importObj_refExportObj cd h m, rfl, rfl, rfl⟩

/-- obj: the file mouette writes means `restrict m` to an independent obj reader (polyline `l`, unknown statements
rejected), for ALL meshes and every export switch -/
theorem obj_read_by_reference (cd : Codec C) (h : RoundTrips cd) (cfg : Cfg) (m : Raw C) :
    refImportObj cd (exportObj cd cfg m) = some (restrictObj cfg m) :=
  refImportObj_exportObj cd h cfg m

/- off, FULL statement `importOff cd (refExportOff cd m) = some (restrictOff m)` does NOT hold (open findings
   C04/off/quad-face/ref-loaded, C04/off/polygon-face/ref-loaded). -/

/-- off: a standard OFF file of an independent writer, exact behaviour of mouette's reader -/
theorem off_reads_reference_actual (cd : Codec C) (h : RoundTrips cd) (m : Raw C) (hf : ∀ f ∈ m.faces, f.length ≠ 2) :
    importOff cd (refExportOff cd m)
      = some { verts := m.verts, faces := ofArity 3 m.faces, cells := ofArity 4 m.faces } :=
  importOff_refExportOff_actual cd h m hf

/-- off: … which is the statement when every face is a triangle -/
theorem off_reads_reference_partial (cd : Codec C) (h : RoundTrips cd) (m : Raw C)
    (hall : ∀ f ∈ m.faces, f.length = 3) :
    importOff cd (refExportOff cd m) = some (restrictOff m) := by
  rw [importOff_refExportOff_actual cd h m (fun f hf => by rw [hall f hf]; decide)]
  rw [ofArity_all 3 m.faces hall, ofArity_none 4 m.faces (fun f hf => by rw [hall f hf]; decide)]
  rfl

/-- off: the file mouette WRITES is right for an independent OFF reader, for ALL meshes (faces of any arity): the
off defect is in the reader only -/
theorem off_read_by_reference (cd : Codec C) (h : RoundTrips cd) (m : Raw C) :
    refImportOff cd (exportOff cd m) = some (restrictOff m) :=
  refImportOff_exportOff cd h m

theorem tet_reads_reference (cd : Codec C) (h : RoundTrips cd) (m : Raw C) :
    importTet cd (refExportTet cd m) = some (restrictTet m) :=
  importTet_refExportTet cd h m

/-- tet: an independent reader that checks the header keywords, the record count and every arity prefix -/
theorem tet_read_by_reference (cd : Codec C) (h : RoundTrips cd) (m : Raw C) :
    refImportTet cd (exportTet cd m) = some (restrictTet m) :=
  refImportTet_exportTet cd h m

/-- xyz: mouette reads the six-column `x y z nx ny nz` layout of an independent writer -/
theorem xyz_reads_reference (cd : Codec C) (h : RoundTrips cd) (m : Raw C) :
    importXyz cd (refExportXyz cd m) = some (restrictXyz m) :=
  importXyz_refExportXyz cd h m

theorem xyz_read_by_reference (cd : Codec C) (h : RoundTrips cd) (m : Raw C) :
    refImportXyz cd (exportXyz cd m) = some (restrictXyz m) :=
  refImportXyz_exportXyz cd h m

/-! ### round 2 — geogram attributes in context, mixed cell arities with cell_ptr -/

/- geogram, FULL statement (see above).  Since round 3 the exporter model writes cell_ptr (repaired code) and the
   token-file ↔ chunk-list layer is proved (`geo_file_load_save`).  Still excluded: attributes on cell_faces, attribute
   element types complex / str (open findings C04/geogram_ascii/attr-complex, attr-string), values not in canonical form. -/

/-- geogram with ANY number of user attributes on every element set: the chunk list written by the exporter is read
back as the same elements (faces of any arity) and `expectedAttrs g` = the attributes of every non-empty element set
in file order, each with its container, name, type, arity and values (plus the `facet_ptr` block re-read as an integer
attribute of the facets, as the Python importer does). -/
theorem geo_load_save_attrs_partial (cd : Codec C) (h : RoundTrips cd) (g : Geo.GMesh C)
    (hg : ∀ a ∈ g.attrs, Geo.GoodAttr cd a) :
    Geo.importChunks cd (Geo.exportChunks cd g) = some (Geo.expectedGA g)
    ∧ (Geo.expectedGA g).raw = { g.raw with hard := none } :=
  ⟨Geo.importChunks_exportChunks_attrs cd h g hg, rfl⟩

/-- round 3 — FILE level: the token file written by the exporter, split into chunks by the header detection,
parsed by `Chunk.__init__` and imported, is the mesh (cells of ANY arity, any number of user attributes whose name and
value tokens cannot be mistaken for a chunk header). -/
theorem geo_file_load_save (cd : Codec C) (h : RoundTrips cd) (g : Geo.GMesh C)
    (hg : ∀ a ∈ g.attrs, Geo.GoodAttr cd a) (hs : g.attrs.all Geo.fileSafe = true) :
    Geo.importGeo cd (Geo.exportGeo cd g) = some (Geo.expectedGA g)
    ∧ (Geo.expectedGA g).raw = { g.raw with hard := none } :=
  ⟨Geo.importGeo_exportGeo cd h g hg hs, rfl⟩

/-- round 3 — the token file ↔ chunk list step alone: parsing inverts printing on every well-formed chunk list -/
theorem geo_parse_print (cs : List Geo.Chunk) (h : cs.all Geo.wfChunk = true) :
    Geo.parseFile ((cs.map Geo.chunkLines).flatten) = some cs :=
  Geo.parseFile_print cs h

/-- every attribute of a non-empty element set comes back unchanged … -/
theorem geo_attrs_come_back (g : Geo.GMesh C) (a : Geo.GAttr) (ha : a ∈ g.attrs)
    (hne : (a.cont = .vertices) ∨ (a.cont = .edges ∧ g.raw.edges ≠ []) ∨
           ((a.cont = .facets ∨ a.cont = .facetCorners) ∧ g.raw.faces ≠ []) ∨
           ((a.cont = .cells ∨ a.cont = .cellCorners) ∧ g.raw.cells ≠ [])) :
    a ∈ (Geo.expectedGA g).attrs :=
  Geo.attrs_come_back g a ha hne

/-- … and nothing is invented: what is read back is an attribute of the mesh or a `facet_ptr` / `cell_ptr` block -/
theorem geo_attrs_nothing_else (g : Geo.GMesh C) (a : Geo.GAttr) (ha : a ∈ (Geo.expectedGA g).attrs) :
    a ∈ g.attrs ∨ a.name = Geo.facetPtrName ∨ a.name = Geo.cellPtrName :=
  Geo.attrs_nothing_else g a ha

/-- P1: the chunk list of an INDEPENDENT geogram writer (all [ATTS] first, `facet_ptr` and `cell_ptr` when needed)
is read as the same mesh for faces AND cells of any, mixed, arity (repaired `cell_ptr` branch of the importer) -/
theorem geo_reads_reference_mixed_cells (cd : Codec C) (h : RoundTrips cd) (m : Raw C) :
    Geo.importChunks cd (Geo.refExportChunks cd m) = some (Geo.refExpected m)
    ∧ (Geo.refExpected m).raw = { m with hard := none } :=
  ⟨Geo.importChunks_refExportChunks cd h m, rfl⟩

/-! ### round 2 — more translated dispatch tables (Generated/C04Tables.lean, re-extracted on every run) -/

theorem geo_type_rows_bridge : Mouette.Generated.C04Tables.geoTypeRows = Tables.geoTypeRows := by decide
theorem geo_byte_size_bridge : Mouette.Generated.C04Tables.geoByteSize = Tables.geoByteSize := by decide
theorem geo_to_string_bridge : Mouette.Generated.C04Tables.geoToStringSpecial = Tables.geoToStringSpecial := by decide
theorem obj_rows_bridge : Mouette.Generated.C04Tables.objRows = Tables.objRows := by decide

/-- every type spelling the model accepts is a spelling of the source's `from_string`, for the same type -/
theorem geo_typeOf_in_table (s : String) (t : Geo.AType) (h : Geo.typeOf s = some t) :
    Tables.lookupStr Mouette.Generated.C04Tables.geoTypeRows s = some (Tables.pyName t) := by
  rw [geo_type_rows_bridge]; exact Tables.typeOf_sound s t h

/-- the type line / element size the model writes are `to_string()` / `byte_size()` of the source tables, and are read
back as the same type by the source's `from_string` table and by the model -/
theorem geo_header_from_table (t : Geo.AType) :
    (Tables.lookupStr Mouette.Generated.C04Tables.geoByteSize (Tables.pyName t)).map
        (fun n => [Tok.kw ("\"" ++ Tables.toStringOf Mouette.Generated.C04Tables.geoToStringSpecial t ++ "\""), Tok.int n])
      = some (Geo.AType.header t)
    ∧ Geo.typeOf ("\"" ++ Tables.toStringOf Mouette.Generated.C04Tables.geoToStringSpecial t ++ "\"") = some t
    ∧ Tables.lookupStr Mouette.Generated.C04Tables.geoTypeRows
        ("\"" ++ Tables.toStringOf Mouette.Generated.C04Tables.geoToStringSpecial t ++ "\"") = some (Tables.pyName t) := by
  rw [geo_type_rows_bridge, geo_byte_size_bridge, geo_to_string_bridge]; exact Tables.header_table t

/-- obj: a line whose prefix is not in the source's dispatch chain is ignored by the model -/
theorem obj_unlisted_prefix_ignored (cd : Codec C) (r : Raw C) (k : String) (rest : Line)
    (h : Tables.lookupStr Mouette.Generated.C04Tables.objRows k = none) : stepObj cd r (.kw k :: rest) = some r := by
  rw [obj_rows_bridge] at h; exact Tables.stepObj_unlisted cd r k rest h

/-- obj: a line with a listed prefix changes only the list its branch appends to -/
theorem obj_listed_prefix_target (cd : Codec C) (r r' : Raw C) (k tgt : String) (rest : Line)
    (h : Tables.lookupStr Mouette.Generated.C04Tables.objRows k = some tgt)
    (hs : stepObj cd r (.kw k :: rest) = some r') :
    (tgt ≠ "vertices" → r'.verts = r.verts) ∧ (tgt ≠ "faces" → r'.faces = r.faces) ∧
    (tgt ≠ "edges" → r'.edges = r.edges) ∧ r'.cells = r.cells := by
  rw [obj_rows_bridge] at h; exact Tables.stepObj_listed cd r r' k tgt rest h hs

/-! ### round 3 — histories of saves on one mesh object; representation independence -/

/-- the `ignore_elements` guards read from mesh.py now are the model's table, and they give the re-wrapped RawMeshData
fresh containers (`replace`) instead of clearing the containers shared with the mesh (pinned tree: `clearShared`) -/
theorem save_guards_bridge :
    Mouette.Generated.C04Save.ignoreRows = Tables.saveIgnoreRows
    ∧ Mouette.Generated.C04Save.ignoreMode = Tables.IgnoreMode.replace := by decide

/-- the model's `applyIgnore` is the interpretation of the extracted guard table -/
theorem save_ignore_from_table (ig : Ignore) (m : Raw C) :
    applyIgnore ig m = Tables.applyIgnoreWith Mouette.Generated.C04Save.ignoreRows ig m := by
  rw [save_guards_bridge.1]; exact Tables.applyIgnore_table ig m

/-- a save (any ignore set) leaves the caller's mesh unchanged … -/
theorem save_preserves_mesh (ig : Ignore) (m : Raw C) :
    (Tables.saveMesh Mouette.Generated.C04Save.ignoreMode ig m).2 = m := by
  rw [save_guards_bridge.2]; rfl

/-- … hence after ANY history of saves on one mesh object the n-th save writes what a save of a fresh copy writes,
and the object is still the mesh one started with -/
theorem save_history (igs : List Ignore) (m : Raw C) :
    Tables.saveHistory Mouette.Generated.C04Save.ignoreMode igs m = (igs.map (fun ig => applyIgnore ig m), m) := by
  rw [save_guards_bridge.2]; exact Tables.saveHistory_replace igs m

/-- with `.clear()` on the shared containers (pinned tree) the statement fails: after saving a triangle with
ignore_elements={faces}, the next save writes no face -/
theorem save_history_clearShared_refuted :
    (Tables.saveHistory .clearShared [{ faces := true }, {}] quadMesh).1 ≠ [applyIgnore { faces := true } quadMesh, applyIgnore {} quadMesh] := by
  decide

/-- round 3b — what `save(mesh, file, ignore_elements=K)` writes is the export of the RESTRICTION of the mesh to the kept
element kinds, and everything the writer looks at (which edges to write, the dimensionality) is computed on that
restriction: loading gives the vocabulary restriction of `applyIgnore K m`, of class `dim` of that content -/
theorem ignored_save_is_save_of_restriction (cd : Codec C) (h : RoundTrips cd) (cfg : Cfg) (ig : Ignore) (m : Raw C) :
    (Tables.saveMesh Mouette.Generated.C04Save.ignoreMode ig m).1 = applyIgnore ig m
    ∧ importObj cd (exportObj cd cfg (applyIgnore ig m)) = some (restrictObj cfg (applyIgnore ig m))
    ∧ importMedit cd (exportMedit cd (applyIgnore ig m)) = some (restrictMedit (applyIgnore ig m))
    ∧ (importObj cd (exportObj cd cfg (applyIgnore ig m))).map dim = some (dim (restrictObj cfg (applyIgnore ig m))) := by
  refine ⟨rfl, obj_load_save cd h cfg _, medit_load_save cd h _, ?_⟩
  rw [obj_load_save cd h]; rfl

/-- wireframe export: when the faces are ignored (for medit: faces and cells) EVERY edge of the mesh is written and comes
back — not only the declared ones, since no reader could complete the others — and the loaded class is that of a
polyline / point cloud (dimensionality computed AFTER the restriction) -/
theorem wireframe_keeps_all_edges (cfg : Cfg) (ig : Ignore) (m : Raw C) (hf : ig.faces = true) :
    (restrictObj cfg (applyIgnore ig m)).edges
        = (if cfg.exportEdges then (if ig.edges then [] else m.edges) else []).map keyify
    ∧ (restrictObj cfg (applyIgnore ig m)).faces = []
    ∧ dim (restrictObj cfg (applyIgnore ig m)) ≤ 1
    ∧ (ig.cells = true → (restrictMedit (applyIgnore ig m)).edges = if ig.edges then [] else m.edges) := by
  refine ⟨?_, ?_, ?_, ?_⟩
  · simp only [restrictObj, Tables.objEdges_wireframe cfg ig m hf]
  · simp [restrictObj, applyIgnore, hf]
  · have : (restrictObj cfg (applyIgnore ig m)).faces = [] := by simp [restrictObj, applyIgnore, hf]
    have hc : (restrictObj cfg (applyIgnore ig m)).cells = [] := rfl
    unfold dim
    rw [this, hc]
    simp only [ne_eq, not_true_eq_false, if_false]
    split <;> omega
  · intro hc
    simp only [restrictMedit, Tables.medEdges_wireframe ig m hf hc]

/-- second generation (load, save again, load): the content read from a medit / tet / xyz file is a fixed point -/
theorem second_generation (cd : Codec C) (h : RoundTrips cd) (m : Raw C) :
    importMedit cd (exportMedit cd (restrictMedit m)) = some (restrictMedit m)
    ∧ importTet cd (exportTet cd (restrictTet m)) = some (restrictTet m)
    ∧ importXyz cd (exportXyz cd (restrictXyz m)) = some (restrictXyz m) := by
  refine ⟨?_, ?_, ?_⟩
  · rw [medit_load_save cd h, restrictMedit_idem]
  · rw [tet_load_save cd h]; rfl
  · rw [xyz_load_save cd h]; rfl

/-- representation independence: coordinates handed in as another number type `Cw` (Python int, numpy int64 / float32 /
float64 scalars …) whose printed text parses to the exact value `ι c` load as the mesh with `ι` applied — for obj,
medit, tet, xyz; and (off) with the exact behaviour of the reader -/
theorem load_save_any_representation {Cw Cr : Type} (cdw : Codec Cw) (cdr : Codec Cr) (ι : Cw → Cr)
    (h : Reads cdw cdr ι) (cfg : Cfg) (m : Raw Cw) :
    importObj cdr (exportObj cdw cfg m) = some (restrictObj cfg (mapRaw ι m))
    ∧ importMedit cdr (exportMedit cdw m) = some (restrictMedit (mapRaw ι m))
    ∧ importTet cdr (exportTet cdw m) = some (restrictTet (mapRaw ι m))
    ∧ importXyz cdr (exportXyz cdw m) = some (restrictXyz (mapRaw ι m)) :=
  ⟨importObj_exportObj_repr cdw cdr ι h cfg m, importMedit_exportMedit_repr cdw cdr ι h m,
   importTet_exportTet_repr cdw cdr ι h m, importXyz_exportXyz_repr cdw cdr ι h m⟩

/-- two representations of the same coordinate values load as the same mesh -/
theorem same_values_same_load {Cw Cw' Cr : Type} (cdw : Codec Cw) (cdw' : Codec Cw') (cdr : Codec Cr)
    (ι : Cw → Cr) (ι' : Cw' → Cr) (h : Reads cdw cdr ι) (h' : Reads cdw' cdr ι') (cfg : Cfg)
    (m : Raw Cw) (m' : Raw Cw') (hm : mapRaw ι m = mapRaw ι' m') :
    importObj cdr (exportObj cdw cfg m) = importObj cdr (exportObj cdw' cfg m')
    ∧ importMedit cdr (exportMedit cdw m) = importMedit cdr (exportMedit cdw' m')
    ∧ importTet cdr (exportTet cdw m) = importTet cdr (exportTet cdw' m')
    ∧ importXyz cdr (exportXyz cdw m) = importXyz cdr (exportXyz cdw' m') :=
  Mouette.IO.same_values_same_load cdw cdr ι cdw' ι' h h' cfg m m' hm

/-- round 3 — STL end to end with a model of the READER (`stl_reader.read`: identical points merged, vertices in order
of first appearance): the indexed mesh read from the file mouette wrote denotes exactly the triangles the writer
emitted, rounded to binary32 — for every mesh whose save does not raise -/
theorem stl_reader_soup [DecidableEq C] (cd : Codec C) (h : RoundTrips cd) (m : Raw C) (ts : List (Tri C))
    (ht : stlTris m = some ts) :
    ∃ file, exportStl cd m = some file ∧ (importStlMerged cd file).bind soupOf = some (ts.map (r32tri cd)) := by
  obtain ⟨file, h1, h2⟩ := stlSoup_exportStl cd h m ts ht
  refine ⟨file, h1, ?_⟩
  simp only [importStlMerged, h2, Option.map_some, Option.bind_some]
  exact soupOf_mergeTris _

/-- merging points never changes the soup (any triangle list) -/
theorem stl_merge_keeps_soup [DecidableEq C] (ts : List (Tri C)) :
    soupOf ({ verts := (mergeTris ts []).1, faces := (mergeTris ts []).2 } : Raw C) = some ts :=
  soupOf_mergeTris ts

/-! ### kinds outside the vocabulary are absent -/

theorem obj_no_cells (cfg : Cfg) (m : Raw C) : (restrictObj cfg m).cells = [] := rfl
theorem xyz_only_vertices (m : Raw C) :
    (restrictXyz m).edges = [] ∧ (restrictXyz m).faces = [] ∧ (restrictXyz m).cells = [] := ⟨rfl, rfl, rfl⟩
theorem tet_no_faces (m : Raw C) : (restrictTet m).faces = [] ∧ (restrictTet m).edges = [] := ⟨rfl, rfl⟩

theorem medit_vocabulary (m : Raw C) :
    (∀ f ∈ (restrictMedit m).faces, f.length = 3 ∨ f.length = 4) ∧
    (∀ c ∈ (restrictMedit m).cells, c.length = 8 ∨ c.length = 4) := by
  constructor
  · intro f hf
    simp only [restrictMedit, List.mem_append] at hf
    rcases hf with hf | hf
    · exact Or.inl (ofArity_length 3 _ f hf)
    · exact Or.inr (ofArity_length 4 _ f hf)
  · intro c hc
    simp only [restrictMedit, List.mem_append] at hc
    rcases hc with hc | hc
    · exact Or.inl (ofArity_length 8 _ c hc)
    · exact Or.inr (ofArity_length 4 _ c hc)

/-- medit keeps every triangle / quad / tet / hex of the mesh: for a mesh inside the vocabulary nothing is lost
except the interleaving of kinds -/
theorem medit_keeps_all (m : Raw C) (hall : ∀ f ∈ m.faces, f.length = 3) : (restrictMedit m).faces = m.faces := by
  simp only [restrictMedit]
  rw [ofArity_all 3 m.faces hall, ofArity_none 4 m.faces (fun f hf => by rw [hall f hf]; decide)]
  simp

/-! ### the class of the loaded object = dimensionality of the restricted content -/

theorem load_class (cd : Codec C) (h : RoundTrips cd) (cfg : Cfg) (m : Raw C) :
    (importObj cd (exportObj cd cfg m)).map dim = some (dim (restrictObj cfg m)) ∧
    (importMedit cd (exportMedit cd m)).map dim = some (dim (restrictMedit m)) ∧
    (importTet cd (exportTet cd m)).map dim = some (dim (restrictTet m)) ∧
    (importXyz cd (exportXyz cd m)).map dim = some 0 := by
  rw [obj_load_save cd h, medit_load_save cd h, tet_load_save cd h, xyz_load_save cd h]
  exact ⟨rfl, rfl, rfl, rfl⟩

/-- `ignore_elements` acts before the writer: what comes back is the vocabulary of the remaining content -/
theorem obj_load_save_ignore (cd : Codec C) (h : RoundTrips cd) (cfg : Cfg) (ig : Ignore) (m : Raw C) :
    importObj cd (exportObj cd cfg (applyIgnore ig m)) = some (restrictObj cfg (applyIgnore ig m)) :=
  obj_load_save cd h cfg _

/-! ### tests of the executable model (decide on concrete meshes; NOT proofs of the property) -/

def hexMesh : Raw Unit :=
  { verts := List.replicate 9 ((), (), ()), cells := [[0, 1, 2, 3, 4, 5, 6, 7], [4, 5, 6, 8]],
    faces := [[0, 1, 2, 3], [4, 5, 6]], edges := [(0, 1), (2, 5)], hard := some [1] }

example : importMedit unitCodec (exportMedit unitCodec hexMesh) = some (restrictMedit hexMesh) := by decide
example : (restrictMedit hexMesh).edges = [(2, 5)] := by decide
example : importObj unitCodec (exportObj unitCodec {} hexMesh) = some (restrictObj {} hexMesh) := by decide
example : dim (restrictObj {} hexMesh) = 2 ∧ dim (restrictMedit hexMesh) = 3 := by decide

def geoMesh : Geo.GMesh Unit :=
  { raw := { verts := List.replicate 6 ((), (), ()), edges := [(0, 1)], faces := [[0, 1, 2, 3], [3, 4, 5]],
             cells := [[0, 1, 2, 4]] },
    attrs := [{ cont := .vertices, name := "\"w\"", typ := .int, dim := 1, vals := List.replicate 6 (.int 7) },
              { cont := .facetCorners, name := "\"b\"", typ := .bool, dim := 1, vals := List.replicate 7 (.int 1) }],
    adj := [4294967295, 4294967295, 4294967295, 4294967295] }

-- the hypotheses of `geo_load_save_attrs_partial` are satisfiable by the attributes of `geoMesh` (non-vacuity)
example : ∀ a ∈ geoMesh.attrs, Geo.GoodAttr unitCodec a := by
  unfold Geo.GoodAttr; decide

def mixedCells : Raw Unit :=
  { verts := List.replicate 9 ((), (), ()), faces := [[0, 1, 2, 3], [4, 5, 6]],
    cells := [[0, 1, 2, 3, 4, 5, 6, 7], [4, 5, 6, 8]] }

example : (Geo.importChunks unitCodec (Geo.refExportChunks unitCodec mixedCells)).map (·.raw.cells)
    = some [[0, 1, 2, 3, 4, 5, 6, 7], [4, 5, 6, 8]] := by decide

example : refImportOff unitCodec (exportOff unitCodec quadMesh) = some (restrictOff quadMesh) := by decide

-- file level (tokens → chunks → mesh), with attributes: a test on one mesh
set_option maxRecDepth 100000 in
example : (Geo.importGeo unitCodec (Geo.exportGeo unitCodec geoMesh)).map (fun g => (g.raw, g.adj))
    = some ({ geoMesh.raw with hard := none }, geoMesh.adj) := by decide

end Mouette.Props.C04
