import Mouette.Model.Geom
import Mouette.Lemmas.GeomLemmas
import Mouette.Generated.C07Idx
/-
C07 — geometric quantities match their definitions, invariant under rigid motion.

All statements are over exact rationals (every finite binary64 is a rational), for ALL points / matrices /
scale factors / meshes.  `R.Orthogonal` is `RᵀR = I`; a rigid motion is `p ↦ R p + t`.
Angles and cotangents are represented by the pair `cornerCS = (|BA×BC|², BA·BC)`
(angle = atan2(√·,·), cot = ·/√·): invariance of the pair gives invariance of both.

Not proved here (checked numerically on every triangulated mesh by the oracle, see vlib/props/c07.py):
  angle_sum_pi  : the three corner angles of a triangle sum to π                 (P1, needs Mathlib's real analysis)
  gauss_bonnet  : Σ angle defects = 2π·χ on manifold triangulations               (P2)
-/
namespace Mouette.Props.C07
open Mouette.Geom

/-- a rigid motion `p ↦ R p + t` -/
abbrev move (R : M3) (t p : V3) : V3 := add (R.apply p) t

/-! ## translation invariance -/

theorem sub_translate (a b t : V3) : sub (add a t) (add b t) = sub a b := by v3ext
theorem dist2_translate (a b t : V3) : dist2 (add a t) (add b t) = dist2 a b := by v3ring
theorem mid_translate (a b t : V3) : mid (add a t) (add b t) = add (mid a b) t := by v3ext
theorem triArea2_translate (a b c t : V3) : triArea2 (add a t) (add b t) (add c t) = triArea2 a b c := by v3ring
theorem cross_translate (a b c t : V3) :
    cross (sub (add b t) (add a t)) (sub (add c t) (add a t)) = cross (sub b a) (sub c a) := by
  rw [sub_translate, sub_translate]
theorem cornerCS_translate (a b c t : V3) : cornerCS (add a t) (add b t) (add c t) = cornerCS a b c := by
  simp only [cornerCS, sub_translate]
theorem tetDet_translate (a b c d t : V3) : tetDet (add a t) (add b t) (add c t) (add d t) = tetDet a b c d := by
  simp only [tetDet, sub_translate]
theorem tetVolume_translate (a b c d t : V3) :
    tetVolume (add a t) (add b t) (add c t) (add d t) = tetVolume a b c d := by
  simp only [tetVolume, tetDet_translate]

/-- barycentres follow the translation (any non-empty point list: face, cell, whole mesh) -/
theorem bary_translate (ps : List V3) (t : V3) (h : ps ≠ []) :
    bary (ps.map (fun p => add p t)) = add (bary ps) t := by
  have hn : (ps.length : Rat) ≠ 0 := by
    have : ps.length ≠ 0 := by simpa using h
    exact_mod_cast this
  simp only [bary, List.length_map, vsum_map_add]
  apply V3.ext <;> simp only [add, smul] <;> field_simp

theorem circumcenter_translate (a b c t : V3) :
    circumcenter (add a t) (add b t) (add c t) = add (circumcenter a b c) t := by
  simp only [circumcenter, sub_translate]
  v3ext

/-! ## rotation: `RᵀR = I` -/

theorem dot_rotate (R : M3) (h : R.Orthogonal) (a b : V3) : dot (R.apply a) (R.apply b) = dot a b := by
  obtain ⟨h00, h11, h22, h01, h02, h12⟩ := h
  simp only [M3.c0, M3.c1, M3.c2, dot] at h00 h11 h22 h01 h02 h12
  simp only [M3.apply, dot]
  linear_combination (a.x * b.x) * h00 + (a.y * b.y) * h11 + (a.z * b.z) * h22 + (a.x * b.y + a.y * b.x) * h01
    + (a.x * b.z + a.z * b.x) * h02 + (a.y * b.z + a.z * b.y) * h12

theorem norm2_rotate (R : M3) (h : R.Orthogonal) (a : V3) : norm2 (R.apply a) = norm2 a := dot_rotate R h a a

/-- multiplicativity of the determinant (no hypothesis on `R`) -/
theorem det3_rotate (R : M3) (a b c : V3) : det3 (R.apply a) (R.apply b) (R.apply c) = R.det * det3 a b c := by v3ring

/-- `det(RᵀR) = det(R)²`, so an orthogonal matrix has determinant ±1 -/
theorem det_sq_of_orthogonal (R : M3) (h : R.Orthogonal) : R.det * R.det = 1 := by
  obtain ⟨h00, h11, h22, h01, h02, h12⟩ := h
  have key : R.det * R.det =
      dot R.c0 R.c0 * (dot R.c1 R.c1 * dot R.c2 R.c2 - dot R.c1 R.c2 * dot R.c1 R.c2)
      - dot R.c0 R.c1 * (dot R.c0 R.c1 * dot R.c2 R.c2 - dot R.c1 R.c2 * dot R.c0 R.c2)
      + dot R.c0 R.c2 * (dot R.c0 R.c1 * dot R.c1 R.c2 - dot R.c1 R.c1 * dot R.c0 R.c2) := by
    simp only [M3.det, det3, dot, M3.c0, M3.c1, M3.c2]; ring
  rw [key, h00, h11, h22, h01, h02, h12]; ring

theorem det_eq_one_or_neg_one (R : M3) (h : R.Orthogonal) : R.det = 1 ∨ R.det = -1 := by
  have h2 := det_sq_of_orthogonal R h
  have : (R.det - 1) * (R.det + 1) = 0 := by linear_combination h2
  rcases mul_eq_zero.mp this with h1 | h1
  · left; linear_combination h1
  · right; linear_combination h1

/-- rotation equivariance of the cross product: `(R a) × (R b) = det R • R (a × b)` for every `R` with `RᵀR = I`
(proper rotations: `det R = 1`, the cross product rotates with the mesh; reflections flip it) -/
theorem cross_rotate (R : M3) (h : R.Orthogonal) (a b : V3) :
    cross (R.apply a) (R.apply b) = smul R.det (R.apply (cross a b)) := by
  obtain ⟨h00, h11, h22, h01, h02, h12⟩ := h
  simp only [M3.c0, M3.c1, M3.c2, dot] at h00 h11 h22 h01 h02 h12
  apply V3.ext <;> simp only [M3.apply, M3.det, det3, dot, cross, smul]
  · linear_combination (-((a.y * b.z - a.z * b.y) * (R.r1.y * R.r2.z - R.r1.z * R.r2.y))) * h00 + (-((a.z * b.x - a.x * b.z) * (R.r1.z * R.r2.x - R.r1.x * R.r2.z))) * h11 + (-((a.x * b.y - a.y * b.x) * (R.r1.x * R.r2.y - R.r1.y * R.r2.x))) * h22 + (-((a.y * b.z - a.z * b.y) * (R.r1.z * R.r2.x - R.r1.x * R.r2.z) + (a.z * b.x - a.x * b.z) * (R.r1.y * R.r2.z - R.r1.z * R.r2.y))) * h01 + (-((a.y * b.z - a.z * b.y) * (R.r1.x * R.r2.y - R.r1.y * R.r2.x) + (a.x * b.y - a.y * b.x) * (R.r1.y * R.r2.z - R.r1.z * R.r2.y))) * h02 + (-((a.z * b.x - a.x * b.z) * (R.r1.x * R.r2.y - R.r1.y * R.r2.x) + (a.x * b.y - a.y * b.x) * (R.r1.z * R.r2.x - R.r1.x * R.r2.z))) * h12
  · linear_combination (-((a.y * b.z - a.z * b.y) * (R.r2.y * R.r0.z - R.r2.z * R.r0.y))) * h00 + (-((a.z * b.x - a.x * b.z) * (R.r2.z * R.r0.x - R.r2.x * R.r0.z))) * h11 + (-((a.x * b.y - a.y * b.x) * (R.r2.x * R.r0.y - R.r2.y * R.r0.x))) * h22 + (-((a.y * b.z - a.z * b.y) * (R.r2.z * R.r0.x - R.r2.x * R.r0.z) + (a.z * b.x - a.x * b.z) * (R.r2.y * R.r0.z - R.r2.z * R.r0.y))) * h01 + (-((a.y * b.z - a.z * b.y) * (R.r2.x * R.r0.y - R.r2.y * R.r0.x) + (a.x * b.y - a.y * b.x) * (R.r2.y * R.r0.z - R.r2.z * R.r0.y))) * h02 + (-((a.z * b.x - a.x * b.z) * (R.r2.x * R.r0.y - R.r2.y * R.r0.x) + (a.x * b.y - a.y * b.x) * (R.r2.z * R.r0.x - R.r2.x * R.r0.z))) * h12
  · linear_combination (-((a.y * b.z - a.z * b.y) * (R.r0.y * R.r1.z - R.r0.z * R.r1.y))) * h00 + (-((a.z * b.x - a.x * b.z) * (R.r0.z * R.r1.x - R.r0.x * R.r1.z))) * h11 + (-((a.x * b.y - a.y * b.x) * (R.r0.x * R.r1.y - R.r0.y * R.r1.x))) * h22 + (-((a.y * b.z - a.z * b.y) * (R.r0.z * R.r1.x - R.r0.x * R.r1.z) + (a.z * b.x - a.x * b.z) * (R.r0.y * R.r1.z - R.r0.z * R.r1.y))) * h01 + (-((a.y * b.z - a.z * b.y) * (R.r0.x * R.r1.y - R.r0.y * R.r1.x) + (a.x * b.y - a.y * b.x) * (R.r0.y * R.r1.z - R.r0.z * R.r1.y))) * h02 + (-((a.z * b.x - a.x * b.z) * (R.r0.x * R.r1.y - R.r0.y * R.r1.x) + (a.x * b.y - a.y * b.x) * (R.r0.z * R.r1.x - R.r0.x * R.r1.z))) * h12

theorem norm2_cross_rotate (R : M3) (h : R.Orthogonal) (a b : V3) :
    norm2 (cross (R.apply a) (R.apply b)) = norm2 (cross a b) := by
  rw [cross_rotate R h, norm2_smul, norm2_rotate R h, det_sq_of_orthogonal R h]; ring

theorem move_sub (R : M3) (t a b : V3) : sub (move R t a) (move R t b) = R.apply (sub a b) := by
  simp only [move, sub_translate, apply_sub]

theorem dist2_rotate (R : M3) (h : R.Orthogonal) (t a b : V3) : dist2 (move R t a) (move R t b) = dist2 a b := by
  simp only [dist2, move_sub, norm2_rotate R h]

theorem mid_rotate (R : M3) (t a b : V3) : mid (move R t a) (move R t b) = move R t (mid a b) := by v3ext

/-- squared triangle area is invariant under every rigid motion -/
theorem triArea2_rotate (R : M3) (h : R.Orthogonal) (t a b c : V3) :
    triArea2 (move R t a) (move R t b) (move R t c) = triArea2 a b c := by
  simp only [triArea2, move_sub, norm2_cross_rotate R h]

/-- the unnormalised face normal rotates with the mesh (up to `det R = ±1`) -/
theorem normalDir_rotate (R : M3) (h : R.Orthogonal) (t a b c : V3) :
    cross (sub (move R t b) (move R t a)) (sub (move R t c) (move R t a))
      = smul R.det (R.apply (cross (sub b a) (sub c a))) := by
  simp only [move_sub, cross_rotate R h]

/-- the `(cross², dot)` pair of a corner — hence its angle and cotangent — is invariant under every rigid motion -/
theorem cornerCS_rotate (R : M3) (h : R.Orthogonal) (t a b c : V3) :
    cornerCS (move R t a) (move R t b) (move R t c) = cornerCS a b c := by
  simp only [cornerCS, move_sub, norm2_cross_rotate R h, dot_rotate R h]

theorem tetDet_rotate (R : M3) (t a b c d : V3) :
    tetDet (move R t a) (move R t b) (move R t c) (move R t d) = R.det * tetDet a b c d := by
  simp only [tetDet, move_sub, det3_rotate]

/-- `|det|/6` is invariant under every rigid motion (reflections included) -/
theorem tetVolume_rotate (R : M3) (h : R.Orthogonal) (t a b c d : V3) :
    tetVolume (move R t a) (move R t b) (move R t c) (move R t d) = tetVolume a b c d := by
  simp only [tetVolume, tetDet_rotate]
  rcases det_eq_one_or_neg_one R h with h1 | h1 <;> rw [h1]
  · rw [one_mul]
  · rw [neg_one_mul, absR_neg]

theorem bary_rotate (R : M3) (t : V3) (ps : List V3) (h : ps ≠ []) :
    bary (ps.map (move R t)) = move R t (bary ps) := by
  have : ps.map (move R t) = (ps.map R.apply).map (fun p => add p t) := by simp [move, List.map_map]
  rw [this, bary_translate _ _ (by simpa using h)]
  simp only [bary, List.length_map, vsum_map_apply, apply_smul, move]

/-- the circumcentre follows every rigid motion -/
theorem circumcenter_rotate (R : M3) (h : R.Orthogonal) (t a b c : V3) :
    circumcenter (move R t a) (move R t b) (move R t c) = move R t (circumcenter a b c) := by
  simp only [circumcenter, move_sub]
  generalize sub b a = u
  generalize sub c a = v
  have e1 : sub (smul (norm2 u) (R.apply v)) (smul (norm2 v) (R.apply u))
      = R.apply (sub (smul (norm2 u) v) (smul (norm2 v) u)) := by
    rw [apply_sub, apply_smul, apply_smul]
  have e2 : ∀ m n : V3, cross (R.apply m) (smul R.det (R.apply n)) = R.apply (cross m n) := by
    intro m n
    rw [cross_smul_right, cross_rotate R h, smul_smul', det_sq_of_orthogonal R h]
    v3ext
  have e3 : ∀ n : V3, norm2 (smul R.det (R.apply n)) = norm2 n := by
    intro n
    rw [norm2_smul, norm2_rotate R h, det_sq_of_orthogonal R h]; ring
  rw [norm2_rotate R h, norm2_rotate R h, cross_rotate R h, e1, e2, e3]
  simp only [move, apply_add, apply_smul]
  v3ext

/-! ## homogeneity under a uniform scale factor `s` (degrees 1, 2, 3; 0 for angles and cotangents) -/

theorem dist2_scale (s : Rat) (a b : V3) : dist2 (smul s a) (smul s b) = s ^ 2 * dist2 a b := by v3ring
theorem mid_scale (s : Rat) (a b : V3) : mid (smul s a) (smul s b) = smul s (mid a b) := by v3ext
theorem triArea2_scale (s : Rat) (a b c : V3) :
    triArea2 (smul s a) (smul s b) (smul s c) = s ^ 4 * triArea2 a b c := by v3ring
theorem normalDir_scale (s : Rat) (a b c : V3) :
    cross (sub (smul s b) (smul s a)) (sub (smul s c) (smul s a)) = smul (s ^ 2) (cross (sub b a) (sub c a)) := by v3ext
/-- `(cross², dot) ↦ (s⁴·cross², s²·dot)`: the angle `atan2(√cross², dot)` and the cotangent `dot/√cross²` have degree 0 -/
theorem cornerCS_scale (s : Rat) (a b c : V3) :
    cornerCS (smul s a) (smul s b) (smul s c) = (s ^ 4 * (cornerCS a b c).1, s ^ 2 * (cornerCS a b c).2) := by
  simp only [cornerCS, Prod.mk.injEq]
  constructor <;> v3ring
/-- consequence: `cot² = dot²/cross²` is scale invariant in cross-multiplied form, and the sign of `dot` is kept for `s ≠ 0` -/
theorem cot_sq_scale (s : Rat) (a b c : V3) :
    ((cornerCS (smul s a) (smul s b) (smul s c)).2) ^ 2 * (cornerCS a b c).1
      = ((cornerCS a b c).2) ^ 2 * (cornerCS (smul s a) (smul s b) (smul s c)).1 := by
  rw [cornerCS_scale]; ring
theorem tetDet_scale (s : Rat) (a b c d : V3) :
    tetDet (smul s a) (smul s b) (smul s c) (smul s d) = s ^ 3 * tetDet a b c d := by v3ring
theorem bary_scale (s : Rat) (ps : List V3) : bary (ps.map (smul s)) = smul s (bary ps) := by
  simp only [bary, List.length_map, vsum_map_smul, smul_smul']
  congr 1; ring
theorem circumcenter_scale (s : Rat) (hs : s ≠ 0) (a b c : V3)
    (hn : norm2 (cross (sub b a) (sub c a)) ≠ 0) :
    circumcenter (smul s a) (smul s b) (smul s c) = smul s (circumcenter a b c) := by
  have e : ∀ p q : V3, sub (smul s p) (smul s q) = smul s (sub p q) := by intro p q; v3ext
  simp only [circumcenter, e, cross_smul_left, cross_smul_right, norm2_smul, smul_smul']
  generalize sub b a = u at hn ⊢
  generalize sub c a = v at hn ⊢
  generalize hN : norm2 (cross u v) = N at hn ⊢
  apply V3.ext <;> simp only [add, sub, smul, cross] <;> field_simp

/-! ## identities -/

/-- Lagrange: `|a × b|² + (a·b)² = |a|²|b|²`  (so `(√cross², dot)` is `|a||b|(sin θ, cos θ)`) -/
theorem lagrange_identity (a b : V3) : norm2 (cross a b) + (dot a b) ^ 2 = norm2 a * norm2 b := by v3ring

/-- `det_3x3` (Sarrus, rows) is the triple product -/
theorem det3_eq_triple (a b c : V3) : det3 a b c = dot a (cross b c) := by v3ring

/-- the model's (= repaired code's) circumcentre is equidistant from the three vertices and lies in their plane -/
theorem circumcenter_equidistant_and_coplanar (a b c : V3) (hn : norm2 (cross (sub b a) (sub c a)) ≠ 0) :
    dist2 (circumcenter a b c) a = dist2 (circumcenter a b c) b ∧
    dist2 (circumcenter a b c) a = dist2 (circumcenter a b c) c ∧
    dot (sub (circumcenter a b c) a) (cross (sub b a) (sub c a)) = 0 := by
  simp only [circumcenter]
  generalize eu : sub b a = u at hn ⊢
  generalize ev : sub c a = v at hn ⊢
  have hu := ccW_dot_u u v
  have hv := ccW_dot_v u v
  have hw := ccW_dot_n u v
  simp only [ccW] at hu hv hw
  rw [dist2_offset_self, dist2_offset, dist2_offset, dot_offset, eu, ev, hu, hv, hw]
  generalize norm2 (cross u v) = N at hn ⊢
  refine ⟨?_, ?_, ?_⟩
  · field_simp; ring
  · field_simp; ring
  · ring

/-- ... and it is the only such point: the textbook definition determines it -/
theorem circumcenter_unique (a b c p : V3) (hn : norm2 (cross (sub b a) (sub c a)) ≠ 0)
    (h1 : dist2 p a = dist2 p b) (h2 : dist2 p a = dist2 p c)
    (h3 : dot (sub p a) (cross (sub b a) (sub c a)) = 0) : p = circumcenter a b c := by
  obtain ⟨g1, g2, g3⟩ := circumcenter_equidistant_and_coplanar a b c hn
  generalize circumcenter a b c = q at g1 g2 g3
  have k1 : dot (sub p q) (sub b a) = 0 := by
    have := dist2_diff p q a b; linear_combination (-(1 / 2 : Rat)) * this + (1 / 2 : Rat) * h1 - (1 / 2 : Rat) * g1
  have k2 : dot (sub p q) (sub c a) = 0 := by
    have := dist2_diff p q a c; linear_combination (-(1 / 2 : Rat)) * this + (1 / 2 : Rat) * h2 - (1 / 2 : Rat) * g2
  have k3 : dot (sub p q) (cross (sub b a) (sub c a)) = 0 := by
    have := dot_sub_diff p q a (cross (sub b a) (sub c a)); linear_combination (-1 : Rat) * this + h3 - g3
  have key := solve3 (sub b a) (sub c a) (sub p q)
  rw [k1, k2, k3] at key
  generalize norm2 (cross (sub b a) (sub c a)) = N at hn key
  have kx := congrArg V3.x key
  have ky := congrArg V3.y key
  have kz := congrArg V3.z key
  simp only [smul, add, sub, zero_mul, add_zero] at kx ky kz
  apply V3.ext
  · have : p.x - q.x = 0 := by rcases mul_eq_zero.mp kx with h | h; exact absurd h hn; exact h
    linear_combination this
  · have : p.y - q.y = 0 := by rcases mul_eq_zero.mp ky with h | h; exact absurd h hn; exact h
    linear_combination this
  · have : p.z - q.z = 0 := by rcases mul_eq_zero.mp kz with h | h; exact absurd h hn; exact h
    linear_combination this

/-- Refutation of the *unrepaired* `geometry.circumcenter` (in-plane part only, plane offset dropped):
on the triangle (0,0,1),(1,0,1),(0,1,1) it is not equidistant-and-coplanar, and it does not follow the
translation by (0,0,1) of the triangle (0,0,0),(1,0,0),(0,1,0). [defect fixed in the repo: `fix: geometry.circumcenter …`] -/
theorem circumcenterNoOffset_refuted :
    circumcenterNoOffset ⟨0,0,1⟩ ⟨1,0,1⟩ ⟨0,1,1⟩ = ⟨1/2, 1/2, 0⟩ ∧
    circumcenter ⟨0,0,1⟩ ⟨1,0,1⟩ ⟨0,1,1⟩ = ⟨1/2, 1/2, 1⟩ ∧
    dot (sub (circumcenterNoOffset ⟨0,0,1⟩ ⟨1,0,1⟩ ⟨0,1,1⟩) ⟨0,0,1⟩) (cross (sub ⟨1,0,1⟩ ⟨0,0,1⟩) (sub ⟨0,1,1⟩ ⟨0,0,1⟩)) ≠ 0 ∧
    circumcenterNoOffset (add ⟨0,0,0⟩ ⟨0,0,1⟩) (add ⟨1,0,0⟩ ⟨0,0,1⟩) (add ⟨0,1,0⟩ ⟨0,0,1⟩)
      ≠ add (circumcenterNoOffset ⟨0,0,0⟩ ⟨1,0,0⟩ ⟨0,1,0⟩) ⟨0,0,1⟩ := by
  refine ⟨?_, ?_, ?_, ?_⟩
  · apply V3.ext <;> norm_num [circumcenterNoOffset, circumcenter, add, sub, smul, dot, cross, norm2]
  · apply V3.ext <;> norm_num [circumcenter, add, sub, smul, dot, cross, norm2]
  · norm_num [circumcenterNoOffset, circumcenter, add, sub, smul, dot, cross, norm2]
  · intro h
    have := congrArg V3.z h
    norm_num [circumcenterNoOffset, circumcenter, add, sub, smul, dot, cross, norm2] at this

/-! ## corner index conventions -/

/-- for two distinct local indices of a triangle, `3 - i - j` is the third one -/
theorem third_index : ∀ i j : Fin 3, i ≠ j →
    3 - i.val - j.val < 3 ∧ 3 - i.val - j.val ≠ i.val ∧ 3 - i.val - j.val ≠ j.val := by decide

/-- corner `3f+i` is vertex `i` of face `f` -/
theorem corner_index_div (f i : Nat) (h : i < 3) : (3 * f + i) / 3 = f := by omega
theorem corner_index_mod (f i : Nat) (h : i < 3) : (3 * f + i) % 3 = i := by omega

/-- `cotan_weights` reads the corner of face `t` that is OPPOSITE to the side `(iA,iB)` -/
theorem oppCorner_is_opposite (t iA iB : Nat) (hA : iA < 3) (hB : iB < 3) (hAB : iA ≠ iB) :
    oppCorner t iA iB / 3 = t ∧ oppCorner t iA iB % 3 ≠ iA ∧ oppCorner t iA iB % 3 ≠ iB := by
  unfold oppCorner; omega

/-- bridge to the table re-extracted from `attr_corners.cotangent` on every run -/
theorem cotanArgs_bridge : Mouette.Generated.C07.cotanArgs = cotanArgs := by decide

/-- `cot[3i+k] = cotan(p_prev, p_k, p_next)`: the cotangent stored at corner `k` is the one of the angle AT vertex `k`
(same convention as `corner_angles`) -/
theorem cotanArgs_centered : ∀ k : Fin 3,
    Mouette.Generated.C07.cotanArgs[k.val]? = some ((k.val + 2) % 3, k.val, (k.val + 1) % 3) := by decide

/-- bridge to the index expression re-extracted from `attr_edges.cotan_weights` (first corner of face `t` is `3t`) -/
theorem oppCorner_bridge (t iA iB : Nat) : Mouette.Generated.C07.oppCorner (3 * t) iA iB = oppCorner t iA iB := by
  unfold Mouette.Generated.C07.oppCorner oppCorner; rfl

/-- on the model: the corner a cotangent weight reads has the same `(cross², dot)` pair as the corner angle
at the vertex opposite to the edge -/
theorem triCotanCS_eq_faceCornerCS (vs : List V3) (a b c : Nat) :
    triCotanCS vs [a, b, c] = faceCornerCS vs [a, b, c] := by
  simp [triCotanCS, faceCornerCS, cotanArgs, List.range, List.range.loop]

/-! ## interpolation -/

/-- every weighting mode (uniform, area, angle = any weights with non-zero sum) returns the constant -/
theorem interpolate_constant (ws : List Rat) (c : Rat) (h : rsum ws ≠ 0) :
    wmean (ws.map (fun w => (w, c))) = c := by
  simp only [wmean, List.map_map, Function.comp_def]
  rw [rsum_map_mul_const]
  have : (List.map (fun x : Rat => x) ws) = ws := by simp
  simp only [this]
  field_simp

theorem interpV2F_constant (vals : List Rat) (f : Face) (c : Rat) (hf : f ≠ [])
    (h : ∀ v ∈ f, vals.getD v 0 = c) : interpV2F vals f = c := by
  have hn : (f.length : Rat) ≠ 0 := by
    have : f.length ≠ 0 := by simpa using hf
    exact_mod_cast this
  have hs : rsum (f.map (fun v => vals.getD v 0)) = (f.length : Rat) * c := by
    clear hf hn
    induction f with
    | nil => simp [rsum]
    | cons x xs ih =>
      have hx := h x (by simp)
      have := ih (fun v hv => h v (by simp [hv]))
      simp only [rsum, List.map_cons, List.foldr_cons, List.length_cons] at this ⊢
      rw [this, hx]; push_cast; ring
  simp only [interpV2F, hs]
  field_simp

/-! ## the harness's rational rotations are rotations -/

theorem quatRot_orthogonal (a b c d : Rat) (h : a*a + b*b + c*c + d*d ≠ 0) :
    (quatRot a b c d).Orthogonal ∧ (quatRot a b c d).det = 1 := by
  simp only [M3.Orthogonal, M3.det, det3, quatRot, M3.c0, M3.c1, M3.c2, dot]
  generalize hN : a*a + b*b + c*c + d*d = N at h ⊢
  refine ⟨⟨?_, ?_, ?_, ?_, ?_, ?_⟩, ?_⟩ <;> field_simp <;> subst hN <;> ring

/-! ## renumbering: relabelling the vertices commutes with every per-element map -/

theorem renumber_pt (vs vs' : List V3) (σ : Nat → Nat) (f : Face)
    (h : ∀ i ∈ f, pt vs' (σ i) = pt vs i) : facePts vs' (f.map σ) = facePts vs f := by
  simp only [facePts, List.map_map]
  exact List.map_congr_left (fun i hi => h i hi)

theorem renumber_faceAreaTerms (vs vs' : List V3) (σ : Nat → Nat) (f : Face)
    (h : ∀ i ∈ f, pt vs' (σ i) = pt vs i) : faceAreaTerms vs' (f.map σ) = faceAreaTerms vs f := by
  simp only [faceAreaTerms, renumber_pt vs vs' σ f h]

theorem renumber_faceBary (vs vs' : List V3) (σ : Nat → Nat) (f : Face)
    (h : ∀ i ∈ f, pt vs' (σ i) = pt vs i) : faceBary vs' (f.map σ) = faceBary vs f := by
  simp only [faceBary, renumber_pt vs vs' σ f h]

/-! ## mesh level: the per-face model functions are invariant / equivariant under a rigid motion of the vertex list -/

theorem pt_map (g : V3 → V3) (vs : List V3) (i : Nat) (h : i < vs.length) : pt (vs.map g) i = g (pt vs i) := by
  simp [pt, List.getD, h]

theorem facePts_map (g : V3 → V3) (vs : List V3) (f : Face) (h : ∀ i ∈ f, i < vs.length) :
    facePts (vs.map g) f = (facePts vs f).map g := by
  simp only [facePts, List.map_map]
  exact List.map_congr_left (fun i hi => pt_map g vs i (h i hi))

/-- `face_barycenter` follows the motion -/
theorem faceBary_rotate (R : M3) (t : V3) (vs : List V3) (f : Face) (hf : f ≠ []) (h : ∀ i ∈ f, i < vs.length) :
    faceBary (vs.map (move R t)) f = move R t (faceBary vs f) := by
  simp only [faceBary, facePts_map _ vs f h]
  exact bary_rotate R t _ (by simpa [facePts] using hf)

theorem getD_map_move (R : M3) (t : V3) (ps : List V3) (i : Nat) (h : i < ps.length) :
    (ps.map (move R t)).getD i V3.zero = move R t (ps.getD i V3.zero) := by
  simp [List.getD, h]

/-- `face_area` (triangle, quad = mean of the two splits, polygon = fan around the barycentre): every squared-area term,
hence the area, is invariant under every rigid motion of the mesh -/
theorem faceAreaTerms_rotate (R : M3) (hR : R.Orthogonal) (t : V3) (vs : List V3) (f : Face)
    (h : ∀ i ∈ f, i < vs.length) : faceAreaTerms (vs.map (move R t)) f = faceAreaTerms vs f := by
  unfold faceAreaTerms
  rw [facePts_map _ vs f h]
  generalize facePts vs f = ps
  match ps with
  | [] => rfl
  | [a] =>
    simp only [List.map_cons, List.map_nil, List.length_cons, List.length_nil, Prod.mk.injEq, true_and]
    simp [List.range, List.range.loop, bary_rotate R t [a] (by simp), triArea2_rotate R hR, List.getD]
    have := bary_rotate R t [a] (by simp)
    simp only [List.map_cons, List.map_nil] at this
    rw [this, triArea2_rotate R hR]
  | [a, b] =>
    have hb := bary_rotate R t [a, b] (by simp)
    simp only [List.map_cons, List.map_nil] at hb
    simp [List.range, List.range.loop, List.getD, hb, triArea2_rotate R hR]
  | [a, b, c] => simp only [List.map_cons, List.map_nil, triArea2_rotate R hR]
  | [a, b, c, d] => simp only [List.map_cons, List.map_nil, triArea2_rotate R hR]
  | a :: b :: c :: d :: e :: r =>
    have hne : (a :: b :: c :: d :: e :: r) ≠ [] := by simp
    have hb := bary_rotate R t (a :: b :: c :: d :: e :: r) hne
    simp only [List.map_cons] at hb ⊢
    simp only [hb, List.length_cons, List.length_map, Prod.mk.injEq, true_and]
    apply List.map_congr_left
    intro i hi
    have hi' : i < (a :: b :: c :: d :: e :: r).length := by simpa using List.mem_range.mp hi
    have hi2 : (i + 1) % (r.length + 1 + 1 + 1 + 1 + 1) < (a :: b :: c :: d :: e :: r).length := by
      simp only [List.length_cons]; exact Nat.mod_lt _ (by omega)
    have e1 := getD_map_move R t (a :: b :: c :: d :: e :: r) i hi'
    have e2 := getD_map_move R t (a :: b :: c :: d :: e :: r) _ hi2
    simp only [List.map_cons] at e1 e2
    rw [e1, e2, triArea2_rotate R hR]

theorem getD_mem (f : Face) (k : Nat) (h : k < f.length) : f.getD k 0 ∈ f := by
  simp [List.getD, h]

/-- `corner_angles` / `cotangent`: every corner's `(cross², dot)` pair — hence its angle and cotangent — is invariant -/
theorem faceCornerCS_rotate (R : M3) (hR : R.Orthogonal) (t : V3) (vs : List V3) (f : Face)
    (h : ∀ i ∈ f, i < vs.length) : faceCornerCS (vs.map (move R t)) f = faceCornerCS vs f := by
  unfold faceCornerCS
  apply List.map_congr_left
  intro i hi
  have hi' : i < f.length := List.mem_range.mp hi
  have hpos : 0 < f.length := by omega
  have m1 := h _ (getD_mem f ((i + f.length - 1) % f.length) (Nat.mod_lt _ hpos))
  have m2 := h _ (getD_mem f i hi')
  have m3 := h _ (getD_mem f ((i + 1) % f.length) (Nat.mod_lt _ hpos))
  rw [pt_map _ vs _ m1, pt_map _ vs _ m2, pt_map _ vs _ m3, cornerCS_rotate R hR]

/-- `face_normals` before normalisation rotates with the mesh (times `det R = ±1`) -/
theorem faceNormalDir_rotate (R : M3) (hR : R.Orthogonal) (t : V3) (vs : List V3) (f : Face) (h3 : 3 ≤ f.length)
    (h : ∀ i ∈ f, i < vs.length) :
    faceNormalDir (vs.map (move R t)) f = smul R.det (R.apply (faceNormalDir vs f)) := by
  unfold faceNormalDir
  have m0 := h _ (getD_mem f 0 (by omega))
  have m1 := h _ (getD_mem f 1 (by omega))
  have m2 := h _ (getD_mem f 2 (by omega))
  simp only [pt_map _ vs _ m0, pt_map _ vs _ m1, pt_map _ vs _ m2]
  exact normalDir_rotate R hR t _ _ _

/-! ## translated guards of `angle_defects` and resets of the interpolation functions (round 3) -/

/-- bridge: the model's angle-defect structure is what the source's default value / border loop / skip guard (re-extracted on every
run into `Generated.C07.defectBase`, `defectSkip`) prescribe: start from `defectBase·π`, subtract the corner angles unless skipped -/
theorem angleDefectStruct_bridge (faces : List Face) (zb : Bool) (v : Nat) :
    angleDefectStruct faces zb v =
      (Mouette.Generated.C07.defectBase (isBorderVertex faces v) zb,
       if Mouette.Generated.C07.defectSkip (isBorderVertex faces v) zb then [] else indicesWhere (cornerVerts faces) v) := by
  unfold angleDefectStruct Mouette.Generated.C07.defectBase Mouette.Generated.C07.defectSkip
  cases isBorderVertex faces v <;> cases zb <;> simp

/-- the values of the translated table: interior 2π, border π, border with `zero_border` 0 (and nothing subtracted there) -/
theorem defect_table :
    Mouette.Generated.C07.defectBase false false = 2 ∧ Mouette.Generated.C07.defectBase false true = 2 ∧
    Mouette.Generated.C07.defectBase true false = 1 ∧ Mouette.Generated.C07.defectBase true true = 0 ∧
    (∀ b zb, Mouette.Generated.C07.defectSkip b zb = (b && zb)) := by decide

/-- every accumulation into an output attribute in `interpolate.py` is preceded by `<output>.clear()` (so a second call on a used
output attribute equals the first: the premise "fresh output" of `interpolate_constant` is re-established by the code itself) -/
theorem interp_outputs_cleared : ∀ p ∈ Mouette.Generated.C07.accumulatesAfterClear, p.2 = true := by decide

/-! ## non-vacuity -/

example : (quatRot 1 2 2 0).Orthogonal := (quatRot_orthogonal 1 2 2 0 (by norm_num)).1
example : norm2 (cross (sub (⟨1,0,0⟩ : V3) ⟨0,0,0⟩) (sub ⟨0,1,0⟩ ⟨0,0,0⟩)) ≠ 0 := by
  norm_num [norm2, dot, cross, sub]
example : rsum [1, 2, 1/2] ≠ 0 := by norm_num [rsum]
example : circumcenter ⟨0,0,1⟩ ⟨2,0,1⟩ ⟨0,2,1⟩ = ⟨1,1,1⟩ := by
  apply V3.ext <;> norm_num [circumcenter, add, sub, smul, dot, cross, norm2]

end Mouette.Props.C07
