import Mouette.Generated.C07Src
import Mouette.Lemmas.GeomSourceModel
import Mouette.Props.C07
/-
C07 — bridges between the function bodies TRANSLATED from the working tree (`Generated/C07Src.lean`: geometry.py primitives and
the attribute loops, read statement by statement on every run) and the hand model `Model/Geom.lean` about which the property
theorems of `Props/C07.lean`, `C07Real.lean`, `C07Hist.lean` are proved.  With these, every law proved for `Geom.f` is a law of
what the source says now; a semantic change of a translated body makes its bridge fail (broken obligation -> failing-input search).

Square roots are formal (`SSum`): a bridge states that the RADICANDS agree (`c·√r = √(c²r)`, all coefficients `c ≥ 0`).
-/
namespace Mouette.Props.C07Source
open Mouette.Geom Mouette.GeomSrc Mouette.Generated

/-! ## geometry.py -/

theorem cross_bridge (a b : V3) : C07Src.cross a b = cross a b := by
  apply V3.ext <;> simp only [C07Src.cross, cross] <;> ring

theorem norm_bridge (a : V3) : SSum.radicands (C07Src.norm a) = [norm2 a] ∧ SSum.coefsNonneg (C07Src.norm a) = true := by
  constructor
  · simp only [C07Src.norm, radicands_root, norm2]
  · exact coefs_root _

theorem distance_bridge (a b : V3) :
    SSum.radicands (C07Src.distance a b) = [dist2 a b] ∧ SSum.coefsNonneg (C07Src.distance a b) = true := by
  simp only [C07Src.distance, dist2]
  exact norm_bridge _

theorem det_3x3_bridge (a b c : V3) : C07Src.det_3x3 a b c = det3 a b c := by
  simp only [C07Src.det_3x3, det3] <;> try ring

theorem triangle_area_bridge (a b c : V3) :
    SSum.radicands (C07Src.triangle_area a b c) = [triArea2 a b c] ∧ SSum.coefsNonneg (C07Src.triangle_area a b c) = true := by
  constructor
  · simp only [C07Src.triangle_area, radicands_scale, radicands_root, cross_bridge, List.map_cons, List.map_nil, List.cons.injEq,
      and_true]
    v3ring
  · exact coefs_scale _ (by norm_num) _ (coefs_root _)

/-- `quad_area`: half the sum of the four triangles of the two diagonal splits -/
theorem quad_area_bridge (a b c d : V3) :
    SSum.radicands (C07Src.quad_area a b c d) = radicandsOf (1 / 2, [triArea2 a b c, triArea2 a c d, triArea2 b c d, triArea2 b d a])
      ∧ SSum.coefsNonneg (C07Src.quad_area a b c d) = true := by
  constructor
  · simp only [C07Src.quad_area, radicands_scale, radicands_add, (triangle_area_bridge _ _ _).1, radicandsOf]
    simp
  · apply coefs_scale _ (by norm_num)
    simp only [coefs_add, (triangle_area_bridge _ _ _).2]; rfl

/-- `angle_3pts(A,B,C) = atan2(|BA×BC|, BA·BC)`: the pair is the model's `cornerCS` -/
theorem angle_3pts_bridge (a b c : V3) : C07Src.angle_3pts a b c = cornerCS a b c := by
  simp only [C07Src.angle_3pts, cornerCS, cross_bridge]

/-- `cotan(A,B,C) = cos/sin` of the NORMALISED `BA`, `BC` (the translator has checked that numerator and denominator carry the same
two rescalings `1/|BA|`, `1/|BC|`, which cancel): the pair is the model's `cornerCS` -/
theorem cotan_bridge (a b c : V3) : C07Src.cotan a b c = cornerCS a b c := by
  simp only [C07Src.cotan, cornerCS, cross_bridge, norm2]

/-! ## attribute loops whose body writes the entry of the current element -/

theorem face_area_at (vs : List V3) (faces : List Face) (t : Nat) (ht : t < faces.length) :
    SSum.radicands (C07Src.face_area vs faces t) = radicandsOf (faceAreaTerms vs (faces.getD t []))
      ∧ SSum.coefsNonneg (C07Src.face_area vs faces t) = true := by
  unfold C07Src.face_area
  simp only []
  rw [forRange_local_at]
  · simp only [ht, if_true, List.length_map, beq_iff_eq]
    by_cases h3 : (faces.getD t []).length = 3
    · simp only [h3, if_true, wr_same, faceAreaTerms_len3 vs _ h3, facePts]
      simpa [radicandsOf] using triangle_area_bridge _ _ _
    · by_cases h4 : (faces.getD t []).length = 4
      · rw [if_neg h3, if_pos h4, wr_same, faceAreaTerms_len4 vs _ h4]
        exact quad_area_bridge _ _ _ _
      · rw [if_neg h3, if_neg h4, forRange_upd_same, upd_same, faceAreaTerms_fan vs _ h3 h4]
        constructor
        · rw [radicands_forRange_add _ _ _ _ (fun i => (triangle_area_bridge _ _ _).1)]
          simp [radicandsOf, SSum.radicands, bary, facePts]
        · exact coefs_forRange_add _ _ _ rfl (fun i => (triangle_area_bridge _ _ _).2)
  · intro a i
    funext k
    by_cases hk : k = i
    · subst hk
      simp only [upd_same]
      split_ifs <;> simp [wr_same, upd_same, forRange_upd_same]
    · simp only [upd_other _ _ _ _ hk]
      split_ifs <;> simp [wr_other _ _ _ _ hk, upd_other _ _ _ _ hk, forRange_upd_same]

/-- `face_area`: the whole attribute, element by element, is the model's `(weight, terms)` per face -/
theorem face_area_bridge (vs : List V3) (faces : List Face) :
    (tab (C07Src.face_area vs faces) faces.length).map SSum.radicands = faces.map (fun f => radicandsOf (faceAreaTerms vs f)) := by
  apply List.ext_getElem
  · simp [tab]
  · intro t h1 h2
    have ht : t < faces.length := by simpa [tab] using h1
    simp only [tab, List.getElem_map, List.getElem_range]
    rw [(face_area_at vs faces t ht).1]
    simp [List.getD_eq_getElem?_getD, ht]

theorem face_normals_bridge (vs : List V3) (faces : List Face) :
    tab (C07Src.face_normals vs faces) faces.length = faces.map (faceNormalDir vs) := by
  unfold C07Src.face_normals
  simp only []
  rw [tab_forEnum_local]
  · simp only [wr_same, cross_bridge, mapIdx_ignore, getD_take _ 3 _ (by decide : 0 < 3),
      getD_take _ 3 _ (by decide : 1 < 3), getD_take _ 3 _ (by decide : 2 < 3)]
    apply List.map_congr_left; intro f _; rfl
  · unfold IsLocalE; local_body

theorem face_barycenter_bridge (vs : List V3) (faces : List Face) :
    tab (C07Src.face_barycenter vs faces) faces.length = faces.map (faceBary vs) := by
  unfold C07Src.face_barycenter
  simp only []
  rw [tab_forEnum_local]
  · simp only [wr_same, mapIdx_ignore]
    apply List.map_congr_left; intro f _
    simp [faceBary, bary, facePts]
  · unfold IsLocalE; local_body

theorem cell_barycenter_bridge (vs : List V3) (cells : List Face) :
    tab (C07Src.cell_barycenter vs cells) cells.length = cells.map (faceBary vs) := by
  unfold C07Src.cell_barycenter
  simp only []
  rw [tab_forEnum_local]
  · simp only [wr_same, mapIdx_ignore]
    apply List.map_congr_left; intro f _
    simp [faceBary, bary, facePts]
  · unfold IsLocalE; local_body

theorem edge_length_bridge (vs : List V3) (edges : List (Nat × Nat)) :
    (tab (C07Src.edge_length vs edges) edges.length).map SSum.radicands = edges.map (fun e => [dist2 (pt vs e.1) (pt vs e.2)]) := by
  unfold C07Src.edge_length
  simp only []
  rw [tab_forEnum_local]
  · simp only [wr_same, mapIdx_ignore, List.map_map]
    apply List.map_congr_left; intro e _
    exact (distance_bridge _ _).1
  · unfold IsLocalE; local_body

/-- `cell_volume`: `abs(det_3x3(pA-pD, pB-pD, pC-pD))/6` per tetrahedron -/
theorem cell_volume_bridge (vs : List V3) (cells : List Face) :
    tab (C07Src.cell_volume vs cells) cells.length =
      cells.map (fun c => tetVolume (pt vs (c.getD 0 0)) (pt vs (c.getD 1 0)) (pt vs (c.getD 2 0)) (pt vs (c.getD 3 0))) := by
  unfold C07Src.cell_volume
  simp only []
  rw [tab_forEnum_local]
  · simp only [wr_same, mapIdx_ignore, det_3x3_bridge]
    apply List.map_congr_left; intro c _
    first
      | rfl
      | (simp only [tetVolume, tetDet]; congr 2; v3ring)
  · unfold IsLocalE; local_body

theorem edge_middle_point_bridge (vs : List V3) (edges : List (Nat × Nat)) :
    tab (C07Src.edge_middle_point vs edges) edges.length = edges.map (fun e => mid (pt vs e.1) (pt vs e.2)) := by
  unfold C07Src.edge_middle_point
  simp only []
  rw [tab_forEnum_local]
  · simp only [wr_same, mapIdx_ignore]
    apply List.map_congr_left; intro e _
    apply V3.ext <;> simp only [mid, smul, add] <;> ring
  · unfold IsLocalE; local_body

/-- the loop of `face_circumcenter` (the primitive `geometry.circumcenter` itself is hand-modelled: `Geom.circumcenter`) -/
theorem face_circumcenter_bridge (vs : List V3) (faces : List Face) :
    tab (C07Src.face_circumcenter vs faces) faces.length =
      faces.map (fun f => circumcenter (pt vs (f.getD 0 0)) (pt vs (f.getD 1 0)) (pt vs (f.getD 2 0))) := by
  unfold C07Src.face_circumcenter
  simp only []
  rw [tab_forEnum_local]
  · simp only [wr_same, mapIdx_ignore]
  · unfold IsLocalE; local_body

/-! ## global quantities (glob.py) -/

theorem euler_characteristic_bridge (vs : List V3) (faces : List Face) (edges : List (Nat × Nat)) :
    C07Src.euler_characteristic vs faces edges = (vs.length : Int) - (edges.length : Int) + (faces.length : Int) := by
  simp only [C07Src.euler_characteristic] <;> try ring

theorem barycenter_bridge (vs : List V3) : C07Src.barycenter vs = bary vs := by
  simp only [C07Src.barycenter, bary]

theorem total_area_bridge (faces : List Face) (farea : Attr Rat) :
    C07Src.total_area faces farea = rsum (tab farea faces.length) := by
  simp only [C07Src.total_area, tab]

/-- `mean_face_area(mesh)`: the mean of all face areas -/
theorem mean_face_area_all (faces : List Face) (farea : Attr Rat) :
    C07Src.mean_face_area faces farea none = rsum (tab farea faces.length) / (faces.length : Rat) := by
  simp [C07Src.mean_face_area, forRange_sum, tab]

/-- `mean_face_area(mesh, n)` with `n ≤ #faces`: the mean of the first `n` -/
theorem mean_face_area_first (faces : List Face) (farea : Attr Rat) (n : Nat) (h : n ≤ faces.length) :
    C07Src.mean_face_area faces farea (some n) = rsum (tab farea n) / (n : Rat) := by
  have h1 : ¬ faces.length < n := by omega
  simp [C07Src.mean_face_area, forRange_sum, tab, h1, Nat.min_eq_left h]

/-- `mean_face_area(mesh, n)` with `n > #faces` never divides by more elements than are summed (the repaired defect `g_mfa_big`) -/
theorem mean_face_area_clamped (faces : List Face) (farea : Attr Rat) (n : Nat) (h : faces.length < n) :
    C07Src.mean_face_area faces farea (some n) = C07Src.mean_face_area faces farea none := by
  simp [C07Src.mean_face_area, h]

theorem mean_cell_volume_all (cells : List Face) (cvol : Attr Rat) :
    C07Src.mean_cell_volume cells cvol none = rsum (tab cvol cells.length) / (cells.length : Rat) := by
  simp [C07Src.mean_cell_volume, forRange_sum, tab]

theorem mean_cell_volume_clamped (cells : List Face) (cvol : Attr Rat) (n : Nat) (h : cells.length < n) :
    C07Src.mean_cell_volume cells cvol (some n) = C07Src.mean_cell_volume cells cvol none := by
  simp [C07Src.mean_cell_volume, h]

theorem mean_edge_length_clamped (vs : List V3) (edges : List (Nat × Nat)) (n : Nat) (h : edges.length < n) :
    C07Src.mean_edge_length vs edges (some n) = C07Src.mean_edge_length vs edges none := by
  simp [C07Src.mean_edge_length, h]

/-- `mean_edge_length(mesh)`: one root per edge, `|pB − pA|`, each divided by the number of edges -/
theorem mean_edge_length_all (vs : List V3) (edges : List (Nat × Nat)) :
    SSum.radicands (C07Src.mean_edge_length vs edges none) =
      edges.map (fun e => (1 / (edges.length : Rat)) * (1 / (edges.length : Rat)) * dist2 (pt vs e.1) (pt vs e.2)) := by
  simp only [C07Src.mean_edge_length, Option.isNone_none, Bool.true_or, if_true, Nat.min_self, radicands_scale]
  rw [radicands_forRange_add _ _ _ (fun i => dist2 (pt vs (edges.getD i (0, 0)).1) (pt vs (edges.getD i (0, 0)).2))
    (fun i => by simp [radicands_root, dist2])]
  apply List.ext_getElem
  · simp [SSum.radicands]
  · intro i h1 h2
    have hi : i < edges.length := by simpa [SSum.radicands] using h1
    simp [SSum.radicands, List.getD_eq_getElem?_getD, hi]

/-! ## accumulating loops -/

theorem degree_fold (es : List (Nat × Nat)) (d : Attr Nat) (v : Nat) :
    forEach es d (fun x1 x2 => upd (upd x1 x2.1 (fun t => t + 1)) x2.2 (fun t => t + 1)) v = d v + degree es v := by
  induction es generalizing d with
  | nil => simp [forEach, degree]
  | cons e es ih =>
    simp only [forEach, List.foldl_cons] at ih ⊢
    rw [ih, degree_cons]
    simp only [upd]; split_ifs <;> omega

/-- `degree`: `deg[a] += 1; deg[b] += 1` for every edge is the number of edge ends at the vertex -/
theorem degree_bridge (edges : List (Nat × Nat)) (v : Nat) : C07Src.degree edges v = degree edges v := by
  unfold C07Src.degree
  simp only []
  rw [degree_fold]; simp

/-! ## corner_angles: nested loop writing at a running corner counter -/

/-- `corner_angles`: the corners are numbered face after face, and corner `i` of a face gets `angle_3pts(prev, v, next)`:
the attribute is the concatenation of the model's `faceCornerCS` of the faces -/
theorem corner_angles_bridge (vs : List V3) (faces : List Face) :
    tab (C07Src.corner_angles vs faces) (cornerVerts faces).length = faces.flatMap (faceCornerCS vs) := by
  unfold C07Src.corner_angles
  simp only [angle_3pts_bridge]
  have key := forEach_counter (α := Rat × Rat)
    (fun (f : Face) i => cornerCS (pt vs (f.getD ((i + f.length - 1) % f.length) 0)) (pt vs (f.getD i 0)) (pt vs (f.getD ((i + 1) % f.length) 0)))
    List.length faces (fun _ => ((0, 1) : Rat × Rat)) 0
  rw [key]
  have hlen : (faces.flatMap (faceCornerCS vs)).length = (cornerVerts faces).length := by
    simp [faceCornerCS, cornerVerts, List.length_flatMap, List.length_flatten]
  apply List.ext_getElem
  · simp [tab, hlen]
  · intro j h1 h2
    simp only [tab, List.getElem_map, List.getElem_range, Nat.zero_le, if_true, Nat.sub_zero]
    have : (faces.flatMap (faceCornerCS vs))[j]? = some (faces.flatMap (faceCornerCS vs))[j] := List.getElem?_eq_getElem h2
    change ((faces.flatMap (faceCornerCS vs))[j]?).getD (0, 1) = _
    rw [this]; rfl

/-! ## cotangent: both branches -/

/-- `cotangent`, direct branch (no cached `angles`): `cot[3i], cot[3i+1], cot[3i+2] = cotan(pC,pA,pB), cotan(pA,pB,pC), cotan(pB,pC,pA)`:
the attribute is the concatenation of the model's `triCotanCS` of the faces -/
theorem cotangent_bridge (vs : List V3) (faces : List Face) (angles : Attr (Rat × Rat)) :
    tab (C07Src.cotangent vs faces false angles) (3 * faces.length) = faces.flatMap (triCotanCS vs) := by
  unfold C07Src.cotangent
  simp only [Bool.false_eq_true, if_false, cotan_bridge]
  apply List.ext_getElem?
  intro j
  rw [flatMap3_get (triCotanCS vs) (fun f => by simp [triCotanCS, cotanArgs])]
  by_cases hj : j / 3 < faces.length
  · have hj3 : j < 3 * faces.length := by omega
    simp only [tab, List.getElem?_map, List.getElem?_range hj3, Option.map_some, List.getElem?_eq_getElem hj, Option.bind_some]
    rw [forEnum_block_get 3 _ (by intro a i x k; simp only [wr]; split_ifs <;> first | rfl | omega) _ _ j hj]
    have h3 : j % 3 = 0 ∨ j % 3 = 1 ∨ j % 3 = 2 := by omega
    simp only [wr, triCotanCS, cotanArgs, List.map_cons, List.map_nil]
    rcases h3 with h | h | h <;> rw [h] <;> split_ifs <;> first | rfl | omega
  · have hj3 : ¬ j < 3 * faces.length := by omega
    have hn : faces[j / 3]? = none := by rw [List.getElem?_eq_none]; omega
    rw [hn]
    simp [tab, hj3]

/-- `cotangent` when the corner angles are cached: `cot[c] = -tan(angles[c] + pi/2) = cot(angles[c])`, the same `(cross², dot)` pair -/
theorem cotangent_from_angles (vs : List V3) (faces : List Face) (angles : Attr (Rat × Rat)) (c : Nat) (hc : c < (cornerVerts faces).length) :
    C07Src.cotangent vs faces true angles c = angles c := by
  unfold C07Src.cotangent
  simp only [if_true]
  rw [forRange_local_at _ (by intro a i; local_body)]
  simp [hc, wr_same]

/-- hence, with the angles the translated `corner_angles` computes, both branches of `cotangent` give the same pairs on a triangle mesh
(`faceCornerCS = triCotanCS` on triangles: `triCotanCS_eq_faceCornerCS` in Props/C07) -/
theorem cotangent_branches_agree (vs : List V3) (faces : List Face) (angles : Attr (Rat × Rat)) :
    tab (C07Src.cotangent vs faces true angles) (cornerVerts faces).length = tab angles (cornerVerts faces).length := by
  unfold tab
  apply List.map_congr_left
  intro c hc
  exact cotangent_from_angles vs faces angles c (List.mem_range.mp hc)

/-! ## cotan_weights: whole body -/

/-- `cotan_weights` as read from the source: edge `e = (A,B)` starts from the attribute default `0`, then adds `cot[c]/2` for the corner `c`
opposite to the edge in the face of `direct_face(A,B)` and in the face of `direct_face(B,A)` (each skipped when `None`), with
`c = face_to_first_corner(T) + 3 - iA - iB`: on a triangle mesh exactly the model's `cotanWeightCorners` (the list of halved corners, in order) -/
theorem cotan_weights_bridge (faces : List Face) (edges : List (Nat × Nat)) (htri : ∀ f ∈ faces, f.length = 3) (e : Nat) (he : e < edges.length) :
    C07Src.cotan_weights faces edges e = cotanWeightCorners faces edges[e] := by
  unfold C07Src.cotan_weights cotanWeightCorners
  simp only []
  rw [forEnum_local_get _ (by intro a i x; funext k; beta_reduce; by_cases hk : k = i <;> (split_ifs <;> simp [upd, hk])) _ _ e he]
  rcases h1 : directFace faces edges[e].1 edges[e].2 with _ | ⟨t1, i1, j1⟩ <;>
    rcases h2 : directFace faces edges[e].2 edges[e].1 with _ | ⟨t2, i2, j2⟩ <;>
    simp [upd, oppCorner]
  · rw [firstCorner_tri faces htri t2 (Nat.le_of_lt (directFace_lt faces _ _ _ h2))]; try omega
  · rw [firstCorner_tri faces htri t1 (Nat.le_of_lt (directFace_lt faces _ _ _ h1))]; try omega
  · rw [firstCorner_tri faces htri t1 (Nat.le_of_lt (directFace_lt faces _ _ _ h1)),
      firstCorner_tri faces htri t2 (Nat.le_of_lt (directFace_lt faces _ _ _ h2))]
    first | omega | (constructor <;> omega)

theorem cotan_weights_header : ("cotan_weights", "edges", "float", "1", 0) ∈ C07Src.headers := by decide

example : C07Src.cotan_weights [[0, 1, 2], [1, 0, 3]] [(0, 1), (1, 2)] 0 = [2, 5] := by decide

/-! ## angle_defects: whole body (default `2*pi`, border loop, skip guard, corner loop) -/

/-- `angle_defects` as read from the source: vertex `v` starts at `2*pi` (the attribute default of all three constructions), a border vertex
is reset to `0` (`zero_border`) or `pi`, then every corner of the vertex - in increasing corner order - subtracts its angle unless the vertex
is on the border and `zero_border` is set: exactly the model's `angleDefectStruct` (multiple of `pi`, list of subtracted corners) -/
theorem angle_defects_bridge (vs : List V3) (faces : List Face) (zb : Bool) (v : Nat) (hv : v < vs.length) :
    C07Src.angle_defects vs faces zb v = angleDefectStruct faces zb v := by
  unfold C07Src.angle_defects angleDefectStruct
  simp only [forEnum]
  rw [corner_scatter_append (fun w => isBorderVertex faces w && zb), forEach_wr_const, zipIdx_positions]
  have hmem : v ∈ boundaryVertices faces vs.length ↔ isBorderVertex faces v = true := by
    simp [boundaryVertices, hv]
  by_cases hb : isBorderVertex faces v = true
  · have := hmem.mpr hb
    cases zb <;> simp [hb, this]
  · have hb' : isBorderVertex faces v = false := by simpa using hb
    have : v ∉ boundaryVertices faces vs.length := fun h => hb (hmem.mp h)
    simp [hb', this]

/-- the default value is part of the translated site: the header of `angle_defects` is `vertices`, one float, default `2*pi` -/
theorem angle_defects_header : ("angle_defects", "vertices", "float", "1", 2) ∈ C07Src.headers := by decide

/-! ## interpolate.py (whole bodies; values and weights are arbitrary rational attributes) -/

/-- `scatter_vertices_to_corners`: corner `c` receives the value of its vertex -/
theorem scatter_vertices_to_corners_bridge (faces : List Face) (vattr cattr : Attr Rat) :
    tab (C07Src.scatter_vertices_to_corners faces vattr cattr) (cornerVerts faces).length = (cornerVerts faces).map vattr := by
  unfold C07Src.scatter_vertices_to_corners
  simp only []
  rw [tab_forEnum_local]
  · simp only [wr_same, mapIdx_ignore]
  · unfold IsLocalE; local_body

/-- `interpolate_vertices_to_faces`: clear, accumulate the vertex values of the face, divide by its size: the model's `interpV2F`,
whatever the output attribute contained before -/
theorem interpolate_vertices_to_faces_at (faces : List Face) (vattr fattr : Attr Rat) (t : Nat) (ht : t < faces.length) :
    C07Src.interpolate_vertices_to_faces faces vattr fattr t = rsum (faces[t].map vattr) / (faces[t].length : Rat) := by
  unfold C07Src.interpolate_vertices_to_faces
  simp only []
  rw [forEnum_local_get _ (by unfold IsLocalE; local_body) _ _ t ht, upd_same,
    forEnum_local_get _ (by intro a i x; simp only [forEach_upd_same]; local_body) _ _ t ht]
  simp only [forEach_upd_same, upd_same, forEach_sum]
  simp

theorem interpolate_vertices_to_faces_bridge (faces : List Face) (vals : List Rat) (fattr : Attr Rat) :
    tab (C07Src.interpolate_vertices_to_faces faces (fun v => vals.getD v 0) fattr) faces.length = faces.map (interpV2F vals) := by
  apply List.ext_getElem
  · simp [tab]
  · intro t h1 h2
    have ht : t < faces.length := by simpa [tab] using h1
    simp only [tab, List.getElem_map, List.getElem_range]
    rw [interpolate_vertices_to_faces_at faces _ fattr t ht]
    rfl

/-- `interpolate_faces_to_vertices(weight='sum')`: the model's `interpF2VSum` -/
theorem interpolate_faces_to_vertices_sum (vs : List V3) (faces : List Face) (area angles fattr vattr : Attr Rat) (v : Nat)
    (hv : v < vs.length) :
    C07Src.interpolate_faces_to_vertices vs faces area angles fattr vattr "sum" v = rsum ((vertexFaces faces v).map fattr) := by
  unfold C07Src.interpolate_faces_to_vertices
  simp only [show ("sum" == "sum") = true from rfl, show ("sum" == "uniform") = false from by decide, Bool.true_or, if_true,
    Bool.false_eq_true, if_false]
  rw [forRange_local_at _ (by intro a i; local_body)]
  simp [hv, wr_same]

/-- `interpolate_faces_to_vertices(weight='uniform')`: the model's `interpF2VUniform` -/
theorem interpolate_faces_to_vertices_uniform (vs : List V3) (faces : List Face) (area angles fattr vattr : Attr Rat) (v : Nat)
    (hv : v < vs.length) :
    C07Src.interpolate_faces_to_vertices vs faces area angles fattr vattr "uniform" v
      = rsum ((vertexFaces faces v).map fattr) / ((vertexFaces faces v).length : Rat) := by
  unfold C07Src.interpolate_faces_to_vertices
  simp only [show ("uniform" == "uniform") = true from rfl, Bool.or_true, if_true]
  rw [forRange_local_at _ (by intro a i; local_body)]
  simp [hv, wr_same, upd_same]

/-- `average_corners_to_vertices(weight='sum')`: clear, then every corner adds its value at its vertex -/
theorem average_corners_to_vertices_sum (vs : List V3) (faces : List Face) (angles cattr vattr : Attr Rat) (v : Nat) :
    C07Src.average_corners_to_vertices vs faces angles cattr vattr "sum" v
      = rsum (((cornerVerts faces).zipIdx 0).map (fun p => if p.1 = v then cattr p.2 else 0)) := by
  unfold C07Src.average_corners_to_vertices
  simp only [show ("sum" == "uniform") = false from by decide, show ("sum" == "sum") = true from rfl, if_true, Bool.false_eq_true, if_false]
  rw [forEnum, forEnumFrom_scatter_add]; simp

/-- `average_corners_to_faces(weight='sum')`: the sum over the corners of the face -/
theorem average_corners_to_faces_sum (faces : List Face) (angles cattr fattr : Attr Rat) (t : Nat) (ht : t < faces.length) :
    C07Src.average_corners_to_faces faces angles cattr fattr "sum" t = rsum ((faceCorners faces t).map cattr) := by
  unfold C07Src.average_corners_to_faces
  simp only [show ("sum" == "uniform") = false from by decide, show ("sum" == "sum") = true from rfl, if_true, Bool.false_eq_true, if_false]
  rw [forRange_local_at _ (by intro a i; local_body)]
  simp [ht, wr_same]

/-- `average_corners_to_faces(weight='uniform')`: every corner contributes its value divided by the number of corners of the face -/
theorem average_corners_to_faces_uniform (faces : List Face) (angles cattr fattr : Attr Rat) (t : Nat) (ht : t < faces.length) :
    C07Src.average_corners_to_faces faces angles cattr fattr "uniform" t
      = rsum ((faceCorners faces t).map (fun c => cattr c / ((faceCorners faces t).length : Rat))) := by
  unfold C07Src.average_corners_to_faces
  simp only [show ("uniform" == "uniform") = true from rfl, if_true]
  rw [forRange_local_at _ (by intro a i; simp only [forEach_upd_same]; local_body)]
  simp [ht, forEach_upd_same, upd_same, forEach_sum]

/-! ## vertex_normals: whole body, through the translated `interpolate_faces_to_vertices` -/

/-- `vertex_normals` as read from the source, for EVERY interpolation mode: the direction of the normal at a vertex is, component by component,
what the translated `interpolate_faces_to_vertices` computes from the face normals into a fresh (zero) output attribute -/
theorem vertex_normals_components (vs : List V3) (faces : List Face) (area angles : Attr Rat) (fnormals : Attr V3) (mode : String) (v : Nat) :
    C07Src.vertex_normals vs faces area angles fnormals mode v =
      ⟨C07Src.interpolate_faces_to_vertices vs faces area angles (fun t => (fnormals t).x) (fun _ => 0) mode v,
       C07Src.interpolate_faces_to_vertices vs faces area angles (fun t => (fnormals t).y) (fun _ => 0) mode v,
       C07Src.interpolate_faces_to_vertices vs faces area angles (fun t => (fnormals t).z) (fun _ => 0) mode v⟩ := by
  unfold C07Src.vertex_normals
  simp only []
  rw [forRange_local_at _ (by intro a i; local_body)]
  simp only [wr_same, ite_self]
  rfl

/-- `vertex_normals(interpolation='uniform')`: the direction is the mean of the normals of the faces around the vertex -/
theorem vertex_normals_uniform (vs : List V3) (faces : List Face) (area angles : Attr Rat) (fnormals : Attr V3) (v : Nat) (hv : v < vs.length) :
    C07Src.vertex_normals vs faces area angles fnormals "uniform" v
      = smul (1 / ((vertexFaces faces v).length : Rat)) (vsum ((vertexFaces faces v).map fnormals)) := by
  rw [vertex_normals_components]
  simp only [interpolate_faces_to_vertices_uniform _ _ _ _ _ _ _ hv]
  obtain ⟨hx, hy, hz⟩ := vsum_components ((vertexFaces faces v).map fnormals)
  apply V3.ext <;> simp only [smul, hx, hy, hz, List.map_map, Function.comp_def] <;> ring

/-- the face normals come from `custom_fnormals`, else the cached `faces['normals']`, else `face_normals(mesh)` - in that order -/
theorem vertex_normals_sources : C07Src.vertexNormalsSources = ["custom_fnormals", "faces[normals]", "face_normals(mesh, persistent)"] := by decide

example : C07Src.vertex_normals [⟨0,0,0⟩, ⟨1,0,0⟩, ⟨0,1,0⟩, ⟨1,1,0⟩] [[0, 1, 2], [1, 3, 2]] (fun _ => 1) (fun _ => 1)
    (fun t => if t = 0 then ⟨0, 0, 1⟩ else ⟨0, 2, 1⟩) "uniform" 1 = ⟨0, 1, 1⟩ := by
  rw [vertex_normals_uniform _ _ _ _ _ _ (by decide)]; decide +kernel

/-! ## the property theorems, restated about the TRANSLATED bodies (through the bridges) -/

open Mouette.Props.C07 in
/-- what `face_area` computes (as read from the source now) is unchanged by every rigid motion of the mesh -/
theorem face_area_source_rigid (R : M3) (hR : R.Orthogonal) (t : V3) (vs : List V3) (faces : List Face) (k : Nat)
    (hk : k < faces.length) (h : ∀ i ∈ faces.getD k [], i < vs.length) :
    SSum.radicands (C07Src.face_area (vs.map (move R t)) faces k) = SSum.radicands (C07Src.face_area vs faces k) := by
  rw [(face_area_at _ faces k hk).1, (face_area_at vs faces k hk).1, faceAreaTerms_rotate R hR t vs _ h]

open Mouette.Props.C07 in
/-- what `face_barycenter` computes follows every rigid motion -/
theorem face_barycenter_source_rigid (R : M3) (t : V3) (vs : List V3) (faces : List Face)
    (hne : ∀ f ∈ faces, f ≠ []) (h : ∀ f ∈ faces, ∀ i ∈ f, i < vs.length) :
    tab (C07Src.face_barycenter (vs.map (move R t)) faces) faces.length
      = (tab (C07Src.face_barycenter vs faces) faces.length).map (move R t) := by
  rw [face_barycenter_bridge, face_barycenter_bridge, List.map_map]
  apply List.map_congr_left
  intro f hf
  exact faceBary_rotate R t vs f (hne f hf) (h f hf)

open Mouette.Props.C07 in
/-- what `edge_length` computes is unchanged by every rigid motion -/
theorem edge_length_source_rigid (R : M3) (hR : R.Orthogonal) (t : V3) (vs : List V3) (edges : List (Nat × Nat))
    (h : ∀ e ∈ edges, e.1 < vs.length ∧ e.2 < vs.length) :
    (tab (C07Src.edge_length (vs.map (move R t)) edges) edges.length).map SSum.radicands
      = (tab (C07Src.edge_length vs edges) edges.length).map SSum.radicands := by
  rw [edge_length_bridge, edge_length_bridge]
  apply List.map_congr_left
  intro e he
  rw [pt_map _ vs e.1 (h e he).1, pt_map _ vs e.2 (h e he).2, dist2_rotate R hR]

open Mouette.Props.C07 in
/-- what `cell_volume` computes is unchanged by every rigid motion -/
theorem cell_volume_source_rigid (R : M3) (hR : R.Orthogonal) (t : V3) (vs : List V3) (cells : List Face)
    (h : ∀ c ∈ cells, ∀ k, c.getD k 0 < vs.length) :
    tab (C07Src.cell_volume (vs.map (move R t)) cells) cells.length = tab (C07Src.cell_volume vs cells) cells.length := by
  rw [cell_volume_bridge, cell_volume_bridge]
  apply List.map_congr_left
  intro c hc
  rw [pt_map _ vs _ (h c hc 0), pt_map _ vs _ (h c hc 1), pt_map _ vs _ (h c hc 2), pt_map _ vs _ (h c hc 3),
    tetVolume_rotate R hR]

/-! ## non-vacuity -/

example : SSum.radicands (C07Src.face_area [⟨0,0,0⟩, ⟨2,0,0⟩, ⟨0,2,0⟩] [[0, 1, 2]] 0) = [4] := by
  rw [(face_area_at _ _ 0 (by decide)).1]; decide +kernel
example : C07Src.degree [(0, 1), (1, 2), (0, 2)] 1 = 2 := by decide
example : C07Src.mean_face_area [[0, 1, 2], [1, 0, 3]] (fun _ => 3) (some 7) = 3 := by decide +kernel
example : C07Src.euler_characteristic [⟨0,0,0⟩, ⟨1,0,0⟩, ⟨0,1,0⟩] [[0, 1, 2]] [(0, 1), (1, 2), (0, 2)] = 1 := by decide
example : C07Src.cotan ⟨1,0,0⟩ ⟨0,0,0⟩ ⟨1,1,0⟩ = (1, 1) := by decide +kernel

end Mouette.Props.C07Source
