import Mouette.Generated.C03B
import Mouette.Props.C03Source
/-!
# C03 (round 5) — the boundary extraction, as the SOURCE says it

`vlib/props/c03_source.py` compiles the whole bodies of `VolumeMesh._BoundaryConnectivity._extract_surface_boundary`,
`VolumeMesh._BoundaryConnectivity.__init__` and `processing.border.extract_boundary_of_volume` into
`Generated/C03B.lean`.  This file proves the bridges to the hand model (`Conn.m2bFace`, `b2mFace`, `m2bVertex`, `b2mVertex`,
`boundaryVertexList`, `orientedFace` / `boundarySurface`, `m2bEdgeTable`) and restates the boundary theorems of `Props/C03.lean`
on the generated definitions.
-/
namespace Mouette.Props.C03Boundary
open Mouette.Vol Mouette.VolS
open Mouette.Generated
open Mouette.Props.C03Source

/-- `m2b[v]` used as a value in the hand model's terms -/
def m2bD (k : Conn) (v : Nat) : Nat := (k.m2bVertex v).getD 0

/-- the face put in the boundary surface for border face `f`, in BOUNDARY vertex ids, as the generated loop computes it
from the vertex map `mv` -/
def genFace (m : Mesh) (mv : AMap Nat) (f : Nat) : List Nat :=
  if decide (0 < det3 ((m.pt (unpack (m.face f) 0)).sub (m.pt (firstNotInD (m.cell ((C03S.face_to_cells m f).getD 0 0)) (m.face f))))
      ((m.pt (unpack (m.face f) 1)).sub (m.pt (firstNotInD (m.cell ((C03S.face_to_cells m f).getD 0 0)) (m.face f))))
      ((m.pt (unpack (m.face f) 2)).sub (m.pt (firstNotInD (m.cell ((C03S.face_to_cells m f).getD 0 0)) (m.face f))))) = true
  then [aGetD mv (unpack (m.face f) 0), aGetD mv (unpack (m.face f) 1), aGetD mv (unpack (m.face f) 2)]
  else [aGetD mv (unpack (m.face f) 0), aGetD mv (unpack (m.face f) 2), aGetD mv (unpack (m.face f) 1)]

section
variable (m : Mesh)
open C03B in
local macro "inv_field" π:term : tactic =>
  `(tactic| (rw [foldl_inv $π]; intro _ _ _; first | rfl | (split <;> rfl) | (simp only []; split <;> rfl) | (rw [foldl_inv $π]; intro _ _ _; rfl)))

/-! ## `_extract_surface_boundary`, loop by loop -/

/-- loop 1 (`for i, iF in enumerate(boundary_faces)`): the face maps, `bnd_faces`, the insertion log of `vertex_set` -/
theorem esb_loop1 (h4 : AllTets m) (S : C03B.ExtractSurfaceBoundarySt) :
    let R := C03B.extract_surface_boundary_loop1 m S
    (∀ f, aGet R.m2b_face f = if f ∈ m.conn.boundaryFaces then some (m.conn.boundaryFaces.idxOf f) else aGet S.m2b_face f)
    ∧ (∀ i, aGet R.b2m_face i = if i < m.conn.boundaryFaces.length then m.conn.boundaryFaces[i]? else aGet S.b2m_face i)
    ∧ R.c0 = S.c0 ++ m.conn.borderVertexFlags ∧ R.c1 = S.c1 ++ m.conn.boundaryFaces
    ∧ R.m2b_vertex = S.m2b_vertex ∧ R.b2m_vertex = S.b2m_vertex ∧ R.obj0_faces = S.obj0_faces
    ∧ R.obj0_vertices = S.obj0_vertices := by
  intro R
  refine ⟨fun f => ?_, fun i => ?_, ?_, ?_, ?_, ?_, ?_, ?_⟩
  · show aGet (C03B.ExtractSurfaceBoundarySt.m2b_face (List.foldl _ S _)) f = _
    rw [foldl_proj C03B.ExtractSurfaceBoundarySt.m2b_face _ (fun a p => aSet a p.1 p.2)]
    · rw [(boundary_faces_bridge m h4).1]
      show aGet (List.foldl _ _ (m.conn.boundaryFaces.zipIdx 0)) f = _
      rw [aGet_foldl_zipIdx_m2b _ (Mouette.Props.C03.face_partition m.conn).2.2.1]; simp
    · intro s p _
      rw [foldl_inv C03B.ExtractSurfaceBoundarySt.m2b_face]; intro _ _ _; rfl
  · show aGet (C03B.ExtractSurfaceBoundarySt.b2m_face (List.foldl _ S _)) i = _
    rw [foldl_proj C03B.ExtractSurfaceBoundarySt.b2m_face _ (fun a p => aSet a p.2 p.1)]
    · rw [(boundary_faces_bridge m h4).1]
      show aGet (List.foldl _ _ (m.conn.boundaryFaces.zipIdx 0)) i = _
      rw [aGet_foldl_zipIdx_b2m]; simp
    · intro s p _
      rw [foldl_inv C03B.ExtractSurfaceBoundarySt.b2m_face]; intro _ _ _; rfl
  · show C03B.ExtractSurfaceBoundarySt.c0 (List.foldl _ S _) = _
    rw [foldl_proj C03B.ExtractSurfaceBoundarySt.c0 _ (fun vs p => vs ++ m.face p.1)]
    · rw [(boundary_faces_bridge m h4).1, foldl_zipIdx_fst (fun vs f => vs ++ m.face f), flatMap_fold]; rfl
    · intro s p _
      rw [foldl_proj C03B.ExtractSurfaceBoundarySt.c0 _ (fun vs v => vs ++ [v]) _ (fun _ _ _ => rfl), append_fold]
  · show C03B.ExtractSurfaceBoundarySt.c1 (List.foldl _ S _) = _
    rw [foldl_proj C03B.ExtractSurfaceBoundarySt.c1 _ (fun bf p => bf ++ [p.1])]
    · rw [(boundary_faces_bridge m h4).1, foldl_zipIdx_fst (fun bf f => bf ++ [f]), append_fold]
    · intro s p _
      rw [foldl_inv C03B.ExtractSurfaceBoundarySt.c1]; intro _ _ _; rfl
  · show C03B.ExtractSurfaceBoundarySt.m2b_vertex (List.foldl _ S _) = _
    inv_field C03B.ExtractSurfaceBoundarySt.m2b_vertex
  · show C03B.ExtractSurfaceBoundarySt.b2m_vertex (List.foldl _ S _) = _
    inv_field C03B.ExtractSurfaceBoundarySt.b2m_vertex
  · show C03B.ExtractSurfaceBoundarySt.obj0_faces (List.foldl _ S _) = _
    inv_field C03B.ExtractSurfaceBoundarySt.obj0_faces
  · show C03B.ExtractSurfaceBoundarySt.obj0_vertices (List.foldl _ S _) = _
    inv_field C03B.ExtractSurfaceBoundarySt.obj0_vertices

/-- loop 2 (`for i, v in enumerate(vertex_set)`): the vertex maps and the points of the boundary mesh -/
theorem esb_loop2 (S : C03B.ExtractSurfaceBoundarySt) :
    let R := C03B.extract_surface_boundary_loop2 m S
    let L := S.c0.eraseDups
    (∀ v, aGet R.m2b_vertex v = if v ∈ L then some (L.idxOf v) else aGet S.m2b_vertex v)
    ∧ (∀ i, aGet R.b2m_vertex i = if i < L.length then L[i]? else aGet S.b2m_vertex i)
    ∧ R.obj0_vertices = S.obj0_vertices ++ L
    ∧ R.m2b_face = S.m2b_face ∧ R.b2m_face = S.b2m_face ∧ R.c1 = S.c1 ∧ R.obj0_faces = S.obj0_faces := by
  intro R L
  refine ⟨fun v => ?_, fun i => ?_, ?_, ?_, ?_, ?_, ?_⟩
  · show aGet (C03B.ExtractSurfaceBoundarySt.m2b_vertex (List.foldl _ S _)) v = _
    rw [foldl_proj C03B.ExtractSurfaceBoundarySt.m2b_vertex _ (fun a p => aSet a p.1 p.2) _ (fun _ _ _ => rfl)]
    show aGet (List.foldl _ _ (L.zipIdx 0)) v = _
    rw [aGet_foldl_zipIdx_m2b _ (eraseDups_nodup _)]; simp only [Nat.zero_add]; rfl
  · show aGet (C03B.ExtractSurfaceBoundarySt.b2m_vertex (List.foldl _ S _)) i = _
    rw [foldl_proj C03B.ExtractSurfaceBoundarySt.b2m_vertex _ (fun a p => aSet a p.2 p.1) _ (fun _ _ _ => rfl)]
    show aGet (List.foldl _ _ (L.zipIdx 0)) i = _
    rw [aGet_foldl_zipIdx_b2m]; simp
  · show C03B.ExtractSurfaceBoundarySt.obj0_vertices (List.foldl _ S _) = _
    rw [foldl_proj C03B.ExtractSurfaceBoundarySt.obj0_vertices _ (fun bv p => bv ++ [p.1]) _ (fun _ _ _ => rfl)]
    rw [foldl_zipIdx_fst (fun bv v => bv ++ [v]), append_fold]
  · show C03B.ExtractSurfaceBoundarySt.m2b_face (List.foldl _ S _) = _
    inv_field C03B.ExtractSurfaceBoundarySt.m2b_face
  · show C03B.ExtractSurfaceBoundarySt.b2m_face (List.foldl _ S _) = _
    inv_field C03B.ExtractSurfaceBoundarySt.b2m_face
  · show C03B.ExtractSurfaceBoundarySt.c1 (List.foldl _ S _) = _
    inv_field C03B.ExtractSurfaceBoundarySt.c1
  · show C03B.ExtractSurfaceBoundarySt.obj0_faces (List.foldl _ S _) = _
    inv_field C03B.ExtractSurfaceBoundarySt.obj0_faces

/-- loop 3 (`for iF in bnd_faces`): one oriented triangle per border face; nothing else is written -/
theorem esb_loop3 (S : C03B.ExtractSurfaceBoundarySt) :
    let R := C03B.extract_surface_boundary_loop3 m S
    R.obj0_faces = S.obj0_faces ++ S.c1.map (genFace m S.m2b_vertex)
    ∧ R.m2b_vertex = S.m2b_vertex ∧ R.b2m_vertex = S.b2m_vertex ∧ R.m2b_face = S.m2b_face ∧ R.b2m_face = S.b2m_face
    ∧ R.obj0_vertices = S.obj0_vertices := by
  intro R
  refine ⟨?_, ?_, ?_, ?_, ?_, ?_⟩
  · show C03B.ExtractSurfaceBoundarySt.obj0_faces (List.foldl _ S _) = _
    refine foldl_append_reading C03B.ExtractSurfaceBoundarySt.obj0_faces C03B.ExtractSurfaceBoundarySt.m2b_vertex _
      (genFace m) S.c1 ?_ ?_ S
    · intro s x; simp only []; split <;> rfl
    · intro s x; unfold genFace; simp only []; split <;> rfl
  · show C03B.ExtractSurfaceBoundarySt.m2b_vertex (List.foldl _ S _) = _
    inv_field C03B.ExtractSurfaceBoundarySt.m2b_vertex
  · show C03B.ExtractSurfaceBoundarySt.b2m_vertex (List.foldl _ S _) = _
    inv_field C03B.ExtractSurfaceBoundarySt.b2m_vertex
  · show C03B.ExtractSurfaceBoundarySt.m2b_face (List.foldl _ S _) = _
    inv_field C03B.ExtractSurfaceBoundarySt.m2b_face
  · show C03B.ExtractSurfaceBoundarySt.b2m_face (List.foldl _ S _) = _
    inv_field C03B.ExtractSurfaceBoundarySt.b2m_face
  · show C03B.ExtractSurfaceBoundarySt.obj0_vertices (List.foldl _ S _) = _
    inv_field C03B.ExtractSurfaceBoundarySt.obj0_vertices

/-- the triangle computed by loop 3 is the hand model's `orientedFace`, renumbered by the vertex map -/
theorem genFace_eq {m : Mesh} (h : Conforming m) {f : Nat} (hf : f < m.nF) (mv : AMap Nat)
    (hmv : ∀ v, aGet mv v = m.conn.m2bVertex v) :
    genFace m mv f = ((m.conn.orientedFace f).getD []).map (m2bD m.conn) := by
  obtain ⟨F, hF, _⟩ := orientedFace_total h hf
  rw [hF]
  unfold Conn.orientedFace at hF
  split at hF
  · rename_i c rest a b c' hfc hface
    split at hF
    · rename_i d hd
      have hface' : m.face f = [a, b, c'] := hface
      have hd' : firstNotInD (m.cell c) [a, b, c'] = d := by
        unfold firstNotInD firstNotIn
        have : Conn.fourth (m.cell c) [a, b, c'] = some d := hd
        unfold Conn.fourth at this
        rw [this]; rfl
      have hc0 : (C03S.face_to_cells m f).getD 0 0 = c := by
        rw [face_to_cells_bridge m h.cell4, hfc]; rfl
      have hv : ∀ x, aGetD mv x = m2bD m.conn x := by
        intro x; unfold aGetD m2bD; rw [hmv]
      unfold genFace
      rw [hc0, hface', hd']
      simp only [unpack, List.getD_cons_zero, List.getD_cons_succ, hv]
      unfold Conn.keepOrientation at hF
      have hm : m.conn.m = m := rfl
      rw [hm] at hF
      by_cases hk : decide (0 < det3 ((m.pt a).sub (m.pt d)) ((m.pt b).sub (m.pt d)) ((m.pt c').sub (m.pt d))) = true
      · rw [if_pos hk] at hF ⊢
        cases hF; rfl
      · rw [if_neg hk] at hF ⊢
        cases hF; rfl
    · cases hF
  · cases hF

/-- **`_extract_surface_boundary` as the source computes it = the hand model**: face maps, vertex maps, the points of the
boundary mesh, and its triangles (one per border face, in the order of `boundary_faces`, oriented by the determinant test,
in boundary vertex ids) -/
theorem extract_surface_boundary_bridge (h : Conforming m) :
    (∀ f, aGet (C03B.extract_surface_boundary m).m2b_face f = m.conn.m2bFace f)
    ∧ (∀ i, aGet (C03B.extract_surface_boundary m).b2m_face i = m.conn.b2mFace i)
    ∧ (∀ v, aGet (C03B.extract_surface_boundary m).m2b_vertex v = m.conn.m2bVertex v)
    ∧ (∀ i, aGet (C03B.extract_surface_boundary m).b2m_vertex i = m.conn.b2mVertex i)
    ∧ (C03B.extract_surface_boundary m).obj0_vertices = m.conn.boundaryVertexList
    ∧ (C03B.extract_surface_boundary m).obj0_faces
        = m.conn.boundaryFaces.map (fun f => ((m.conn.orientedFace f).getD []).map (m2bD m.conn)) := by
  have h4 : AllTets m := h.cell4
  let S0 : C03B.ExtractSurfaceBoundarySt :=
    { obj0_vertices := [], obj0_faces := [], m2b_vertex := [], b2m_vertex := [], m2b_edge := [], b2m_edge := [],
      m2b_face := [], b2m_face := [], c0 := [], c1 := [], outside := false }
  have hdef : C03B.extract_surface_boundary m
      = C03B.extract_surface_boundary_loop3 m (C03B.extract_surface_boundary_loop2 m (C03B.extract_surface_boundary_loop1 m S0)) := rfl
  obtain ⟨a1, a2, a3, a4, a5, a6, a7, a8⟩ := esb_loop1 m h4 S0
  obtain ⟨b1, b2, b3, b4, b5, b6, b7⟩ := esb_loop2 m (C03B.extract_surface_boundary_loop1 m S0)
  obtain ⟨c1, c2, c3, c4, c5, c6⟩ := esb_loop3 m (C03B.extract_surface_boundary_loop2 m (C03B.extract_surface_boundary_loop1 m S0))
  have hL : (C03B.extract_surface_boundary_loop1 m S0).c0.eraseDups = m.conn.boundaryVertexList := by
    rw [a3]; rfl
  have hmv : ∀ v, aGet (C03B.extract_surface_boundary_loop2 m (C03B.extract_surface_boundary_loop1 m S0)).m2b_vertex v
      = m.conn.m2bVertex v := by
    intro v
    rw [b1 v, hL, a5]
    unfold Conn.m2bVertex Conn.enumM2B
    by_cases hv : v ∈ m.conn.boundaryVertexList
    · simp [hv, List.idxOf_lt_length_iff.2 hv]
    · have : ¬ List.idxOf v m.conn.boundaryVertexList < m.conn.boundaryVertexList.length :=
        fun hh => hv (List.idxOf_lt_length_iff.1 hh)
      simp [hv, this]; rfl
  rw [hdef]
  refine ⟨fun f => ?_, fun i => ?_, fun v => ?_, fun i => ?_, ?_, ?_⟩
  · rw [c4, b4, a1 f]
    unfold Conn.m2bFace Conn.enumM2B
    by_cases hf : f ∈ m.conn.boundaryFaces
    · simp [hf, List.idxOf_lt_length_iff.2 hf]
    · have : ¬ List.idxOf f m.conn.boundaryFaces < m.conn.boundaryFaces.length := fun hh => hf (List.idxOf_lt_length_iff.1 hh)
      simp [hf, this]; rfl
  · rw [c5, b5, a2 i]
    unfold Conn.b2mFace Conn.enumB2M
    by_cases hi : i < m.conn.boundaryFaces.length
    · simp [hi]
    · simp [hi]; rfl
  · rw [c2]; exact hmv v
  · rw [c3, b2 i, hL, a6]
    unfold Conn.b2mVertex Conn.enumB2M
    by_cases hi : i < m.conn.boundaryVertexList.length
    · simp [hi]
    · simp [hi]; rfl
  · rw [c6, b3, hL, a8]; rfl
  · rw [c1, b7, a7, b6, a4]
    show [] ++ List.map _ ([] ++ m.conn.boundaryFaces) = _
    simp only [List.nil_append]
    apply List.map_congr_left
    intro f hf
    exact genFace_eq h ((mem_boundaryFaces _).1 hf).1 _ hmv

/-! ## `processing.border.extract_boundary_of_volume`, loop by loop -/

/-- the triangle the standalone extractor stores for border face `f` (boundary vertex ids) -/
def genFaceS (m : Mesh) (mv : AMap Nat) (f : Nat) : List Nat :=
  if decide (0 < det3
      ((m.pt (unpack ((m.face f).take 3) 0)).sub (m.pt (firstNotInD (m.cell ((C03S.face_to_cells m f).getD 0 0)) (m.face f))))
      ((m.pt (unpack ((m.face f).take 3) 1)).sub (m.pt (firstNotInD (m.cell ((C03S.face_to_cells m f).getD 0 0)) (m.face f))))
      ((m.pt (unpack ((m.face f).take 3) 2)).sub (m.pt (firstNotInD (m.cell ((C03S.face_to_cells m f).getD 0 0)) (m.face f))))) = true
  then (m.face f).map (fun x => aGetD mv x)
  else (m.face f).reverse.map (fun x => aGetD mv x)

theorem ebv_loop1 (h4 : AllTets m) (S : C03B.ExtractBoundaryOfVolumeSt) :
    let R := C03B.extract_boundary_of_volume_loop1 m S
    R.obj0_faces = S.obj0_faces ++ m.conn.boundaryFaces.map (fun f => [f])
    ∧ R.c2 = S.c2 ++ m.conn.borderVertexFlags
    ∧ R.c0 = S.c0 ∧ R.c1 = S.c1 ∧ R.obj0_vertices = S.obj0_vertices := by
  intro R
  refine ⟨?_, ?_, ?_, ?_, ?_⟩
  · show C03B.ExtractBoundaryOfVolumeSt.obj0_faces (List.foldl _ S _) = _
    rw [foldl_proj C03B.ExtractBoundaryOfVolumeSt.obj0_faces _ (fun bf f => bf ++ [[f]])]
    · rw [(boundary_faces_bridge m h4).1]
      generalize m.conn.boundaryFaces = l
      generalize S.obj0_faces = acc
      induction l generalizing acc with
      | nil => simp
      | cons a r ih => simp only [List.foldl, ih, List.map]; simp
    · intro s f _
      rw [foldl_inv C03B.ExtractBoundaryOfVolumeSt.obj0_faces]; intro _ _ _; rfl
  · show C03B.ExtractBoundaryOfVolumeSt.c2 (List.foldl _ S _) = _
    rw [foldl_proj C03B.ExtractBoundaryOfVolumeSt.c2 _ (fun vs f => vs ++ m.face f)]
    · rw [(boundary_faces_bridge m h4).1, flatMap_fold]; rfl
    · intro s f _
      rw [foldl_proj C03B.ExtractBoundaryOfVolumeSt.c2 _ (fun vs v => vs ++ [v]) _ (fun _ _ _ => rfl), append_fold]
  · show C03B.ExtractBoundaryOfVolumeSt.c0 (List.foldl _ S _) = _
    inv_field C03B.ExtractBoundaryOfVolumeSt.c0
  · show C03B.ExtractBoundaryOfVolumeSt.c1 (List.foldl _ S _) = _
    inv_field C03B.ExtractBoundaryOfVolumeSt.c1
  · show C03B.ExtractBoundaryOfVolumeSt.obj0_vertices (List.foldl _ S _) = _
    inv_field C03B.ExtractBoundaryOfVolumeSt.obj0_vertices

theorem ebv_loop2 (S : C03B.ExtractBoundaryOfVolumeSt) :
    let R := C03B.extract_boundary_of_volume_loop2 m S
    let L := S.c2.eraseDups
    (∀ v, aGet R.c0 v = if v ∈ L then some (L.idxOf v) else aGet S.c0 v)
    ∧ (∀ i, aGet R.c1 i = if i < L.length then L[i]? else aGet S.c1 i)
    ∧ R.obj0_vertices = S.obj0_vertices ++ L ∧ R.obj0_faces = S.obj0_faces := by
  intro R L
  refine ⟨fun v => ?_, fun i => ?_, ?_, ?_⟩
  · show aGet (C03B.ExtractBoundaryOfVolumeSt.c0 (List.foldl _ S _)) v = _
    rw [foldl_proj C03B.ExtractBoundaryOfVolumeSt.c0 _ (fun a p => aSet a p.1 p.2) _ (fun _ _ _ => rfl)]
    show aGet (List.foldl _ _ (L.zipIdx 0)) v = _
    rw [aGet_foldl_zipIdx_m2b _ (eraseDups_nodup _)]; simp only [Nat.zero_add]; rfl
  · show aGet (C03B.ExtractBoundaryOfVolumeSt.c1 (List.foldl _ S _)) i = _
    rw [foldl_proj C03B.ExtractBoundaryOfVolumeSt.c1 _ (fun a p => aSet a p.2 p.1) _ (fun _ _ _ => rfl)]
    show aGet (List.foldl _ _ (L.zipIdx 0)) i = _
    rw [aGet_foldl_zipIdx_b2m]; simp
  · show C03B.ExtractBoundaryOfVolumeSt.obj0_vertices (List.foldl _ S _) = _
    rw [foldl_proj C03B.ExtractBoundaryOfVolumeSt.obj0_vertices _ (fun bv p => bv ++ [p.1]) _ (fun _ _ _ => rfl)]
    rw [foldl_zipIdx_fst (fun bv v => bv ++ [v]), append_fold]
  · show C03B.ExtractBoundaryOfVolumeSt.obj0_faces (List.foldl _ S _) = _
    inv_field C03B.ExtractBoundaryOfVolumeSt.obj0_faces

/-- loop 3: every entry of `bound.faces` (a face id) is replaced in place by its oriented triangle -/
theorem ebv_loop3 (S : C03B.ExtractBoundaryOfVolumeSt) :
    let R := C03B.extract_boundary_of_volume_loop3 m S
    R.obj0_faces = S.obj0_faces.map (fun e => genFaceS m S.c0 (unpack e 0))
    ∧ R.c0 = S.c0 ∧ R.c1 = S.c1 ∧ R.obj0_vertices = S.obj0_vertices := by
  intro R
  refine ⟨?_, ?_, ?_, ?_⟩
  · show C03B.ExtractBoundaryOfVolumeSt.obj0_faces (List.foldl _ S _) = _
    rw [foldl_proj_reading C03B.ExtractBoundaryOfVolumeSt.obj0_faces C03B.ExtractBoundaryOfVolumeSt.c0 _
      (fun mv bf p => listSet bf p.2 (genFaceS m mv (unpack p.1 0)))]
    · have := foldl_listSet_zipIdx (fun e => genFaceS m S.c0 (unpack e 0)) S.obj0_faces []
      simpa using this
    · intro s x; simp only []; split <;> rfl
    · intro s x; unfold genFaceS; simp only []; split <;> rfl
  · show C03B.ExtractBoundaryOfVolumeSt.c0 (List.foldl _ S _) = _
    inv_field C03B.ExtractBoundaryOfVolumeSt.c0
  · show C03B.ExtractBoundaryOfVolumeSt.c1 (List.foldl _ S _) = _
    inv_field C03B.ExtractBoundaryOfVolumeSt.c1
  · show C03B.ExtractBoundaryOfVolumeSt.obj0_vertices (List.foldl _ S _) = _
    inv_field C03B.ExtractBoundaryOfVolumeSt.obj0_vertices

/-- the standalone extractor's triangle: the model's `orientedFace` itself when the determinant test keeps the face, its
rotation by one otherwise (`[c,b,a] = [a,c,b].rotate 1`) — the same oriented triangle -/
theorem genFaceS_eq {m : Mesh} (h : Conforming m) {f : Nat} (hf : f < m.nF) (mv : AMap Nat)
    (hmv : ∀ v, aGet mv v = m.conn.m2bVertex v) :
    ∃ r, genFaceS m mv f = (((m.conn.orientedFace f).getD []).rotate r).map (m2bD m.conn) := by
  obtain ⟨F, hF, _⟩ := orientedFace_total h hf
  rw [hF]
  unfold Conn.orientedFace at hF
  split at hF
  · rename_i c rest a b c' hfc hface
    split at hF
    · rename_i d hd
      have hface' : m.face f = [a, b, c'] := hface
      have hd' : firstNotInD (m.cell c) [a, b, c'] = d := by
        unfold firstNotInD firstNotIn
        have : Conn.fourth (m.cell c) [a, b, c'] = some d := hd
        unfold Conn.fourth at this
        rw [this]; rfl
      have hc0 : (C03S.face_to_cells m f).getD 0 0 = c := by
        rw [face_to_cells_bridge m h.cell4, hfc]; rfl
      have hv : (fun x => aGetD mv x) = m2bD m.conn := by
        funext x; unfold aGetD m2bD; rw [hmv]
      unfold genFaceS
      rw [hc0, hface', hd', hv]
      simp only [unpack, List.take, List.getD_cons_zero, List.getD_cons_succ]
      unfold Conn.keepOrientation at hF
      have hm : m.conn.m = m := rfl
      rw [hm] at hF
      by_cases hk : decide (0 < det3 ((m.pt a).sub (m.pt d)) ((m.pt b).sub (m.pt d)) ((m.pt c').sub (m.pt d))) = true
      · rw [if_pos hk] at hF ⊢
        cases hF; exact ⟨0, rfl⟩
      · rw [if_neg hk] at hF ⊢
        cases hF; exact ⟨1, rfl⟩
    · cases hF
  · cases hF

/-- **`extract_boundary_of_volume` as the source computes it = the hand model**: vertex maps, points, and one triangle per
border face (in the order of `boundary_faces`), each the model's oriented triangle up to rotation -/
theorem extract_boundary_of_volume_bridge (h : Conforming m) :
    (∀ v, aGet (C03B.extract_boundary_of_volume m).c0 v = m.conn.m2bVertex v)
    ∧ (∀ i, aGet (C03B.extract_boundary_of_volume m).c1 i = m.conn.b2mVertex i)
    ∧ (C03B.extract_boundary_of_volume m).obj0_vertices = m.conn.boundaryVertexList
    ∧ (C03B.extract_boundary_of_volume m).obj0_faces.length = m.conn.boundaryFaces.length
    ∧ ∀ (i f : Nat), m.conn.boundaryFaces[i]? = some f →
        ∃ r, (C03B.extract_boundary_of_volume m).obj0_faces[i]?
          = some ((((m.conn.orientedFace f).getD []).rotate r).map (m2bD m.conn)) := by
  have h4 : AllTets m := h.cell4
  let S0 : C03B.ExtractBoundaryOfVolumeSt :=
    { obj0_vertices := [], obj0_faces := [], c0 := [], c1 := [], c2 := [], outside := false }
  have hdef : C03B.extract_boundary_of_volume m
      = C03B.extract_boundary_of_volume_loop3 m (C03B.extract_boundary_of_volume_loop2 m (C03B.extract_boundary_of_volume_loop1 m S0)) := rfl
  obtain ⟨a1, a2, a3, a4, a5⟩ := ebv_loop1 m h4 S0
  obtain ⟨b1, b2, b3, b4⟩ := ebv_loop2 m (C03B.extract_boundary_of_volume_loop1 m S0)
  obtain ⟨c1, c2, c3, c4⟩ := ebv_loop3 m (C03B.extract_boundary_of_volume_loop2 m (C03B.extract_boundary_of_volume_loop1 m S0))
  have hL : (C03B.extract_boundary_of_volume_loop1 m S0).c2.eraseDups = m.conn.boundaryVertexList := by
    rw [a2]; rfl
  have hmv : ∀ v, aGet (C03B.extract_boundary_of_volume_loop2 m (C03B.extract_boundary_of_volume_loop1 m S0)).c0 v
      = m.conn.m2bVertex v := by
    intro v
    rw [b1 v, hL, a3]
    unfold Conn.m2bVertex Conn.enumM2B
    by_cases hv : v ∈ m.conn.boundaryVertexList
    · simp [hv, List.idxOf_lt_length_iff.2 hv]
    · have : ¬ List.idxOf v m.conn.boundaryVertexList < m.conn.boundaryVertexList.length :=
        fun hh => hv (List.idxOf_lt_length_iff.1 hh)
      simp [hv, this]; rfl
  have hbf : (C03B.extract_boundary_of_volume m).obj0_faces
      = m.conn.boundaryFaces.map (fun f => genFaceS m
          (C03B.extract_boundary_of_volume_loop2 m (C03B.extract_boundary_of_volume_loop1 m S0)).c0 f) := by
    rw [hdef, c1, b4, a1]
    show List.map _ ([] ++ List.map _ m.conn.boundaryFaces) = _
    simp only [List.nil_append, List.map_map]
    apply List.map_congr_left
    intro f _; rfl
  refine ⟨fun v => ?_, fun i => ?_, ?_, ?_, ?_⟩
  · rw [hdef, c2]; exact hmv v
  · rw [hdef, c3, b2 i, hL, a4]
    unfold Conn.b2mVertex Conn.enumB2M
    by_cases hi : i < m.conn.boundaryVertexList.length
    · simp [hi]
    · simp [hi]; rfl
  · rw [hdef, c4, b3, hL, a5]; rfl
  · rw [hbf]; simp
  · intro i f hif
    have hf : f ∈ m.conn.boundaryFaces := List.mem_of_getElem? hif
    obtain ⟨r, hr⟩ := genFaceS_eq h ((mem_boundaryFaces _).1 hf).1 _ hmv
    refine ⟨r, ?_⟩
    rw [hbf, List.getElem?_map, hif]
    simp [hr]

/-! ## `_BoundaryConnectivity.__init__`: the edge index maps -/

/-- the loop `for e in complete_mesh.boundary_edges`: one store per border edge into each map, keyed / valued by the boundary
surface's `edge_id` (the inherited `SurfaceMesh._Connectivity.edge_id` of the boundary mesh, parameter `eid`: C01's subject)
of the images of the end points -/
theorem bc_init_edge_maps (h : Conforming m) (eid : Nat → Nat → Nat) :
    (C03B.bc_init m eid).m2b_edge
      = m.conn.boundaryEdges.map (fun e => (e, eid (m2bD m.conn (unpack (m.edge e) 0)) (m2bD m.conn (unpack (m.edge e) 1))))
    ∧ (C03B.bc_init m eid).b2m_edge
      = m.conn.boundaryEdges.map (fun e => (eid (m2bD m.conn (unpack (m.edge e) 0)) (m2bD m.conn (unpack (m.edge e) 1)), e))
    ∧ (∀ v, aGet (C03B.bc_init m eid).m2b_vertex v = m.conn.m2bVertex v)
    ∧ (∀ f, aGet (C03B.bc_init m eid).m2b_face f = m.conn.m2bFace f) := by
  have h4 : AllTets m := h.cell4
  obtain ⟨e1, e2, e3, e4, e5, e6⟩ := extract_surface_boundary_bridge m h
  have hme : (C03B.extract_surface_boundary m).m2b_edge = [] ∧ (C03B.extract_surface_boundary m).b2m_edge = [] := by
    constructor
    · show C03B.ExtractSurfaceBoundarySt.m2b_edge (List.foldl _ (List.foldl _ (List.foldl _ _ _) _) _) = _
      rw [foldl_inv C03B.ExtractSurfaceBoundarySt.m2b_edge]
      · rw [foldl_inv C03B.ExtractSurfaceBoundarySt.m2b_edge]
        · inv_field C03B.ExtractSurfaceBoundarySt.m2b_edge
        · intro _ _ _; rfl
      · intro _ _ _; simp only []; split <;> rfl
    · show C03B.ExtractSurfaceBoundarySt.b2m_edge (List.foldl _ (List.foldl _ (List.foldl _ _ _) _) _) = _
      rw [foldl_inv C03B.ExtractSurfaceBoundarySt.b2m_edge]
      · rw [foldl_inv C03B.ExtractSurfaceBoundarySt.b2m_edge]
        · inv_field C03B.ExtractSurfaceBoundarySt.b2m_edge
        · intro _ _ _; rfl
      · intro _ _ _; simp only []; split <;> rfl
  have hv : ∀ (mv : AMap Nat), mv = (C03B.extract_surface_boundary m).m2b_vertex → ∀ x, aGetD mv x = m2bD m.conn x := by
    intro mv hmv x; unfold aGetD m2bD; rw [hmv, e3]
  unfold C03B.bc_init
  simp only []
  refine ⟨?_, ?_, fun v => ?_, fun f => ?_⟩
  · show C03B.BcInitSt.m2b_edge (List.foldl _ _ _) = _
    rw [foldl_proj_reading C03B.BcInitSt.m2b_edge C03B.BcInitSt.m2b_vertex _
      (fun mv a e => aSet a e (eid (aGetD mv (unpack (m.edge e) 0)) (aGetD mv (unpack (m.edge e) 1))))]
    rotate_left
    · intro _ _; rfl
    · intro _ _; rfl
    rw [(border_lists_bridge m h4).2.2.1]
    show List.foldl _ (C03B.extract_surface_boundary m).m2b_edge _ = _
    rw [hme.1]
    generalize m.conn.boundaryEdges = l
    have : ∀ (acc : AMap Nat), l.foldl (fun a e => aSet a e (eid (aGetD (C03B.extract_surface_boundary m).m2b_vertex (unpack (m.edge e) 0))
          (aGetD (C03B.extract_surface_boundary m).m2b_vertex (unpack (m.edge e) 1)))) acc
        = acc ++ l.map (fun e => (e, eid (m2bD m.conn (unpack (m.edge e) 0)) (m2bD m.conn (unpack (m.edge e) 1)))) := by
      induction l with
      | nil => intro acc; simp
      | cons a r ih => intro acc; simp only [List.foldl, List.map]; rw [ih]; unfold aSet; rw [hv _ rfl, hv _ rfl, List.append_assoc]; rfl
    simpa using this []
  · show C03B.BcInitSt.b2m_edge (List.foldl _ _ _) = _
    rw [foldl_proj_reading C03B.BcInitSt.b2m_edge C03B.BcInitSt.m2b_vertex _
      (fun mv a e => aSet a (eid (aGetD mv (unpack (m.edge e) 0)) (aGetD mv (unpack (m.edge e) 1))) e)]
    rotate_left
    · intro _ _; rfl
    · intro _ _; rfl
    rw [(border_lists_bridge m h4).2.2.1]
    show List.foldl _ (C03B.extract_surface_boundary m).b2m_edge _ = _
    rw [hme.2]
    generalize m.conn.boundaryEdges = l
    have : ∀ (acc : AMap Nat), l.foldl (fun a e => aSet a (eid (aGetD (C03B.extract_surface_boundary m).m2b_vertex (unpack (m.edge e) 0))
          (aGetD (C03B.extract_surface_boundary m).m2b_vertex (unpack (m.edge e) 1))) e) acc
        = acc ++ l.map (fun e => (eid (m2bD m.conn (unpack (m.edge e) 0)) (m2bD m.conn (unpack (m.edge e) 1)), e)) := by
      induction l with
      | nil => intro acc; simp
      | cons a r ih => intro acc; simp only [List.foldl, List.map]; rw [ih]; unfold aSet; rw [hv _ rfl, hv _ rfl, List.append_assoc]; rfl
    simpa using this []
  · show aGet (C03B.BcInitSt.m2b_vertex (List.foldl _ _ _)) v = _
    rw [foldl_inv C03B.BcInitSt.m2b_vertex]
    · exact e3 v
    · intro _ _ _; rfl
  · show aGet (C03B.BcInitSt.m2b_face (List.foldl _ _ _)) f = _
    rw [foldl_inv C03B.BcInitSt.m2b_face]
    · exact e1 f
    · intro _ _ _; rfl

/-- with the boundary surface's `edge_id` answering as the hand model assumes (`idOf` among the edges of the boundary
surface, looked up through the volume end points), the translated `m2b_edge` is the model's `m2bEdgeTable` -/
theorem bc_init_edge_table_bridge (h : Conforming m) (eid : Nat → Nat → Nat)
    (heid : ∀ e ∈ m.conn.boundaryEdges,
      idOf m.conn.boundarySurfaceEdges (key (m.edge e))
        = some (eid (m2bD m.conn (unpack (m.edge e) 0)) (m2bD m.conn (unpack (m.edge e) 1)))) :
    (C03B.bc_init m eid).m2b_edge.map (fun p => (p.1, some p.2)) = m.conn.m2bEdgeTable := by
  rw [(bc_init_edge_maps m h eid).1]
  unfold Conn.m2bEdgeTable
  simp only [List.map_map]
  apply List.map_congr_left
  intro e he
  simp only [Function.comp]
  show (e, some _) = (e, idOf m.conn.boundarySurfaceEdges (key (m.conn.m.edge e)))
  rw [show m.conn.m = m from rfl, heid e he]

/-! ## the boundary theorems of `Props/C03.lean`, restated on what the source computes -/

/-- **index maps mutually inverse** (vertices and faces), for both extractors, as compiled from the source -/
theorem boundary_maps_inverse_source (h : Conforming m) {v i f j : Nat} :
    (aGet (C03B.extract_surface_boundary m).m2b_vertex v = some i ↔ aGet (C03B.extract_surface_boundary m).b2m_vertex i = some v)
    ∧ (aGet (C03B.extract_surface_boundary m).m2b_face f = some j ↔ aGet (C03B.extract_surface_boundary m).b2m_face j = some f)
    ∧ (aGet (C03B.extract_boundary_of_volume m).c0 v = some i ↔ aGet (C03B.extract_boundary_of_volume m).c1 i = some v)
    ∧ ((aGet (C03B.extract_surface_boundary m).m2b_vertex v).isSome ↔ ∃ g ∈ C03S.boundary_faces m, v ∈ m.face g)
    ∧ ((aGet (C03B.extract_surface_boundary m).m2b_face f).isSome ↔ f ∈ C03S.boundary_faces m) := by
  obtain ⟨e1, e2, e3, e4, _, _⟩ := extract_surface_boundary_bridge m h
  obtain ⟨s1, s2, _, _, _⟩ := extract_boundary_of_volume_bridge m h
  rw [e1, e2, e3, e4, s1, s2, (boundary_faces_bridge m h.cell4).1]
  exact ⟨(Mouette.Props.C03.boundary_vertex_maps_inverse m.conn).1, (Mouette.Props.C03.boundary_face_maps_inverse m.conn).1,
    (Mouette.Props.C03.boundary_vertex_maps_inverse m.conn).1, (Mouette.Props.C03.boundary_vertex_maps_inverse m.conn (i := 0)).2,
    (Mouette.Props.C03.boundary_face_maps_inverse m.conn (i := 0)).2⟩

/-- **exactly the border faces, oriented outwards**: the i-th triangle of the boundary mesh built by
`_extract_surface_boundary` is, in volume vertex ids `[x,y,z]`, a permutation of the i-th border face and points away from the
fourth vertex `d` of its cell whenever that tetrahedron is not flat (either orientation of the cell); the standalone
extractor stores a rotation of the same triangle. -/
theorem boundary_surface_source_outward (h : Conforming m) {i f c0 : Nat} {rest : List Nat} {a b c d : Nat}
    (hi : m.conn.boundaryFaces[i]? = some f)
    (hc : m.conn.faceToCells f = c0 :: rest) (hf : m.face f = [a, b, c])
    (hd : Conn.fourth (m.cell c0) [a, b, c] = some d)
    (hnd : det3 ((m.pt a).sub (m.pt d)) ((m.pt b).sub (m.pt d)) ((m.pt c).sub (m.pt d)) ≠ 0) :
    ∃ x y z, [x, y, z].Perm [a, b, c] ∧ 0 < outwardValue (m.pt x) (m.pt y) (m.pt z) (m.pt d)
      ∧ (C03B.extract_surface_boundary m).obj0_faces[i]? = some ([x, y, z].map (m2bD m.conn))
      ∧ ∃ r, (C03B.extract_boundary_of_volume m).obj0_faces[i]? = some (([x, y, z].rotate r).map (m2bD m.conn)) := by
  obtain ⟨x, y, z, hF, hp, ho⟩ := Mouette.Props.C03.oriented_face_outward m.conn hc hf hd hnd
  refine ⟨x, y, z, hp, ho, ?_, ?_⟩
  · rw [(extract_surface_boundary_bridge m h).2.2.2.2.2, List.getElem?_map, hi]
    simp [hF]
  · obtain ⟨r, hr⟩ := (extract_boundary_of_volume_bridge m h).2.2.2.2 i f hi
    exact ⟨r, by rw [hr, hF]; rfl⟩

/-- **closed**: the number of triangles of the translated boundary mesh is the number of border faces, and every pair of
distinct vertices lies in an even number of border faces (`boundary_closed`), hence in an even number of its triangles -/
theorem boundary_surface_source_closed (h : Conforming m) {u v : Nat} (huv : u ≠ v) :
    (C03B.extract_surface_boundary m).obj0_faces.length = (C03S.boundary_faces m).length
    ∧ (C03B.extract_boundary_of_volume m).obj0_faces.length = (C03S.boundary_faces m).length
    ∧ ((C03S.boundary_faces m).filter fun f => hasEdge (m.face f) u v).length % 2 = 0 := by
  rw [(boundary_faces_bridge m h.cell4).1, (extract_surface_boundary_bridge m h).2.2.2.2.2]
  exact ⟨by simp, (extract_boundary_of_volume_bridge m h).2.2.2.1, (Mouette.Props.C03.boundary_closed h huv).1⟩

/-! ## non-vacuity: the generated definitions evaluated on `twoTets` -/

example : (C03B.extract_surface_boundary Mouette.Props.C03.twoTets).obj0_vertices = [0, 2, 3, 1, 4]
    ∧ (C03B.extract_surface_boundary Mouette.Props.C03.twoTets).obj0_faces.length = 6
    ∧ aGet (C03B.extract_surface_boundary Mouette.Props.C03.twoTets).m2b_face 4 = some 3
    ∧ (C03B.extract_boundary_of_volume Mouette.Props.C03.twoTets).obj0_faces.length = 6
    ∧ (C03B.bc_init Mouette.Props.C03.twoTets (fun a b => a + b)).m2b_edge.length = 9 := by decide +kernel

end
end Mouette.Props.C03Boundary
