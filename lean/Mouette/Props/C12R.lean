import Mouette.Lemmas.AnglesR
import Mouette.Lemmas.Prim
/-
C12, angle clauses (P1), over ℝ / ℂ.  The statements are about the real-number specifications of
`Lemmas/AnglesR.lean` (what the code computes in exact arithmetic) and about the rational pre-transcendental outputs
of `Model/Prim.lean` (`angle3`, `signedAngle`); the code is tied to them by the numerical oracle only.
-/
namespace Mouette.Props.C12R
open Real Mouette.Angles Mouette.Prim

/-- angle reduction: `principal_angle(a)` is congruent to `a` modulo 2π and lies in [−π, π] -/
theorem principalAngle_spec (a : ℝ) :
    (∃ k : ℤ, principalAngle a = a - 2 * π * k) ∧ -π ≤ principalAngle a ∧ principalAngle a ≤ π := by
  have hp := pmod_range a (2 * π) (by positivity)
  unfold principalAngle
  split_ifs with h
  · refine ⟨⟨⌊a / (2 * π)⌋ + 1, by unfold pmod; push_cast; ring⟩, by linarith, by linarith [pi_pos]⟩
  · refine ⟨⟨⌊a / (2 * π)⌋, by unfold pmod; ring⟩, by linarith [pi_pos], by linarith⟩

/-- `angle_diff(a,b)` is congruent to `a − b` modulo 2π and lies in [−π, π] -/
theorem angleDiff_spec (a b : ℝ) :
    (∃ k : ℤ, angleDiff a b = (a - b) - 2 * π * k) ∧ -π ≤ angleDiff a b ∧ angleDiff a b ≤ π := by
  have hp := pmod_range (a - b + π) (2 * π) (by positivity)
  unfold angleDiff
  refine ⟨⟨⌊(a - b + π) / (2 * π)⌋, by unfold pmod; ring⟩, by linarith, by linarith⟩

/-- `atan2(s, c) ∈ [0, π]` when `s ≥ 0` (three-point angles: `s = |BA × BC|`) -/
theorem atan2_range_of_nonneg (s c : ℝ) (hs : 0 ≤ s) : 0 ≤ atan2 s c ∧ atan2 s c ≤ π := by
  unfold atan2
  exact ⟨Complex.arg_nonneg_iff.mpr hs, Complex.arg_le_pi _⟩

/-- the pre-transcendental pair of `angle_3pts` is symmetric in its end points and its first component is `≥ 0`:
hence `angle_3pts(A,B,C) = atan2(√s2, c)` is symmetric and lies in [0, π] -/
theorem angle3_symmetric (A B C : V3) : angle3 A B C = angle3 C B A ∧ 0 ≤ (angle3 A B C).1 := by
  constructor
  · simp only [angle3, V3.norm2, V3.dot, V3.cross, V3.sub, Prod.mk.injEq]
    constructor <;> ring
  · simp only [angle3, V3.norm2, V3.dot]
    nlinarith [mul_self_nonneg (V3.cross (V3.sub A B) (V3.sub C B)).x, mul_self_nonneg (V3.cross (V3.sub A B) (V3.sub C B)).y,
      mul_self_nonneg (V3.cross (V3.sub A B) (V3.sub C B)).z]

/-- three-point angle over ℝ: in [0, π] and symmetric -/
theorem angle_3pts_range_symm (A B C : V3) :
    let θ := fun (P Q R : V3) => atan2 (Real.sqrt ((angle3 P Q R).1 : ℝ)) ((angle3 P Q R).2 : ℝ)
    0 ≤ θ A B C ∧ θ A B C ≤ π ∧ θ A B C = θ C B A := by
  intro θ
  refine ⟨(atan2_range_of_nonneg _ _ (Real.sqrt_nonneg _)).1, (atan2_range_of_nonneg _ _ (Real.sqrt_nonneg _)).2, ?_⟩
  simp only [θ, (angle3_symmetric A B C).1]

/-- signed angles are antisymmetric when the reference normal is not orthogonal to `V1 × V2`: swapping the vectors
flips the sign and keeps `(|S|², dot)` -/
theorem signedAngle_antisymm (V1 V2 N : V3) (h : V3.dot (V3.cross V1 V2) N ≠ 0) :
    signedAngle V2 V1 N = (-(signedAngle V1 V2 N).1, (signedAngle V1 V2 N).2.1, (signedAngle V1 V2 N).2.2) := by
  have e : V3.dot (V3.cross V2 V1) N = - V3.dot (V3.cross V1 V2) N := by
    simp only [V3.dot, V3.cross]; ring
  simp only [signedAngle, e, Prod.mk.injEq]
  refine ⟨?_, ?_, ?_⟩
  · rcases lt_or_gt_of_ne h with h' | h'
    · rw [if_pos (by linarith), if_neg (by linarith)]; rfl
    · rw [if_neg (by linarith), if_pos (by linarith)]
  · simp only [V3.norm2, V3.dot, V3.cross]; ring
  · simp only [V3.dot]; ring

/-- the full antisymmetry clause is REFUTED by the code (open finding): with `N ⟂ V1 × V2`, `sign0(0) = +1` for both orders -/
theorem signedAngle_not_antisymm_witness :
    signedAngle ⟨-6, 1, 1⟩ ⟨-6, -2, -2⟩ ⟨-6, 1, 1⟩ = (1, 648, 32) ∧ signedAngle ⟨-6, -2, -2⟩ ⟨-6, 1, 1⟩ ⟨-6, 1, 1⟩ = (1, 648, 32) := by
  constructor <;> (simp only [signedAngle, V3.cross, V3.dot, V3.norm2]; norm_num)

/-- `cotan` is the reciprocal tangent of the angle: `1 / tan(atan2(s, c)) = c / s` -/
theorem cotan_reciprocal_tan (s c : ℝ) : 1 / Real.tan (atan2 s c) = c / s := by
  unfold atan2
  rw [Complex.tan_arg]
  simp

/-- the `n` values returned by `roots(c, n)` (normalised), raised to `n`, give back the unit input `c/|c|` -/
theorem roots_pow (c : ℂ) (hc : c ≠ 0) (n : ℕ) (hn : 0 < n) (k : ℕ) :
    (rect1 ((Complex.arg c + 2 * k * π) / n)) ^ n = c / (‖c‖ : ℂ) := by
  unfold rect1
  rw [← Complex.exp_nat_mul]
  have hn' : (n : ℂ) ≠ 0 := by exact_mod_cast hn.ne'
  have e : (n : ℂ) * ((((Complex.arg c + 2 * k * π) / n : ℝ) : ℂ) * Complex.I)
      = (Complex.arg c : ℂ) * Complex.I + (k : ℂ) * (2 * π * Complex.I) := by
    push_cast; field_simp
  rw [e, Complex.exp_add, Complex.exp_nat_mul_two_pi_mul_I, mul_one]
  have h := Complex.norm_mul_exp_arg_mul_I c
  have hne : (‖c‖ : ℂ) ≠ 0 := by exact_mod_cast (norm_ne_zero_iff.mpr hc)
  field_simp
  rw [mul_comm]; exact h

end Mouette.Props.C12R
