import Mouette.Lemmas.MeshSource
import Mouette.Lemmas.MeshAlgebra
import Mouette.Props.C06
/-
C06 — bridges from the function BODIES translated from the working tree (Generated/C06Src.lean: `translate`, `scale`,
`rotate`, `scale_xyz`, `flatten`, `normalize`, `fit_into_unit_cube`, `translate_to_origin`, the loop of `merge`) to the hand
model Model/MeshHeap.lean, and the headline theorems of Props/C06.lean restated about the translated definitions.
-/
namespace Mouette.Props.C06Source
open Mouette.MeshHeap Mouette.MeshSrc
set_option linter.unusedSimpArgs false
set_option linter.unusedVariables false

/-- `translate` as written (a fold over `mesh.id_vertices` REBINDING each vertex to `mesh.vertices[i] + tr`) is the model's
`translate` -/
theorem translate_bridge (mi : Nat) (t : V3) (s : State) (hwf : WF s) :
    Generated.C06Src.translate mi t s = translate t s mi := by
  unfold Generated.C06Src.translate translate
  refine rebindLoop_eq (fun p => p.add t) _ s mi hwf (fun s' i => ?_)
  simp only [V3.add, V3.mk.injEq]
  try (refine ⟨?_, ?_, ?_⟩ <;> ring)

/-- `scale` as written (default origin `Vec.zeros(3)`, rebinding loop `orig + factor*(v - orig)`) is the model's `scale` -/
theorem scale_bridge (mi : Nat) (k : Rat) (o : Option V3) (s : State) (hwf : WF s) :
    Generated.C06Src.scale mi k o s = scale k (o.getD V3.zero) s mi := by
  unfold Generated.C06Src.scale scale
  cases o <;>
  · refine rebindLoop_eq (scaleMap k _) _ s mi hwf (fun s' i => ?_)
    simp only [scaleMap, V3.add, V3.sub, V3.smul, V3.mk.injEq, Option.getD]
    try (refine ⟨?_, ?_, ?_⟩ <;> ring)

/-- `rotate` as written is the model's `rotate` (the rotation is handed over as its matrix) -/
theorem rotate_bridge (mi : Nat) (r : M3) (o : Option V3) (s : State) (hwf : WF s) :
    Generated.C06Src.rotate mi r o s = rotate r (o.getD V3.zero) s mi := by
  unfold Generated.C06Src.rotate rotate
  cases o <;>
  · refine rebindLoop_eq (rotateMap r _) _ s mi hwf (fun s' i => ?_)
    simp only [rotateMap, V3.add, V3.sub, M3.apply, V3.dot, V3.mk.injEq, Option.getD]
    try (refine ⟨?_, ?_, ?_⟩ <;> ring)

/-- `scale_xyz` as written, explicit origin -/
theorem scaleXyz_bridge (mi : Nat) (fx fy fz : Rat) (o : V3) (s : State) (hwf : WF s) :
    Generated.C06Src.scaleXyz mi fx fy fz (some o) s = scaleXyz fx fy fz o s mi := by
  unfold Generated.C06Src.scaleXyz scaleXyz
  refine rebindLoop_eq (scaleXyzMap fx fy fz o) _ s mi hwf (fun s' i => ?_)
  simp only [scaleXyzMap, V3.add, V3.mk.injEq]
  try (refine ⟨?_, ?_, ?_⟩ <;> ring)

/-- `scale_xyz` as written, default origin: the FIRST VERTEX as it is BEFORE the loop (`orig = mesh.vertices[0]` is bound
once; the loop rebinds, so the bound object keeps its value while vertex 0 itself is replaced) -/
theorem scaleXyz_default_bridge (mi : Nat) (fx fy fz : Rat) (s : State) (hwf : WF s) :
    Generated.C06Src.scaleXyz mi fx fy fz none s = scaleXyz fx fy fz (vertexAt s mi 0) s mi := by
  unfold Generated.C06Src.scaleXyz scaleXyz
  refine rebindLoop_eq (scaleXyzMap fx fy fz (vertexAt s mi 0)) _ s mi hwf (fun s' i => ?_)
  simp only [scaleXyzMap, V3.add, V3.mk.injEq]
  try (refine ⟨?_, ?_, ?_⟩ <;> ring)

/-- `flatten(mesh, dim)` as written (a COPY of the vertex, its component `dim` set to 0, rebound) is the model's `flatten` -/
theorem flatten_bridge (mi d : Nat) (s : State) (hwf : WF s) : Generated.C06Src.flatten mi d s = flatten d s mi := by
  unfold Generated.C06Src.flatten flatten
  exact rebindLoop_eq (fun p => p.set d 0) _ s mi hwf (fun s' i => rfl)

/-- `normalize` as written (box of the INPUT, `sc = 1/max span`, then `scale(translate(mesh, -anchor), factor)`) is the
model's `normalize` -/
theorem normalize_bridge (mi : Nat) (c : Bool) (s : State) (hwf : WF s) :
    Generated.C06Src.normalize mi c s = normalize c s mi := by
  unfold Generated.C06Src.normalize normalize coordsOf
  cases hm : s.meshes[mi]? with
  | none =>
    have h1 : ∀ t, translate t s mi = s := by intro t; simp [translate, mapRebind, hm]
    have h2 : ∀ k o, scale k o s mi = s := by intro k o; simp [scale, mapRebind, hm]
    cases c <;> simp [translate_bridge _ _ _ hwf, scale_bridge _ _ _ _ hwf, h1, h2]
  | some m =>
    cases c with
    | true =>
      simp only [if_true]
      have hwf1 : WF (translate (center (coords s.heap m)).neg s mi) := wf_mapRebind _ s mi hwf
      rw [translate_bridge _ _ _ hwf, scale_bridge _ _ _ _ hwf1]
      first | rfl | (congr 1; ring)
    | false =>
      simp only [Bool.false_eq_true, if_false]
      have hwf1 : WF (translate (bbMin (coords s.heap m)).neg s mi) := wf_mapRebind _ s mi hwf
      rw [translate_bridge _ _ _ hwf, scale_bridge _ _ _ _ hwf1]
      first | rfl | (congr 1; ring)

theorem fitIntoUnitCube_bridge (mi : Nat) (s : State) (hwf : WF s) :
    Generated.C06Src.fitIntoUnitCube mi s = normalize false s mi := by
  unfold Generated.C06Src.fitIntoUnitCube
  exact normalize_bridge mi false s hwf

/-- `translate_to_origin` as written (`-sum(vertices)/len(vertices)`) is the model's translation by minus the barycentre -/
theorem translateToOrigin_bridge (mi : Nat) (s : State) (hwf : WF s) :
    Generated.C06Src.translateToOrigin mi s = translateToOrigin s mi := by
  unfold Generated.C06Src.translateToOrigin translateToOrigin
  rw [translate_bridge _ _ _ hwf]
  cases hm : s.meshes[mi]? with
  | none => simp [translate, mapRebind, hm]
  | some m =>
    simp only [coordsOf, nVerts, hm, barycenter]
    congr 1
    simp only [V3.smul, V3.neg, coords, List.length_map, V3.mk.injEq]
    refine ⟨?_, ?_, ?_⟩ <;> ring

/-- the loop of `merge` as written (vertices copied; each element block shifted by the running offset under its
`hasattr` guard; the offset advanced LAST and unconditionally) is the model's `mergeLoop` -/
theorem mergeBody_bridge {α : Type} (payload : Mesh → List α) (acc : MergeAcc α) (m : Mesh) :
    Generated.C06Src.mergeBody payload acc m = mergeStep payload acc m := by
  have hs : ∀ off l, shiftBy off l = shift off l := by
    intro off l
    simp only [shiftBy, shift]
    congr 1; funext e; congr 1; funext u; exact Nat.add_comm _ _
  unfold Generated.C06Src.mergeBody mergeStep
  cases he : m.edges <;> cases hf : m.faces <;> cases hc : m.cells <;> simp [hasKind, hs, shift]

theorem mergeRun_bridge {α : Type} (payload : Mesh → List α) (ms : List Mesh) :
    Generated.C06Src.mergeRun payload ms = mergeLoop payload ms := by
  unfold Generated.C06Src.mergeRun mergeLoop
  congr 1
  funext acc m
  exact mergeBody_bridge payload acc m

/-- `copy` as written — the statement tables of both `copy_attributes` branches and of the connectivity statement, with the
meaning `copyByTables` gives them (Model/MeshSource.lean) — is the model's `copyX`: EVERY data field of EVERY container is
deep-copied (coordinates, element tuples, corner tables), whole containers under `copy_attributes`, and the connectivity handler
goes through `deepcopy` with the memo that re-points it to the copy -/
theorem copy_bridge (i : Nat) (attrs conn : Bool) (s : StateX) : Generated.C06Src.copy i attrs conn s = copyX s i attrs := by
  unfold Generated.C06Src.copy copyByTables
  have h1 : (Generated.C06Src.copyFresh && dataPaths.all (fun p => deepOf Generated.C06Src.copyDataBranch p.1 p.2) &&
      contPaths.all (fun p => deepOf Generated.C06Src.copyAttrBranch p.1 p.2)) = true := by decide +kernel
  have h2 : (Generated.C06Src.copyConnBranch.all (fun f => f.how == .deepMemo)) = true := by decide +kernel
  rw [if_pos h1, if_pos h2]

/-- hence the copy theorems of Props/C06.lean hold for the translated `copy`: e.g. whatever the switches, the copy's coordinates
live in fresh cells and its handler is its own (`copy_switches`) -/
theorem src_copy_switches (s : StateX) (i : Nat) (attrs conn : Bool) (m : Mesh) (e : MeshX)
    (hm : s.st.meshes[i]? = some m) (he : s.extras[i]? = some e) (hwf : WF s.st) :
    (Generated.C06Src.copy i attrs conn s).st = (copyX s i attrs).st ∧
    (Generated.C06Src.copy i attrs conn s).conns.length = s.conns.length + 1 := by
  rw [copy_bridge]
  refine ⟨rfl, ?_⟩
  unfold copyX
  rw [hm, he]
  simp only
  cases e.attr <;> cases attrs <;> simp [pushPlain, alloc]

/-! ### `from_arrays`, `reorder_vertices` (round 6) -/

/-- when `from_arrays` succeeds: at most 3 columns, every index below the number of rows, edges in 2 columns -/
def faOk (V : ArrV) (E F C : Option ArrI) : Bool :=
  decide (V.cols ≤ 3) && E.all (fun e => !e.anyGe V.rows.length && decide (e.cols = 2)) &&
  F.all (fun f => !f.anyGe V.rows.length) && C.all (fun c => !c.anyGe V.rows.length)

def faRows (X : Option ArrI) : List (List Nat) := match X with | some x => x.rows | none => []

/-- `from_arrays` as written, statement by statement, is: refuse (raise) unless `faOk`, else a NEW mesh whose coordinates are
the rows of `V` (padded with zero columns up to 3) stored in FRESH cells — `list(np.array(V))` is a copy — with the given elements;
`raw` makes no difference to the data -/
theorem fromArrays_bridge (V : ArrV) (E F C : Option ArrI) (raw : Bool) (s : State) :
    Generated.C06Src.fromArrays V E F C raw s =
      if faOk V E F C then
        some (newMesh s (if V.cols < 3 then V.padRight (3 - V.cols) else V).toV3 (faRows E) (faRows F) (faRows C))
      else none := by
  have hpl : (V.padRight (3 - V.cols)).rows.length = V.rows.length := by simp [ArrV.padRight]
  unfold Generated.C06Src.fromArrays faOk
  by_cases h3 : V.cols < 3
  · have hle : V.cols ≤ 3 := by omega
    cases E <;> cases F <;> cases C <;>
      simp only [h3, hle, hpl, decide_true, if_true, Option.all_none, Option.all_some, Bool.true_and, Bool.and_true, instanciate,
        faRows, ite_self, List.nil_append] <;>
      (repeat' split) <;> simp_all
  · by_cases h4 : V.cols = 3
    · have hle : V.cols ≤ 3 := by omega
      have hne : ¬ V.cols ≠ 3 := by omega
      cases E <;> cases F <;> cases C <;>
        simp only [h3, hle, hne, decide_true, decide_false, if_true, if_false, Bool.false_eq_true, Option.all_none, Option.all_some,
          Bool.true_and, Bool.and_true, instanciate, faRows, ite_self, List.nil_append] <;>
        (repeat' split) <;> simp_all
    · have hle : ¬ V.cols ≤ 3 := by omega
      have hne : V.cols ≠ 3 := h4
      simp [h3, hle, hne]

/-- a mesh made by `from_arrays` as written shares no vector with any existing mesh, and the state stays alias-free -/
theorem fromArrays_alias_free (V : ArrV) (E F C : Option ArrI) (raw : Bool) (s s' : State) (haf : AliasFree s)
    (h : Generated.C06Src.fromArrays V E F C raw s = some s') : AliasFree s' := by
  rw [fromArrays_bridge] at h
  by_cases hok : faOk V E F C = true
  · rw [if_pos hok] at h
    injection h with h
    rw [← h]
    exact aliasFree_newMesh s _ _ _ _ haf
  · rw [if_neg hok] at h; cases h

/-- `reorder_vertices` as written: the new mesh is appended; it lists the STORED VECTOR OBJECTS of the input in the order
`new_indices` (vertex `v` of the result IS the object `mesh.vertices[new_indices[v]]` — nothing is copied, the heap is
untouched), so its coordinates are the input's, permuted, and every element index is relabelled by the inverse permutation -/
theorem reorder_spec (mi : Nat) (p : List Nat) (s : State) (m : Mesh) (hm : s.meshes[mi]? = some m)
    (hlen : p.length = m.verts.length) (hp : ∀ x ∈ p, x < m.verts.length) :
    ∃ m', (Generated.C06Src.reorderVertices mi p s).meshes = s.meshes ++ [m'] ∧
      (Generated.C06Src.reorderVertices mi p s).heap = s.heap ∧
      m'.verts = p.map (fun x => m.verts.getD x 0) ∧
      (∀ r ∈ m'.verts, r ∈ m.verts) ∧
      coords s.heap m' = p.map (fun x => (coords s.heap m).getD x V3.zero) ∧
      m'.edges = m.edges.map (fun e => e.map (fun u => (argsortPerm p).getD u 0)) ∧
      m'.faces = m.faces.map (fun e => e.map (fun u => (argsortPerm p).getD u 0)) ∧
      m'.cells = m.cells.map (fun e => e.map (fun u => (argsortPerm p).getD u 0)) := by
  have hverts : (idVertices s mi).map (fun v => m.verts.getD (p.getD v 0) 0) = p.map (fun x => m.verts.getD x 0) := by
    simp only [idVertices, nVerts, hm, ← hlen]
    apply List.ext_getElem
    · simp
    · intro i h1 h2
      simp only [List.length_map, List.length_range] at h1
      simp [List.getD_eq_getElem?_getD, List.getElem?_eq_getElem h1]
  refine ⟨{ verts := p.map (fun x => m.verts.getD x 0),
            edges := m.edges.map (fun e => e.map (fun u => (argsortPerm p).getD u 0)),
            faces := m.faces.map (fun e => e.map (fun u => (argsortPerm p).getD u 0)),
            cells := m.cells.map (fun e => e.map (fun u => (argsortPerm p).getD u 0)) }, ?_, ?_, rfl, ?_, ?_, rfl, rfl, rfl⟩
  · simp only [Generated.C06Src.reorderVertices, hm, hverts]
  · simp only [Generated.C06Src.reorderVertices, hm]
  · intro r hr
    simp only [List.mem_map] at hr
    obtain ⟨x, hx, rfl⟩ := hr
    have hx' := hp x hx
    rw [List.getD_eq_getElem?_getD, List.getElem?_eq_getElem hx']
    exact List.getElem_mem hx'
  · simp only [coords, List.map_map]
    apply List.map_congr_left
    intro x hx
    have hx' := hp x hx
    simp [List.getD_eq_getElem?_getD, List.getElem?_eq_getElem hx', hx']

/-- … and although the reordered mesh SHARES its vectors with its input, every transform as written (they all rebind) applied to
it leaves the input's coordinates alone: `translate` of the reordered mesh (index `s.meshes.length`) -/
theorem reorder_then_translate_isolated (mi : Nat) (p : List Nat) (t : V3) (s : State) (m : Mesh) (hm : s.meshes[mi]? = some m)
    (hwf : WF s) (hlen : p.length = m.verts.length) (hp : ∀ x ∈ p, x < m.verts.length) :
    let s1 := Generated.C06Src.reorderVertices mi p s
    let s2 := Generated.C06Src.translate s.meshes.length t s1
    s2.meshes[mi]? = some m ∧ coords s2.heap m = coords s.heap m := by
  intro s1 s2
  obtain ⟨m', e1, e2, e3, e4, _⟩ := reorder_spec mi p s m hm hlen hp
  have hwf1 : WF s1 := by
    intro x hx r hr
    have hx' : x ∈ s.meshes ++ [m'] := by rw [← e1]; exact hx
    rw [show s1.heap = s.heap from e2]
    rcases List.mem_append.1 hx' with h0 | h0
    · exact hwf x h0 r hr
    · simp only [List.mem_singleton] at h0
      subst h0
      exact hwf m (mem_of_getElem? hm) r (e4 r hr)
  have hmi : mi < s.meshes.length := by
    rw [List.getElem?_eq_some_iff] at hm; exact hm.1
  have hnew : s1.meshes[s.meshes.length]? = some m' := by
    rw [show s1.meshes = s.meshes ++ [m'] from e1]; simp
  have hold : s1.meshes[mi]? = some m := by
    rw [show s1.meshes = s.meshes ++ [m'] from e1, List.getElem?_append_left hmi]; exact hm
  have hs2 : s2 = mapRebind (fun q => q.add t) s1 s.meshes.length := translate_bridge _ _ _ hwf1
  obtain ⟨_, _, h3⟩ := mapRebind_spec (fun q => q.add t) s1 s.meshes.length m' hnew hwf1
  obtain ⟨a1, a2⟩ := h3 mi m (by omega) hold
  rw [hs2]
  exact ⟨a1, by rw [a2, show s1.heap = s.heap from e2]⟩

/-! ### raw data, typed meshes, loaders, rings (round 7) -/

/-- `RawMeshData(mesh)` as written SHARES the container objects of the mesh (nothing is copied); `RawMeshData()` is empty -/
theorem rawInit_bridge (m : Mesh) : Generated.C06Src.rawInit (some m) = m ∧ Generated.C06Src.rawInit none = Raw.empty := ⟨rfl, rfl⟩

/-- `_instanciate_raw_mesh_data(raw)` as written (no `dim` override): the class is the dimensionality of the data and the typed mesh
is built around the raw containers themselves — same vector objects, same element rows -/
theorem instanciateRaw_bridge (raw : Raw) :
    Generated.C06Src.instanciateRaw raw none = some (Generated.C06Src.rawDim raw, raw) := by
  unfold Generated.C06Src.instanciateRaw Generated.C06Src.rawDim Generated.C06Src.typedMesh
  obtain ⟨vs, e, f, c⟩ := raw
  cases c <;> cases f <;> cases e <;> simp [hasKind]

/-- whatever the `dim` override, the typed mesh is built around the vertex container of the raw data (shared), and the override can
only RAISE the class above the dimensionality of the data -/
theorem instanciateRaw_shares (raw : Raw) (d : Option Int) (k : Int) (m : Mesh)
    (h : Generated.C06Src.instanciateRaw raw d = some (k, m)) : m.verts = raw.verts ∧ Generated.C06Src.rawDim raw ≤ k := by
  unfold Generated.C06Src.instanciateRaw at h
  dsimp only at h
  split_ifs at h with h0 h1 h2 h3 <;> simp only [Option.some.injEq, Prod.mk.injEq, reduceCtorEq] at h
  · obtain ⟨rfl, rfl⟩ := h; exact ⟨rfl, h0 ▸ Int.le_max_right _ _⟩
  · obtain ⟨rfl, rfl⟩ := h; exact ⟨rfl, h1 ▸ Int.le_max_right _ _⟩
  · obtain ⟨rfl, rfl⟩ := h; exact ⟨rfl, h2 ▸ Int.le_max_right _ _⟩
  · obtain ⟨rfl, rfl⟩ := h; exact ⟨rfl, h3 ▸ Int.le_max_right _ _⟩

/-- `_prepare_vertices` as written, on a mesh whose vertices are all 3-D floats (nothing to pad, nothing to convert): every index is
rebound to a VIEW of the object already stored there — no cell changes, the prepared mesh keeps sharing memory with whatever the raw
rows shared it with (this is why `from_arrays` / `merge` copy first) -/
theorem prepareVertices_float3 (planar intKind : Nat → Bool) (mi : Nat) (s : State)
    (hp : ∀ i, planar i = false) (hk : ∀ i, intKind i = false) :
    Generated.C06Src.prepareVertices planar intKind mi s = s := by
  unfold Generated.C06Src.prepareVertices
  have : (fun (s : State) (i : Nat) =>
      let v := VRef.view
      let v := if planar i then VRef.new else v
      let v := if intKind i then VRef.new else v
      storeVRef s mi i v) = fun s _ => s := by
    funext s i; simp [hp i, hk i, storeVRef]
  rw [this]
  induction (idVertices s mi) generalizing s with
  | nil => rfl
  | cons a t ih => simp only [List.foldl_cons]; exact ih s

/-- … and on planar or integer input every vertex gets a NEW array with the same coordinates: the model's one-shot rebinding with
the identity map (fresh cells: the prepared mesh no longer shares memory with the caller's rows) -/
theorem prepareVertices_all_new (planar intKind : Nat → Bool) (mi : Nat) (s : State) (hwf : WF s)
    (hn : ∀ i, planar i = true ∨ intKind i = true) :
    Generated.C06Src.prepareVertices planar intKind mi s = mapRebind (fun p => p) s mi := by
  unfold Generated.C06Src.prepareVertices
  have : (fun (s : State) (i : Nat) =>
      let v := VRef.view
      let v := if planar i then VRef.new else v
      let v := if intKind i then VRef.new else v
      storeVRef s mi i v) = fun s i => setVertex s mi i (vertexAt s mi i) := by
    funext s i
    rcases hn i with h | h
    · cases hk : intKind i <;> simp [h, hk, storeVRef]
    · simp [h, storeVRef]
  rw [this]
  exact rebindLoop_eq (fun p => p) _ s mi hwf (fun s' i => rfl)

/-- merge with attributes: `merge` as written never reads an attribute of its inputs (the translated loop `mergeBody` touches
`vertices`, `edges`, `faces`, `cells` only), so in the model with attributes the merged mesh has NO attribute, owns a new connectivity
handler, and the attributes of the inputs are untouched -/
theorem merge_drops_attributes (s : StateX) (ids : List Nat) (ms : List Mesh) (hl : lookupAll s.st.meshes ids = some ms) :
    (stepX s (.base (.merge ids))).extras = s.extras ++ [{ attr := none, conn := s.conns.length }] ∧
    (stepX s (.base (.merge ids))).st = newMesh s.st (Generated.C06Src.mergeRun (coords s.st.heap) ms).verts
      (Generated.C06Src.mergeRun (coords s.st.heap) ms).edges (Generated.C06Src.mergeRun (coords s.st.heap) ms).faces
      (Generated.C06Src.mergeRun (coords s.st.heap) ms).cells := by
  have hlen : s.st.meshes.length < (step s.st (.merge ids)).meshes.length := by
    simp [step, mergeMeshes, hl, newMesh, alloc]
  simp only [stepX, hlen, if_true, pushPlain, mergeRun_bridge]
  exact ⟨by first | trivial | rfl, by simp [step, mergeMeshes, hl]⟩

/-- `load` as written returns a mesh whose vectors are the NEW objects built by the reader -/
theorem load_bridge (vs : List V3) (e f c : List (List Nat)) (d : Option Int) (raw : Bool) (s : State) :
    Generated.C06Src.load vs e f c d raw s = newMesh s vs e f c := by
  unfold Generated.C06Src.load readFile; cases raw <;> rfl

/-- `ring` / `flat_ring` as written store only NEW vector objects (constructor calls, arithmetic results, one explicit copy): over
any point list the mesh they return has its points in fresh cells -/
theorem ring_bridge (pts : List V3) (e f : List (List Nat)) (s : State) :
    Generated.C06Src.ring pts e f s = newMesh s pts e f [] ∧ Generated.C06Src.flatRing pts e f s = newMesh s pts e f [] := by
  have h1 : (Generated.C06Src.ringVertexSites.all (fun p => p.2 != .alias)) = true := by decide +kernel
  have h2 : (Generated.C06Src.flatRingVertexSites.all (fun p => p.2 != .alias)) = true := by decide +kernel
  exact ⟨by unfold Generated.C06Src.ring producerByTable; rw [if_pos h1],
         by unfold Generated.C06Src.flatRing producerByTable; rw [if_pos h2]⟩

/-! ### a world of meshes: every translated producer at once -/

/-- the mesh appended to the world shares NO vector with any existing mesh (all its references are new cells, pairwise
distinct) and no existing mesh changes -/
def FreshMesh (s s' : State) : Prop :=
  ∃ m', s'.meshes = s.meshes ++ [m'] ∧ (∀ r ∈ m'.verts, s.heap.length ≤ r) ∧ m'.verts.Nodup ∧
    (∀ m0 ∈ s.meshes, coords s'.heap m0 = coords s.heap m0)

/-- the documented sharing: the appended mesh lists vector objects OF MESH `i` only, and the heap is untouched -/
def SharesWith (s s' : State) (i : Nat) : Prop :=
  ∃ m m', s.meshes[i]? = some m ∧ s'.meshes = s.meshes ++ [m'] ∧ s'.heap = s.heap ∧ (∀ r ∈ m'.verts, r ∈ m.verts)

theorem newMesh_fresh (s : State) (vs : List V3) (e f c : List (List Nat)) (hwf : WF s) : FreshMesh s (newMesh s vs e f c) := by
  obtain ⟨m', h1, _, _, _, _, h6, _, h8⟩ := newMesh_spec s vs e f c hwf
  refine ⟨m', h1, ?_, ?_, h8⟩
  · intro r hr; rw [h6] at hr; exact (mem_range'_iff.1 hr).1
  · rw [h6]; exact List.nodup_range'

/-- the producers translated from the working tree -/
inductive Producer where
  | copy (i : Nat)
  | merge (ids : List Nat)
  | fromArrays (V : ArrV) (E F C : Option ArrI) (raw : Bool)
  | load (vs : List V3) (e f c : List (List Nat)) (dim : Option Int) (raw : Bool)
  | ring (pts : List V3) (e f : List (List Nat))
  | flatRing (pts : List V3) (e f : List (List Nat))
  | reorder (i : Nat) (p : List Nat)
  | rewrap (i : Nat)

/-- one producer call on a world of meshes, by the TRANSLATED definitions (`none`: the call raises / its precondition fails) -/
def runProducer (s : State) : Producer → Option State
  | .copy i =>
    match s.meshes[i]? with
    | none => none
    | some _ => some (Generated.C06Src.copy i false false
        { st := s, extras := List.replicate s.meshes.length { attr := none, conn := 0 }, conns := [] }).st
  | .merge ids =>
    match lookupAll s.meshes ids with
    | none => none
    | some ms =>
      let acc := Generated.C06Src.mergeRun (coords s.heap) ms
      some (newMesh s acc.verts acc.edges acc.faces acc.cells)
  | .fromArrays V E F C raw => Generated.C06Src.fromArrays V E F C raw s
  | .load vs e f c d raw => some (Generated.C06Src.load vs e f c d raw s)
  | .ring pts e f => some (Generated.C06Src.ring pts e f s)
  | .flatRing pts e f => some (Generated.C06Src.flatRing pts e f s)
  | .reorder i p =>
    match s.meshes[i]? with
    | none => none
    | some m => if p.length = m.verts.length ∧ (∀ x ∈ p, x < m.verts.length) then some (Generated.C06Src.reorderVertices i p s) else none
  | .rewrap i =>
    match s.meshes[i]? with
    | none => none
    | some m =>
      match Generated.C06Src.instanciateRaw (Generated.C06Src.rawInit (some m)) none with
      | some (_, m') => some { s with meshes := s.meshes ++ [m'] }
      | none => none

/-- **alias-freedom of every translated producer at once**: in any well-formed world, a call that returns appends ONE mesh which
shares no vector with any existing mesh (copy, merge, from_arrays, load, ring, flat_ring) — or shares exactly the vectors of its
input mesh and nothing else (reorder_vertices, re-wrapping a mesh in `RawMeshData`), the documented sharing -/
def Expected (s s' : State) : Producer → Prop
  | .reorder i _ => SharesWith s s' i
  | .rewrap i => SharesWith s s' i
  | _ => FreshMesh s s'

theorem producers_world (s s' : State) (hwf : WF s) (p : Producer) (h : runProducer s p = some s') : Expected s s' p := by
  cases p with
  | copy i =>
    simp only [runProducer] at h
    cases hm : s.meshes[i]? with
    | none => rw [hm] at h; cases h
    | some m =>
      rw [hm] at h
      simp only [copy_bridge, Option.some.injEq] at h
      obtain ⟨hi, hmi⟩ := List.getElem?_eq_some_iff.1 hm
      subst hmi
      have : (copyX { st := s, extras := List.replicate s.meshes.length { attr := none, conn := 0 }, conns := [] } i false).st
          = newMesh s (coords s.heap s.meshes[i]) s.meshes[i].edges s.meshes[i].faces s.meshes[i].cells := by
        simp [copyX, hm, hi, pushPlain, copyMesh]
      rw [this] at h
      subst h; exact newMesh_fresh s _ _ _ _ hwf
  | merge ids =>
    simp only [runProducer] at h
    cases hl : lookupAll s.meshes ids with
    | none => rw [hl] at h; cases h
    | some ms =>
      rw [hl] at h
      simp only [Option.some.injEq] at h
      subst h; exact newMesh_fresh s _ _ _ _ hwf
  | fromArrays V E F C raw =>
    simp only [runProducer, fromArrays_bridge] at h
    by_cases hok : faOk V E F C = true
    · rw [if_pos hok] at h; injection h with h; subst h; exact newMesh_fresh s _ _ _ _ hwf
    · rw [if_neg hok] at h; cases h
  | load vs e f c d raw =>
    simp only [runProducer, load_bridge, Option.some.injEq] at h
    subst h; exact newMesh_fresh s _ _ _ _ hwf
  | ring pts e f =>
    simp only [runProducer, (ring_bridge pts e f s).1, Option.some.injEq] at h
    subst h; exact newMesh_fresh s _ _ _ _ hwf
  | flatRing pts e f =>
    simp only [runProducer, (ring_bridge pts e f s).2, Option.some.injEq] at h
    subst h; exact newMesh_fresh s _ _ _ _ hwf
  | reorder i p =>
    simp only [runProducer] at h
    cases hm : s.meshes[i]? with
    | none => rw [hm] at h; cases h
    | some m =>
      rw [hm] at h
      simp only at h
      by_cases hp : p.length = m.verts.length ∧ (∀ x ∈ p, x < m.verts.length)
      · rw [if_pos hp] at h
        injection h with h
        obtain ⟨m', e1, e2, _, e4, _⟩ := reorder_spec i p s m hm hp.1 hp.2
        subst h; exact ⟨m, m', hm, e1, e2, e4⟩
      · rw [if_neg hp] at h; cases h
  | rewrap i =>
    simp only [runProducer] at h
    cases hm : s.meshes[i]? with
    | none => rw [hm] at h; cases h
    | some m =>
      rw [hm] at h
      simp only [(rawInit_bridge m).1, instanciateRaw_bridge, Option.some.injEq] at h
      subst h; exact ⟨m, m, hm, rfl, rfl, fun r hr => hr⟩

/-! ### the headline theorems, about the translated definitions -/

/-- `translate(t)` then `translate(-t)`, both as written in the source, restore every coordinate of the mesh -/
theorem src_translate_round_trip (t : V3) (s : State) (i : Nat) (m : Mesh) (hm : s.meshes[i]? = some m) (hwf : WF s) :
    ∃ m2, (Generated.C06Src.translate i t.neg (Generated.C06Src.translate i t s)).meshes[i]? = some m2 ∧
      coords (Generated.C06Src.translate i t.neg (Generated.C06Src.translate i t s)).heap m2 = coords s.heap m := by
  have hwf1 : WF (translate t s i) := wf_mapRebind _ s i hwf
  rw [translate_bridge i t s hwf, translate_bridge i t.neg _ hwf1]
  exact Mouette.Props.C06.translate_round_trip t s i m hm hwf

/-- `scale(k)` then `scale(1/k)` about the same (explicit or default) fixed point, as written, restore the coordinates -/
theorem src_scale_round_trip (k : Rat) (hk : k ≠ 0) (o : Option V3) (s : State) (i : Nat) (m : Mesh) (hm : s.meshes[i]? = some m)
    (hwf : WF s) :
    ∃ m2, (Generated.C06Src.scale i (1 / k) o (Generated.C06Src.scale i k o s)).meshes[i]? = some m2 ∧
      coords (Generated.C06Src.scale i (1 / k) o (Generated.C06Src.scale i k o s)).heap m2 = coords s.heap m := by
  have hwf1 : WF (scale k (o.getD V3.zero) s i) := wf_mapRebind _ s i hwf
  rw [scale_bridge i k o s hwf, scale_bridge i (1 / k) o _ hwf1]
  exact Mouette.Props.C06.scale_round_trip k hk (o.getD V3.zero) s i m hm hwf

/-- `rotate(R)` then `rotate(Rᵀ)` as written restore the coordinates (R orthogonal) -/
theorem src_rotate_round_trip (r : M3) (hr : Ortho r) (o : Option V3) (s : State) (i : Nat) (m : Mesh) (hm : s.meshes[i]? = some m)
    (hwf : WF s) :
    ∃ m2, (Generated.C06Src.rotate i r.transpose o (Generated.C06Src.rotate i r o s)).meshes[i]? = some m2 ∧
      coords (Generated.C06Src.rotate i r.transpose o (Generated.C06Src.rotate i r o s)).heap m2 = coords s.heap m := by
  have hwf1 : WF (rotate r (o.getD V3.zero) s i) := wf_mapRebind _ s i hwf
  rw [rotate_bridge i r o s hwf, rotate_bridge i r.transpose o _ hwf1]
  exact Mouette.Props.C06.rotate_round_trip r hr (o.getD V3.zero) s i m hm hwf

/-- `normalize` / `fit_into_unit_cube` as written leave the bounding box where documented -/
theorem src_normalize_bbox (centered : Bool) (s : State) (i : Nat) (m : Mesh) (hm : s.meshes[i]? = some m) (hwf : WF s)
    (hne : m.verts ≠ []) (hs : 0 < maxSpan (coords s.heap m)) :
    ∃ m2, (Generated.C06Src.normalize i centered s).meshes[i]? = some m2 ∧
      (centered = true → center (coords (Generated.C06Src.normalize i centered s).heap m2) = V3.zero ∧
                          maxSpan (coords (Generated.C06Src.normalize i centered s).heap m2) = 2) ∧
      (centered = false → bbMin (coords (Generated.C06Src.normalize i centered s).heap m2) = V3.zero ∧
                           maxSpan (coords (Generated.C06Src.normalize i centered s).heap m2) = 1) := by
  rw [normalize_bridge i centered s hwf]
  obtain ⟨m2, h1, h2, h3, _⟩ := Mouette.Props.C06.normalize_bbox centered s i m hm hwf hne hs
  exact ⟨m2, h1, h2, h3⟩

/-- every transform as written keeps the state alias-free (no vertex object is shared between meshes or listed twice),
so that the producers' alias-freedom is preserved by any sequence of translated transforms -/
theorem src_transforms_alias_free (s : State) (haf : AliasFree s) (mi : Nat) (t : V3) (k fx fy fz : Rat) (r : M3) (o : Option V3)
    (o' : V3) (d : Nat) (c : Bool) :
    AliasFree (Generated.C06Src.translate mi t s) ∧ AliasFree (Generated.C06Src.scale mi k o s) ∧
    AliasFree (Generated.C06Src.rotate mi r o s) ∧ AliasFree (Generated.C06Src.scaleXyz mi fx fy fz (some o') s) ∧
    AliasFree (Generated.C06Src.flatten mi d s) ∧ AliasFree (Generated.C06Src.normalize mi c s) := by
  have hwf := haf.1
  refine ⟨?_, ?_, ?_, ?_, ?_, ?_⟩
  · rw [translate_bridge _ _ _ hwf]; exact aliasFree_mapRebind _ s mi haf
  · rw [scale_bridge _ _ _ _ hwf]; exact aliasFree_mapRebind _ s mi haf
  · rw [rotate_bridge _ _ _ _ hwf]; exact aliasFree_mapRebind _ s mi haf
  · rw [scaleXyz_bridge _ _ _ _ _ _ hwf]; exact aliasFree_mapRebind _ s mi haf
  · rw [flatten_bridge _ _ _ hwf]; exact aliasFree_mapRebind _ s mi haf
  · rw [normalize_bridge _ _ _ hwf]
    unfold normalize
    cases hm : s.meshes[mi]? with
    | none => exact haf
    | some m =>
      simp only
      cases c
      · simp only [Bool.false_eq_true, if_false]
        exact aliasFree_mapRebind _ _ mi (aliasFree_mapRebind _ s mi haf)
      · simp only [if_true]
        exact aliasFree_mapRebind _ _ mi (aliasFree_mapRebind _ s mi haf)

/-- non-vacuity: the translated `translate` on a concrete two-vertex mesh moves both vertices and leaves a second mesh
sharing no cell untouched; the translated `merge` loop on two inputs shifts the second block by the first's vertex count -/
example :
    let s : State := { heap := [⟨0, 0, 0⟩, ⟨1, 2, 3⟩, ⟨5, 5, 5⟩],
                       meshes := [{ verts := [0, 1], edges := [[0, 1]], faces := [], cells := [] },
                                  { verts := [2], edges := [], faces := [], cells := [] }] }
    let s' := Generated.C06Src.translate 0 ⟨1, 1, 1⟩ s
    (coordsOf s' 0, coordsOf s' 1) = ([⟨1, 1, 1⟩, ⟨2, 3, 4⟩], [⟨5, 5, 5⟩]) := by
  decide +kernel

example :
    let m1 : Mesh := { verts := [0, 1], edges := [[0, 1]], faces := [], cells := [] }
    let m2 : Mesh := { verts := [2, 3, 4], edges := [[0, 1], [1, 2]], faces := [[0, 1, 2]], cells := [] }
    let acc := Generated.C06Src.mergeRun (fun m => m.verts) [m1, m2]
    (acc.offset, acc.edges, acc.faces) = (5, [[0, 1], [2, 3], [3, 4]], [[2, 3, 4]]) := by
  decide

end Mouette.Props.C06Source
