import Mouette.Lemmas.MeshSource
import Mouette.Lemmas.MeshAlgebra
import Mouette.Props.C06
/-
C06 — bridges from the function BODIES translated from the working tree (Generated/C06Src.lean: `translate`, `scale`,
`rotate`, `scale_xyz`, `flatten`, `normalize`, `fit_into_unit_cube`, `translate_to_origin`, the loop of `merge`) to the hand
model Model/MeshHeap.lean, and the headline theorems of Props/C06.lean restated about the translated definitions.
-/
namespace Mouette.Props.C06Source
open Mouette.MeshHeap Mouette.MeshSrc
set_option linter.unusedSimpArgs false
set_option linter.unusedVariables false

/-- `translate` as written (a fold over `mesh.id_vertices` REBINDING each vertex to `mesh.vertices[i] + tr`) is the model's
`translate` -/
theorem translate_bridge (mi : Nat) (t : V3) (s : State) (hwf : WF s) :
    Generated.C06Src.translate mi t s = translate t s mi := by
  unfold Generated.C06Src.translate translate
  refine rebindLoop_eq (fun p => p.add t) _ s mi hwf (fun s' i => ?_)
  simp only [V3.add, V3.mk.injEq]
  try (refine ⟨?_, ?_, ?_⟩ <;> ring)

/-- `scale` as written (default origin `Vec.zeros(3)`, rebinding loop `orig + factor*(v - orig)`) is the model's `scale` -/
theorem scale_bridge (mi : Nat) (k : Rat) (o : Option V3) (s : State) (hwf : WF s) :
    Generated.C06Src.scale mi k o s = scale k (o.getD V3.zero) s mi := by
  unfold Generated.C06Src.scale scale
  cases o <;>
  · refine rebindLoop_eq (scaleMap k _) _ s mi hwf (fun s' i => ?_)
    simp only [scaleMap, V3.add, V3.sub, V3.smul, V3.mk.injEq, Option.getD]
    try (refine ⟨?_, ?_, ?_⟩ <;> ring)

/-- `rotate` as written is the model's `rotate` (the rotation is handed over as its matrix) -/
theorem rotate_bridge (mi : Nat) (r : M3) (o : Option V3) (s : State) (hwf : WF s) :
    Generated.C06Src.rotate mi r o s = rotate r (o.getD V3.zero) s mi := by
  unfold Generated.C06Src.rotate rotate
  cases o <;>
  · refine rebindLoop_eq (rotateMap r _) _ s mi hwf (fun s' i => ?_)
    simp only [rotateMap, V3.add, V3.sub, M3.apply, V3.dot, V3.mk.injEq, Option.getD]
    try (refine ⟨?_, ?_, ?_⟩ <;> ring)

/-- `scale_xyz` as written, explicit origin -/
theorem scaleXyz_bridge (mi : Nat) (fx fy fz : Rat) (o : V3) (s : State) (hwf : WF s) :
    Generated.C06Src.scaleXyz mi fx fy fz (some o) s = scaleXyz fx fy fz o s mi := by
  unfold Generated.C06Src.scaleXyz scaleXyz
  refine rebindLoop_eq (scaleXyzMap fx fy fz o) _ s mi hwf (fun s' i => ?_)
  simp only [scaleXyzMap, V3.add, V3.mk.injEq]
  try (refine ⟨?_, ?_, ?_⟩ <;> ring)

/-- `scale_xyz` as written, default origin: the FIRST VERTEX as it is BEFORE the loop (`orig = mesh.vertices[0]` is bound
once; the loop rebinds, so the bound object keeps its value while vertex 0 itself is replaced) -/
theorem scaleXyz_default_bridge (mi : Nat) (fx fy fz : Rat) (s : State) (hwf : WF s) :
    Generated.C06Src.scaleXyz mi fx fy fz none s = scaleXyz fx fy fz (vertexAt s mi 0) s mi := by
  unfold Generated.C06Src.scaleXyz scaleXyz
  refine rebindLoop_eq (scaleXyzMap fx fy fz (vertexAt s mi 0)) _ s mi hwf (fun s' i => ?_)
  simp only [scaleXyzMap, V3.add, V3.mk.injEq]
  try (refine ⟨?_, ?_, ?_⟩ <;> ring)

/-- `flatten(mesh, dim)` as written (a COPY of the vertex, its component `dim` set to 0, rebound) is the model's `flatten` -/
theorem flatten_bridge (mi d : Nat) (s : State) (hwf : WF s) : Generated.C06Src.flatten mi d s = flatten d s mi := by
  unfold Generated.C06Src.flatten flatten
  exact rebindLoop_eq (fun p => p.set d 0) _ s mi hwf (fun s' i => rfl)

/-- `normalize` as written (box of the INPUT, `sc = 1/max span`, then `scale(translate(mesh, -anchor), factor)`) is the
model's `normalize` -/
theorem normalize_bridge (mi : Nat) (c : Bool) (s : State) (hwf : WF s) :
    Generated.C06Src.normalize mi c s = normalize c s mi := by
  unfold Generated.C06Src.normalize normalize coordsOf
  cases hm : s.meshes[mi]? with
  | none =>
    have h1 : ∀ t, translate t s mi = s := by intro t; simp [translate, mapRebind, hm]
    have h2 : ∀ k o, scale k o s mi = s := by intro k o; simp [scale, mapRebind, hm]
    cases c <;> simp [translate_bridge _ _ _ hwf, scale_bridge _ _ _ _ hwf, h1, h2]
  | some m =>
    cases c with
    | true =>
      simp only [if_true]
      have hwf1 : WF (translate (center (coords s.heap m)).neg s mi) := wf_mapRebind _ s mi hwf
      rw [translate_bridge _ _ _ hwf, scale_bridge _ _ _ _ hwf1]
      first | rfl | (congr 1; ring)
    | false =>
      simp only [Bool.false_eq_true, if_false]
      have hwf1 : WF (translate (bbMin (coords s.heap m)).neg s mi) := wf_mapRebind _ s mi hwf
      rw [translate_bridge _ _ _ hwf, scale_bridge _ _ _ _ hwf1]
      first | rfl | (congr 1; ring)

theorem fitIntoUnitCube_bridge (mi : Nat) (s : State) (hwf : WF s) :
    Generated.C06Src.fitIntoUnitCube mi s = normalize false s mi := by
  unfold Generated.C06Src.fitIntoUnitCube
  exact normalize_bridge mi false s hwf

/-- `translate_to_origin` as written (`-sum(vertices)/len(vertices)`) is the model's translation by minus the barycentre -/
theorem translateToOrigin_bridge (mi : Nat) (s : State) (hwf : WF s) :
    Generated.C06Src.translateToOrigin mi s = translateToOrigin s mi := by
  unfold Generated.C06Src.translateToOrigin translateToOrigin
  rw [translate_bridge _ _ _ hwf]
  cases hm : s.meshes[mi]? with
  | none => simp [translate, mapRebind, hm]
  | some m =>
    simp only [coordsOf, nVerts, hm, barycenter]
    congr 1
    simp only [V3.smul, V3.neg, coords, List.length_map, V3.mk.injEq]
    refine ⟨?_, ?_, ?_⟩ <;> ring

/-- the loop of `merge` as written (vertices copied; each element block shifted by the running offset under its
`hasattr` guard; the offset advanced LAST and unconditionally) is the model's `mergeLoop` -/
theorem mergeBody_bridge {α : Type} (payload : Mesh → List α) (acc : MergeAcc α) (m : Mesh) :
    Generated.C06Src.mergeBody payload acc m = mergeStep payload acc m := by
  have hs : ∀ off l, shiftBy off l = shift off l := by
    intro off l
    simp only [shiftBy, shift]
    congr 1; funext e; congr 1; funext u; exact Nat.add_comm _ _
  unfold Generated.C06Src.mergeBody mergeStep
  cases he : m.edges <;> cases hf : m.faces <;> cases hc : m.cells <;> simp [hasKind, hs, shift]

theorem mergeRun_bridge {α : Type} (payload : Mesh → List α) (ms : List Mesh) :
    Generated.C06Src.mergeRun payload ms = mergeLoop payload ms := by
  unfold Generated.C06Src.mergeRun mergeLoop
  congr 1
  funext acc m
  exact mergeBody_bridge payload acc m

/-- `copy` as written — the statement tables of both `copy_attributes` branches and of the connectivity statement, with the
meaning `copyByTables` gives them (Model/MeshSource.lean) — is the model's `copyX`: EVERY data field of EVERY container is
deep-copied (coordinates, element tuples, corner tables), whole containers under `copy_attributes`, and the connectivity handler
goes through `deepcopy` with the memo that re-points it to the copy -/
theorem copy_bridge (i : Nat) (attrs conn : Bool) (s : StateX) : Generated.C06Src.copy i attrs conn s = copyX s i attrs := by
  unfold Generated.C06Src.copy copyByTables
  have h1 : (Generated.C06Src.copyFresh && dataPaths.all (fun p => deepOf Generated.C06Src.copyDataBranch p.1 p.2) &&
      contPaths.all (fun p => deepOf Generated.C06Src.copyAttrBranch p.1 p.2)) = true := by decide +kernel
  have h2 : (Generated.C06Src.copyConnBranch.all (fun f => f.how == .deepMemo)) = true := by decide +kernel
  rw [if_pos h1, if_pos h2]

/-- hence the copy theorems of Props/C06.lean hold for the translated `copy`: e.g. whatever the switches, the copy's coordinates
live in fresh cells and its handler is its own (`copy_switches`) -/
theorem src_copy_switches (s : StateX) (i : Nat) (attrs conn : Bool) (m : Mesh) (e : MeshX)
    (hm : s.st.meshes[i]? = some m) (he : s.extras[i]? = some e) (hwf : WF s.st) :
    (Generated.C06Src.copy i attrs conn s).st = (copyX s i attrs).st ∧
    (Generated.C06Src.copy i attrs conn s).conns.length = s.conns.length + 1 := by
  rw [copy_bridge]
  refine ⟨rfl, ?_⟩
  unfold copyX
  rw [hm, he]
  simp only
  cases e.attr <;> cases attrs <;> simp [pushPlain, alloc]

/-! ### the headline theorems, about the translated definitions -/

/-- `translate(t)` then `translate(-t)`, both as written in the source, restore every coordinate of the mesh -/
theorem src_translate_round_trip (t : V3) (s : State) (i : Nat) (m : Mesh) (hm : s.meshes[i]? = some m) (hwf : WF s) :
    ∃ m2, (Generated.C06Src.translate i t.neg (Generated.C06Src.translate i t s)).meshes[i]? = some m2 ∧
      coords (Generated.C06Src.translate i t.neg (Generated.C06Src.translate i t s)).heap m2 = coords s.heap m := by
  have hwf1 : WF (translate t s i) := wf_mapRebind _ s i hwf
  rw [translate_bridge i t s hwf, translate_bridge i t.neg _ hwf1]
  exact Mouette.Props.C06.translate_round_trip t s i m hm hwf

/-- `scale(k)` then `scale(1/k)` about the same (explicit or default) fixed point, as written, restore the coordinates -/
theorem src_scale_round_trip (k : Rat) (hk : k ≠ 0) (o : Option V3) (s : State) (i : Nat) (m : Mesh) (hm : s.meshes[i]? = some m)
    (hwf : WF s) :
    ∃ m2, (Generated.C06Src.scale i (1 / k) o (Generated.C06Src.scale i k o s)).meshes[i]? = some m2 ∧
      coords (Generated.C06Src.scale i (1 / k) o (Generated.C06Src.scale i k o s)).heap m2 = coords s.heap m := by
  have hwf1 : WF (scale k (o.getD V3.zero) s i) := wf_mapRebind _ s i hwf
  rw [scale_bridge i k o s hwf, scale_bridge i (1 / k) o _ hwf1]
  exact Mouette.Props.C06.scale_round_trip k hk (o.getD V3.zero) s i m hm hwf

/-- `rotate(R)` then `rotate(Rᵀ)` as written restore the coordinates (R orthogonal) -/
theorem src_rotate_round_trip (r : M3) (hr : Ortho r) (o : Option V3) (s : State) (i : Nat) (m : Mesh) (hm : s.meshes[i]? = some m)
    (hwf : WF s) :
    ∃ m2, (Generated.C06Src.rotate i r.transpose o (Generated.C06Src.rotate i r o s)).meshes[i]? = some m2 ∧
      coords (Generated.C06Src.rotate i r.transpose o (Generated.C06Src.rotate i r o s)).heap m2 = coords s.heap m := by
  have hwf1 : WF (rotate r (o.getD V3.zero) s i) := wf_mapRebind _ s i hwf
  rw [rotate_bridge i r o s hwf, rotate_bridge i r.transpose o _ hwf1]
  exact Mouette.Props.C06.rotate_round_trip r hr (o.getD V3.zero) s i m hm hwf

/-- `normalize` / `fit_into_unit_cube` as written leave the bounding box where documented -/
theorem src_normalize_bbox (centered : Bool) (s : State) (i : Nat) (m : Mesh) (hm : s.meshes[i]? = some m) (hwf : WF s)
    (hne : m.verts ≠ []) (hs : 0 < maxSpan (coords s.heap m)) :
    ∃ m2, (Generated.C06Src.normalize i centered s).meshes[i]? = some m2 ∧
      (centered = true → center (coords (Generated.C06Src.normalize i centered s).heap m2) = V3.zero ∧
                          maxSpan (coords (Generated.C06Src.normalize i centered s).heap m2) = 2) ∧
      (centered = false → bbMin (coords (Generated.C06Src.normalize i centered s).heap m2) = V3.zero ∧
                           maxSpan (coords (Generated.C06Src.normalize i centered s).heap m2) = 1) := by
  rw [normalize_bridge i centered s hwf]
  obtain ⟨m2, h1, h2, h3, _⟩ := Mouette.Props.C06.normalize_bbox centered s i m hm hwf hne hs
  exact ⟨m2, h1, h2, h3⟩

/-- every transform as written keeps the state alias-free (no vertex object is shared between meshes or listed twice),
so that the producers' alias-freedom is preserved by any sequence of translated transforms -/
theorem src_transforms_alias_free (s : State) (haf : AliasFree s) (mi : Nat) (t : V3) (k fx fy fz : Rat) (r : M3) (o : Option V3)
    (o' : V3) (d : Nat) (c : Bool) :
    AliasFree (Generated.C06Src.translate mi t s) ∧ AliasFree (Generated.C06Src.scale mi k o s) ∧
    AliasFree (Generated.C06Src.rotate mi r o s) ∧ AliasFree (Generated.C06Src.scaleXyz mi fx fy fz (some o') s) ∧
    AliasFree (Generated.C06Src.flatten mi d s) ∧ AliasFree (Generated.C06Src.normalize mi c s) := by
  have hwf := haf.1
  refine ⟨?_, ?_, ?_, ?_, ?_, ?_⟩
  · rw [translate_bridge _ _ _ hwf]; exact aliasFree_mapRebind _ s mi haf
  · rw [scale_bridge _ _ _ _ hwf]; exact aliasFree_mapRebind _ s mi haf
  · rw [rotate_bridge _ _ _ _ hwf]; exact aliasFree_mapRebind _ s mi haf
  · rw [scaleXyz_bridge _ _ _ _ _ _ hwf]; exact aliasFree_mapRebind _ s mi haf
  · rw [flatten_bridge _ _ _ hwf]; exact aliasFree_mapRebind _ s mi haf
  · rw [normalize_bridge _ _ _ hwf]
    unfold normalize
    cases hm : s.meshes[mi]? with
    | none => exact haf
    | some m =>
      simp only
      cases c
      · simp only [Bool.false_eq_true, if_false]
        exact aliasFree_mapRebind _ _ mi (aliasFree_mapRebind _ s mi haf)
      · simp only [if_true]
        exact aliasFree_mapRebind _ _ mi (aliasFree_mapRebind _ s mi haf)

/-- non-vacuity: the translated `translate` on a concrete two-vertex mesh moves both vertices and leaves a second mesh
sharing no cell untouched; the translated `merge` loop on two inputs shifts the second block by the first's vertex count -/
example :
    let s : State := { heap := [⟨0, 0, 0⟩, ⟨1, 2, 3⟩, ⟨5, 5, 5⟩],
                       meshes := [{ verts := [0, 1], edges := [[0, 1]], faces := [], cells := [] },
                                  { verts := [2], edges := [], faces := [], cells := [] }] }
    let s' := Generated.C06Src.translate 0 ⟨1, 1, 1⟩ s
    (coordsOf s' 0, coordsOf s' 1) = ([⟨1, 1, 1⟩, ⟨2, 3, 4⟩], [⟨5, 5, 5⟩]) := by
  decide +kernel

example :
    let m1 : Mesh := { verts := [0, 1], edges := [[0, 1]], faces := [], cells := [] }
    let m2 : Mesh := { verts := [2, 3, 4], edges := [[0, 1], [1, 2]], faces := [[0, 1, 2]], cells := [] }
    let acc := Generated.C06Src.mergeRun (fun m => m.verts) [m1, m2]
    (acc.offset, acc.edges, acc.faces) = (5, [[0, 1], [2, 3], [3, 4]], [[2, 3, 4]]) := by
  decide

end Mouette.Props.C06Source
