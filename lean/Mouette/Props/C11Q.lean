import Mouette.Generated.C20PQ
import Mouette.Lemmas.BinHeap
/-!
# C11 (round 5) - the one assumption made about `PriorityQueue`, proved on its SOURCE

`KDTree.query` keeps its candidates in a `PriorityQueue` keyed by `-distance`.  The extracted `query` (`Generated/C11Src.lean`)
reads it through the vocabulary of `Model/KDSource.lean` under ONE assumption: `pop()` returns an entry of minimal priority
(= maximal distance), `front` is that entry, `empty()` tells whether entries are pending.  Here the assumption is proved for the
bodies of `mouette/utils/priority_queue.py` as extracted on every run (`Generated/C20PQ.lean`, translator of property C20:
`push` = `heappush(self.data, PriorityItem(x, w))`, `pop` = `get` = `heappop(self.data)`, `__lt__` compares priorities only), on top
of the PROVED binary-heap model of `heapq` (`Lemmas/BinHeap.lean`), for EVERY history of pushes and pops.
Which of several entries of equal priority is popped is NOT determined (and not observable in the statement of C11: the answer
is specified through distances).
-/
namespace Mouette.Props.C11Q
open Mouette.PQ Mouette.BinHeap
open Mouette.Generated

/-- a `PriorityQueue` operation -/
inductive Op where
  | push (x : Nat) (w : Prio)
  | pop

/-- `self.data` after one operation on the extracted methods (a pop on the empty queue raises and leaves it unchanged) -/
def step (d : List Item) : Op → List Item
  | .push x w => C20PQ.push d x w
  | .pop => match C20PQ.pop_ d with | some (_, d') => d' | none => d

/-- `self.data` after a history, from `PriorityQueue()` -/
def run (ops : List Op) : List Item := ops.foldl step C20PQ.initData

theorem run_isHeap (ops : List Op) : IsHeap (run ops) := by
  have aux : ∀ (ops : List Op) (d : List Item), IsHeap d → IsHeap (ops.foldl step d) := by
    intro ops
    induction ops with
    | nil => intro d h; exact h
    | cons o ops ih =>
      intro d h
      rw [List.foldl_cons]
      apply ih
      cases o with
      | push x w => exact heappush_heap h (x, w)
      | pop =>
        simp only [step]
        cases hp : C20PQ.pop_ d with
        | none => exact h
        | some r => exact heappop_heap h (e := r.1) (h' := r.2) hp
  exact aux ops _ isHeap_nil

/-- **`pop()` returns a pending entry of MINIMAL priority and removes exactly it** (after any history), it raises exactly on
the empty queue, `front` is the entry the next `pop()` returns, `empty()` is true exactly when nothing is pending, and `push`
adds exactly one entry -/
theorem pq_assumption_source (ops : List Op) :
    (∀ e d', C20PQ.pop_ (run ops) = some (e, d') → PopOk (run ops) e d' ∧ C20PQ.front (run ops) = some e) ∧
    (C20PQ.pop_ (run ops) = none ↔ run ops = []) ∧
    (C20PQ.empty (run ops) = true ↔ run ops = []) ∧
    (∀ x w, (C20PQ.push (run ops) x w).Perm ((x, w) :: run ops)) := by
  refine ⟨fun e d' hp => ⟨heappop_ok (run_isHeap ops) hp, ?_⟩, heappop_none_iff _, ?_, fun x w => heappush_perm _ _⟩
  · have : C20PQ.front (run ops) = (run ops).head? := by cases run ops <;> rfl
    rw [this]; exact heappop_head hp
  · cases run ops <;> simp [C20PQ.empty]

/-- the items compare by priority only (`field(compare=False)` on `x`, `__lt__` on `priority`) -/
theorem pq_order_is_priority : C20PQ.itemLt = BinHeap.lt := rfl

end Mouette.Props.C11Q
