import Mouette.Lemmas.C18Source
import Mouette.Lemmas.C18Hist
import Mouette.Props.C18
/-
C18, round 4 — theorems about what the SOURCE says: `Generated/C18Src.lean` is re-translated from the bodies of
`base.py: FrameField.normalize / run / _check_init`, `faces2d.py: FrameField2DFaces.initialize / _initialize_variables / optimize`,
`vertex2d.py: FrameField2DVertices.initialize / optimize` on every run (statement order, loops, guards, index expressions, which
container is written); the `bridge_*` theorems prove the generated definitions equal to the hand-written normal forms of
`Model/FrameFieldSrc.lean` / `Model/FrameField*.lean`, and the `source_*` theorems state the clauses of C18 directly on the
generated definitions.

The numeric primitives stay PARAMETERS (`FFS.Num`): `abs` of a complex number, `spsolve` / `factorized`, `inverse_power_method`.
Their contracts are explicit hypotheses: `habs : ∀ z, abs z * abs z = normSq z` and `SolvedExactly` (`A x = b` for the one linear
system `optimize` builds).  Under `SolvedExactly` the clause "with smoothing off on a bordered surface the field is the
element-wise normalised harmonic extension of the constrained frames" is a THEOREM about the translated `optimize`
(`source_optimize_faces_harmonic_extension`, `source_optimize_vertices_harmonic_extension`).  What remains unproved is only that
scipy's `spsolve` meets its contract in floating point (T6/T7; the residual is checked per run).
-/
namespace Mouette.Props.C18Source
open Mouette.FF Mouette.FFS Mouette.Lemmas.C18 Mouette.Lemmas.C18S
open Mouette.Generated

/-! ## bridges: generated (source-shaped) = normal form -/

/-- `FrameField.normalize`: the loop over `range(var.size)` normalises EVERY entry (a changed range breaks this) -/
theorem bridge_normalize (N : Num) (var : Vec) : C18S.normalize N var = normalizeM N var := normalize_bridge N var

/-- … and agrees with the round-1 model `normalizeAll` fed with the moduli -/
theorem bridge_normalize_all (N : Num) (var : Vec) : C18S.normalize N var = normalizeAll var (var.map N.abs) := by
  rw [normalize_bridge]
  unfold normalizeM
  induction var with
  | nil => rfl
  | cons z zs ih => simp only [List.map_cons, normalizeAll, ih]; rfl

theorem bridge_run {α : Type} (init opt : α → α) (s : FFH.St α) : C18S.run init opt s = FFH.run init opt s := run_bridge init opt s
theorem bridge_fresh {α : Type} (d : α) : C18S.fresh d = FFH.fresh d := rfl

theorem bridge_initialize_faces {α : Type} (attrs vars : α → α) (s : FFH.St α) :
    C18S.initializeFaces attrs vars s = FFH.initializeStep true (fun d => vars (attrs d)) s := initializeFaces_bridge attrs vars s

theorem bridge_initialize_vertices {α : Type} (attrs vars mpt : α → α) (s : FFH.St α) :
    C18S.initializeVerts attrs vars false mpt s = FFH.initializeStep true (fun d => vars (attrs d)) s :=
  initializeVerts_bridge attrs vars mpt s

/-- the two nested loops of the face-based `_initialize_variables` (zeros, every feature edge, every adjacent face that is not
`None`, `var[T] = (c/abs(c))**E`) are the write list of the round-1 model, with the exponent the source states -/
theorem bridge_init_variables_faces (N : Num) (order n : Nat) (proj : Nat → Nat → Cpx) (fes : List FeatEdge) :
    C18S.initVariablesFaces N order n proj fes = initFaces order n (writesOf N proj fes) :=
  initVariablesFaces_bridge N order n proj fes

theorem bridge_optimize_faces (N : Num) (P : OptIn) (var : Vec) : C18S.optimizeFaces N P var = optimizeFacesM N P var :=
  optimizeFaces_bridge N P var

theorem bridge_optimize_vertices (N : Num) (P : OptIn) (var : Vec) : C18S.optimizeVerts N P var = optimizeVertsM N P var :=
  optimizeVerts_bridge N P var

/-- the fixed flags the translated `optimize` computes are those of the round-1 model, and its partition is `freeInds` / `fixedInds` -/
theorem bridge_partition_faces (n : Nat) (adj : List (Option Nat × Option Nat)) :
    freeOf n (fixedFlagsFaces n adj) = freeInds (fixedFlagsFaces n adj) ∧ fixedOf n (fixedFlagsFaces n adj) = fixedInds (fixedFlagsFaces n adj) := by
  have hl : (fixedFlagsFaces n adj).length = n := by
    unfold fixedFlagsFaces
    generalize hfl : List.replicate n false = fl
    have : fl.length = n := by rw [← hfl]; simp
    clear hfl
    induction adj generalizing fl with
    | nil => simpa using this
    | cons p ps ih =>
      simp only [List.foldl_cons]
      apply ih
      cases p.1 <;> cases p.2 <;> simp [this]
  unfold freeOf fixedOf freeInds fixedInds
  rw [hl]
  exact ⟨rfl, rfl⟩

/-! ## history: `run`, `_check_init` -/

/-- `optimize` / `flag_singularities` start with `_check_init()`: it does not raise after `initialize()` nor after `run()` -/
theorem source_check_init_passes {α : Type} (attrs vars init opt : α → α) (s : FFH.St α) :
    C18S.checkInitRaises (C18S.initializeFaces attrs vars s).initialized = false ∧
    C18S.checkInitRaises (C18S.run init opt s).initialized = false := by
  constructor
  · simp [C18S.checkInitRaises, C18S.initializeFaces]
  · unfold C18S.checkInitRaises C18S.run
    cases h1 : s.initialized <;> cases h2 : s.smoothed <;> simp [h1, h2]

/-- on a fresh object it raises (the guard is really there) -/
theorem source_check_init_raises_on_fresh {α : Type} (d : α) : C18S.checkInitRaises (C18S.fresh d).initialized = true := rfl

/-- `run()` twice = `run()` once, for the translated `run` -/
theorem source_run_idempotent {α : Type} (init opt : α → α) (s : FFH.St α) :
    C18S.run init opt (C18S.run init opt s) = C18S.run init opt s := by
  rw [run_bridge, run_bridge]; exact Mouette.Lemmas.C18H.run_run init opt s

/-! ## unit modulus -/

/-- every entry the translated `normalize` divides has squared modulus 1 afterwards (`abs` with its defining contract) -/
theorem source_normalize_unit (N : Num) (habs : ∀ z, N.abs z * N.abs z = normSq z) (var : Vec) (i : Nat)
    (hthr : normThreshold < N.abs (var.getD i czero)) : normSq ((C18S.normalize N var).getD i czero) = 1 := by
  rw [normalize_bridge]; exact normalizeM_unit N habs var i hthr

/-- the translated face-based `optimize` ENDS with `normalize` on every path but the documented early return ("everything is on
the boundary"): the field is `normalize(y)` for the last solver output `y`, hence unit wherever `|y_i| > 1e-10` -/
theorem source_optimize_faces_unit (N : Num) (habs : ∀ z, N.abs z * N.abs z = normSq z) (P : OptIn) (var : Vec)
    (hne : ¬ (0 < P.nFeatV ∧ (freeOf P.n (fixedFlagsFaces P.n P.featAdj)).length = 0)) :
    ∃ y, C18S.optimizeFaces N P var = C18S.normalize N y ∧
      ∀ i, normThreshold < N.abs (y.getD i czero) → normSq ((C18S.optimizeFaces N P var).getD i czero) = 1 := by
  rw [optimizeFaces_bridge]
  unfold optimizeFacesM
  by_cases h : 0 < P.nFeatV
  · have h2 : ¬ (freeOf P.n (fixedFlagsFaces P.n P.featAdj)).length = 0 := fun h2 => hne ⟨h, h2⟩
    simp only [h, h2, if_true, if_false]
    unfold optimizeBorderedM
    exact ⟨_, (normalize_bridge N _).symm, fun i hi => normalizeM_unit N habs _ i hi⟩
  · simp only [h, if_false]
    unfold optimizeClosedM
    exact ⟨_, (normalize_bridge N _).symm, fun i hi => normalizeM_unit N habs _ i hi⟩

/-- same for the vertex-based `optimize` (which has no early return) -/
theorem source_optimize_vertices_unit (N : Num) (habs : ∀ z, N.abs z * N.abs z = normSq z) (P : OptIn) (var : Vec) :
    ∃ y, C18S.optimizeVerts N P var = C18S.normalize N y ∧
      ∀ i, normThreshold < N.abs (y.getD i czero) → normSq ((C18S.optimizeVerts N P var).getD i czero) = 1 := by
  rw [optimizeVerts_bridge]
  unfold optimizeVertsM
  by_cases h : 0 < P.nFeatV
  · simp only [h, if_true]
    unfold optimizeBorderedM
    exact ⟨_, (normalize_bridge N _).symm, fun i hi => normalizeM_unit N habs _ i hi⟩
  · simp only [h, if_false]
    unfold optimizeClosedM
    exact ⟨_, (normalize_bridge N _).symm, fun i hi => normalizeM_unit N habs _ i hi⟩

/-! ## constrained elements keep their constraint (any number of smoothing steps) -/

/-- a face flagged `fixed` by the translated loop over the feature edges, carrying a unit constraint, comes out of the translated
`optimize` unchanged — through the first solve, every smoothing pass (normalize + solve) and the final normalisation -/
theorem source_optimize_faces_constrained_untouched (N : Num) (P : OptIn) (var : Vec) (T : Nat)
    (hfeat : 0 < P.nFeatV) (hfix : (fixedFlagsFaces P.n P.featAdj).getD T false = true) (hunit : N.abs (var.getD T czero) = 1) :
    (C18S.optimizeFaces N P var).getD T czero = var.getD T czero := by
  rw [optimizeFaces_bridge]
  unfold optimizeFacesM
  simp only [hfeat, if_true]
  split
  · rfl
  · apply optimizeBordered_keeps
    · intro hm
      have := mem_freeOf _ _ _ hm
      rw [hfix] at this; exact Bool.noConfusion this
    · exact hunit

theorem source_optimize_vertices_constrained_untouched (N : Num) (P : OptIn) (var : Vec) (v : Nat)
    (hfeat : 0 < P.nFeatV) (hfix : v ∈ P.featV) (hunit : N.abs (var.getD v czero) = 1) :
    (C18S.optimizeVerts N P var).getD v czero = var.getD v czero := by
  rw [optimizeVerts_bridge]
  unfold optimizeVertsM
  simp only [hfeat, if_true]
  apply optimizeBordered_keeps
  · intro hm
    have := (List.mem_filter.mp hm).2
    simp [hfix] at this
  · exact hunit

/-! ## harmonic extension (smoothing off, bordered surface), GIVEN an exact linear solve -/

/-- **harmonic extension, face-based field.** With `n_smooth = 0`, at least one feature vertex and at least one free face, IF
`spsolve` returns an exact solution of the system the translated code hands to it (`SolvedExactly`), THEN the translated
`optimize` returns `normalize(y)` where `y` (i) equals the constraints on the fixed faces and (ii) satisfies
`L_II y_I = − L_IB y_B`, i.e. every free row of the connection Laplacian annihilates `y`: `y` is the harmonic extension. -/
theorem source_optimize_faces_harmonic_extension (N : Num) (P : OptIn) (var : Vec)
    (hfeat : 0 < P.nFeatV) (hns : P.nSmooth = 0) (hlen : var.length = P.n)
    (hfree : (freeOf P.n (fixedFlagsFaces P.n P.featAdj)).length ≠ 0)
    (hs : SolvedExactly N P.lap (freeOf P.n (fixedFlagsFaces P.n P.featAdj)) (fixedOf P.n (fixedFlagsFaces P.n P.featAdj)) var) :
    ∃ y : Vec,
      C18S.optimizeFaces N P var = C18S.normalize N y ∧
      gather y (fixedOf P.n (fixedFlagsFaces P.n P.featAdj)) = gather var (fixedOf P.n (fixedFlagsFaces P.n P.featAdj)) ∧
      dot (sub P.lap (freeOf P.n (fixedFlagsFaces P.n P.featAdj)) (freeOf P.n (fixedFlagsFaces P.n P.featAdj)))
          (gather y (freeOf P.n (fixedFlagsFaces P.n P.featAdj)))
        = vneg (dot (sub P.lap (freeOf P.n (fixedFlagsFaces P.n P.featAdj)) (fixedOf P.n (fixedFlagsFaces P.n P.featAdj)))
            (gather y (fixedOf P.n (fixedFlagsFaces P.n P.featAdj)))) ∧
      ∀ a ∈ freeOf P.n (fixedFlagsFaces P.n P.featAdj),
        harmonicAt P.lap (freeOf P.n (fixedFlagsFaces P.n P.featAdj)) (fixedOf P.n (fixedFlagsFaces P.n P.featAdj)) (asFun y) a := by
  have hnd := freeOf_nodup P.n (fun i => !((fixedFlagsFaces P.n P.featAdj).getD i false))
  have hlt : ∀ i ∈ freeOf P.n (fixedFlagsFaces P.n P.featAdj), i < var.length := fun i hi => by
    rw [hlen]; exact freeOf_lt _ _ i hi
  have hdisj : ∀ i ∈ fixedOf P.n (fixedFlagsFaces P.n P.featAdj), i ∉ freeOf P.n (fixedFlagsFaces P.n P.featAdj) := by
    intro i hi hm
    have a := mem_freeOf _ _ _ hm
    have b := (List.mem_filter.mp hi).2
    rw [a] at b; exact Bool.noConfusion b
  refine ⟨harmonicM N P.lap (freeOf P.n (fixedFlagsFaces P.n P.featAdj)) (fixedOf P.n (fixedFlagsFaces P.n P.featAdj)) var, ?_, ?_, ?_, ?_⟩
  · rw [optimizeFaces_bridge, normalize_bridge]
    unfold optimizeFacesM optimizeBorderedM
    simp [hfeat, hfree, hns]
  · exact (harmonic_block N P.lap _ _ var hnd hlt hdisj hs).1
  · exact (harmonic_block N P.lap _ _ var hnd hlt hdisj hs).2
  · exact harmonic_rows N P.lap _ _ var hnd hlt hdisj hs

/-- **harmonic extension, vertex-based field** (same statement; the partition is `v in feat.feature_vertices`) -/
theorem source_optimize_vertices_harmonic_extension (N : Num) (P : OptIn) (var : Vec)
    (hfeat : 0 < P.nFeatV) (hns : P.nSmooth = 0) (hlen : var.length = P.n)
    (hs : SolvedExactly N P.lap ((List.range P.n).filter (fun v => !(P.featV.contains v))) ((List.range P.n).filter (fun v => P.featV.contains v)) var) :
    ∃ y : Vec,
      C18S.optimizeVerts N P var = C18S.normalize N y ∧
      gather y ((List.range P.n).filter (fun v => P.featV.contains v)) = gather var ((List.range P.n).filter (fun v => P.featV.contains v)) ∧
      ∀ a ∈ (List.range P.n).filter (fun v => !(P.featV.contains v)),
        harmonicAt P.lap ((List.range P.n).filter (fun v => !(P.featV.contains v))) ((List.range P.n).filter (fun v => P.featV.contains v)) (asFun y) a := by
  have hnd := freeOf_nodup P.n (fun v => !(P.featV.contains v))
  have hlt : ∀ i ∈ (List.range P.n).filter (fun v => !(P.featV.contains v)), i < var.length := fun i hi => by
    rw [hlen]; exact freeOf_lt _ _ i hi
  have hdisj : ∀ i ∈ (List.range P.n).filter (fun v => P.featV.contains v), i ∉ (List.range P.n).filter (fun v => !(P.featV.contains v)) := by
    intro i hi hm
    have a := (List.mem_filter.mp hm).2
    have b := (List.mem_filter.mp hi).2
    rw [b] at a
    exact Bool.noConfusion a
  refine ⟨harmonicM N P.lap ((List.range P.n).filter (fun v => !(P.featV.contains v))) ((List.range P.n).filter (fun v => P.featV.contains v)) var, ?_, ?_, ?_⟩
  · rw [optimizeVerts_bridge, normalize_bridge]
    unfold optimizeVertsM optimizeBorderedM
    simp [hfeat, hns]
  · exact (harmonic_block N P.lap _ _ var hnd hlt hdisj hs).1
  · exact harmonic_rows N P.lap _ _ var hnd hlt hdisj hs

/-! ## numbering independence at the model level -/

/-- the harmonic-extension equation is covariant under renumbering of the elements: row `σ a` of the renumbered system
(`L'[p,q] = L[τ p, τ q]`, partition mapped by `σ`, `τ ∘ σ = id`) holds for `y'` iff row `a` of the original system holds for `y' ∘ σ` -/
theorem harmonic_equation_renumbers (L : Mat) (free fixed : List Nat) (σ τ : Nat → Nat) (hτσ : ∀ i, τ (σ i) = i) (y' : Nat → Cpx) (a : Nat) :
    harmonicAt (fun p q => L (τ p) (τ q)) (free.map σ) (fixed.map σ) y' (σ a) ↔ harmonicAt L free fixed (fun i => y' (σ i)) a :=
  harmonicAt_renumber L free fixed σ τ hτσ y' a

/-- **renumbering commutes** (`_partial`: uniqueness of the harmonic extension — `L_II` invertible — is a hypothesis, as is exactness
of the two solves through `hy`, `hy'`): if `y` is harmonic for the system and `y'` is harmonic for the renumbered system with the
renumbered constraints, then `y'` IS the renumbered `y` on every free element.
Full clause (not proved): … "beyond round-off" for the floating-point solver outputs. -/
theorem renumbering_commutes_partial (L : Mat) (free fixed : List Nat) (σ τ : Nat → Nat) (hτσ : ∀ i, τ (σ i) = i) (y y' : Nat → Cpx)
    (hy : ∀ a ∈ free, harmonicAt L free fixed y a)
    (hy' : ∀ a ∈ free, harmonicAt (fun p q => L (τ p) (τ q)) (free.map σ) (fixed.map σ) y' (σ a))
    (hB : ∀ b ∈ fixed, y' (σ b) = y b)
    (huniq : ∀ u v : Nat → Cpx, (∀ a ∈ free, harmonicAt L free fixed u a) → (∀ a ∈ free, harmonicAt L free fixed v a) →
      (∀ b ∈ fixed, u b = v b) → ∀ a ∈ free, u a = v a) :
    ∀ a ∈ free, y' (σ a) = y a :=
  huniq (fun i => y' (σ i)) y (fun a ha => (harmonicAt_renumber L free fixed σ τ hτσ y' a).mp (hy' a ha)) hy hB

/-! ## `flag_singularities` of the face-based field, both loops translated -/

/-- edge loop: attribute re-used + cleared (or created), border edges skipped, one write per interior edge = `edgeRot` of the round-1 model
on the candidates the source builds (`roots(f2)[0]` against every root of `f1`, angles of the edge in the two bases) -/
theorem bridge_flag_faces_edge_rot (P : FlagFacesIn) (old : Option FFH.Attr) :
    C18S.flagEdgeRotFaces P old = FFH.flagInto C18H.facesRotCleared old (rotWritesM P) := flagEdgeRotFaces_bridge P old

/-- vertex loop: attribute re-used + cleared (or created); the sum starts from the defect, adds `±edge_rot[e]` over `vertex_to_edges(v)` with the
sign test on the other end, and the stored value is `indexOf` (= `angle*2/pi`) of that sum when above the threshold -/
theorem bridge_flag_faces_singuls (P : FlagFacesIn) (er : FFH.Attr) (old : Option FFH.Attr) :
    C18S.flagSingulsFaces P er old = FFH.flagInto C18H.facesSingulsCleared old (singulsM P (FFH.lookup er)) := flagSingulsFaces_bridge P er old

/-- what a second call (or a call after another field used the mesh) leaves is what a first call on a fresh mesh leaves -/
theorem source_flag_faces_independent_of_history (P : FlagFacesIn) (er : FFH.Attr) (old : Option FFH.Attr) :
    C18S.flagEdgeRotFaces P old = C18S.flagEdgeRotFaces P none ∧ C18S.flagSingulsFaces P er old = C18S.flagSingulsFaces P er none := by
  rw [flagEdgeRotFaces_bridge, flagEdgeRotFaces_bridge, flagSingulsFaces_bridge, flagSingulsFaces_bridge]
  cases old <;> simp [FFH.flagInto, C18H.facesRotCleared, C18H.facesSingulsCleared]

/-- every rotation the translated edge loop writes is quantised: `order × rot = (θ₂ − θ₁) − order (a₂ − a₁) + integer` -/
theorem source_flag_faces_rotation_quantised (P : FlagFacesIn) (hn : 0 < P.order) (w : Nat × Rat) (hw : w ∈ C18S.flagEdgeRotFaces P none) :
    ∃ (T1 T2 : Nat) (j : Int), (P.order : Rat) * w.2
      = (P.theta T2 - P.theta T1) - (P.order : Rat) * (P.ang w.1 T2 - P.ang w.1 T1) + (j : Rat) := by
  rw [flagEdgeRotFaces_bridge] at hw
  simp only [FFH.flagInto, List.nil_append] at hw
  unfold rotWritesM at hw
  obtain ⟨it, _, hit⟩ := List.mem_filterMap.mp hw
  rcases it with ⟨i, t1, t2⟩
  cases t1 with
  | none => simp at hit
  | some T1 =>
    cases t2 with
    | none => simp at hit
    | some T2 =>
      have hw' : w = (i, edgeRot P.order (P.theta T1) (P.ang i T1) (P.theta T2) (P.ang i T2)) := by
        simp only [] at hit
        injection hit with h; exact h.symm
      obtain ⟨j, hj⟩ := edgeRot_quantised P.order hn (P.theta T1) (P.ang i T1) (P.theta T2) (P.ang i T2)
      exact ⟨T1, T2, j, by rw [hw']; exact hj⟩

/-- every index the translated vertex loop stores is the scaled holonomy sum of that vertex, and only sums above the threshold are stored -/
theorem source_flag_faces_index_is_scaled_holonomy (P : FlagFacesIn) (er : FFH.Attr) (w : Nat × Rat) (hw : w ∈ C18S.flagSingulsFaces P er none) :
    w.2 = indexOf (holonomyAdjM P (FFH.lookup er) w.1) ∧ P.thrTurns < rabs (holonomyAdjM P (FFH.lookup er) w.1) ∧ w.1 < P.nV := by
  rw [flagSingulsFaces_bridge] at hw
  simp only [FFH.flagInto, List.nil_append] at hw
  unfold singulsM at hw
  obtain ⟨v, hv, hit⟩ := List.mem_filterMap.mp hw
  split at hit
  · rename_i hthr
    injection hit with h
    subst h
    exact ⟨rfl, hthr, List.mem_range.mp hv⟩
  · exact absurd hit (by simp)

/-- … hence a whole multiple of the quantum `4/order` as soon as `order × holonomy` is a whole number of turns (`index_quantised`) -/
theorem source_flag_faces_index_multiple_of_quantum (P : FlagFacesIn) (hn : 0 < P.order) (er : FFH.Attr) (w : Nat × Rat)
    (hw : w ∈ C18S.flagSingulsFaces P er none) (K : Int) (hK : (P.order : Rat) * holonomyAdjM P (FFH.lookup er) w.1 = (K : Rat)) :
    w.2 = (K : Rat) * (4 / (P.order : Rat)) := by
  rw [(source_flag_faces_index_is_scaled_holonomy P er w hw).1]
  exact Mouette.Props.C18.index_scale_every_order P.order hn _ K hK

/-- **refinement adjacency form → edge list.** If the loop over `vertex_to_edges(v)` sees, up to order, exactly the (other end, rotation) pairs of the
edges incident to `v` (each once: the contract of `connectivity.vertex_to_edges` / `other_edge_end`, C01), then the sum the translated code
accumulates IS `FF.vertexAngle` of the round-1 model — so `index_sum_telescopes`, `index_quantised`, `index_total_is_scale_times_chi` and the 4χ
theorem over ℝ speak about the numbers the source stores -/
theorem source_flag_faces_holonomy_refines (P : FlagFacesIn) (rot : Nat → Rat) (es : List REdge) (v : Nat)
    (hperm : ((P.vertexEdges v).map (fun e => (P.otherEnd e v, rot e))).Perm (incidentPairs es v)) :
    holonomyAdjM P rot v = vertexAngle P.defect es v := holonomyAdj_refines P rot es v hperm

/-- hence the scaled sums the translated vertex loop would store at ALL vertices add up to 4 × (Σ defects), i.e. to 4χ with Gauss–Bonnet -/
theorem source_flag_faces_index_total (P : FlagFacesIn) (rot : Nat → Rat) (es : List REdge) (chi : Rat)
    (hperm : ∀ v, v < P.nV → ((P.vertexEdges v).map (fun e => (P.otherEnd e v, rot e))).Perm (incidentPairs es v))
    (hmesh : ∀ e ∈ es, e.a ≠ e.b ∧ e.a < P.nV ∧ e.b < P.nV) (hGB : sumTo P.defect P.nV = chi) :
    sumTo (fun v => indexOf (holonomyAdjM P rot v)) P.nV = 4 * chi := by
  rw [← Mouette.Props.C18.index_total_is_scale_times_chi P.nV P.defect es chi hmesh hGB]
  apply sumTo_congr
  intro v hv
  rw [holonomyAdj_refines P rot es v (hperm v hv)]

/-! ## vertex-based `_initialize_variables`, whole body translated -/

/-- both accumulation branches (projection branch with its cancellation guards, `B` before `A`; transport branch, `A` before `B`) and the
normalisation loop over `feature_vertices` are the round-2 model `FFV.initVertsFull`, fed with the contributions in code order and the moduli
of the accumulated sums — GIVEN the contract of `abs` (the guard compares `abs`, the model squared moduli) and a duplicate-free
`feature_vertices` (it is a set) -/
theorem bridge_init_variables_vertices (N : Num) (hc : AbsContract N) (order n : Nat) (sn : Bool) (proj rect : Nat → Nat → Cpx)
    (fes : List VFeatEdge) (featV : List Nat) (hnd : featV.Nodup) :
    C18S.initVariablesVerts N order sn proj rect fes featV (List.replicate n czero)
      = FFV.initVertsFull order n sn (if FFV.guardedBranch sn order then contribsGuarded N proj fes else contribsPlain rect fes) featV
          ((initVerts order n (FFV.guardedBranch sn order)
            (if FFV.guardedBranch sn order then contribsGuarded N proj fes else contribsPlain rect fes)).map N.abs) :=
  initVariablesVerts_bridge N hc order n sn proj rect fes featV hnd

/-- hence, for the translated body: a feature vertex whose accumulated sum has modulus above `1e-8` carries a UNIT constraint -/
theorem source_init_vertices_constraint_unit (N : Num) (hc : AbsContract N) (order n : Nat) (sn : Bool) (proj rect : Nat → Nat → Cpx)
    (fes : List VFeatEdge) (featV : List Nat) (hnd : featV.Nodup) (A : Nat) (hA : A ∈ featV)
    (hlt : A < (initVerts order n (FFV.guardedBranch sn order)
      (if FFV.guardedBranch sn order then contribsGuarded N proj fes else contribsPlain rect fes)).length)
    (hthr : FFV.featThreshold < N.abs ((initVerts order n (FFV.guardedBranch sn order)
      (if FFV.guardedBranch sn order then contribsGuarded N proj fes else contribsPlain rect fes)).getD A czero)) :
    normSq ((C18S.initVariablesVerts N order sn proj rect fes featV (List.replicate n czero)).getD A czero) = 1 := by
  rw [initVariablesVerts_bridge N hc order n sn proj rect fes featV hnd]
  apply Mouette.Props.C18.vertex_constraint_unit order n sn _ featV _ A hA hnd hlt
  · rw [getD_map_abs N hc]; exact hthr
  · rw [getD_map_abs N hc]; exact hc.sq _

/-- … and a vertex that is no feature vertex keeps what the accumulation left there (nothing, when no feature edge ends at it) -/
theorem source_init_vertices_free_untouched (N : Num) (hc : AbsContract N) (order n : Nat) (sn : Bool) (proj rect : Nat → Nat → Cpx)
    (fes : List VFeatEdge) (featV : List Nat) (hnd : featV.Nodup) (i : Nat) (hi : i ∉ featV) :
    (C18S.initVariablesVerts N order sn proj rect fes featV (List.replicate n czero)).getD i czero
      = (initVerts order n (FFV.guardedBranch sn order)
          (if FFV.guardedBranch sn order then contribsGuarded N proj fes else contribsPlain rect fes)).getD i czero := by
  rw [initVariablesVerts_bridge N hc order n sn proj rect fes featV hnd]
  unfold FFV.initVertsFull
  exact Mouette.Props.C18.vertex_init_free_untouched _ featV _ i hi

/-! ## vertex-based `flag_singularities`, whole body translated -/

/-- edge loop: the dict and the `angles` attribute hold the round-2 model's matched rotation `FFV.edgeRotV` of every edge, with the signs
`(A,B) ↦ +r`, `(B,A) ↦ −r`, attribute `−r` the source states -/
theorem bridge_flag_vertices_edge_rot (P : FlagVertsIn) (old : Option FFH.Attr) :
    C18S.flagEdgeRotVerts P old = (dictOfM (resM P), FFH.flagInto C18H.vertsRotCleared old (attrWritesM P)) :=
  flagEdgeRotVerts_bridge P old

theorem bridge_flag_vertices_singuls (P : FlagVertsIn) (d : Dict) (old : Option FFH.Attr) :
    C18S.flagSingulsVerts P d old = FFH.flagInto C18H.vertsSingulsCleared old (singulsVM P d) := flagSingulsVerts_bridge P d old

/-- on a well-formed edge list (no self loop, no undirected edge twice: `FFV.uniqueEdges`) READING the dict the translated loop built is
the model's `rotD` — so every theorem about `FFV.holonomy` / `faceAngle` (quantisation for every order, telescoping over the faces) speaks
about the numbers the source adds up -/
theorem source_flag_vertices_dict_is_rotD (P : FlagVertsIn) (old : Option FFH.Attr) (hu : FFV.uniqueEdges (resM P) = true) (u v : Nat) :
    (C18S.flagEdgeRotVerts P old).1 u v = FFV.rotD (resM P) u v := by
  rw [flagEdgeRotVerts_bridge]; exact dictOfM_eq_rotD (resM P) hu u v

/-- the quantity whose sign is stored is `FFV.faceAngle` of the model when the harness-supplied curvature is the model's -/
theorem source_flag_vertices_face_angle (P : FlagVertsIn) (old : Option FFH.Attr) (hu : FFV.uniqueEdges (resM P) = true)
    (t : Nat → Nat → Rat) (it : Nat × Nat × Nat × Nat) (hcurv : P.curv it.1 = FFV.curvature t { A := it.2.1, B := it.2.2.1, C := it.2.2.2 }) :
    faceAngleAdjM (C18S.flagEdgeRotVerts P old).1 P.curv it = FFV.faceAngle (resM P) t { A := it.2.1, B := it.2.2.1, C := it.2.2.2 } := by
  unfold faceAngleAdjM FFV.faceAngle FFV.holonomy
  rw [source_flag_vertices_dict_is_rotD P old hu, source_flag_vertices_dict_is_rotD P old hu, source_flag_vertices_dict_is_rotD P old hu, hcurv]
  simp

/-- every flag the translated face loop stores is `+1` above the threshold, `−1` below its negative, and nothing in between -/
theorem source_flag_vertices_flag_is_sign (P : FlagVertsIn) (d : Dict) (w : Nat × Rat) (hw : w ∈ C18S.flagSingulsVerts P d none) :
    ∃ it ∈ P.faces, w.1 = it.1 ∧ ((w.2 = 1 ∧ P.thrTurns < faceAngleAdjM d P.curv it) ∨ (w.2 = -1 ∧ faceAngleAdjM d P.curv it < -P.thrTurns)) := by
  rw [flagSingulsVerts_bridge] at hw
  simp only [FFH.flagInto, List.nil_append] at hw
  unfold singulsVM at hw
  obtain ⟨it, hit, hv⟩ := List.mem_filterMap.mp hw
  refine ⟨it, hit, ?_⟩
  split at hv
  · rename_i h; injection hv with hv; subst hv; exact ⟨rfl, Or.inl ⟨rfl, h⟩⟩
  · split at hv
    · rename_i h; injection hv with hv; subst hv; exact ⟨rfl, Or.inr ⟨rfl, h⟩⟩
    · exact absurd hv (by simp)

theorem source_flag_vertices_independent_of_history (P : FlagVertsIn) (d : Dict) (old : Option FFH.Attr) :
    C18S.flagEdgeRotVerts P old = C18S.flagEdgeRotVerts P none ∧ C18S.flagSingulsVerts P d old = C18S.flagSingulsVerts P d none := by
  rw [flagEdgeRotVerts_bridge, flagEdgeRotVerts_bridge, flagSingulsVerts_bridge, flagSingulsVerts_bridge]
  cases old <;> simp [FFH.flagInto, C18H.vertsRotCleared, C18H.vertsSingulsCleared]

/-! ## round 6: operator assembly, connection, export — whole bodies translated -/

/-- `operators.laplacian` with a connection: coefficient `(a,b)` of the matrix scipy builds from the translated triplets (duplicates summed) is the
coefficient of the round-1 model assembled from `FF.entryVert` (three half-edges per face, weight of the OPPOSITE corner, both diagonal entries, the
two off-diagonal entries with the phases `order (t_ij − t_ji − π)`, `order (t_ji − t_ij − π)`) -/
theorem bridge_laplacian_vertices (U : Rat → Cpx) (order : Nat) (cotan : Bool) (faces : List (Nat × Nat × Nat × Nat)) (cot tr : Nat → Nat → Rat) (a b : Nat) :
    tripCoeff (C18S.laplacianTriplets U order cotan true faces cot tr) a b = coeff (lapEntriesM U order cotan faces cot tr) a b := by
  rw [laplacianTriplets_bridge]; exact tripCoeff_entries _ a b

/-- hence the translated vertex operator is HERMITIAN, for every mesh, order, weights and transports — given only that `U` is `x ↦ exp(2πi x)`
(conjugate at the opposite phase, period one turn) -/
theorem source_laplacian_vertices_hermitian (U : Rat → Cpx) (hU : UnitContract U) (order : Nat) (cotan : Bool) (faces : List (Nat × Nat × Nat × Nat))
    (cot tr : Nat → Nat → Rat) (a b : Nat) :
    tripCoeff (C18S.laplacianTriplets U order cotan true faces cot tr) a b
      = cconj (tripCoeff (C18S.laplacianTriplets U order cotan true faces cot tr) b a) := by
  rw [bridge_laplacian_vertices, bridge_laplacian_vertices]
  apply Mouette.Props.C18.connection_laplacian_hermitian
  intro e he
  unfold lapEntriesM at he
  obtain ⟨it, _, hit⟩ := List.mem_flatMap.mp he
  exact lapFaceEntries_herm U hU order cotan cot tr it e hit

/-- `operators.laplacian_triangles` with a connection: the rows of `Nabla` the translated loop writes (interior edges only, `−1` at `T1`,
`exp(i·order·transport(T1,T2))` at `T2`) and the returned product `Nabla* D Nabla` give the round-1 model assembled from `FF.entryFace` -/
theorem bridge_laplacian_triangles (U : Rat → Cpx) (order : Nat) (cotan : Bool) (dw : Nat → Rat) (edges : List (Nat × Option Nat × Option Nat))
    (tr : Nat → Nat → Rat) (a b : Nat) :
    gramCoeff (C18S.nablaRowWeight cotan dw) (C18S.nablaRows U order true edges tr) a b
      = coeff (triEntriesM U order (C18S.nablaRowWeight cotan dw) edges tr) a b := by
  rw [nablaRows_bridge]; exact gramCoeff_rows U order _ tr edges a b

/-- … which is Hermitian for ANY transports and any `U` (no contract needed: the conjugate comes from `Nabla.conj().transpose()`) -/
theorem source_laplacian_triangles_hermitian (U : Rat → Cpx) (order : Nat) (cotan : Bool) (dw : Nat → Rat) (edges : List (Nat × Option Nat × Option Nat))
    (tr : Nat → Nat → Rat) (a b : Nat) :
    gramCoeff (C18S.nablaRowWeight cotan dw) (C18S.nablaRows U order true edges tr) a b
      = cconj (gramCoeff (C18S.nablaRowWeight cotan dw) (C18S.nablaRows U order true edges tr) b a) := by
  rw [bridge_laplacian_triangles, bridge_laplacian_triangles]
  apply Mouette.Props.C18.connection_laplacian_hermitian
  intro e he
  unfold triEntriesM at he
  obtain ⟨it, _, hit⟩ := List.mem_filterMap.mp he
  rcases it with ⟨i, t1, t2⟩
  cases t1 with
  | none => simp at hit
  | some T1 =>
    cases t2 with
    | none => simp at hit
    | some T2 =>
      simp only [] at hit
      injection hit with h
      rw [← h]
      exact entryFace_herm _ _ _ _

/-- `SurfaceConnectionFaces._initialize`, basis loop: as soon as a face has a feature side, the triple handed to `face_basis` STARTS on a feature
side — the X axis of its basis is along a feature edge (which is what makes the constraint `(c/|c|)**4` of `_initialize_variables` real) -/
theorem source_connection_faces_basis_on_feature (isFeat : Nat → Nat → Bool) (it : Nat × Nat × Nat × Nat)
    (h : isFeat it.2.1 it.2.2.1 = true ∨ isFeat it.2.2.1 it.2.2.2 = true ∨ isFeat it.2.2.2 it.2.1 = true) :
    isFeat (C18S.connFacesTriple isFeat it).1 (C18S.connFacesTriple isFeat it).2.1 = true := connFacesTriple_feature isFeat it h

/-- … and a face without feature side keeps its own triple -/
theorem source_connection_faces_basis_plain (isFeat : Nat → Nat → Bool) (it : Nat × Nat × Nat × Nat)
    (h1 : isFeat it.2.1 it.2.2.1 = false) (h2 : isFeat it.2.2.1 it.2.2.2 = false) (h3 : isFeat it.2.2.2 it.2.1 = false) :
    C18S.connFacesTriple isFeat it = (it.2.1, it.2.2.1, it.2.2.2) := by
  unfold C18S.connFacesTriple; simp [h1, h2, h3]

/-- transport loop: the dict is the directed-rotation dict of the edge list `(T1, T2, angle1 − angle2)` -/
theorem bridge_connection_faces_transport (interior : List (Nat × Nat × Nat)) (ang : Nat → Nat → Rat) :
    C18S.connFacesTransport interior ang
      = dictOfM (interior.map (fun it => ({ a := it.2.1, b := it.2.2, r := ang it.1 it.2.1 - ang it.1 it.2.2 } : FFV.RE))) :=
  connFacesTransport_bridge interior ang

/-- hence on a well-formed dual edge list (no face adjacent to itself, no pair of faces sharing two listed edges) the translated transports are
ANTISYMMETRIC: `transport(T2,T1) = −transport(T1,T2)` — the hypothesis under which the face operator's phases are conjugate -/
theorem source_connection_faces_transport_antisymmetric (interior : List (Nat × Nat × Nat)) (ang : Nat → Nat → Rat)
    (hu : FFV.uniqueEdges (interior.map (fun it => ({ a := it.2.1, b := it.2.2, r := ang it.1 it.2.1 - ang it.1 it.2.2 } : FFV.RE))) = true)
    (hne : ∀ it ∈ interior, it.2.1 ≠ it.2.2) (u v : Nat) :
    C18S.connFacesTransport interior ang v u = -(C18S.connFacesTransport interior ang u v) := by
  rw [connFacesTransport_bridge, dictOfM_eq_rotD _ hu, dictOfM_eq_rotD _ hu]
  apply rotD_antisymm
  intro e he
  obtain ⟨it, hit, rfl⟩ := List.mem_map.mp he
  exact hne it hit

/-- `SurfaceConnectionVertices._initialize`, ring loop at an ordinary vertex: the first neighbour of the ring (the one the basis is built on) gets
the transport `ang·2π/total` of the running sum it is entered with — 0 in `connVertsTransport` — and the second one the rescaled first corner angle -/
theorem source_connection_vertices_ring (total : Nat → Rat) (ca : Nat → Nat → Option Rat) (u v0 v1 : Nat) (rest : List Nat) (d : Dict)
    (h0 : v0 ∉ v1 :: rest) (h1 : v1 ∉ rest) :
    C18S.connVertsRingInterior total ca u (v0 :: v1 :: rest) d 0 u v0 = 0 ∧
    C18S.connVertsRingInterior total ca u (v0 :: v1 :: rest) d 0 u v1 = (ca u v0).getD 0 / total u := by
  constructor
  · rw [ringInterior_first total ca u v0 (v1 :: rest) d 0 h0]; simp
  · rw [ringInterior_second total ca u v0 v1 rest d 0 h1]
    have : (((0 : Rat) + (ca u v0).getD 0) * 2) * (1 / 2) = (ca u v0).getD 0 := by ring
    rw [this]

/-- `export_as_mesh` (both fields): every edge of the exported poly-line joins two of the `(order+1)·n` vertices appended (centre + `order` branch tips
per element; centre `n·i`, tips `n·i + k`, `1 ≤ k ≤ order`) -/
theorem source_export_faces_edges_in_range (order n : Nat) :
    ∀ e ∈ C18S.exportFacesEdges order n, e.1 < C18S.exportFacesVerticesPer order * n ∧ e.2 < C18S.exportFacesVerticesPer order * n := by
  unfold C18S.exportFacesEdges C18S.exportFacesVerticesPer
  apply exportEdges_mem order n _ (1 + order)
  intro i e he
  simp only [List.mem_map, List.mem_range'_1] at he
  obtain ⟨k, hk, rfl⟩ := he
  simp only []
  have hk2 : k < order + 1 := by omega
  have hexp : (1 + order) * (i + 1) = (order + 1) * i + (order + 1) := by ring
  constructor
  · rw [hexp]; exact Nat.lt_add_of_pos_right (by omega)
  · rw [hexp]; exact Nat.add_lt_add_left hk2 _

theorem source_export_vertices_edges_in_range (order n : Nat) (rv : Bool) :
    ∀ e ∈ C18S.exportVertsEdges order n rv, e.1 < C18S.exportVertsVerticesPer order rv * n ∧ e.2 < C18S.exportVertsVerticesPer order rv * n := by
  unfold C18S.exportVertsEdges C18S.exportVertsVerticesPer
  cases rv
  · simp only [Bool.false_eq_true, if_false]
    apply exportEdges_mem order n _ (1 + order)
    intro i e he
    simp only [List.mem_map, List.mem_range'_1] at he
    obtain ⟨k, hk, rfl⟩ := he
    simp only []
    have hk2 : k < order + 1 := by omega
    have hexp : (1 + order) * (i + 1) = (order + 1) * i + (order + 1) := by ring
    constructor
    · rw [hexp]; exact Nat.lt_add_of_pos_right (by omega)
    · rw [hexp]; exact Nat.add_lt_add_left hk2 _
  · simp only [if_true]
    apply exportEdges_mem order n _ 2
    intro i e he
    simp only [List.mem_singleton] at he
    subst he
    simp only []
    constructor <;> omega

/-! ## round 7: the ring loops of `SurfaceConnectionVertices._initialize` in closed form, and their closure -/

/-- on a duplicate-free ring the transport the FEATURE loop writes for neighbour `w` is `(ang₀ + Σ corner angles met before w) · dfct / total_angle[u]` -/
theorem source_connection_vertices_feature_closed_form (total : Nat → Rat) (ca : Nat → Nat → Option Rat) (u w : Nat) (dfct : Rat) (ring : List Nat)
    (d : Dict) (a : Rat) (hnd : ring.Nodup) (hw : w ∈ ring) :
    C18S.connVertsRingFeature total ca u dfct ring d a u w = ((a + prefixBefore ca u ring w) * dfct) / total u := by
  rw [ringFeature_eq]; exact ringF_closed_form total ca u w dfct ring (d, a) hnd hw

/-- same for an ordinary vertex with `2π` in place of `dfct` -/
theorem source_connection_vertices_interior_closed_form (total : Nat → Rat) (ca : Nat → Nat → Option Rat) (u w : Nat) (ring : List Nat)
    (d : Dict) (a : Rat) (hnd : ring.Nodup) (hw : w ∈ ring) :
    C18S.connVertsRingInterior total ca u ring d a u w = (((a + prefixBefore ca u ring w) * 2) * (1 / 2)) / total u := by
  rw [ringInterior_eq]; exact ringI_closed_form total ca u w ring (d, a) hnd hw

/-- **feature ring closes on the prescribed defect, at loop level**: when the corner angles met on the ring add up to `total_angle[u]`, the transport
of the LAST neighbour plus its own rescaled corner angle is exactly `dfct = corners·2π/order` — the fan of a feature vertex is flattened onto the
multiple of `2π/order` the feature detector prescribes (so the constraint directions of the feature edges at `u` agree up to the frame symmetry) -/
theorem source_connection_vertices_feature_ring_closes (total : Nat → Rat) (ca : Nat → Nat → Option Rat) (u w : Nat) (dfct : Rat) (pre : List Nat)
    (d : Dict) (hnd : (pre ++ [w]).Nodup) (ht : total u ≠ 0) (hsum : sumAngles ca u (pre ++ [w]) = total u) :
    C18S.connVertsRingFeature total ca u dfct (pre ++ [w]) d 0 u w + ((ca u w).getD 0 * dfct) / total u = dfct := by
  have hw : w ∉ pre := by
    intro hm
    have := (List.nodup_append.mp hnd).2.2 w hm w (by simp)
    exact this rfl
  rw [source_connection_vertices_feature_closed_form total ca u w dfct (pre ++ [w]) d 0 hnd (by simp), prefixBefore_last ca u w pre hw]
  have hs : sumAngles ca u (pre ++ [w]) = sumAngles ca u pre + (ca u w).getD 0 := by
    unfold sumAngles; simp
  rw [hs] at hsum
  field_simp
  linear_combination dfct * hsum

/-- an ordinary ring closes on one full turn -/
theorem source_connection_vertices_interior_ring_closes (total : Nat → Rat) (ca : Nat → Nat → Option Rat) (u w : Nat) (pre : List Nat)
    (d : Dict) (hnd : (pre ++ [w]).Nodup) (ht : total u ≠ 0) (hsum : sumAngles ca u (pre ++ [w]) = total u) :
    C18S.connVertsRingInterior total ca u (pre ++ [w]) d 0 u w + (ca u w).getD 0 / total u = 1 := by
  have hw : w ∉ pre := by
    intro hm
    have := (List.nodup_append.mp hnd).2.2 w hm w (by simp)
    exact this rfl
  rw [source_connection_vertices_interior_closed_form total ca u w (pre ++ [w]) d 0 hnd (by simp), prefixBefore_last ca u w pre hw]
  have hs : sumAngles ca u (pre ++ [w]) = sumAngles ca u pre + (ca u w).getD 0 := by
    unfold sumAngles; simp
  rw [hs] at hsum
  field_simp
  linear_combination hsum

/-! ## round 7: `_initialize_attributes` of both fields, the flat face connection -/

/-- face-based field, nothing customised: the feature set is the default detector with `only_border = not features`, and the connection is built
ON THAT SAME feature set (so that `source_connection_faces_basis_on_feature` speaks about the field's own feature edges); the mesh's `cotan`
attribute is NOT refreshed by this call (`persistent=False`: the face operator reads the mesh cache as it is) -/
theorem source_initialize_attributes_faces_default {F C : Type} (detect : Bool → F) (connect : Option F → C) (features : Bool) :
    C18S.initializeAttributesFaces detect connect features { feat := none, conn := none, cotOnMesh := true }
      = { feat := some (detect (!features)), conn := some (connect (some (detect (!features)))), cotOnMesh := false } := rfl

/-- a custom feature set / connection handed to the constructor is kept, and a default connection is built on the custom feature set -/
theorem source_initialize_attributes_faces_custom {F C : Type} (detect : Bool → F) (connect : Option F → C) (features : Bool) (f : F) (c : C) (b : Bool) :
    (C18S.initializeAttributesFaces detect connect features { feat := some f, conn := none, cotOnMesh := b }).conn = some (connect (some f)) ∧
    (C18S.initializeAttributesFaces detect connect features { feat := some f, conn := some c, cotOnMesh := b }).conn = some c ∧
    (C18S.initializeAttributesFaces detect connect features { feat := some f, conn := some c, cotOnMesh := b }).feat = some f := ⟨rfl, rfl, rfl⟩

/-- vertex-based field: default detector with `only_border = not features` AND `corner_order = order`, connection built on it, and the mesh's `cotan`
attribute IS refreshed (`cotangent(mesh)` persistent) — what `operators.laplacian` reads in `optimize` is the cotangent of the CURRENT geometry -/
theorem source_initialize_attributes_vertices_default {F C : Type} (detect : Bool → Nat → F) (order : Nat) (connect : Option F → C) (features b : Bool) :
    C18S.initializeAttributesVerts detect order connect features { feat := none, conn := none, cotOnMesh := b }
      = { feat := some (detect (!features) order), conn := some (connect (some (detect (!features) order))), cotOnMesh := true } := rfl

/-- the defect loop: `defect[v]` is the sum of the corner angles of the corners at `v` -/
theorem source_initialize_attributes_vertices_defect (nV : Nat) (corners : List Nat) (angles : Nat → Rat) (v : Nat) (hv : v < nV) :
    (C18S.defectSumsVerts nV corners angles).getD v 0
      = ((List.zip (List.range corners.length) corners).map (fun it => if it.2 = v then angles it.1 else 0)).sum := by
  unfold C18S.defectSumsVerts
  rw [defect_fold angles v _ _ (by simpa using hv)]
  simp [List.getD, hv]

/-- **flat connection reduces to the scalar operator, at source level (faces)**: with the transports of `FlatConnectionFaces` the rows of `Nabla` the
connection branch writes are the rows of the scalar branch (given only `U 0 = 1`), so the returned product is the scalar Laplacian on faces -/
theorem source_laplacian_triangles_flat (U : Rat → Cpx) (hU0 : U 0 = cone) (order : Nat) (edges : List (Nat × Option Nat × Option Nat)) (tr : Nat → Nat → Rat) :
    C18S.nablaRows U order true edges C18S.flatFacesTransport = C18S.nablaRows U order false edges tr := by
  unfold C18S.nablaRows C18S.flatFacesTransport
  congr 1
  funext acc it
  rcases it with ⟨i, t1, t2⟩
  cases t1 <;> cases t2 <;> simp [hU0]

/-! ## round 8: `cotan_edge_diagonal`, the flat connection on vertices, the options the constructors read -/

/-- the vertex whose cotangent is taken is the THIRD vertex of the face: for two distinct positions of a triangle, `3 - iu - iv` is the remaining one -/
theorem source_cotan_opposite_slot : ∀ iu < 3, ∀ iv < 3, iu ≠ iv →
    C18S.oppositeSlot iu iv < 3 ∧ C18S.oppositeSlot iu iv ≠ iu ∧ C18S.oppositeSlot iu iv ≠ iv := by decide

/-- interior edge with a non-degenerate positive cotangent sum: the (inverse) weight is `1/(cot a + cot b)`, positive and at most `1e8` -/
theorem source_cotan_edge_weight_regular (c1 c2 : Rat) (h : (1 : Rat) / 100000000 ≤ c1 + c2) :
    C18S.cotanEdgeWeight true (some c1) (some c2) = 1 / (c1 + c2) ∧ 0 < C18S.cotanEdgeWeight true (some c1) (some c2)
      ∧ C18S.cotanEdgeWeight true (some c1) (some c2) ≤ 100000000 := by
  have hpos : (0 : Rat) < c1 + c2 := lt_of_lt_of_le (by norm_num) h
  have hr : ¬ rabs (c1 + c2) < (1 : Rat) / 100000000 := by
    unfold rabs
    rw [if_neg (not_lt.mpr (le_of_lt hpos))]
    exact not_lt.mpr h
  have hw : C18S.cotanEdgeWeight true (some c1) (some c2) = 1 / (c1 + c2) := by
    unfold C18S.cotanEdgeWeight
    simp only [if_true]
    rw [if_neg hr]
  refine ⟨hw, ?_, ?_⟩
  · rw [hw]; exact div_pos one_pos hpos
  · rw [hw, div_le_iff₀ hpos]; nlinarith

/-- degenerate sum: the weight is capped at `1e8` instead of dividing by (almost) zero; border side: its cotangent counts as 0 -/
theorem source_cotan_edge_weight_degenerate (c1 c2 : Option Rat) (h : rabs (c1.getD 0 + c2.getD 0) < (1 : Rat) / 100000000) :
    C18S.cotanEdgeWeight true c1 c2 = 100000000 := by
  unfold C18S.cotanEdgeWeight
  cases c1 <;> cases c2 <;> simp only [Option.getD] at h <;> simp only [if_true] <;> rw [if_pos h]

/-- the diagonal handed to the translated `laplacian_triangles` as its row weights `dw` IS this function, edge by edge -/
theorem source_laplacian_triangles_row_weight (edges : List (Option Rat × Option Rat)) (ie : Nat) :
    C18S.nablaRowWeight true (fun e => (C18S.cotanEdgeDiagonal true edges).getD e 0) ie
      = ((edges.map (fun e => C18S.cotanEdgeWeight true e.1 e.2)).getD ie 0) := rfl

theorem csmul_cone (v : Rat) : csmul v cone = ofReal v := by unfold csmul cone ofReal; ext <;> simp

/-- **flat connection reduces to the scalar operator, at source level (vertices)**: when reversing an edge turns its direction angle by half a turn (up to
whole turns) — which is what `FlatConnectionVertices.transport` = `arctan2` of the planar edge direction does — every phase `order·(t_ij − t_ji − π)` is a whole
number of turns, `U` of it is 1, and the triplets of the connection branch ARE the triplets of the scalar branch -/
theorem source_laplacian_vertices_flat (U : Rat → Cpx) (hU : UnitContract U) (hU0 : U 0 = cone) (order : Nat) (cotan : Bool)
    (faces : List (Nat × Nat × Nat × Nat)) (cot : Nat → Nat → Rat) (dir : Nat → Nat → Rat)
    (hflat : ∀ i j, ∃ k : Int, C18S.flatVertsTransport dir i j - C18S.flatVertsTransport dir j i - 1 / 2 = (k : Rat)) :
    C18S.laplacianTriplets U order cotan true faces cot (C18S.flatVertsTransport dir)
      = C18S.laplacianTriplets U order cotan false faces cot (C18S.flatVertsTransport dir) := by
  have hphase : ∀ i j, U ((order : Rat) * ((C18S.flatVertsTransport dir i j - C18S.flatVertsTransport dir j i) - (1 : Rat) / 2)) = cone := by
    intro i j
    obtain ⟨k, hk⟩ := hflat i j
    rw [hk]
    have : (order : Rat) * (k : Rat) = 0 + (((order : Int) * k : Int) : Rat) := by push_cast; ring
    rw [this, hU.period, hU0]
  unfold C18S.laplacianTriplets
  simp only [List.foldl_cons, List.foldl_nil, if_true, Bool.false_eq_true, if_false, hphase, csmul_cone]

/-- every option the harness passes explicitly (so that no default is quantified over) is an option the constructors read -/
theorem source_ctor_options_cover_harness :
    (∀ o ∈ ["use_cotan", "n_smooth", "smooth_attach_weight", "custom_features"], o ∈ C18S.ctorOptionsFaces.map Prod.fst) ∧
    (∀ o ∈ ["use_cotan", "n_smooth", "smooth_attach_weight", "custom_features", "cad_correction"], o ∈ C18S.ctorOptionsVerts.map Prod.fst) ∧
    "order" ∈ C18S.ctorOptionsFacesPositional ∧ "order" ∈ C18S.ctorOptionsVertsPositional := by decide

/-! ## non-vacuity -/
section examples
/-- a toy `Num`: exact moduli on the few values used below; the "solver" of a 1×1 unit system -/
def toyNum : Num :=
  { abs := fun z => if z = ((3 : Rat), (4 : Rat)) then 5 else if z = ((1 : Rat), (0 : Rat)) then 1 else if z = ((0 : Rat), (1 : Rat)) then 1 else 0,
    spsolve := fun _ b => b,
    ipm := fun n _ _ => List.replicate n cone }

/-- two faces, face 0 carries a feature edge, `L = [[1,-1],[-1,1]]` -/
def toyIn : OptIn :=
  { n := 2, nSmooth := 0, alpha := 1, nFeatV := 2, featV := [0], featAdj := [(some 0, none)],
    lap := fun i j => if i = j then cone else cneg cone, area := fun i j => if i = j then cone else czero }

example : C18S.normalize toyNum [((3 : Rat), (4 : Rat)), czero] = [((3 : Rat) / 5, (4 : Rat) / 5), czero] := by decide +kernel
example : freeOf 2 (fixedFlagsFaces 2 [(some 0, none)]) = [1] ∧ fixedOf 2 (fixedFlagsFaces 2 [(some 0, none)]) = [0] := by decide +kernel
example : SolvedExactly toyNum toyIn.lap [1] [0] [cone, czero] := by unfold SolvedExactly; decide +kernel
example : C18S.optimizeFaces toyNum toyIn [cone, czero] = [cone, cone] := by decide +kernel
example : C18S.optimizeVerts toyNum toyIn [cone, czero] = [cone, cone] := by decide +kernel
example : harmonicAt toyIn.lap [1] [0] (asFun [cone, cone]) 1 := by unfold harmonicAt; decide +kernel
example : C18S.initVariablesFaces toyNum 4 2 (fun _ _ => ((0 : Rat), (1 : Rat))) [{ id := 0, adj := [some 1, none] }] = [czero, cone] := by decide +kernel
example : (C18S.run (fun n : Nat => n + 1) (fun n => n * 2) (C18S.fresh 3)).data = 8 := by decide +kernel
def toyFlag : FlagFacesIn :=
  { order := 4, nV := 3, edges := [(some 0, some 1), (some 0, none)], theta := fun T => if T = 0 then 0 else 1 / 8,
    ang := fun _ _ => 0, defect := fun v => if v = 2 then 1 / 4 else 0, vertexEdges := fun v => if v = 2 then [0] else [],
    otherEnd := fun _ _ => 1, thrTurns := 1 / 6000 }
example : C18S.flagEdgeRotFaces toyFlag (some [(5, 1)]) = [(0, 1 / 32)] := by decide +kernel
example : C18S.flagSingulsFaces toyFlag [(0, 1 / 32)] none = [(2, 9 / 8)] := by decide +kernel
def toyFlagV : FlagVertsIn :=
  { order := 4, edges := [(0, 0, 1), (1, 1, 2), (2, 0, 2)], faces := [(0, 0, 1, 2)], theta := fun v => if v = 2 then 1 / 3 else 0,
    tr := fun a b => if a < b then 0 else 1 / 2, curv := fun _ => 1 / 16, thrTurns := 1 / 600 }
example : FFV.uniqueEdges (resM toyFlagV) = true := by decide +kernel
example : (C18S.flagEdgeRotVerts toyFlagV none).2 = [(0, 0), (1, -1 / 12), (2, -1 / 12)] := by decide +kernel
example : C18S.flagSingulsVerts toyFlagV (C18S.flagEdgeRotVerts toyFlagV none).1 (some [(7, 1)]) = [(0, 1)] := by decide +kernel
example : C18S.initVariablesVerts toyNum 2 false (fun _ _ => cone) (fun a b => if a < b then cone else ((0 : Rat), (1 : Rat)))
    [{ id := 0, a := 0, b := 1 }] [0, 1] (List.replicate 3 czero) = [cone, cneg cone, czero] := by decide +kernel
example : C18S.connFacesTriple (fun u v => u == 7 && v == 5) (0, 5, 6, 7) = (7, 5, 6) := by decide +kernel
example : C18S.connFacesTransport [(0, 3, 4)] (fun _ T => if T = 3 then 1 / 8 else 1 / 3) 4 3 = 5 / 24 := by decide +kernel
example : C18S.exportFacesEdges 2 2 = [(0, 1), (0, 2), (3, 4), (3, 5)] := by decide +kernel
example : (C18S.laplacianTriplets (fun _ => cone) 4 false true [(0, 0, 1, 2)] (fun _ _ => 0) (fun _ _ => 0)).length = 12 := by decide +kernel
example : (C18S.nablaRows (fun _ => cone) 4 true [(0, some 0, some 1), (1, some 0, none)] (fun _ _ => 0)).length = 1 := by decide +kernel
example : C18S.connVertsTransport 1 (fun _ => [2, 1]) (fun _ => false) (fun _ => 0) 4 (fun _ => 1) (fun _ v => if v = 1 then some (1 / 4) else some (3 / 4)) 0 2 = 1 / 4 := by decide +kernel
example : C18S.connVertsRingFeature (fun _ => 1) (fun _ v => if v = 5 then some (1 / 4) else some (3 / 4)) 0 (1 / 2) [5, 6] (fun _ _ => 0) 0 0 6
    + ((3 : Rat) / 4 * (1 / 2)) / 1 = 1 / 2 := by decide +kernel
example : C18S.defectSumsVerts 3 [0, 1, 2, 0, 2, 1] (fun i => (i : Rat)) = [3, 6, 6] := by decide +kernel
example : C18S.cotanEdgeDiagonal true [(some 1, some 1), (some 1, none), (some 0, some 0)] = [1 / 2, 1, 100000000] := by decide +kernel
example : C18S.cotanEdgeWeight false (some 1) none = 1 := by decide +kernel
end examples

end Mouette.Props.C18Source
