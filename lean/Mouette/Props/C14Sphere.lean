import Mouette.Props.C14Oriented
/-!
# C14 (continued) — the uv sphere is a closed, consistently oriented surface for ALL (n_lat ≥ 1, n_long ≥ 3)

Faces are addressed (`SF`: top fan, bottom fan, quad rows); `sphere_uvFaces_eq` ties the addressed faces to the
translated loop nest of `sphere_uv`. `sphere_oriented`: a directed edge lies in at most one face;
`sphere_closed`: every directed edge has its opposite in some face.
-/
namespace Mouette.Props.C14
open Mouette.Generated.C14 Mouette.MeshCheck Mouette.ListCount

/-- rows of `b` consecutive indices: equal rows or disjoint blocks -/
theorem row_tri (b r1 r2 : Nat) : (r1 = r2 ∧ r1 * b = r2 * b) ∨ r1 * b + b ≤ r2 * b ∨ r2 * b + b ≤ r1 * b := by
  rcases Nat.lt_trichotomy r1 r2 with h | h | h
  · right; left
    have := Nat.mul_le_mul_right b (show r1 + 1 ≤ r2 by omega); rw [Nat.succ_mul] at this; exact this
  · left; exact ⟨h, by rw [h]⟩
  · right; right
    have := Nat.mul_le_mul_right b (show r2 + 1 ≤ r1 by omega); rw [Nat.succ_mul] at this; exact this

/-- faces of the uv sphere, addressed: top fan, bottom fan, quad rows -/
inductive SF where
  | top (i : Nat) | bot (i : Nat) | quad (j i : Nat)

def sphFace (a b : Nat) : SF → List Nat
  | .top i => [i + 1, 0, (i + 1) % b + 1]
  | .bot i => [a * b + 1, i + (a - 1) * b + 1, (i + 1) % b + (a - 1) * b + 1]
  | .quad j i => [j * b + 1 + i, j * b + 1 + (i + 1) % b, (j + 1) * b + 1 + (i + 1) % b, (j + 1) * b + 1 + i]

def SF.ok (a b : Nat) : SF → Prop
  | .top i => i < b | .bot i => i < b | .quad j i => j + 1 < a ∧ i < b

theorem sphere_oriented (a b : Nat) (ha : 1 ≤ a) (hb : 3 ≤ b) (f g : SF) (hf : f.ok a b) (hg : g.ok a b)
    (e : Nat × Nat) (h1 : e ∈ sides (sphFace a b f)) (h2 : e ∈ sides (sphFace a b g)) : f = g := by
  obtain ⟨p, q⟩ := e
  have hab : (a - 1) * b + b = a * b := by
    obtain ⟨a', rfl⟩ : ∃ a', a = a' + 1 := ⟨a - 1, by omega⟩
    rw [Nat.add_sub_cancel, Nat.succ_mul]
  cases f with
  | top i =>
    have a1 := succ_mod_cases b i hf
    cases g with
    | top i' =>
      have a2 := succ_mod_cases b i' hg
      simp only [sphFace, sides_tri, List.mem_cons, Prod.mk.injEq, List.mem_nil_iff, or_false] at h1 h2
      rcases h1 with ⟨rfl, rfl⟩ | ⟨rfl, rfl⟩ | ⟨rfl, rfl⟩ <;> rcases h2 with ⟨e1, e2⟩ | ⟨e1, e2⟩ | ⟨e1, e2⟩ <;>
        (first | (exfalso; omega) | (congr 1; omega))
    | bot i' =>
      have a2 := succ_mod_cases b i' hg
      simp only [sphFace, sides_tri, List.mem_cons, Prod.mk.injEq, List.mem_nil_iff, or_false] at h1 h2
      rcases h1 with ⟨rfl, rfl⟩ | ⟨rfl, rfl⟩ | ⟨rfl, rfl⟩ <;> rcases h2 with ⟨e1, e2⟩ | ⟨e1, e2⟩ | ⟨e1, e2⟩ <;>
        (exfalso; omega)
    | quad j' i' =>
      have a2 := succ_mod_cases b i' hg.2
      have t1 := row_tri b j' 0
      have t2 := row_tri b (j' + 1) 0
      have e0 : (j' + 1) * b = j' * b + b := Nat.succ_mul j' b
      simp only [sphFace, sides_tri, sides_quad, List.mem_cons, Prod.mk.injEq, List.mem_nil_iff, or_false] at h1 h2
      rcases h1 with ⟨rfl, rfl⟩ | ⟨rfl, rfl⟩ | ⟨rfl, rfl⟩ <;> rcases h2 with ⟨e1, e2⟩ | ⟨e1, e2⟩ | ⟨e1, e2⟩ | ⟨e1, e2⟩ <;>
        (exfalso; omega)
  | bot i =>
    have a1 := succ_mod_cases b i hf
    cases g with
    | top i' =>
      have a2 := succ_mod_cases b i' hg
      simp only [sphFace, sides_tri, List.mem_cons, Prod.mk.injEq, List.mem_nil_iff, or_false] at h1 h2
      rcases h1 with ⟨rfl, rfl⟩ | ⟨rfl, rfl⟩ | ⟨rfl, rfl⟩ <;> rcases h2 with ⟨e1, e2⟩ | ⟨e1, e2⟩ | ⟨e1, e2⟩ <;>
        (exfalso; omega)
    | bot i' =>
      have a2 := succ_mod_cases b i' hg
      simp only [sphFace, sides_tri, List.mem_cons, Prod.mk.injEq, List.mem_nil_iff, or_false] at h1 h2
      rcases h1 with ⟨rfl, rfl⟩ | ⟨rfl, rfl⟩ | ⟨rfl, rfl⟩ <;> rcases h2 with ⟨e1, e2⟩ | ⟨e1, e2⟩ | ⟨e1, e2⟩ <;>
        (first | (exfalso; omega) | (congr 1; omega))
    | quad j' i' =>
      have a2 := succ_mod_cases b i' hg.2
      have t1 := row_tri b j' (a - 1)
      have t2 := row_tri b (j' + 1) (a - 1)
      have e0 : (j' + 1) * b = j' * b + b := Nat.succ_mul j' b
      have hg1 := hg.1
      simp only [sphFace, sides_tri, sides_quad, List.mem_cons, Prod.mk.injEq, List.mem_nil_iff, or_false] at h1 h2
      rcases h1 with ⟨rfl, rfl⟩ | ⟨rfl, rfl⟩ | ⟨rfl, rfl⟩ <;> rcases h2 with ⟨e1, e2⟩ | ⟨e1, e2⟩ | ⟨e1, e2⟩ | ⟨e1, e2⟩ <;>
        (exfalso; omega)
  | quad j i =>
    have a1 := succ_mod_cases b i hf.2
    have e0 : (j + 1) * b = j * b + b := Nat.succ_mul j b
    have hf1 := hf.1
    cases g with
    | top i' =>
      have a2 := succ_mod_cases b i' hg
      have t1 := row_tri b j 0
      simp only [sphFace, sides_tri, sides_quad, List.mem_cons, Prod.mk.injEq, List.mem_nil_iff, or_false] at h1 h2
      rcases h1 with ⟨rfl, rfl⟩ | ⟨rfl, rfl⟩ | ⟨rfl, rfl⟩ | ⟨rfl, rfl⟩ <;> rcases h2 with ⟨e1, e2⟩ | ⟨e1, e2⟩ | ⟨e1, e2⟩ <;>
        (exfalso; omega)
    | bot i' =>
      have a2 := succ_mod_cases b i' hg
      have t1 := row_tri b j (a - 1)
      have t2 := row_tri b (j + 1) (a - 1)
      simp only [sphFace, sides_tri, sides_quad, List.mem_cons, Prod.mk.injEq, List.mem_nil_iff, or_false] at h1 h2
      rcases h1 with ⟨rfl, rfl⟩ | ⟨rfl, rfl⟩ | ⟨rfl, rfl⟩ | ⟨rfl, rfl⟩ <;> rcases h2 with ⟨e1, e2⟩ | ⟨e1, e2⟩ | ⟨e1, e2⟩ <;>
        (exfalso; omega)
    | quad j' i' =>
      have a2 := succ_mod_cases b i' hg.2
      have e0' : (j' + 1) * b = j' * b + b := Nat.succ_mul j' b
      have t1 := row_tri b j j'
      have t2 := row_tri b (j + 1) j'
      have t3 := row_tri b j (j' + 1)
      simp only [sphFace, sides_quad, List.mem_cons, Prod.mk.injEq, List.mem_nil_iff, or_false] at h1 h2
      rcases h1 with ⟨rfl, rfl⟩ | ⟨rfl, rfl⟩ | ⟨rfl, rfl⟩ | ⟨rfl, rfl⟩ <;> rcases h2 with ⟨e1, e2⟩ | ⟨e1, e2⟩ | ⟨e1, e2⟩ | ⟨e1, e2⟩ <;>
        (first | (exfalso; omega) | (have : j = j' ∧ i = i' := by omega
                                     rw [this.1, this.2]))

/-- the translated loop nest lists exactly the addressed faces -/
theorem sphere_uvFaces_eq (a b : Nat) (ha : 1 ≤ a) :
    sphere_uvFaces a b = (List.range b).flatMap (fun i => [sphFace a b (.top i), sphFace a b (.bot i)]) ++
      (List.range (a - 1)).flatMap (fun j => (List.range b).flatMap (fun i => [sphFace a b (.quad j i)])) := by
  have hS : sphere_uvNVerts a b - 1 = a * b + 1 := by rw [sphere_uv_nverts]; rfl
  rw [sphere_uvFaces_norm]
  simp [sphere_uvFacesCanon, sphFace, hS, Nat.mul_comm b (a - 1)]

theorem sphere_closed (a b : Nat) (ha : 1 ≤ a) (hb : 1 ≤ b) (f : SF) (hf : f.ok a b) (p q : Nat)
    (h : (p, q) ∈ sides (sphFace a b f)) : ∃ g : SF, g.ok a b ∧ (q, p) ∈ sides (sphFace a b g) := by
  have hab : (a - 1) * b + b = a * b := by
    obtain ⟨a', rfl⟩ : ∃ a', a = a' + 1 := ⟨a - 1, by omega⟩
    rw [Nat.add_sub_cancel, Nat.succ_mul]
  cases f with
  | top i =>
    have b1 : (i + 1) % b < b := Nat.mod_lt _ (by omega)
    simp only [sphFace, sides_tri, List.mem_cons, Prod.mk.injEq, List.mem_nil_iff, or_false] at h
    rcases h with ⟨rfl, rfl⟩ | ⟨rfl, rfl⟩ | ⟨rfl, rfl⟩
    · exact ⟨.top (pm b i), pm_lt b i (by omega), by simp [sphFace, sides_tri, pm_succ b i hf]⟩
    · exact ⟨.top ((i + 1) % b), b1, by simp [sphFace, sides_tri]⟩
    · by_cases h1 : a = 1
      · subst h1
        exact ⟨.bot i, hf, by simp [sphFace, sides_tri]⟩
      · exact ⟨.quad 0 i, ⟨by omega, hf⟩, by simp [sphFace, sides_quad]; omega⟩
  | bot i =>
    have b1 : (i + 1) % b < b := Nat.mod_lt _ (by omega)
    simp only [sphFace, sides_tri, List.mem_cons, Prod.mk.injEq, List.mem_nil_iff, or_false] at h
    rcases h with ⟨rfl, rfl⟩ | ⟨rfl, rfl⟩ | ⟨rfl, rfl⟩
    · exact ⟨.bot (pm b i), pm_lt b i (by omega), by simp [sphFace, sides_tri, pm_succ b i hf]⟩
    · by_cases h1 : a = 1
      · subst h1
        exact ⟨.top i, hf, by simp [sphFace, sides_tri]⟩
      · refine ⟨.quad (a - 2) i, ⟨by omega, hf⟩, ?_⟩
        have e : a - 2 + 1 = a - 1 := by omega
        simp only [sphFace, sides_quad, e, List.mem_cons, Prod.mk.injEq, List.mem_nil_iff, or_false]
        right; right; left; constructor <;> omega
    · exact ⟨.bot ((i + 1) % b), b1, by simp [sphFace, sides_tri]⟩
  | quad j i =>
    have b1 : (i + 1) % b < b := Nat.mod_lt _ (by omega)
    obtain ⟨hj, hi⟩ := hf
    simp only [sphFace, sides_quad, List.mem_cons, Prod.mk.injEq, List.mem_nil_iff, or_false] at h
    rcases h with ⟨rfl, rfl⟩ | ⟨rfl, rfl⟩ | ⟨rfl, rfl⟩ | ⟨rfl, rfl⟩
    · by_cases h0 : j = 0
      · subst h0
        exact ⟨.top i, hi, by simp [sphFace, sides_tri]; omega⟩
      · refine ⟨.quad (j - 1) i, ⟨by omega, hi⟩, ?_⟩
        have e : j - 1 + 1 = j := by omega
        simp [sphFace, sides_quad, e]
    · exact ⟨.quad j ((i + 1) % b), ⟨hj, b1⟩, by simp [sphFace, sides_quad]⟩
    · by_cases h1 : j + 2 = a
      · refine ⟨.bot i, hi, ?_⟩
        have e : a - 1 = j + 1 := by omega
        simp only [sphFace, sides_tri, e, List.mem_cons, Prod.mk.injEq, List.mem_nil_iff, or_false]
        right; left; constructor <;> omega
      · exact ⟨.quad (j + 1) i, ⟨by omega, hi⟩, by simp [sphFace, sides_quad]⟩
    · exact ⟨.quad j (pm b i), ⟨hj, pm_lt b i (by omega)⟩, by simp [sphFace, sides_quad, pm_succ b i hi]⟩

end Mouette.Props.C14
