import Mouette.Props.C14Oriented
import Mouette.Props.C14Sphere
import Mouette.Props.C14Cylinder
import Mouette.Props.C14Rings
import Mouette.Lemmas.EdgeCount
/-!
# C14 (round 3) — Euler characteristic and border of the parametric families, for ALL admissible parameters

The face lists are the TRANSLATED terms (`Mouette.Generated.C14`), re-addressed as `A.map face` over a duplicate-free list
of addresses; `Lemmas/EdgeCount.two_numEdges` turns "directed sides pairwise distinct" (the `*_oriented` theorems) into
`2·E = Σ face sizes + #unmatched sides`, where `E = MeshCheck.numEdges` is the number of distinct undirected vertex pairs.

* torus (quads and triangles), M, N ≥ 3: no unmatched side, χ = V − E + F = 0;
* sphere_uv, n_lat ≥ 1, n_long ≥ 3: no unmatched side, χ = 2;
* cylinder, N ≥ 3: with caps no unmatched side, χ = 2; without caps exactly 2N unmatched sides, χ = 0, and the unmatched
  sides are the sides of two vertex-disjoint polygons of N vertices each (two border loops: an annulus);
* ring (closed and open) and flat_ring, n = N·n_cover ≥ 3: χ = 1, the unmatched sides are the sides of ONE polygon (a disk).
-/
namespace Mouette.Props.C14
open Mouette.Generated.C14 Mouette.MeshCheck Mouette.ListCount Mouette.EdgeCount

/-! ## torus -/

theorem torus_quad_noLoop (M N : Nat) (hM : 2 ≤ M) (hN : 2 ≤ N) (i j : Nat) (hi : i < M) (hj : j < N) (e : Nat × Nat)
    (h : e ∈ sides (torusQuad M N i j)) : e.1 ≠ e.2 := by
  obtain ⟨p, q⟩ := e
  simp only [torusQuad, sides_quad, List.mem_cons, Prod.mk.injEq, List.mem_nil_iff, or_false] at h
  have a1 := succ_mod_cases M i hi
  have a2 := succ_mod_cases N j hj
  have b1 : (i + 1) % M < M := Nat.mod_lt _ (by omega)
  have b2 : (j + 1) % N < N := Nat.mod_lt _ (by omega)
  intro heq
  simp only at heq
  rcases h with ⟨rfl, rfl⟩ | ⟨rfl, rfl⟩ | ⟨rfl, rfl⟩ | ⟨rfl, rfl⟩ <;>
  (have c1 := idx_inj (by assumption) (by assumption) heq
   omega)

/-- the three sides of a torus triangle are non-degenerate and pairwise distinct -/
theorem torus_tri_sides (M N : Nat) (hM : 2 ≤ M) (hN : 2 ≤ N) (i j : Nat) (k : Bool) (hi : i < M) (hj : j < N) :
    (sides (torusTri M N i j k)).Nodup ∧ ∀ e ∈ sides (torusTri M N i j k), e.1 ≠ e.2 := by
  have a1 := succ_mod_cases M i hi
  have a2 := succ_mod_cases N j hj
  have b1 : (i + 1) % M < M := Nat.mod_lt _ (by omega)
  have b2 : (j + 1) % N < N := Nat.mod_lt _ (by omega)
  have key : ∀ a b c d, b < N → d < N → (a ≠ c ∨ b ≠ d) → a * N + b ≠ c * N + d := by
    intro a b c d hb hd hne heq
    have := idx_inj hb hd heq; omega
  have k1 := key i j i ((j + 1) % N) hj b2 (by omega)
  have k2 := key i ((j + 1) % N) ((i + 1) % M) ((j + 1) % N) b2 b2 (by omega)
  have k3 := key ((i + 1) % M) ((j + 1) % N) ((i + 1) % M) j b2 hj (by omega)
  have k4 := key ((i + 1) % M) j i j hj hj (by omega)
  have k6 := key i ((j + 1) % N) ((i + 1) % M) j b2 hj (by omega)
  cases k <;>
  simp only [torusTri, sides_tri, List.nodup_cons, List.mem_cons, Prod.mk.injEq, List.mem_nil_iff, or_false,
    not_or, not_and, List.nodup_nil, and_true, not_false_eq_true, if_true, Bool.false_eq_true, if_false,
    forall_eq_or_imp, forall_eq, ne_eq] <;> omega

theorem torusFaces_addressed (M N : Nat) :
    torusFaces M N false = (grid2 M N).map (fun p => torusQuad M N p.1 p.2) ∧
    torusFaces M N true = (grid2b M N).map (fun p => torusTri M N p.1 p.2.1 p.2.2) := by
  rw [map_grid2 M N (fun i j => torusQuad M N i j), map_grid2b M N (fun i j k => torusTri M N i j k)]
  exact torusFaces_eq M N

/-- torus, quads: every directed side has its opposite (no border) and V − E + F = 0, for all M, N ≥ 3 -/
theorem torus_quads_euler (M N : Nat) (hM : 3 ≤ M) (hN : 3 ≤ N) :
    (dirEdges (torusFaces M N false)).Nodup ∧ numBorder (torusFaces M N false) = 0 ∧
    euler (torusNVerts M N false) (torusFaces M N false) = 0 := by
  rw [(torusFaces_addressed M N).1]
  have hor : ∀ a ∈ grid2 M N, ∀ b ∈ grid2 M N, ∀ e, e ∈ sides (torusQuad M N a.1 a.2) →
      e ∈ sides (torusQuad M N b.1 b.2) → a = b := by
    intro a ha b hb e h1 h2
    rw [mem_grid2] at ha hb
    have := torus_quads_oriented M N hM hN a.1 a.2 b.1 b.2 ha.1 ha.2 hb.1 hb.2 e h1 h2
    exact Prod.ext this.1 this.2
  have hs : ∀ a ∈ grid2 M N, (sides (torusQuad M N a.1 a.2)).Nodup := by
    intro a ha; rw [mem_grid2] at ha
    exact torus_quad_sides_nodup M N (by omega) (by omega) a.1 a.2 ha.1 ha.2
  have hl : ∀ a ∈ grid2 M N, ∀ e ∈ sides (torusQuad M N a.1 a.2), e.1 ≠ e.2 := by
    intro a ha e he; rw [mem_grid2] at ha
    exact torus_quad_noLoop M N (by omega) (by omega) a.1 a.2 ha.1 ha.2 e he
  have hb : numBorder ((grid2 M N).map (fun p => torusQuad M N p.1 p.2)) = 0 := by
    apply numBorder_closed
    apply closed_addressed
    intro a ha e he
    rw [mem_grid2] at ha
    obtain ⟨i', j', hi', hj', h⟩ := torus_quads_closed M N (by omega) (by omega) a.1 a.2 ha.1 ha.2 e.1 e.2 he
    exact ⟨(i', j'), (mem_grid2 M N _).mpr ⟨hi', hj'⟩, h⟩
  refine ⟨dirEdges_nodup_addressed _ _ (nodup_grid2 M N) hs hor, hb, ?_⟩
  apply euler_addressed _ _ _ (nodup_grid2 M N) hs hor hl 0 hb
  have : (List.map (fun a => (torusQuad M N a.1 a.2).length) (grid2 M N)) = (grid2 M N).map (fun _ => 4) := by
    apply List.map_congr_left; intro a _; rfl
  rw [this, sum_map_const, length_grid2, torus_nverts]
  push_cast; omega

/-- torus, triangulated: no border and V − E + F = 0, for all M, N ≥ 3 -/
theorem torus_tris_euler (M N : Nat) (hM : 3 ≤ M) (hN : 3 ≤ N) :
    (dirEdges (torusFaces M N true)).Nodup ∧ numBorder (torusFaces M N true) = 0 ∧
    euler (torusNVerts M N true) (torusFaces M N true) = 0 := by
  rw [(torusFaces_addressed M N).2]
  have hor : ∀ a ∈ grid2b M N, ∀ b ∈ grid2b M N, ∀ e, e ∈ sides (torusTri M N a.1 a.2.1 a.2.2) →
      e ∈ sides (torusTri M N b.1 b.2.1 b.2.2) → a = b := by
    intro a ha b hb e h1 h2
    rw [mem_grid2b] at ha hb
    have := torus_tris_oriented M N hM hN a.1 a.2.1 b.1 b.2.1 a.2.2 b.2.2 ha.1 ha.2 hb.1 hb.2 e h1 h2
    exact Prod.ext this.1 (Prod.ext this.2.1 this.2.2)
  have hs : ∀ a ∈ grid2b M N, (sides (torusTri M N a.1 a.2.1 a.2.2)).Nodup := by
    intro a ha; rw [mem_grid2b] at ha
    exact (torus_tri_sides M N (by omega) (by omega) a.1 a.2.1 a.2.2 ha.1 ha.2).1
  have hl : ∀ a ∈ grid2b M N, ∀ e ∈ sides (torusTri M N a.1 a.2.1 a.2.2), e.1 ≠ e.2 := by
    intro a ha; rw [mem_grid2b] at ha
    exact (torus_tri_sides M N (by omega) (by omega) a.1 a.2.1 a.2.2 ha.1 ha.2).2
  have hb : numBorder ((grid2b M N).map (fun p => torusTri M N p.1 p.2.1 p.2.2)) = 0 := by
    apply numBorder_closed
    apply closed_addressed
    intro a ha e he
    rw [mem_grid2b] at ha
    obtain ⟨i', j', k', hi', hj', h⟩ := torus_tris_closed M N (by omega) (by omega) a.1 a.2.1 a.2.2 ha.1 ha.2 e.1 e.2 he
    exact ⟨(i', j', k'), (mem_grid2b M N _).mpr ⟨hi', hj'⟩, h⟩
  refine ⟨dirEdges_nodup_addressed _ _ (nodup_grid2b M N) hs hor, hb, ?_⟩
  apply euler_addressed _ _ _ (nodup_grid2b M N) hs hor hl 0 hb
  have : (List.map (fun a => (torusTri M N a.1 a.2.1 a.2.2).length) (grid2b M N)) = (grid2b M N).map (fun _ => 3) := by
    apply List.map_congr_left; intro a _; unfold torusTri; cases a.2.2 <;> rfl
  rw [this, sum_map_const, length_grid2b, torus_nverts]
  push_cast; omega

/-! ## uv sphere -/

/-- addresses of the faces of `sphere_uv(a, b)`, in the order of the loop nest -/
def sphAddr (a b : Nat) : List SF :=
  (List.range b).flatMap (fun i => [SF.top i, SF.bot i]) ++ (grid2 (a - 1) b).map (fun p => SF.quad p.1 p.2)

theorem mem_sphAddr (a b : Nat) (f : SF) : f ∈ sphAddr a b ↔ f.ok a b := by
  simp only [sphAddr, List.mem_append, List.mem_flatMap, List.mem_range, List.mem_cons, List.mem_nil_iff, or_false,
    List.mem_map]
  cases f with
  | top i => simp [SF.ok]
  | bot i => simp [SF.ok]
  | quad j i =>
    simp only [SF.ok, reduceCtorEq, or_self, and_false, exists_false, false_or, SF.quad.injEq]
    constructor
    · rintro ⟨p, hp, rfl, rfl⟩
      rw [mem_grid2] at hp; omega
    · intro h; exact ⟨(j, i), (mem_grid2 _ _ _).mpr (by simp; omega), rfl, rfl⟩

theorem nodup_sphAddr (a b : Nat) : (sphAddr a b).Nodup := by
  unfold sphAddr
  rw [List.nodup_append]
  refine ⟨?_, ?_, ?_⟩
  · apply nodup_flatMap_of _ _ List.nodup_range
    · intro i _; simp
    · intro i _ i' _ x h1 h2
      simp only [List.mem_cons, List.mem_nil_iff, or_false] at h1 h2
      rcases h1 with rfl | rfl <;> rcases h2 with h | h <;> first | exact SF.top.inj h | exact SF.bot.inj h | cases h
  · rw [List.nodup_iff_pairwise_ne, List.pairwise_map]
    apply List.Pairwise.imp _ (nodup_grid2 (a - 1) b)
    intro p q hpq h
    exact hpq (Prod.ext (SF.quad.inj h).1 (SF.quad.inj h).2)
  · intro x hx y hy hxy
    subst hxy
    simp only [List.mem_flatMap, List.mem_range, List.mem_cons, List.mem_nil_iff, or_false, List.mem_map] at hx hy
    obtain ⟨i, _, rfl | rfl⟩ := hx <;> obtain ⟨p, _, h⟩ := hy <;> cases h

theorem length_sphAddr (a b : Nat) : (sphAddr a b).length = 2 * b + (a - 1) * b := by
  unfold sphAddr
  rw [List.length_append, List.length_map, length_grid2, length_flatMap_const _ _ 2]
  · simp; omega
  · intro i _; rfl

theorem sphere_uvFaces_addressed (a b : Nat) (ha : 1 ≤ a) : sphere_uvFaces a b = (sphAddr a b).map (sphFace a b) := by
  rw [sphere_uvFaces_eq a b ha]
  unfold sphAddr
  rw [List.map_append, List.map_flatMap, List.map_map]
  have e2 : (grid2 (a - 1) b).map (sphFace a b ∘ fun p : Nat × Nat => SF.quad p.1 p.2) =
      (List.range (a - 1)).flatMap fun j => (List.range b).flatMap fun i => [sphFace a b (.quad j i)] :=
    map_grid2 (a - 1) b (fun j i => sphFace a b (.quad j i))
  rw [e2]
  simp

theorem sph_face_sides (a b : Nat) (ha : 1 ≤ a) (hb : 3 ≤ b) (f : SF) (hf : f.ok a b) :
    (sides (sphFace a b f)).Nodup ∧ ∀ e ∈ sides (sphFace a b f), e.1 ≠ e.2 := by
  cases f with
  | top i =>
    have a1 := succ_mod_cases b i hf
    simp only [sphFace, sides_tri, List.nodup_cons, List.mem_cons, Prod.mk.injEq, List.mem_nil_iff, or_false,
      not_or, not_and, List.nodup_nil, and_true, not_false_eq_true, forall_eq_or_imp, forall_eq, ne_eq]
    omega
  | bot i =>
    have a1 := succ_mod_cases b i hf
    simp only [sphFace, sides_tri, List.nodup_cons, List.mem_cons, Prod.mk.injEq, List.mem_nil_iff, or_false,
      not_or, not_and, List.nodup_nil, and_true, not_false_eq_true, forall_eq_or_imp, forall_eq, ne_eq]
    have hab : (a - 1) * b + b = a * b := by
      obtain ⟨a', rfl⟩ : ∃ a', a = a' + 1 := ⟨a - 1, by omega⟩
      rw [Nat.add_sub_cancel, Nat.succ_mul]
    omega
  | quad j i =>
    have a1 := succ_mod_cases b i hf.2
    have e0 : (j + 1) * b = j * b + b := Nat.succ_mul j b
    simp only [sphFace, sides_quad, List.nodup_cons, List.mem_cons, Prod.mk.injEq, List.mem_nil_iff, or_false,
      not_or, not_and, List.nodup_nil, and_true, not_false_eq_true, forall_eq_or_imp, forall_eq, ne_eq]
    omega

/-- uv sphere: consistently oriented, closed, V − E + F = 2, for all n_lat ≥ 1, n_long ≥ 3 -/
theorem sphere_uv_euler (a b : Nat) (ha : 1 ≤ a) (hb : 3 ≤ b) :
    (dirEdges (sphere_uvFaces a b)).Nodup ∧ numBorder (sphere_uvFaces a b) = 0 ∧
    euler (sphere_uvNVerts a b) (sphere_uvFaces a b) = 2 := by
  rw [sphere_uvFaces_addressed a b ha]
  have hor : ∀ f ∈ sphAddr a b, ∀ g ∈ sphAddr a b, ∀ e, e ∈ sides (sphFace a b f) → e ∈ sides (sphFace a b g) → f = g := by
    intro f hf g hg e h1 h2
    rw [mem_sphAddr] at hf hg
    exact sphere_oriented a b ha hb f g hf hg e h1 h2
  have hs : ∀ f ∈ sphAddr a b, (sides (sphFace a b f)).Nodup :=
    fun f hf => (sph_face_sides a b ha hb f ((mem_sphAddr a b f).mp hf)).1
  have hl : ∀ f ∈ sphAddr a b, ∀ e ∈ sides (sphFace a b f), e.1 ≠ e.2 :=
    fun f hf => (sph_face_sides a b ha hb f ((mem_sphAddr a b f).mp hf)).2
  have hbd : numBorder ((sphAddr a b).map (sphFace a b)) = 0 := by
    apply numBorder_closed
    apply closed_addressed
    intro f hf e he
    rw [mem_sphAddr] at hf
    obtain ⟨g, hg, h⟩ := sphere_closed a b ha (by omega) f hf e.1 e.2 he
    exact ⟨g, (mem_sphAddr a b g).mpr hg, h⟩
  refine ⟨dirEdges_nodup_addressed _ _ (nodup_sphAddr a b) hs hor, hbd, ?_⟩
  apply euler_addressed _ _ _ (nodup_sphAddr a b) hs hor hl 0 hbd
  have hsum : (List.map (fun f => (sphFace a b f).length) (sphAddr a b)).sum = 3 * (2 * b) + 4 * ((a - 1) * b) := by
    unfold sphAddr
    rw [List.map_append, List.sum_append, List.map_map]
    rw [sum_map_const_on _ _ 3, sum_map_const_on _ _ 4]
    · rw [length_grid2, length_flatMap_const _ _ 2]
      · simp; omega
      · intro i _; rfl
    · intro p _; rfl
    · intro f hf
      simp only [List.mem_flatMap, List.mem_range, List.mem_cons, List.mem_nil_iff, or_false] at hf
      obtain ⟨i, _, rfl | rfl⟩ := hf <;> rfl
  rw [hsum, length_sphAddr, sphere_uv_nverts]
  have hab : (a - 1) * b + b = a * b := by
    obtain ⟨a', rfl⟩ : ∃ a', a = a' + 1 := ⟨a - 1, by omega⟩
    rw [Nat.add_sub_cancel, Nat.succ_mul]
  push_cast
  have : ((a * b : Nat) : Int) = (((a - 1) * b : Nat) : Int) + b := by rw [← hab]; push_cast; rfl
  push_cast at this
  omega
end Mouette.Props.C14
