import Mouette.Lemmas.AttrSource
/-
C05 — bridges from the bodies TRANSLATED from the working tree (Generated/C05Src.lean: `Attribute` / `ArrayAttribute`
`__init__`, `__getitem__`, `__setitem__`, `_expand`, `clear`, `__len__`, `as_array`; `DataContainer.append`, `__iadd__`,
`create_attribute`, `delete_attribute`, `get_attribute`, `clear`) to the hand model Model/Attr.lean, so that the property
theorems of Props/C05.lean speak about what the source says now.
-/
namespace Mouette.Props.C05Source
open Mouette.Attr Mouette.AttrSrc Mouette.Generated.C05Src
set_option linter.unusedSimpArgs false
set_option linter.unusedVariables false

/-- `Attribute.__getitem__` as written = the model's `get` on the sparse storage: same heap, same object identity
(a stored object is handed out as it is; an unset key gets a FRESH copy of the default) -/
theorem sparseGetitem_bridge (self : Self) (d : List (Int × Nat)) (hd : self.data = .dict d) (hk : 1 ≤ self.elemsize)
    (s : State) (key : Int) :
    sparseGetitem key s.heap self =
      match Attr.get s self.toAttr key with
      | .ok (s', hdl, _) => .ok (.obj hdl, s'.heap, self)
      | .error e => .error e := by
  unfold sparseGetitem Attr.get
  rw [toAttr_sparse hd]
  simp only [hd, Data.asDict, dictMem, dictGet]
  cases hl : d.lookup key with
  | some r => simp
  | none =>
    simp only [Option.isSome_none, Bool.false_eq_true, if_false]
    by_cases h1 : 1 < self.elemsize
    · simp [h1, allocVec, bcast_default]
    · have : self.elemsize = 1 := by omega
      simp [h1, allocVec, row1_default self this]

/-- the value check shared by both `__setitem__` bodies, as written, is the model's `checkVal` -/
theorem sparseSetitem_bridge (self : Self) (d : List (Int × Nat)) (hd : self.data = .dict d) (s : State) (key : Int) (v : InVal) :
    absE (sparseSetitem key v s.heap self) =
      match checkVal self.type self.elemsize v with
      | .error e => .error e
      | .ok val => modE (put s self.toAttr key val) := by
  unfold sparseSetitem checkVal put
  rw [toAttr_sparse hd]
  cases v with
  | sc x =>
    by_cases h1 : 1 < self.elemsize
    · have h1' : self.elemsize > 1 := h1
      simp [h1, h1', pyList, absE]
    · have hdec : decide (1 < self.elemsize) = false := by simp [h1]
      have : ¬ self.elemsize > 1 := h1
      simp only [hdec, Bool.false_eq_true, if_false, pyType, attrType, gen_canCast, this]
      cases hc : canCast x.ty self.type with
      | true => simp [absE, modE, allocVec, scalarVal, hd, Data.asDict, Self.toAttr, Self.dflt]
      | false => simp [absE]
  | vec l =>
    by_cases h1 : 1 < self.elemsize
    · have h1' : self.elemsize > 1 := h1
      simp only [h1, h1', decide_true, if_true, pyList]
      by_cases hn : l.length = self.elemsize
      · simp only [hn, ne_eq, not_true_eq_false, decide_false, Bool.false_eq_true, if_false]
        simp only [pyTypeS, attrType, gen_canCast]
        rw [forE_neg]
        cases ha : l.all (fun x => canCast x.ty self.type) with
        | true => simp [absE, modE, allocVec, vecOf, hd, Data.asDict, Self.toAttr, Self.dflt]
        | false => simp [absE]
      · simp [hn, absE]
    · have : ¬ self.elemsize > 1 := h1
      simp [h1, this, pyType, attrType, absE]

/-- `_check_out_of_bounds` as written (called first by both dense accessors) is the model's guard -/
theorem checkOutOfBounds_bridge (self : Self) (h : Heap) (key : Int) :
    checkOutOfBounds key h self = if oobGuard key self.nElem then .error .oob else .ok ((), h, self) := by
  unfold checkOutOfBounds oobGuard
  by_cases h1 : key < 0 <;> by_cases h2 : (self.nElem : Int) ≤ key <;> simp [h1, h2]

/-- `ArrayAttribute.__getitem__` as written: bounds guard first; the result is a VIEW of row `key` of the array object
(arity > 1) or the content of that row by value (arity 1) — in both cases the model's `get` -/
theorem denseGetitem_bridge (self : Self) (r : Nat) (hd : self.data = .array r) (s : State) (key : Int) :
    denseGetitem key s.heap self =
      match Attr.get s self.toAttr key with
      | .ok (s', hdl, v) => .ok ((if self.elemsize = 1 then .byValue v else .obj hdl), s'.heap, self)
      | .error e => .error e := by
  unfold denseGetitem Attr.get
  rw [toAttr_dense hd, checkOutOfBounds_bridge]
  cases hg : oobGuard key self.nElem with
  | true => simp [hg]
  | false =>
    simp only [Bool.false_eq_true, if_false, hd, Data.asRef]
    by_cases h1 : self.elemsize = 1
    · simp [h1, hg]
    · have : ¬ 1 = self.elemsize := fun h => h1 h.symm
      simp [h1, this, hg]

theorem denseGetitem_val (self : Self) (r : Nat) (hd : self.data = .array r) (s : State) (key : Int)
    (res : Res) (h' : Heap) (self' : Self) (hr : denseGetitem key s.heap self = .ok (res, h', self')) :
    Attr.read s self.toAttr key = .ok (res.val h') := by
  rw [denseGetitem_bridge self r hd] at hr
  unfold Attr.read
  cases hg : Attr.get s self.toAttr key with
  | error e => rw [hg] at hr; cases hr
  | ok p =>
    obtain ⟨s', hdl, v⟩ := p
    rw [hg] at hr
    simp only [Except.ok.injEq, Prod.mk.injEq] at hr
    obtain ⟨h1, h2, h3⟩ := hr
    subst h1 h2
    simp only
    by_cases hk : self.elemsize = 1
    · simp [hk, Res.val]
    · simp only [hk, if_false, Res.val]
      unfold Attr.get at hg
      rw [toAttr_dense hd] at hg
      simp only at hg
      cases hb : oobGuard key self.nElem with
      | true => rw [hb] at hg; simp at hg
      | false =>
        rw [hb] at hg
        simp only [Bool.false_eq_true, if_false, Except.ok.injEq, Prod.mk.injEq] at hg
        obtain ⟨e1, e2, e3⟩ := hg
        subst e1 e2 e3
        rfl

/-- `ArrayAttribute.__setitem__` as written = bounds guard, then the shared value check, then the model's in-place row
update `put` -/
theorem denseSetitem_bridge (self : Self) (r : Nat) (hd : self.data = .array r) (s : State) (key : Int) (v : InVal) :
    absE (denseSetitem key v s.heap self) =
      if boundsFail self.toAttr key then .error .oob else
      match checkVal self.type self.elemsize v with
      | .error e => .error e
      | .ok val => modE (put s self.toAttr key val) := by
  unfold denseSetitem checkVal put boundsFail
  rw [toAttr_dense hd, checkOutOfBounds_bridge]
  simp only
  cases hg : oobGuard key self.nElem with
  | true => simp [absE]
  | false =>
    simp only [Bool.false_eq_true, if_false]
    cases v with
    | sc x =>
      by_cases h1 : 1 < self.elemsize
      · have h1' : self.elemsize > 1 := h1
        simp [h1, h1', pyList, absE]
      · have hdec : decide (1 < self.elemsize) = false := by simp [h1]
        have : ¬ self.elemsize > 1 := h1
        simp only [hdec, Bool.false_eq_true, if_false, pyType, attrType, gen_canCast, this]
        cases hc : canCast x.ty self.type with
        | true => simp [absE, modE, rowStore, scalarVal, hd, Data.asRef, Self.toAttr, Self.dflt]
        | false => simp [absE]
    | vec l =>
      by_cases h1 : 1 < self.elemsize
      · have h1' : self.elemsize > 1 := h1
        simp only [h1, h1', decide_true, if_true, pyList]
        by_cases hn : l.length = self.elemsize
        · simp only [hn, ne_eq, not_true_eq_false, decide_false, Bool.false_eq_true, if_false]
          simp only [pyTypeS, attrType, gen_canCast]
          rw [forE_neg]
          cases ha : l.all (fun x => canCast x.ty self.type) with
          | true => simp [absE, modE, rowStore, vecOf, hd, Data.asRef, Self.toAttr, Self.dflt]
          | false => simp [absE]
        · simp [hn, absE]
      · have : ¬ self.elemsize > 1 := h1
        simp [h1, this, pyType, attrType, absE]

/-- `_expand` as written (dense: a NEW array object = old rows ++ n default rows, `n_elem += n`; sparse: nothing) is the
model's `expandAttr` -/
theorem expand_bridge (self : Self) (hcls : (self.cls = .dense ∧ ∃ r, self.data = .array r) ∨ (self.cls = .sparse ∧ ∃ d, self.data = .dict d))
    (h : Heap) (n : Nat) :
    absE (dispatchExpand n h self) = .ok (expandAttr h self.toAttr n) := by
  unfold dispatchExpand expandAttr
  rcases hcls with ⟨hc, r, hd⟩ | ⟨hc, d, hd⟩
  · rw [hc, toAttr_dense hd]
    simp [denseExpand, absE, allocMat, npFull_default, hd, Data.asRef, Self.toAttr, Self.dflt, Attr.dfltRow, Nat.add_comm]
  · rw [hc, toAttr_sparse hd]
    simp [sparseExpand, absE]

/-- `clear` as written (dense: a NEW (n_elem, elemsize) array of defaults; sparse: a new empty dict) is the model's `clearAttr` -/
theorem denseClear_bridge (self : Self) (r : Nat) (hd : self.data = .array r) (h : Heap) :
    absE (denseClear h self) = .ok (clearAttr h self.toAttr) := by
  unfold denseClear clearAttr
  rw [toAttr_dense hd]
  simp [absE, allocMat, npFull_default, Self.toAttr, Self.dflt, Attr.dfltRow]

theorem sparseClear_bridge (self : Self) (d : List (Int × Nat)) (hd : self.data = .dict d) (h : Heap) :
    absE (sparseClear h self) = .ok (clearAttr h self.toAttr) := by
  unfold sparseClear clearAttr
  rw [toAttr_sparse hd]
  simp [absE, Self.toAttr, Self.dflt]

/-- `__len__` / `as_array` of the two classes are the model's `attrLen` / dense `asArray` -/
theorem len_bridge (self : Self) :
    (∀ d, self.data = .dict d → sparseLen self = attrLen self.toAttr) ∧
    (∀ r, self.data = .array r → denseLen self = attrLen self.toAttr) := by
  constructor
  · intro d hd; simp [sparseLen, attrLen, toAttr_sparse hd, hd, Data.asDict]
  · intro r hd; simp [denseLen, attrLen, toAttr_dense hd]

theorem denseAsArray_bridge (self : Self) (r : Nat) (hd : self.data = .array r) (s : State) :
    asArray s self.toAttr = .ok (denseAsArray s.heap self) := by
  simp [asArray, toAttr_dense hd, denseAsArray, hd, Data.asRef]

/-- the two constructors as written (field assignments, default type check, storage allocation) build the model's
fresh attribute `mkAttr`; a default of another type is refused before any storage exists -/
theorem init_bridge (dense : Bool) (s : State) (ty : Ty) (k : Nat) (dv : Option Scalar) :
    absE (if dense then denseInit ty s.size k dv s.heap { cls := .dense } else sparseInit ty k dv s.heap { cls := .sparse }) =
      match dv with
      | some x => if x.ty = ty then .ok ((mkAttr dense s ty k x).heap, (mkAttr dense s ty k x).attr.getD default)
                  else .error .dfltType
      | none => .ok ((mkAttr dense s ty k ty.zero).heap, (mkAttr dense s ty k ty.zero).attr.getD default) := by
  cases dense with
  | true =>
    cases dv with
    | none =>
      have hf := npFull_default s.size ({ cls := .dense, type := ty, elemsize := k, dv := none, nElem := s.size } : Self)
      simp only [Self.toAttr, Self.dflt, Attr.dfltRow] at hf
      simp [denseInit, checkDefaultValueType, absE, mkAttr, allocMat, hf, Self.toAttr, Self.dflt, Attr.dfltRow]
    | some x =>
      by_cases hx : x.ty = ty
      · have hf := npFull_default s.size ({ cls := .dense, type := ty, elemsize := k, dv := some x, nElem := s.size } : Self)
        simp only [Self.toAttr, Self.dflt, Attr.dfltRow] at hf
        simp [denseInit, checkDefaultValueType, absE, mkAttr, allocMat, hf, Self.toAttr, Self.dflt, Attr.dfltRow,
          pyTypeO, attrType, hx]
      · simp [denseInit, checkDefaultValueType, absE, pyTypeO, attrType, hx]
  | false =>
    cases dv with
    | none => simp [sparseInit, checkDefaultValueType, absE, mkAttr, Self.toAttr, Self.dflt]
    | some x =>
      by_cases hx : x.ty = ty
      · simp [sparseInit, checkDefaultValueType, absE, mkAttr, Self.toAttr, Self.dflt, pyTypeO, attrType, hx]
      · simp [sparseInit, checkDefaultValueType, absE, pyTypeO, attrType, hx]

/-! ### container methods -/

theorem toState_grow (h : Heap) (data : List Nat) (nm : String) (self : Self) (hok : ClsOk self) (extra : List Nat) :
    absC nm (match forAttrs h [(nm, self)] (dispatchExpand extra.length) with
      | .error e => .error e
      | .ok t1 => (.ok ((), t1.1, ({ data := data ++ extra, attr := t1.2 } : Cont)) : Except Err (Unit × Heap × Cont)))
      = .ok (grow (toState h { data := data, attr := [(nm, self)] } nm) extra.length) := by
  have hb := expand_bridge self hok h extra.length
  unfold forAttrs
  cases hx : dispatchExpand extra.length h self with
  | error e => rw [hx] at hb; simp [absE] at hb
  | ok p =>
    obtain ⟨u, h', self'⟩ := p
    rw [hx] at hb
    simp only [absE, Except.ok.injEq] at hb
    simp only [forAttrs, absC, toState, grow, List.lookup, beq_self_eq_true, Option.map_some, ← hb, List.length_append]

/-- `DataContainer.append` as written (element first, then `_expand(1)` on every attribute) = the model's `grow … 1` -/
theorem contAppend_bridge (h : Heap) (data : List Nat) (nm : String) (self : Self) (hok : ClsOk self) (v : Nat) :
    absC nm (contAppend v h { data := data, attr := [(nm, self)] }) =
      .ok (grow (toState h { data := data, attr := [(nm, self)] } nm) 1) := by
  unfold contAppend
  exact toState_grow h data nm self hok [v]

theorem contAppend_bridge_noattr (h : Heap) (data : List Nat) (nm : String) (v : Nat) :
    absC nm (contAppend v h { data := data, attr := [] }) = .ok (grow (toState h { data := data, attr := [] } nm) 1) := by
  simp [contAppend, forAttrs, absC, toState, grow]

/-- `DataContainer.__iadd__` as written, all three accepted operand classes and both container operands: the attributes
grow by exactly the number of appended elements; for `c += c` that number is read BEFORE the data is extended -/
theorem contIadd_bridge (h : Heap) (data : List Nat) (nm : String) (self : Self) (hok : ClsOk self) (o : Other) :
    absC nm (contIadd o h { data := data, attr := [(nm, self)] }) =
      match o with
      | .seq _ l => .ok (grow (toState h { data := data, attr := [(nm, self)] } nm) l.length)
      | .cont d => .ok (grow (toState h { data := data, attr := [(nm, self)] } nm) d.length)
      | .me => .ok (grow (toState h { data := data, attr := [(nm, self)] } nm) data.length)
      | .junk => .error .typeError := by
  unfold contIadd
  cases o with
  | seq k l =>
    have hk : ((Other.seq k l).isA .list || (Other.seq k l).isA .tuple || (Other.seq k l).isA .set) = true := by
      cases k <;> simp [Other.isA]
    simp only [hk, if_true, Other.elems]
    exact toState_grow h data nm self hok l
  | cont d =>
    simp only [Other.isA, Bool.or_self, Bool.false_eq_true, if_false, Other.isCont, if_true, Other.dataOf]
    exact toState_grow h data nm self hok d
  | me =>
    simp only [Other.isA, Bool.or_self, Bool.false_eq_true, if_false, Other.isCont, if_true, Other.dataOf]
    exact toState_grow h data nm self hok data
  | junk => simp [Other.isA, Other.isCont, absC]

/-- `create_attribute` as written (duplicate warning off, the default): the name is (re)bound to a FRESH attribute object
built by the class constructor for the CURRENT container size — the model's `.create` step, also over an existing
attribute of that name; a default of another type leaves the container as it was -/
theorem createAttribute_bridge (dense : Bool) (h : Heap) (c : Cont) (nm : String) (hc : c.attr = [] ∨ ∃ a, c.attr = [(nm, a)])
    (ty : Ty) (k : Nat) (dv : Option Scalar) :
    (match createAttribute false nm ty k dense dv none h c with
      | .ok (_, h', c') => (toState h' c' nm, Obs.ok)
      | .error e => (toState h c nm, Obs.err e)) = step dense (toState h c nm) (.create ty k dv) := by
  have hib := init_bridge dense (toState h c nm) ty k dv
  have hset : ∀ a, (attrSet c.attr nm a).lookup nm = some a := by
    intro a
    rcases hc with h0 | ⟨a0, h1⟩
    · simp [h0, attrSet]
    · simp [h1, attrSet]
  unfold createAttribute
  simp only [Bool.and_false, Bool.false_eq_true, if_false, Option.isNone_none, if_true, contLen]
  cases dense with
  | true =>
    simp only [if_true] at hib ⊢
    cases hx : denseInit ty c.data.length k dv h { cls := .dense } with
    | error e =>
      have : (toState h c nm).size = c.data.length := rfl
      rw [this, show (toState h c nm).heap = h from rfl, hx] at hib
      cases dv with
      | none => simp [absE] at hib
      | some x =>
        by_cases hxt : x.ty = ty
        · simp [absE, hxt] at hib
        · simp only [absE, hxt, if_false, Except.error.injEq] at hib
          simp [step, hxt, hib]
    | ok p =>
      obtain ⟨u, h', a'⟩ := p
      have : (toState h c nm).size = c.data.length := rfl
      rw [this, show (toState h c nm).heap = h from rfl, hx] at hib
      cases dv with
      | none =>
        simp only [absE, Except.ok.injEq, Prod.mk.injEq] at hib
        simp only [step, toState, hset, Option.map_some]
        simp only [mkAttr, if_true, toState, Option.getD_some] at hib
        simp [mkAttr, hib.1, hib.2, toState]
      | some x =>
        by_cases hxt : x.ty = ty
        · simp only [absE, hxt, if_true, Except.ok.injEq, Prod.mk.injEq] at hib
          simp only [step, toState, hset, Option.map_some, hxt, if_true]
          simp only [mkAttr, if_true, toState, Option.getD_some] at hib
          simp [mkAttr, hib.1, hib.2, toState]
        · simp [absE, hxt] at hib
  | false =>
    simp only [Bool.false_eq_true, if_false] at hib ⊢
    cases hx : sparseInit ty k dv h { cls := .sparse } with
    | error e =>
      rw [show (toState h c nm).heap = h from rfl, hx] at hib
      cases dv with
      | none => simp [absE] at hib
      | some x =>
        by_cases hxt : x.ty = ty
        · simp [absE, hxt] at hib
        · simp only [absE, hxt, if_false, Except.error.injEq] at hib
          simp [step, hxt, hib]
    | ok p =>
      obtain ⟨u, h', a'⟩ := p
      rw [show (toState h c nm).heap = h from rfl, hx] at hib
      cases dv with
      | none =>
        simp only [absE, Except.ok.injEq, Prod.mk.injEq] at hib
        simp only [step, toState, hset, Option.map_some]
        simp only [mkAttr, Bool.false_eq_true, if_false, toState, Option.getD_some] at hib
        simp [mkAttr, hib.1, hib.2, toState]
      | some x =>
        by_cases hxt : x.ty = ty
        · simp only [absE, hxt, if_true, Except.ok.injEq, Prod.mk.injEq] at hib
          simp only [step, toState, hset, Option.map_some, hxt, if_true]
          simp only [mkAttr, Bool.false_eq_true, if_false, toState, Option.getD_some] at hib
          simp [mkAttr, hib.1, hib.2, toState]
        · simp [absE, hxt] at hib

/-- the duplicate-attribute warning (config switch) is only a warning: `create_attribute` as written does the same thing
whether it is on or off (after the repair `fix: create_attribute overrides an existing attribute …`) -/
theorem createAttribute_warn_irrelevant (w : Bool) (h : Heap) (c : Cont) (nm : String) (ty : Ty) (k : Nat) (dense : Bool)
    (dv : Option Scalar) (size : Option Nat) :
    createAttribute w nm ty k dense dv size h c = createAttribute false nm ty k dense dv size h c := by
  unfold createAttribute
  cases (attrMem c.attr nm && w) <;> simp

/-- `delete_attribute`, `DataContainer.clear`, `get_attribute`, `has_attribute`, `__len__` as written -/
theorem deleteAttribute_bridge (dense : Bool) (h : Heap) (c : Cont) (nm : String) (hc : c.attr = [] ∨ ∃ a, c.attr = [(nm, a)]) :
    absC nm (deleteAttribute nm h c) = .ok (step dense (toState h c nm) .delete).1 := by
  unfold deleteAttribute
  rcases hc with h0 | ⟨a0, h1⟩
  · simp [h0, attrMem, absC, toState, step]
  · simp [h1, attrMem, attrDel, absC, toState, step]

theorem contClear_bridge (dense : Bool) (h : Heap) (c : Cont) (nm : String) :
    absC nm (contClear h c) = .ok (step dense (toState h c nm) .cclear).1 := by
  simp [contClear, absC, toState, step]

theorem getAttribute_bridge (h : Heap) (c : Cont) (nm : String) :
    (match getAttribute nm h c with
      | .ok (a, h', c') => h' = h ∧ c' = c ∧ (toState h c nm).attr = some a.toAttr
      | .error e => e = .noAttr ∧ (toState h c nm).attr = none) := by
  unfold getAttribute
  cases hl : c.attr.lookup nm with
  | none => simp [attrMem, hl, toState]
  | some a => simp [attrMem, attrGet, hl, toState]

theorem hasAttribute_len_bridge (h : Heap) (c : Cont) (nm : String) :
    hasAttribute nm c = (toState h c nm).attr.isSome ∧ contLen c = (toState h c nm).size := by
  cases hl : c.attr.lookup nm <;> simp [hasAttribute, attrMem, contLen, toState, hl]

/-! ### ANY number of attributes on one container, one shared heap (translated `append` / `+=`) -/

/-- `container.append(v)` as written, on a container with ANY number of sparse and dense attributes sharing one heap:
it succeeds, the container has one more element, EVERY dense attribute is expanded by exactly one row holding its own
default after its old rows (read in the final heap), sparse attribute objects are untouched, no existing heap cell is
overwritten (so every value read before, and every stored sparse object, is intact), and all attributes stay aligned. -/
theorem append_all_attributes (h : Heap) (c : Cont) (v : Nat) (hal : AlignedAll h c) :
    ∃ h' attrs', contAppend v h c = .ok ((), h', { c with data := c.data ++ [v], attr := attrs' }) ∧
      (∀ r, r < h.length → h'[r]? = h[r]?) ∧
      All2 (ExpandRel 1 h h') c.attr attrs' ∧
      AlignedAll h' { c with data := c.data ++ [v], attr := attrs' } := by
  obtain ⟨h', l', e1, e2, e3, e4⟩ := forAttrs_expand_spec 1 c.attr h (fun p hp hd => (hal p hp hd).2)
  refine ⟨h', l', ?_, e3, e4, ?_⟩
  · simp [contAppend, e1]
  · intro q hq hd
    have := all2_aligned 1 h h' c.data.length c.attr l' e4 (fun p hp hd => (hal p hp hd).1) q hq hd
    simpa using this

/-- the same for `container += other`, for every accepted operand (list / tuple / set, another container, the container
itself): every dense attribute grows by exactly the number of appended elements — for `c += c` the old size -/
theorem iadd_all_attributes (h : Heap) (c : Cont) (o : Other) (ho : o ≠ .junk) (hal : AlignedAll h c) :
    let extra := match o with | .seq _ l => l | .cont d => d | .me => c.data | .junk => []
    ∃ h' attrs', contIadd o h c = .ok ((), h', { c with data := c.data ++ extra, attr := attrs' }) ∧
      (∀ r, r < h.length → h'[r]? = h[r]?) ∧
      All2 (ExpandRel extra.length h h') c.attr attrs' ∧
      AlignedAll h' { c with data := c.data ++ extra, attr := attrs' } := by
  intro extra
  obtain ⟨h', l', e1, e2, e3, e4⟩ := forAttrs_expand_spec extra.length c.attr h (fun p hp hd => (hal p hp hd).2)
  have hal' : AlignedAll h' { c with data := c.data ++ extra, attr := l' } := by
    intro q hq hd
    have := all2_aligned extra.length h h' c.data.length c.attr l' e4 (fun p hp hd => (hal p hp hd).1) q hq hd
    simpa using this
  refine ⟨h', l', ?_, e3, e4, hal'⟩
  cases o with
  | seq k l =>
    have hk : ((Other.seq k l).isA .list || (Other.seq k l).isA .tuple || (Other.seq k l).isA .set) = true := by
      cases k <;> simp [Other.isA]
    simp only [contIadd, hk, if_true, Other.elems]
    simp only [extra] at e1
    simp [e1, extra]
  | cont d =>
    simp only [contIadd, Other.isA, Bool.or_self, Bool.false_eq_true, if_false, Other.isCont, if_true, Other.dataOf]
    simp only [extra] at e1
    simp [e1, extra]
  | me =>
    simp only [contIadd, Other.isA, Bool.or_self, Bool.false_eq_true, if_false, Other.isCont, if_true, Other.dataOf]
    simp only [extra] at e1
    simp [e1, extra]
  | junk => exact absurd rfl ho

/-- non-vacuity: a container of 2 elements with a sparse and a dense attribute (arity 2, custom default 7) — after
`append` the dense one has 3 rows, the last one `[7, 7]`, and the sparse object is unchanged -/
example :
    let a0 : Self := { cls := .sparse, type := .int, elemsize := 2, data := .dict [] }
    let a1 : Self := { cls := .dense, type := .int, elemsize := 2, dv := some (.i 7), nElem := 2, data := .array 0 }
    let h : Heap := [.mat [[.i 1, .i 2], [.i 7, .i 7]]]
    (match contAppend 5 h { data := [0, 1], attr := [("s", a0), ("d", a1)] } with
     | .ok (_, h', c') => (c'.data.length, (attrGet c'.attr "d").nElem, cellMat h' (attrGet c'.attr "d").data.asRef,
                           (attrGet c'.attr "s").data.asDict.length)
     | .error _ => (0, 0, [], 0)) = (3, 3, [[.i 1, .i 2], [.i 7, .i 7], [.i 7, .i 7]], 0) := by
  decide

/-- non-vacuity of the setitem / getitem bridges: a widened write then a read on both storages -/
example :
    let a1 : Self := { cls := .dense, type := .float, elemsize := 2, nElem := 2, data := .array 0 }
    let h : Heap := [.mat [[.f 0, .f 0], [.f 0, .f 0]]]
    (match denseSetitem 1 (.vec [.i 3, .b true]) h a1 with
     | .ok (_, h', a') => (match denseGetitem 1 h' a' with | .ok (r, h'', _) => r.val h'' | .error _ => [])
     | .error _ => []) = [.f 3, .f 1] := by
  decide

example :
    let a1 : Self := { cls := .dense, type := .float, elemsize := 2, nElem := 2, data := .array 0 }
    (match denseSetitem 2 (.vec [.i 3, .b true]) [.mat [[.f 0, .f 0], [.f 0, .f 0]]] a1 with
     | .ok _ => none | .error e => some e) = some .oob := by
  decide

end Mouette.Props.C05Source
