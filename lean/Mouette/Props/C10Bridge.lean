import Mouette.Generated.C10Loop
import Mouette.Lemmas.TreesRecompute
import Mouette.Props.C10
/-
Bridges between the fragments translated from the CURRENT source of mouette/processing/trees (Generated/C10Loop.lean)
and the hand-written model of Props/C10.
-/
namespace Mouette.Props.C10
open Mouette.Trees Mouette.Generated.C10

/-- the body of the BFS loop of `EdgeSpanningTree.compute`, as written, is the model's `bstep` -/
theorem bridge_bstep_edge : bstep_edge = bstep := by
  funext g s
  unfold bstep_edge bstep
  cases s.queue with
  | nil => rfl
  | cons e q' => obtain ⟨v, nv⟩ := e; simp only; split <;> (try split) <;> rfl

theorem bridge_bstep_face : bstep_face = bstep := by
  funext g s
  unfold bstep_face bstep
  cases s.queue with
  | nil => rfl
  | cons e q' => obtain ⟨v, nv⟩ := e; simp only; split <;> (try split) <;> rfl

theorem bridge_bstep_cell : bstep_cell = bstep := by
  funext g s
  unfold bstep_cell bstep
  cases s.queue with
  | nil => rfl
  | cons e q' => obtain ⟨v, nv⟩ := e; simp only; split <;> (try split) <;> rfl

/-- `_avoid_edge` as written = "in the exclusion set, or (avoid_boundary on a non-polyline and the edge is on the
border)" — the exclusion predicate `g.excl` handed to the model and used by the oracle -/
theorem bridge_avoid_edge (hasAvoid inAvoid avoidBound isPoly onBorder : Bool) :
    avoidEdge hasAvoid inAvoid avoidBound isPoly onBorder =
      ((hasAvoid && inAvoid) || (avoidBound && !isPoly && onBorder)) := by
  cases hasAvoid <;> cases inAvoid <;> cases avoidBound <;> cases isPoly <;> cases onBorder <;> rfl

/-- histories on one object: every further `compute()` of a tree class leaves exactly the tables of a first
`compute()` on a fresh object — because (as read from the source) it re-initialises parent, children and edges -/
theorem recompute_eq_fresh_edge (t : Tree) (k : Nat) (prev : Tables) :
    computeTimes resets_EdgeSpanningTree t (k + 1) prev = computeOn resets_EdgeSpanningTree Tables.fresh t :=
  computeTimes_eq_fresh (by decide) (by decide) (by decide) t k prev

theorem recompute_eq_fresh_mst (t : Tree) (k : Nat) (prev : Tables) :
    computeTimes resets_EdgeMinimalSpanningTree t (k + 1) prev = computeOn resets_EdgeMinimalSpanningTree Tables.fresh t :=
  computeTimes_eq_fresh (by decide) (by decide) (by decide) t k prev

theorem recompute_eq_fresh_face (t : Tree) (k : Nat) (prev : Tables) :
    computeTimes resets_FaceSpanningTree t (k + 1) prev = computeOn resets_FaceSpanningTree Tables.fresh t :=
  computeTimes_eq_fresh (by decide) (by decide) (by decide) t k prev

theorem recompute_eq_fresh_cell (t : Tree) (k : Nat) (prev : Tables) :
    computeTimes resets_CellSpanningTree t (k + 1) prev = computeOn resets_CellSpanningTree Tables.fresh t :=
  computeTimes_eq_fresh (by decide) (by decide) (by decide) t k prev

/-- forests: a further `compute()` starts from empty `trees` / `roots` lists -/
theorem forest_recompute_eq_fresh (prev new : List Nat) :
    forestOn resets_EdgeSpanningForest "trees" prev new = new ∧ forestOn resets_EdgeSpanningForest "roots" prev new = new ∧
    forestOn resets_FaceSpanningForest "trees" prev new = new ∧ forestOn resets_FaceSpanningForest "roots" prev new = new ∧
    forestOn resets_CellSpanningForest "trees" prev new = new ∧ forestOn resets_CellSpanningForest "roots" prev new = new := by
  refine ⟨?_, ?_, ?_, ?_, ?_, ?_⟩ <;> (unfold forestOn; simp [resets_EdgeSpanningForest, resets_FaceSpanningForest, resets_CellSpanningForest])

/-- the defect of the pinned tree, in the model: WITHOUT the re-initialisation a second `compute()` lists every edge
twice (so the edge count is no longer `reached − 1`) -/
theorem recompute_without_reset_duplicates (t : Tree) :
    (computeOn [] (computeOn [] Tables.fresh t) t).edges = t.edges ++ t.edges := by
  simp [computeOn, Tables.fresh]

/-- the source-level iteration preserves the BFS invariant -/
theorem source_bstep_preserves_invariant {g : Cfg} {root n : Nat} (hwf : WF g n) {s s' : BState}
    (I : BInv g root n s) (h : bstep_edge g s = some s') : BInv g root n s' := by
  rw [bridge_bstep_edge] at h
  exact binv_step hwf I h

end Mouette.Props.C10
