import Mouette.Generated.C10Tree
import Mouette.Generated.C10Loop
import Mouette.Lemmas.C10Tree
import Mouette.Props.C10
import Mouette.Props.C10Bridge
import Mouette.Props.C10Orient
import Mouette.Props.C10KruskalMin
import Mouette.Props.C20Source
/-
C10, round 4: bridges between mouette/processing/trees/*.py as translated imperatively from the current source
(Generated/C10Tree.lean + the loop body of Generated/C10Loop.lean) and the hand-written model of Props/C10*, the
source-level compositions `compute_edge/face/cell`, `mst_src`, `forest_*_src`, and new forest theorems.
-/
namespace Mouette.Props.C10
open Mouette.Trees Mouette.Generated Mouette.UF
open Mouette.Dijkstra (upd)

/-! ### put_neighbours_in_queue (three shapes) -/

theorem put_edge_fold (g : Cfg) (seen : Nat → Bool) (x : Nat) : ∀ (l : List (Nat × Nat)) (q : List (Nat × Nat)),
    l.foldl (fun queue e => if ((!(seen e.1)) && (!(g.excl e.2))) then queue ++ [(x, e.1)] else queue) q =
      q ++ ((((l.filter (fun e => !g.excl e.2)).map (·.1)).filter (fun y => !seen y)).map (fun y => (x, y))) := by
  intro l
  induction l with
  | nil => intro q; simp
  | cons e l ih =>
    intro q
    simp only [List.foldl_cons]
    rw [ih]
    cases h1 : seen e.1 <;> cases h2 : g.excl e.2 <;> simp [h1, h2]

/-- `put_neighbours_in_queue` of `EdgeSpanningTree.compute` as written is the model's `put` -/
theorem bridge_put_edge : C10T.put_edge = put := by
  funext g seen x q
  unfold C10T.put_edge put nbrs
  exact put_edge_fold g seen x (g.adj x) q

theorem put_raw_fold (g : C10T.RawCfg) (seen : Nat → Bool) (x : Nat) : ∀ (l : List (Nat × Option Nat)) (q : List (Nat × Nat)),
    l.foldl (fun queue c => if (!(g.excl c.1)) then
        (if (c.2.isSome && (!(seen (c.2.getD 0)))) then queue ++ [(x, (c.2.getD 0))] else queue) else queue) q =
      q ++ (((((l.filterMap (fun c => c.2.map (fun y => (y, c.1)))).filter (fun e => !g.excl e.2)).map (·.1)).filter
        (fun y => !seen y)).map (fun y => (x, y))) := by
  intro l
  induction l with
  | nil => intro q; simp
  | cons c l ih =>
    intro q
    obtain ⟨k, o⟩ := c
    simp only [List.foldl_cons]
    rw [ih]
    cases o with
    | none => cases h1 : g.excl k <;> simp [h1]
    | some y => cases h1 : g.excl k <;> cases h2 : seen y <;> simp [h1, h2]

/-- face version (`face_to_edges`, `forbidden_edges`, `opposite_face … is not None`) -/
theorem bridge_put_face (g : C10T.RawCfg) : C10T.put_face g = put g.cfg := by
  funext seen x q
  unfold C10T.put_face put nbrs C10T.RawCfg.cfg
  exact put_raw_fold g seen x (g.conn x) q

/-- cell version (`cell_to_face`, `forbidden_faces` with `continue`, `other_face_side … is not None`) -/
theorem bridge_put_cell (g : C10T.RawCfg) : C10T.put_cell g = put g.cfg := by
  funext seen x q
  unfold C10T.put_cell put nbrs C10T.RawCfg.cfg
  exact put_raw_fold g seen x (g.conn x) q

/-! ### initialisation before the loop -/

theorem bridge_binit_edge : C10T.binit_edge = binit := by
  funext g root
  unfold C10T.binit_edge binit
  simp only [bridge_put_edge]

theorem bridge_binit_face (g : C10T.RawCfg) : C10T.binit_face g = binit g.cfg := by
  funext root
  unfold C10T.binit_face binit
  simp only [bridge_put_face]

theorem bridge_binit_cell (g : C10T.RawCfg) : C10T.binit_cell g = binit g.cfg := by
  funext root
  unfold C10T.binit_cell binit
  simp only [bridge_put_cell]

/-! ### the final loop filling children / edges -/

theorem finish_edge_fold (s : BState) : ∀ (l : List Nat) (a b : List (Nat × Nat)),
    l.foldl (fun acc v => if (s.dist v).isSome then
        (match s.parent v with
         | some p => (acc.1 ++ [(p, v)], acc.2 ++ [keyify p v])
         | none => acc) else acc) (a, b) =
      (a ++ childPairs s.parent (fun v => (s.dist v).isSome) l, b ++ mkEdges s.parent (fun v => (s.dist v).isSome) l) := by
  intro l
  induction l with
  | nil => intro a b; simp [childPairs, mkEdges]
  | cons v l ih =>
    intro a b
    simp only [List.foldl_cons]
    cases hd : (s.dist v).isSome <;> cases hp : s.parent v <;> simp [childPairs, mkEdges, hd, hp, ih]

theorem finish_all_fold (s : BState) : ∀ (l : List Nat) (a b : List (Nat × Nat)),
    l.foldl (fun acc v => match s.parent v with
         | some p => (acc.1 ++ [(p, v)], acc.2 ++ [keyify p v])
         | none => acc) (a, b) =
      (a ++ childPairs s.parent (fun _ => true) l, b ++ mkEdges s.parent (fun _ => true) l) := by
  intro l
  induction l with
  | nil => intro a b; simp [childPairs, mkEdges]
  | cons v l ih =>
    intro a b
    simp only [List.foldl_cons]
    cases hp : s.parent v <;> simp [childPairs, mkEdges, hp, ih]

/-- the final loop of `EdgeSpanningTree.compute` (with its `isinf` guard): the appends to `children[p]` in order, and
the edge list -/
theorem bridge_finish_edge (n : Nat) (s : BState) :
    C10T.finish_edge n s = (childPairs s.parent (fun v => (s.dist v).isSome) (List.range n),
                            mkEdges s.parent (fun v => (s.dist v).isSome) (List.range n)) := by
  unfold C10T.finish_edge
  have := finish_edge_fold s (List.range n) [] []
  simp only [List.nil_append] at this
  rw [← this]
  congr 1

theorem bridge_finish_face (n : Nat) (s : BState) :
    C10T.finish_face n s = (childPairs s.parent (fun _ => true) (List.range n), mkEdges s.parent (fun _ => true) (List.range n)) := by
  unfold C10T.finish_face
  have := finish_all_fold s (List.range n) [] []
  simp only [List.nil_append] at this
  rw [← this]
  congr 1

theorem bridge_finish_cell (n : Nat) (s : BState) :
    C10T.finish_cell n s = (childPairs s.parent (fun _ => true) (List.range n), mkEdges s.parent (fun _ => true) (List.range n)) := by
  unfold C10T.finish_cell
  have := finish_all_fold s (List.range n) [] []
  simp only [List.nil_append] at this
  rw [← this]
  congr 1

/-! ### `compute()` composed from translated pieces only -/

def treeOf (root : Nat) (s : BState) (fin : List (Nat × Nat) × List (Nat × Nat)) : Tree :=
  { root := root, parent := s.parent, children := fun p => (fin.1.filter (fun e => e.1 == p)).map (·.2),
    edges := fin.2, reached := s.seen, depth := s.dist }

/-- `EdgeSpanningTree.compute` as written: tables, `put(root)`, flags, `while` around the translated body, final loop -/
def compute_edge (g : Cfg) (n root : Nat) : Tree :=
  let s := iterB (C10.bstep_edge g) (bfuel g n) (C10T.binit_edge g root)
  treeOf root s (C10T.finish_edge n s)

def compute_face (g : C10T.RawCfg) (n root : Nat) : Tree :=
  let s := iterB (C10.bstep_face g.cfg) (bfuel g.cfg n) (C10T.binit_face g root)
  treeOf root s (C10T.finish_face n s)

def compute_cell (g : C10T.RawCfg) (n root : Nat) : Tree :=
  let s := iterB (C10.bstep_cell g.cfg) (bfuel g.cfg n) (C10T.binit_cell g root)
  treeOf root s (C10T.finish_cell n s)

theorem bridge_compute_edge (g : Cfg) (n root : Nat) : compute_edge g n root = bfsTree g n root true := by
  unfold compute_edge bfsTree brun
  simp only [bridge_bstep_edge, bridge_binit_edge, iterB_bstep, bridge_finish_edge, treeOf, mkChildren, if_true]

theorem bridge_compute_face (g : C10T.RawCfg) (n root : Nat) : compute_face g n root = bfsTree g.cfg n root false := by
  unfold compute_face bfsTree brun
  simp only [bridge_bstep_face, bridge_binit_face, iterB_bstep, bridge_finish_face, treeOf, mkChildren]
  simp

theorem bridge_compute_cell (g : C10T.RawCfg) (n root : Nat) : compute_cell g n root = bfsTree g.cfg n root false := by
  unfold compute_cell bfsTree brun
  simp only [bridge_bstep_cell, bridge_binit_cell, iterB_bstep, bridge_finish_cell, treeOf, mkChildren]
  simp

/-! ### traverse -/

theorem travSrc_bfs (ch : Nat → List Nat) : ∀ f q O, C10T.travSrc true ch f q O = trav true ch f q O := by
  intro f
  induction f with
  | zero => intro q O; rfl
  | succ f ih =>
    intro q O
    cases q with
    | nil => rfl
    | cons x r =>
      obtain ⟨node, parent⟩ := x
      unfold C10T.travSrc trav
      simp only [C10T.popSrc, if_true, foldl_append_map]
      exact ih _ _

theorem popSrc_false_concat (q' : List (Nat × Option Nat)) (x : Nat × Option Nat) :
    C10T.popSrc false (q' ++ [x]) = some (x, q') := by
  simp [C10T.popSrc]

theorem travSrc_dfs (ch : Nat → List Nat) : ∀ f q O,
    C10T.travSrc false ch f q O = ((trav false ch f q.reverse O).1, (trav false ch f q.reverse O).2.reverse) := by
  intro f
  induction f with
  | zero => intro q O; simp [C10T.travSrc, trav]
  | succ f ih =>
    intro q O
    rcases List.eq_nil_or_concat q with h | ⟨q', x, h⟩
    · subst h; simp [C10T.travSrc, C10T.popSrc, trav]
    · subst h
      obtain ⟨node, parent⟩ := x
      rw [List.concat_eq_append]
      unfold C10T.travSrc
      rw [popSrc_false_concat]
      simp only [foldl_append_map]
      rw [ih]
      simp [trav]

/-- `SpanningTree.traverse` as written (order flag, which end is popped, `(root, None)` first, yield, children appended)
yields, in both orders, exactly the sequence of the model's `traverse`, and leaves as many work items -/
theorem bridge_traverse (bfs : Bool) (n : Nat) (t : Tree) :
    (C10T.traverseSrc bfs n t).1 = (traverse bfs n t).1 ∧
    (C10T.traverseSrc bfs n t).2.length = (traverse bfs n t).2.length := by
  unfold C10T.traverseSrc traverse
  cases bfs with
  | true => rw [travSrc_bfs]; simp
  | false => rw [travSrc_dfs]; simp

/-! ### Kruskal -/

def projK (r : UF.State × List (Nat × Nat) × List (Nat × Nat)) : UF.State × List (Nat × Nat) := (r.1, r.2.1)

def kstepModel (acc : UF.State × List (Nat × Nat)) (e : Nat × Nat × Rat) : UF.State × List (Nat × Nat) :=
  match UF.connected acc.1 e.1 e.2.1 with
  | some (s1, true) => (s1, acc.2)
  | some (s1, false) => (UF.union s1 e.1 e.2.1, acc.2 ++ [keyify e.1 e.2.1])
  | none => acc

theorem kruskalLoop_fold (es : List (Nat × Nat × Rat)) (s : UF.State) : kruskalLoop es s = es.foldl kstepModel (s, []) := rfl

theorem projK_step (acc : UF.State × List (Nat × Nat) × List (Nat × Nat)) (e : Nat × Nat × Rat) :
    projK (C10T.kruskalStep acc e) = kstepModel (projK acc) e := by
  unfold C10T.kruskalStep kstepModel projK
  simp only
  cases h : UF.connected acc.1 e.1 e.2.1 with
  | none => rfl
  | some r =>
    obtain ⟨s1, c⟩ := r
    cases c <;> simp

theorem projK_fold : ∀ (es : List (Nat × Nat × Rat)) acc,
    projK (es.foldl C10T.kruskalStep acc) = es.foldl kstepModel (projK acc) := by
  intro es
  induction es with
  | nil => intro acc; rfl
  | cons e es ih => intro acc; simp only [List.foldl_cons]; rw [ih, projK_step]

/-- the Kruskal loop as written (`a, b = mesh.edges[e]`, `if not uf.connected(a, b)`: `union`, `edges.append(keyify(a, b))`)
produces the union-find state and the edge list of the model's `kruskalLoop` -/
theorem bridge_kruskalLoop (es : List (Nat × Nat × Rat)) (s : UF.State) :
    projK (es.foldl C10T.kruskalStep (s, [], [])) = kruskalLoop es s := by
  rw [kruskalLoop_fold, projK_fold]; rfl

theorem bridge_sortEdges : C10T.sortEdges = fun es => es.mergeSort (fun a b => decide (a.2.2 ≤ b.2.2)) := rfl

/-- the neighbour sets filled by `neighbours[a].add(b); neighbours[b].add(a)` hold, for every vertex, exactly the
other end points of the tree edges at that vertex (as the model's `treeNbrs`; edges are not loops) -/
theorem nb_fold : ∀ (es : List (Nat × Nat × Rat)) (acc : UF.State × List (Nat × Nat) × List (Nat × Nat)),
    (∀ e ∈ es, e.1 ≠ e.2.1) → (∀ u, nbOf acc.2.2 u = treeNbrs acc.2.1 u) →
    ∀ u, nbOf (es.foldl C10T.kruskalStep acc).2.2 u = treeNbrs (es.foldl C10T.kruskalStep acc).2.1 u := by
  intro es
  induction es with
  | nil => intro acc _ h; exact h
  | cons e es ih =>
    intro acc hns h
    simp only [List.foldl_cons]
    apply ih _ (fun e' he' => hns e' (List.mem_cons_of_mem _ he'))
    intro u
    have hne := hns e (List.mem_cons_self ..)
    unfold C10T.kruskalStep
    simp only
    cases hc : UF.connected acc.1 e.1 e.2.1 with
    | none => exact h u
    | some r =>
      obtain ⟨s1, c⟩ := r
      cases c
      · simp only [Bool.not_false, if_true]
        rw [List.append_assoc, nbOf_append, treeNbrs_append, h u]
        congr 1
        exact nbOf_pair e.1 e.2.1 u hne
      · simpa using h u

theorem bridge_kruskal_neighbours (es : List (Nat × Nat × Rat)) (s : UF.State) (hns : ∀ e ∈ es, e.1 ≠ e.2.1) (u : Nat) :
    nbOf (es.foldl C10T.kruskalStep (s, [], [])).2.2 u = treeNbrs (es.foldl C10T.kruskalStep (s, [], [])).2.1 u :=
  nb_fold es (s, [], []) hns (fun _ => rfl) u

/-- the admissible-edge filter of the MST excludes exactly the edges `_avoid_edge` excludes in the BFS tree when no
`avoid_edges` set is given: border edges, when `avoid_boundary` is set on a mesh that is not a polyline -/
theorem bridge_admissible (avoidBound isPoly : Bool) (onBorder : Nat → Bool) (m e : Nat) :
    e ∈ C10T.admissible avoidBound isPoly onBorder m ↔
      (e < m ∧ C10.avoidEdge false false avoidBound isPoly (onBorder e) = false) := by
  unfold C10T.admissible C10.avoidEdge
  cases avoidBound <;> cases isPoly <;> simp

theorem mst_weight_table (len : Nat → Rat) (w : Nat → Rat) (e : Nat) :
    C10T.mstWeight .one len w e = 1 ∧ C10T.mstWeight .length len w e = len e ∧ C10T.mstWeight .custom len w e = w e :=
  ⟨rfl, rfl, rfl⟩

/-! ### orientation of the MST from the root -/

theorem bridge_orientInit (tes : List (Nat × Nat)) (root : Nat) :
    C10T.orientInit (treeNbrs tes) root =
      { parent := fun _ => none, children := upd (fun _ => []) root (treeNbrs tes root),
        queue := (treeNbrs tes root).map (fun c => (c, root)) } := by
  unfold C10T.orientInit
  simp only [upd_const_same, foldl_append_map, List.nil_append]

theorem bridge_orient (tes : List (Nat × Nat)) : ∀ f s,
    iterB (C10T.orientStep (treeNbrs tes)) f s = orient tes f s := by
  intro f
  induction f with
  | zero => intro s; rfl
  | succ f ih =>
    intro s
    cases hq : s.queue with
    | nil =>
      have hstep : C10T.orientStep (treeNbrs tes) s = none := by simp [C10T.orientStep, hq]
      unfold iterB orient
      rw [hstep, hq]
    | cons x q' =>
      obtain ⟨v, prev⟩ := x
      have hstep : C10T.orientStep (treeNbrs tes) s = some
          { parent := upd s.parent v (some prev), children := upd s.children v ((treeNbrs tes v).filter (· != prev)),
            queue := q' ++ ((treeNbrs tes v).filter (· != prev)).map (fun c => (c, v)) } := by
        simp only [C10T.orientStep, hq, upd_self, foldl_append_map]
      unfold iterB orient
      rw [hstep, hq]
      exact ih _

/-- `EdgeMinimalSpanningTree.compute` as written: sort, Kruskal loop on the union-find, neighbour sets, BFS orientation -/
def mst_src (n root : Nat) (es : List (Nat × Nat × Rat)) : List (Nat × Nat) × OState :=
  let r := (C10T.sortEdges es).foldl C10T.kruskalStep (ufInit n, [], [])
  let nb := nbOf r.2.2
  (r.2.1, iterB (C10T.orientStep nb) (n + 1) (C10T.orientInit nb root))

theorem bridge_mst (n root : Nat) (es : List (Nat × Nat × Rat)) (hns : ∀ e ∈ es, e.1 ≠ e.2.1) :
    mst_src n root es = mst n root es := by
  unfold mst_src mst kruskal
  have hs : ∀ e ∈ C10T.sortEdges es, e.1 ≠ e.2.1 := by
    intro e he
    exact hns e ((List.mergeSort_perm es _).mem_iff.mp he)
  have hnb : nbOf ((C10T.sortEdges es).foldl C10T.kruskalStep (ufInit n, [], [])).2.2 =
      treeNbrs ((C10T.sortEdges es).foldl C10T.kruskalStep (ufInit n, [], [])).2.1 := by
    funext u; exact bridge_kruskal_neighbours _ _ hs u
  have hk := bridge_kruskalLoop (C10T.sortEdges es) (ufInit n)
  have hE : ((C10T.sortEdges es).foldl C10T.kruskalStep (ufInit n, [], [])).2.1 =
      (kruskalLoop (C10T.sortEdges es) (ufInit n)).2 := by rw [← hk]; rfl
  simp only [hnb, bridge_orientInit, bridge_orient, hE]
  rfl

/-! ### forests -/

theorem bridge_forestStep_edge (g : Cfg) (n : Nat) (skipInf : Bool) (acc : (Nat → Bool) × List Nat × List Tree) (v : Nat) :
    let r := C10T.forestStep_edge (fun v => bfsTree g n v skipInf) (fun o t => (traverse (o == "BFS") n t).1) acc v
    (r.1, r.2.2) = forestStep g n skipInf (acc.1, acc.2.2) v ∧ r.2.1 = (if acc.1 v then acc.2.1 else acc.2.1 ++ [v]) := by
  unfold C10T.forestStep_edge forestStep
  cases h : acc.1 v <;> simp [h, foldl_mark]

theorem bridge_forestStep_face (g : Cfg) (n : Nat) (skipInf : Bool) (acc : (Nat → Bool) × List Nat × List Tree) (v : Nat) :
    let r := C10T.forestStep_face (fun v => bfsTree g n v skipInf) (fun o t => (traverse (o == "BFS") n t).1) acc v
    (r.1, r.2.2) = forestStep g n skipInf (acc.1, acc.2.2) v ∧ r.2.1 = (if acc.1 v then acc.2.1 else acc.2.1 ++ [v]) := by
  unfold C10T.forestStep_face forestStep
  cases h : acc.1 v <;> simp [h, foldl_mark]

theorem bridge_forestStep_cell (g : Cfg) (n : Nat) (skipInf : Bool) (acc : (Nat → Bool) × List Nat × List Tree) (v : Nat) :
    let r := C10T.forestStep_cell (fun v => bfsTree g n v skipInf) (fun o t => (traverse (o == "BFS") n t).1) acc v
    (r.1, r.2.2) = forestStep g n skipInf (acc.1, acc.2.2) v ∧ r.2.1 = (if acc.1 v then acc.2.1 else acc.2.1 ++ [v]) := by
  unfold C10T.forestStep_cell forestStep
  cases h : acc.1 v <;> simp [h, foldl_mark]

/-- a forest loop whose step refines the model's `forestStep` produces the model's forest, and its `roots` list is the
list of the roots of its trees -/
theorem forest_fold_generic (g : Cfg) (n : Nat) (skipInf : Bool)
    (stp : (Nat → Bool) × List Nat × List Tree → Nat → (Nat → Bool) × List Nat × List Tree)
    (hstp : ∀ acc v, ((stp acc v).1, (stp acc v).2.2) = forestStep g n skipInf (acc.1, acc.2.2) v ∧
      (stp acc v).2.1 = (if acc.1 v then acc.2.1 else acc.2.1 ++ [v])) :
    ∀ (l : List Nat) (acc : (Nat → Bool) × List Nat × List Tree), acc.2.1 = acc.2.2.map (·.root) →
      ((l.foldl stp acc).1, (l.foldl stp acc).2.2) = l.foldl (forestStep g n skipInf) (acc.1, acc.2.2) ∧
      (l.foldl stp acc).2.1 = (l.foldl stp acc).2.2.map (·.root) := by
  intro l
  induction l with
  | nil => intro acc h; exact ⟨rfl, h⟩
  | cons v l ih =>
    intro acc h
    simp only [List.foldl_cons]
    obtain ⟨h1, h2⟩ := hstp acc v
    have := ih (stp acc v) ?_
    · rw [h1] at this; exact this
    · rw [h2]
      have e2 : (stp acc v).2.2 = (forestStep g n skipInf (acc.1, acc.2.2) v).2 := by rw [← h1]
      rw [e2]
      unfold forestStep
      by_cases hv : acc.1 v = true
      · simp [hv, h]
      · simp [hv, h, bfsTree_root]

/-- `EdgeSpanningForest.compute` as written, over the source-level `compute_edge` and `traverseSrc` -/
def forest_edge_src (g : Cfg) (n : Nat) : (Nat → Bool) × List Nat × List Tree :=
  (List.range n).foldl (C10T.forestStep_edge (compute_edge g n) (fun o t => (C10T.traverseSrc (o == "BFS") n t).1))
    (fun _ => false, [], [])

def forest_face_src (g : C10T.RawCfg) (n : Nat) : (Nat → Bool) × List Nat × List Tree :=
  let g' : C10T.RawCfg := if C10T.forestPassesExcl_face then g else { g with excl := fun _ => false }
  (List.range n).foldl (C10T.forestStep_face (compute_face g' n) (fun o t => (C10T.traverseSrc (o == "BFS") n t).1))
    (fun _ => false, [], [])

def forest_cell_src (g : C10T.RawCfg) (n : Nat) : (Nat → Bool) × List Nat × List Tree :=
  (List.range n).foldl (C10T.forestStep_cell (compute_cell g n) (fun o t => (C10T.traverseSrc (o == "BFS") n t).1))
    (fun _ => false, [], [])

theorem trav_src_fun (n : Nat) : (fun (o : String) (t : Tree) => (C10T.traverseSrc (o == "BFS") n t).1) =
    (fun o t => (traverse (o == "BFS") n t).1) := by
  funext o t; exact (bridge_traverse _ n t).1

theorem bridge_forest_edge (g : Cfg) (n : Nat) :
    (forest_edge_src g n).2.2 = forest g n true ∧ (forest_edge_src g n).2.1 = (forest g n true).map (·.root) := by
  unfold forest_edge_src
  have hmk : compute_edge g n = fun v => bfsTree g n v true := by funext v; exact bridge_compute_edge g n v
  rw [hmk, trav_src_fun]
  obtain ⟨h1, h2⟩ := forest_fold_generic g n true _ (fun acc v => bridge_forestStep_edge g n true acc v)
    (List.range n) (fun _ => false, [], []) rfl
  rw [forest_eq]
  refine ⟨?_, ?_⟩
  · have := congrArg Prod.snd h1; simpa using this
  · rw [h2]; have := congrArg Prod.snd h1; simp at this; rw [this]

theorem bridge_forest_face (g : C10T.RawCfg) (n : Nat) :
    (forest_face_src g n).2.2 = forest g.cfg n false ∧ (forest_face_src g n).2.1 = (forest g.cfg n false).map (·.root) := by
  unfold forest_face_src
  have hp : C10T.forestPassesExcl_face = true := by decide
  simp only [hp, if_true]
  have hmk : compute_face g n = fun v => bfsTree g.cfg n v false := by funext v; exact bridge_compute_face g n v
  rw [hmk, trav_src_fun]
  obtain ⟨h1, h2⟩ := forest_fold_generic g.cfg n false _ (fun acc v => bridge_forestStep_face g.cfg n false acc v)
    (List.range n) (fun _ => false, [], []) rfl
  rw [forest_eq]
  refine ⟨?_, ?_⟩
  · have := congrArg Prod.snd h1; simpa using this
  · rw [h2]; have := congrArg Prod.snd h1; simp at this; rw [this]

theorem bridge_forest_cell (g : C10T.RawCfg) (n : Nat) :
    (forest_cell_src g n).2.2 = forest g.cfg n false ∧ (forest_cell_src g n).2.1 = (forest g.cfg n false).map (·.root) := by
  unfold forest_cell_src
  have hmk : compute_cell g n = fun v => bfsTree g.cfg n v false := by funext v; exact bridge_compute_cell g n v
  rw [hmk, trav_src_fun]
  obtain ⟨h1, h2⟩ := forest_fold_generic g.cfg n false _ (fun acc v => bridge_forestStep_cell g.cfg n false acc v)
    (List.range n) (fun _ => false, [], []) rfl
  rw [forest_eq]
  refine ⟨?_, ?_⟩
  · have := congrArg Prod.snd h1; simpa using this
  · rw [h2]; have := congrArg Prod.snd h1; simp at this; rw [this]

/-- `SpanningForest.edges` / `traverse` / `n_trees` as written: concatenation over the trees in order -/
theorem bridge_forest_accessors (trav : Tree → List (Nat × Option Nat)) (ts : List Tree) :
    C10T.forestEdges ts = ts.flatMap (·.edges) ∧ C10T.forestTraverse trav ts = ts.flatMap trav ∧
    C10T.forestNTrees ts = ts.length := by
  refine ⟨?_, ?_, rfl⟩
  · unfold C10T.forestEdges
    have : ∀ (l : List Tree) (a : List (Nat × Nat)), l.foldl (fun acc t => acc ++ t.edges) a = a ++ l.flatMap (·.edges) := by
      intro l; induction l with
      | nil => intro a; simp
      | cons t l ih => intro a; simp [ih]
    simpa using this ts []
  · unfold C10T.forestTraverse
    have : ∀ (l : List Tree) (a : List (Nat × Option Nat)),
        l.foldl (fun acc t => (trav t).foldl (fun acc el => acc ++ [el]) acc) a = a ++ l.flatMap trav := by
      intro l; induction l with
      | nil => intro a; simp
      | cons t l ih =>
        intro a
        simp only [List.foldl_cons, List.flatMap_cons]
        rw [ih, foldl_append_map]; simp
    simpa using this ts []

/-- `tree()` / `forest()` run `compute()` exactly once and hand back the object: calling the object `k+1` times leaves the
tables of a first `compute()` on a fresh object (with the resets read from the source) -/
theorem bridge_call (t : Tree) (k : Nat) (prev : Tables) :
    C10T.callComputes = 1 ∧
    computeTimes C10.resets_EdgeSpanningTree t (k * C10T.callComputes + 1) prev = computeOn C10.resets_EdgeSpanningTree Tables.fresh t := by
  refine ⟨rfl, ?_⟩
  exact recompute_eq_fresh_edge t _ prev

/-! ### the property theorems on the source-level compositions -/

section
variable {g : Cfg} {n root : Nat}

/-- `EdgeSpanningTree` as written (tables, put, loop, final loop, traverse — all translated): reaches exactly the
admissible component of the root, one fewer edge than reached elements, parent/children consistent, every tree edge an
admissible adjacency, and `traverse()` in both orders visits every reached element once, parents first. -/
theorem source_edge_tree_spec (hwf : WF g n) (hr : root < n) (bfs : Bool) :
    let t := compute_edge g n root
    (∀ x, t.reached x = true ↔ ∃ k, Hops g root x k) ∧
    t.edges.length + 1 = ((List.range n).filter t.reached).length ∧
    (∀ p c, c ∈ t.children p ↔ t.parent c = some p) ∧
    (∀ c p, t.parent c = some p → ∃ k, (c, k) ∈ g.adj p ∧ g.excl k = false) ∧
    (∃ O, C10T.traverseSrc bfs n t = (O, []) ∧ (nodes O).Nodup ∧ (∀ x, x ∈ nodes O ↔ t.reached x = true) ∧
      (∀ c ∈ nodes O, ∀ p, t.parent c = some p → p ∈ nodes O ∧ (nodes O).idxOf p < (nodes O).idxOf c)) := by
  intro t
  have ht : t = bfsTree g n root true := bridge_compute_edge g n root
  rw [ht]
  refine ⟨reached_eq_component hwf hr true, edge_count hwf hr true, (parent_children_consistent hwf hr true).1,
    (tree_edges_are_adjacencies hwf hr true).1, ?_⟩
  obtain ⟨O, h1, h2, h3, _, _, h6⟩ := traverse_once_parent_first hwf hr true bfs
  obtain ⟨b1, b2⟩ := bridge_traverse bfs n (bfsTree g n root true)
  refine ⟨O, ?_, h2, h3, h6⟩
  rw [h1] at b1 b2
  have : (C10T.traverseSrc bfs n (bfsTree g n root true)).2 = [] := by
    apply List.eq_nil_of_length_eq_zero; simpa using b2
  exact Prod.ext b1 this

theorem sum_succ_eq {α : Type} (a b : α → Nat) : ∀ l : List α, (∀ t ∈ l, a t + 1 = b t) →
    (l.map a).sum + l.length = (l.map b).sum := by
  intro l
  induction l with
  | nil => intro _; rfl
  | cons t l ih =>
    intro h
    have h1 := h t (List.mem_cons_self ..)
    have h2 := ih (fun t' ht' => h t' (List.mem_cons_of_mem _ ht'))
    simp only [List.map_cons, List.sum_cons, List.length_cons]
    omega

/-- P1 `forest_traverse_once` + `forest_edge_count`: the traversal of a forest (the concatenation of the traversals of
its trees, in either order) visits every element `0..n-1` exactly once and nothing else, and the forest has `n` minus
(number of trees) edges in total — "covers every element once", aggregated over the components. -/
theorem forest_traverse_once (hwf : WF g n) (hs : Sym g) (skipInf : Bool) (bfs : Bool) :
    let ts := forest g n skipInf
    let O := ts.flatMap (fun t => (traverse bfs n t).1)
    (nodes O).Nodup ∧ (∀ x, x ∈ nodes O ↔ x < n) ∧ (nodes O).length = n ∧
    (ts.flatMap (·.edges)).length + ts.length = n := by
  intro ts O
  obtain ⟨hbfs, hcov, hdisj, _⟩ := forest_one_tree_per_component hwf hs skipInf
  -- per tree facts
  have per : ∀ t ∈ ts, (nodes (traverse bfs n t).1).Nodup ∧ (∀ x, x ∈ nodes (traverse bfs n t).1 ↔ t.reached x = true) ∧
      (∀ x, t.reached x = true → x < n) ∧ t.edges.length + 1 = (nodes (traverse bfs n t).1).length := by
    intro t ht
    obtain ⟨hr, he⟩ := hbfs t ht
    obtain ⟨O', h1, h2, h3, _⟩ := traverse_once_parent_first hwf hr skipInf bfs
    have T := bfsTree_ok hwf hr skipInf
    rw [← he] at h1 h3 T
    have hO : (traverse bfs n t).1 = O' := by rw [h1]
    rw [hO]
    refine ⟨h2, h3, T.reached_lt, ?_⟩
    have hc := edge_count hwf hr skipInf
    rw [← he] at hc
    simp only at hc
    rw [hc]
    apply List.Perm.length_eq
    apply (List.perm_ext_iff_of_nodup ((List.nodup_range).filter _) h2).mpr
    intro x
    simp only [List.mem_filter, List.mem_range]
    rw [h3 x]
    exact ⟨fun h => h.2, fun h => ⟨T.reached_lt x h, h⟩⟩
  have hnodes : nodes O = ts.flatMap (fun t => nodes (traverse bfs n t).1) := by
    simp [O, nodes, List.map_flatMap]
  have hnd : (nodes O).Nodup := by
    rw [hnodes, List.nodup_flatMap]
    refine ⟨fun t ht => (per t ht).1, ?_⟩
    apply List.Pairwise.imp_of_mem _ hdisj
    intro t1 t2 h1 h2 hd
    intro x hx1 hx2
    exact hd x ⟨((per t1 h1).2.1 x).mp hx1, ((per t2 h2).2.1 x).mp hx2⟩
  have hmem : ∀ x, x ∈ nodes O ↔ x < n := by
    intro x
    rw [hnodes, List.mem_flatMap]
    constructor
    · rintro ⟨t, ht, hx⟩
      exact (per t ht).2.2.1 x (((per t ht).2.1 x).mp hx)
    · intro hx
      obtain ⟨t, ht, hr⟩ := hcov x hx
      exact ⟨t, ht, ((per t ht).2.1 x).mpr hr⟩
  have hlen : (nodes O).length = n := by
    have := (List.perm_ext_iff_of_nodup hnd (List.nodup_range (n := n))).mpr (fun x => by rw [hmem x, List.mem_range])
    rw [this.length_eq, List.length_range]
  refine ⟨hnd, hmem, hlen, ?_⟩
  rw [← hlen, hnodes, List.length_flatMap, List.length_flatMap]
  exact sum_succ_eq _ _ ts (fun t ht => (per t ht).2.2.2)

end

/-! ### face / cell trees, forests and the MST on the source-level compositions -/

section
variable {n root : Nat}

/-- `FaceSpanningTree` as written, on the raw connectivity (`face_to_edges` + `opposite_face`, `forbidden_edges`) -/
theorem source_face_tree_spec (g : C10T.RawCfg) (hwf : WF g.cfg n) (hr : root < n) (bfs : Bool) :
    let t := compute_face g n root
    (∀ x, t.reached x = true ↔ ∃ k, Hops g.cfg root x k) ∧
    t.edges.length + 1 = ((List.range n).filter t.reached).length ∧
    (∀ p c, c ∈ t.children p ↔ t.parent c = some p) ∧
    (∀ c p, t.parent c = some p → ∃ k, (k, some c) ∈ g.conn p ∧ g.excl k = false) ∧
    (∀ x, t.reached x = true → ∃ d, t.depth x = some d ∧ Hops g.cfg root x d ∧ ∀ k, Hops g.cfg root x k → d ≤ k) ∧
    (∃ O, C10T.traverseSrc bfs n t = (O, []) ∧ (nodes O).Nodup ∧ (∀ x, x ∈ nodes O ↔ t.reached x = true) ∧
      (∀ c ∈ nodes O, ∀ p, t.parent c = some p → p ∈ nodes O ∧ (nodes O).idxOf p < (nodes O).idxOf c)) := by
  intro t
  have ht : t = bfsTree g.cfg n root false := bridge_compute_face g n root
  rw [ht]
  refine ⟨reached_eq_component hwf hr false, edge_count hwf hr false, (parent_children_consistent hwf hr false).1, ?_, ?_, ?_⟩
  · intro c p hp
    obtain ⟨k, hk, he⟩ := (tree_edges_are_adjacencies hwf hr false).1 c p hp
    refine ⟨k, ?_, he⟩
    simp only [C10T.RawCfg.cfg, List.mem_filterMap] at hk
    obtain ⟨a, ha, hm⟩ := hk
    obtain ⟨k', o⟩ := a
    cases o with
    | none => simp at hm
    | some y => simp at hm; obtain ⟨rfl, rfl⟩ := hm; exact ha
  · intro x hx
    obtain ⟨d, h1, _, h3, h4⟩ := bfs_min_hops hwf hr false x hx
    exact ⟨d, h1, h3, h4⟩
  · obtain ⟨O, h1, h2, h3, _, _, h6⟩ := traverse_once_parent_first hwf hr false bfs
    obtain ⟨b1, b2⟩ := bridge_traverse bfs n (bfsTree g.cfg n root false)
    refine ⟨O, ?_, h2, h3, h6⟩
    rw [h1] at b1 b2
    have : (C10T.traverseSrc bfs n (bfsTree g.cfg n root false)).2 = [] := by
      apply List.eq_nil_of_length_eq_zero; simpa using b2
    exact Prod.ext b1 this

/-- `CellSpanningTree` as written (`cell_to_face` + `other_face_side`, `forbidden_faces`): the same facts -/
theorem source_cell_tree_spec (g : C10T.RawCfg) (hwf : WF g.cfg n) (hr : root < n) (bfs : Bool) :
    let t := compute_cell g n root
    (∀ x, t.reached x = true ↔ ∃ k, Hops g.cfg root x k) ∧
    t.edges.length + 1 = ((List.range n).filter t.reached).length ∧
    (∀ p c, c ∈ t.children p ↔ t.parent c = some p) ∧
    (∀ c p, t.parent c = some p → ∃ k, (k, some c) ∈ g.conn p ∧ g.excl k = false) ∧
    (∀ x, t.reached x = true → ∃ d, t.depth x = some d ∧ Hops g.cfg root x d ∧ ∀ k, Hops g.cfg root x k → d ≤ k) ∧
    (∃ O, C10T.traverseSrc bfs n t = (O, []) ∧ (nodes O).Nodup ∧ (∀ x, x ∈ nodes O ↔ t.reached x = true) ∧
      (∀ c ∈ nodes O, ∀ p, t.parent c = some p → p ∈ nodes O ∧ (nodes O).idxOf p < (nodes O).idxOf c)) := by
  have h : compute_cell g n root = compute_face g n root := by rw [bridge_compute_cell, bridge_compute_face]
  rw [h]
  exact source_face_tree_spec g hwf hr bfs

/-- `EdgeSpanningForest` as written (loop, constructor call, marking by traversal; `roots`, `edges`, `traverse`,
`n_trees` accessors): one breadth-first tree per connected component, roots = roots of the trees, every element
covered exactly once by the forest traversal, `n − n_trees` edges in total. -/
theorem source_forest_spec {g : Cfg} (hwf : WF g n) (hs : Sym g) (bfs : Bool) :
    let r := forest_edge_src g n
    r.2.1 = r.2.2.map (·.root) ∧
    (∀ t ∈ r.2.2, t.root < n ∧ t = compute_edge g n t.root) ∧
    r.2.2.Pairwise (fun t1 t2 => ¬ Conn g t1.root t2.root) ∧
    (∀ x, x < n → ∃ t ∈ r.2.2, t.reached x = true) ∧
    (let O := C10T.forestTraverse (fun t => (C10T.traverseSrc bfs n t).1) r.2.2
     (nodes O).Nodup ∧ (∀ x, x ∈ nodes O ↔ x < n)) ∧
    (C10T.forestEdges r.2.2).length + C10T.forestNTrees r.2.2 = n := by
  intro r
  obtain ⟨h1, h2⟩ := bridge_forest_edge g n
  obtain ⟨f1, f2, _, f4⟩ := forest_one_tree_per_component hwf hs true
  obtain ⟨t1, t2, _, t4⟩ := forest_traverse_once hwf hs true bfs
  have hr1 : r.2.2 = forest g n true := h1
  refine ⟨by rw [hr1]; exact h2, ?_, by rw [hr1]; exact f4, by rw [hr1]; exact f2, ?_, ?_⟩
  · intro t ht
    rw [hr1] at ht
    obtain ⟨a, b⟩ := f1 t ht
    exact ⟨a, by rw [bridge_compute_edge]; exact b⟩
  · obtain ⟨a1, a2, _⟩ := bridge_forest_accessors (fun t => (C10T.traverseSrc bfs n t).1) r.2.2
    simp only
    rw [a2, hr1]
    have : (fun t => (C10T.traverseSrc bfs n t).1) = (fun t => (traverse bfs n t).1) := by
      funext t; exact (bridge_traverse bfs n t).1
    rw [this]
    exact ⟨t1, t2⟩
  · obtain ⟨a1, _, a3⟩ := bridge_forest_accessors (fun t => (traverse bfs n t).1) r.2.2
    rw [a1, a3, hr1]
    exact t4

/-- `EdgeMinimalSpanningTree` as written (sort, Kruskal loop with connected/union, neighbour sets, orientation BFS):
the edge list is a minimum-weight spanning forest of the admissible edges and the parent/children tables orient exactly
the root's component of it. -/
theorem source_mst_spec (n root : Nat) (es : List (Nat × Nat × Rat)) (hwf : ∀ e ∈ es, e.1 < n ∧ e.2.1 < n)
    (hns : ∀ e ∈ es, e.1 ≠ e.2.1) (hroot : root < n) :
    (mst_src n root es).1 = (kruskalW n es).map (fun e => keyify e.1 e.2.1) ∧
    (∀ e ∈ es, CR ((kruskalW n es).map pr) e.1 e.2.1) ∧
    (∀ F : List (Nat × Nat × Rat), (∀ f ∈ F, f ∈ es) → Indep (F.map pr) → (∀ e ∈ es, CR (F.map pr) e.1 e.2.1) →
      ((kruskalW n es).map (·.2.2)).sum ≤ (F.map (·.2.2)).sum) ∧
    (mst_src n root es).2.queue = [] ∧ (mst_src n root es).2.parent root = none ∧
    (∀ c p, (mst_src n root es).2.parent c = some p → adjT (mst_src n root es).1 p c) ∧
    (∀ c, (c = root ∨ ((mst_src n root es).2.parent c).isSome = true) ↔ CR (mst_src n root es).1 root c) ∧
    (∀ p c, c ∈ (mst_src n root es).2.children p ↔ (mst_src n root es).2.parent c = some p) := by
  rw [bridge_mst n root es hns]
  obtain ⟨k1, _, _, k4, k5⟩ := kruskal_minimum n es hwf
  obtain ⟨m1, m2, m3, m4, m5, m6, _⟩ := mst_orientation n root es hwf hroot
  rw [m1]
  exact ⟨k1, k4, k5, m2, m3, m4, m5, m6⟩

end

/-! ### round 5: constructors, the computed flag, the exported polylines, Kruskal on the TRANSLATED UnionFind -/

/-- `_computed` is False after every constructor, every concrete `compute()` (edge, mst, face, cell) ends by setting it and
has no early return, and `traverse` raises exactly when the flag is unset or the order is neither "BFS" nor "DFS" -/
theorem bridge_computed_flag :
    C10T.computedAfterInit = false ∧ C10T.computedAfterCompute = true ∧
    C10T.traverseGuard C10T.computedAfterInit "BFS" = none ∧ C10T.traverseGuard C10T.computedAfterCompute "BFS" = some () ∧
    C10T.traverseGuard C10T.computedAfterCompute "DFS" = some () ∧ C10T.traverseGuard C10T.computedAfterCompute "dfs" = none ∧
    C10T.computeSetsFlag = [("edge", true), ("mst", true), ("face", true), ("cell", true)] := by decide

/-- the constructors: a given root is taken as it is (element 0 included), the default root `randint(0, n − 1)` is an
element of a non-empty mesh (so `root < n`, the hypothesis of every tree theorem, holds); a missing exclusion set is the
empty set; the MST passes no `avoid_edges` -/
theorem bridge_constructors (r n : Nat) (randint : Nat → Nat → Nat) (f : Nat → Bool) :
    C10T.rootOf (some r) randint n = r ∧
    ((∀ a b, a ≤ b → a ≤ randint a b ∧ randint a b ≤ b) → 0 < n → C10T.rootOf none randint n < n) ∧
    C10T.exclOf none = (fun _ => false) ∧ C10T.exclOf (some f) = f ∧ C10T.mstAvoidEdges = none := by
  refine ⟨rfl, ?_, rfl, rfl, rfl⟩
  intro h hn
  have := (h 0 (n - 1) (Nat.zero_le _)).2
  show randint 0 (n - 1) < n
  omega

theorem polyEdges_edge_fold : ∀ (l : List (Nat × Option Nat)) (out : List (Nat × Nat)),
    l.foldl (fun out vf => match vf.2 with
      | none => out
      | some father => out ++ [keyify vf.1 father]) out = out ++ l.filterMap (fun vf => vf.2.map (fun f => keyify vf.1 f)) := by
  intro l
  induction l with
  | nil => intro out; simp
  | cons vf l ih =>
    intro out
    obtain ⟨v, o⟩ := vf
    simp only [List.foldl_cons]
    cases o <;> simp [ih]

section
variable {g : Cfg} {n root : Nat}

/-- `EdgeSpanningTree.build_tree_as_polyline` as written: the exported polyline (vertices = the mesh vertices, same
numbering) has exactly the tree's edges -/
theorem polyline_edge_has_tree_edges (hwf : WF g n) (hr : root < n) (e : Nat × Nat) :
    let t := compute_edge g n root
    e ∈ C10T.polyEdges_edge (fun o => (C10T.traverseSrc (o == "BFS") n t).1) ↔ e ∈ t.edges := by
  intro t
  have ht : t = bfsTree g n root true := bridge_compute_edge g n root
  rw [ht]
  obtain ⟨O, h1, _, h3, h4, _⟩ := traverse_once_parent_first hwf hr true true
  have hO : (C10T.traverseSrc ("BFS" == "BFS") n (bfsTree g n root true)).1 = O := by
    have := (bridge_traverse true n (bfsTree g n root true)).1
    rw [h1] at this
    exact this
  have hpe : C10T.polyEdges_edge (fun o => (C10T.traverseSrc (o == "BFS") n (bfsTree g n root true)).1) =
      O.filterMap (fun vf => vf.2.map (fun f => keyify vf.1 f)) := by
    unfold C10T.polyEdges_edge
    rw [← hO]
    exact (polyEdges_edge_fold _ []).trans (List.nil_append _)
  rw [hpe, List.mem_filterMap]
  rw [(tree_edges_are_adjacencies hwf hr true).2 e]
  constructor
  · rintro ⟨vf, hvf, hm⟩
    have hp := h4 vf hvf
    cases ho : vf.2 with
    | none => rw [ho] at hm; simp at hm
    | some f =>
      rw [ho] at hm; simp at hm
      exact ⟨vf.1, f, by rw [← hp, ho], by rw [← hm, keyify_comm]⟩
  · rintro ⟨c, p, hp, rfl⟩
    have hc := ((parent_children_consistent hwf hr true).2.2.2.2 c p hp).1
    have hmem := (h3 c).mpr hc
    obtain ⟨vf, hvf, rfl⟩ := List.mem_map.mp hmem
    have := h4 vf hvf
    exact ⟨vf, hvf, by rw [this, hp]; simp [keyify_comm]⟩

end

theorem polyEdges_raw_fold (parent : Nat → Option Nat) : ∀ (l : List Nat) (out : List (Nat × Nat)),
    l.foldl (fun out i => match parent i with
      | some p => out ++ [(i, p)]
      | none => out) out = out ++ l.filterMap (fun i => (parent i).map (fun p => (i, p))) := by
  intro l
  induction l with
  | nil => intro out; simp
  | cons i l ih =>
    intro out
    simp only [List.foldl_cons]
    cases hp : parent i <;> simp [ih, hp]

/-- `FaceSpanningTree` / `CellSpanningTree.build_tree_as_polyline` as written: the exported polyline (vertex i = barycentre
of element i) has one segment `[i, parent[i]]` per element with a parent — keyified, this is exactly the tree's edge list,
in order -/
theorem polyline_face_has_tree_edges (g : C10T.RawCfg) (n root : Nat) :
    (C10T.polyEdges_face n (compute_face g n root).parent).map (fun e => keyify e.2 e.1) = (compute_face g n root).edges ∧
    (C10T.polyEdges_cell n (compute_cell g n root).parent).map (fun e => keyify e.2 e.1) = (compute_cell g n root).edges := by
  have key : ∀ (parent : Nat → Option Nat), ((List.range n).filterMap (fun i => (parent i).map (fun p => (i, p)))).map
      (fun e => keyify e.2 e.1) = mkEdges parent (fun _ => true) (List.range n) := by
    intro parent
    unfold mkEdges
    rw [List.map_filterMap]
    congr 1
    funext i
    cases parent i <;> simp
  constructor
  · rw [bridge_compute_face]
    have hp : C10T.polyEdges_face n (bfsTree g.cfg n root false).parent =
        (List.range n).filterMap (fun i => ((bfsTree g.cfg n root false).parent i).map (fun p => (i, p))) := by
      unfold C10T.polyEdges_face
      exact (polyEdges_raw_fold _ _ []).trans (List.nil_append _)
    rw [hp, key]
    simp [bfsTree]
  · rw [bridge_compute_cell]
    have hp : C10T.polyEdges_cell n (bfsTree g.cfg n root false).parent =
        (List.range n).filterMap (fun i => ((bfsTree g.cfg n root false).parent i).map (fun p => (i, p))) := by
      unfold C10T.polyEdges_cell
      exact (polyEdges_raw_fold _ _ []).trans (List.nil_append _)
    rw [hp, key]
    simp [bfsTree]

/-! Kruskal over the UnionFind class as translated from mouette/utils/unionfind.py (property C20) -/

open Mouette.C20Src Mouette.UFS in
/-- forgetting the `_indx` dict of the translated state -/
def mapSt (r : UFS.St × List (Nat × Nat) × List (Nat × Nat)) : UF.State × List (Nat × Nat) × List (Nat × Nat) :=
  (r.1.toState, r.2.1, r.2.2)

open Mouette.C20Src Mouette.UFS Mouette.Props.C20Source in
theorem kruskalStepUF_bridge {acc : UFS.St × List (Nat × Nat) × List (Nat × Nat)} (h : IndxInv acc.1) (e : Nat × Nat × Rat) :
    mapSt (C10T.kruskalStepUF acc e) = C10T.kruskalStep (mapSt acc) e ∧ IndxInv (C10T.kruskalStepUF acc e).1 := by
  obtain ⟨b1, b2⟩ := connected_bridge h e.1 e.2.1
  unfold C10T.kruskalStepUF C10T.kruskalStep mapSt
  simp only
  rw [← b1]
  cases hc : C20.connected acc.1 e.1 e.2.1 with
  | none => exact ⟨rfl, h⟩
  | some r =>
    obtain ⟨g1, c⟩ := r
    obtain ⟨hi1, _⟩ := b2 g1 c hc
    cases c with
    | true => exact ⟨rfl, hi1⟩
    | false =>
      obtain ⟨g2, u1, u2, u3⟩ := union_bridge hi1 e.1 e.2.1
      simp only [lift, Option.map_some, Bool.not_false, if_true, u1]
      refine ⟨?_, u3⟩
      rw [u2]
      show _ = (UF.union g1.toState e.1 e.2.1, _, _)
      rw [← UF.unionC_lt]
      rfl

open Mouette.C20Src Mouette.UFS Mouette.Props.C20Source in
/-- `bridge_kruskal_uf`: the Kruskal loop of `EdgeMinimalSpanningTree.compute` run on the UnionFind class AS TRANSLATED from
unionfind.py (`UnionFind(ids)`, `connected`, `union` of Generated/C20UF.lean) produces the edge list and neighbour
insertions of the loop on the hand model — hence of `kruskalLoop` (`bridge_kruskalLoop`) -/
theorem bridge_kruskal_uf (n : Nat) : ∀ (es : List (Nat × Nat × Rat)) (acc : UFS.St × List (Nat × Nat) × List (Nat × Nat)),
    IndxInv acc.1 → mapSt (es.foldl C10T.kruskalStepUF acc) = es.foldl C10T.kruskalStep (mapSt acc) := by
  intro es
  induction es with
  | nil => intro acc _; rfl
  | cons e es ih =>
    intro acc h
    simp only [List.foldl_cons]
    obtain ⟨a, b⟩ := kruskalStepUF_bridge h e
    rw [ih _ b, a]

open Mouette.C20Src Mouette.UFS Mouette.Props.C20Source in
theorem bridge_ufCtor (n : Nat) : (C10T.ufCtor n).toState = ufInit n ∧ IndxInv (C10T.ufCtor n) := by
  obtain ⟨a, b⟩ := ctor_bridge (List.range n) init_bridge.2
  refine ⟨?_, b⟩
  unfold C10T.ufCtor
  rw [a, init_bridge.1]
  rfl

open Mouette.C20Src Mouette.UFS Mouette.Props.C20Source in
/-- the MST edge list computed through the translated UnionFind is the model's `kruskal` (so `kruskal_minimum` and
`mst_orientation` speak about unionfind.py as it is now) -/
theorem kruskal_uf_eq (n : Nat) (es : List (Nat × Nat × Rat)) :
    ((C10T.sortEdges es).foldl C10T.kruskalStepUF (C10T.ufCtor n, [], [])).2.1 = kruskal n es := by
  obtain ⟨c1, c2⟩ := bridge_ufCtor n
  have h := bridge_kruskal_uf n (C10T.sortEdges es) (C10T.ufCtor n, [], []) c2
  have h2 := bridge_kruskalLoop (C10T.sortEdges es) (ufInit n)
  have e1 : ((C10T.sortEdges es).foldl C10T.kruskalStepUF (C10T.ufCtor n, [], [])).2.1 =
      (mapSt ((C10T.sortEdges es).foldl C10T.kruskalStepUF (C10T.ufCtor n, [], []))).2.1 := rfl
  rw [e1, h]
  have e2 : mapSt (C10T.ufCtor n, [], []) = (ufInit n, [], []) := by unfold mapSt; rw [c1]
  rw [e2]
  have : (projK ((C10T.sortEdges es).foldl C10T.kruskalStep (ufInit n, [], []))).2 = (kruskalLoop (C10T.sortEdges es) (ufInit n)).2 := by
    rw [h2]
  exact this

/-! ### non-vacuity (tests of the translated definitions on the example graph of Props/C10) -/

example : (compute_edge exG 7 0).edges = [(0, 1), (2, 3), (0, 3), (2, 4)] := by decide +kernel
example : (C10T.traverseSrc false 7 (compute_edge exG 7 0)).1.map (·.1) = [0, 3, 2, 4, 1] := by decide +kernel
example : (C10T.traverseSrc true 7 (compute_edge exG 7 0)).1.map (·.1) = [0, 1, 3, 2, 4] := by decide +kernel
example : (forest_edge_src exG 7).2.1 = [0, 5] := by decide +kernel
example : ((forest exG 7 true).flatMap (·.edges)).length + (forest exG 7 true).length = 7 := by decide +kernel
/-- a face-like raw connectivity: element 0 —(connector 5)→ 1, connector 6 on the border, connector 5 excluded or not -/
example : (compute_face { conn := fun x => if x = 0 then [(5, some 1), (6, none)] else if x = 1 then [(5, some 0)] else [],
                          excl := fun _ => false } 2 0).edges = [(0, 1)] := by decide +kernel
example : (compute_face { conn := fun x => if x = 0 then [(5, some 1), (6, none)] else if x = 1 then [(5, some 0)] else [],
                          excl := fun k => k == 5 } 2 0).edges = [] := by decide +kernel
/-- the Kruskal loop as translated, on an already sorted edge list (`mergeSort` does not reduce in the kernel): the edge
0-1 of weight 3 closes a cycle and is skipped; then the orientation from root 0 over the inserted neighbour pairs -/
example : ([(1, 2, 1), (0, 2, 1), (2, 3, 2), (0, 1, 3)].foldl C10T.kruskalStep (ufInit 4, [], [])).2.1 = [(1, 2), (0, 2), (2, 3)] := by
  decide +kernel
example : (List.range 4).map (iterB (C10T.orientStep (nbOf [(1, 2), (2, 1), (0, 2), (2, 0), (2, 3), (3, 2)])) 5
    (C10T.orientInit (nbOf [(1, 2), (2, 1), (0, 2), (2, 0), (2, 3), (3, 2)]) 0)).parent = [none, some 2, some 0, some 2] := by
  decide +kernel
example : C10T.admissible true false (fun e => e == 1) 3 = [0, 2] := by decide

end Mouette.Props.C10
