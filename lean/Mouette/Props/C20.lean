import Mouette.Lemmas.UnionFind
import Mouette.Lemmas.PQueue
/-!
# C20 — union-find and priority queue

Property theorems only.  Every theorem is followed by an `example` showing that its hypotheses are
satisfiable on a concrete, non-trivial state / history (non-vacuity).

Vocabulary (defined in `Mouette/Lemmas/UnionFind.lean`, `Mouette/Lemmas/PQueue.lean`):
* `run ops` — state after the history `ops : List Op` (adds, unions, and the three queries, which
  mutate `par` through path halving);
* `present ops` — elements added by `add x` or mentioned by `union x y`;
* `Joined ops a b` — the equivalence closure of the pairs `(x, y)` of all `union x y` in `ops`
  ("a chain of unions joins `a` and `b`");
* `Inv s` — representation invariant; `classOf s x` — root index of the class of element `x`;
* `PopOk q e q'` — `e` is a pending pair of minimum priority and `q'` is `q` minus one `e`.
-/
namespace Mouette.Props.C20
open Mouette.UF Mouette.PQ

/-- the history used in the non-vacuity examples: three unions building a tree of depth 2
(`3 → 2 → 0` in `par = [0,0,0,2,4]`), a late add, a repeated add -/
private def hist : List Op := [.union 1 2, .union 3 4, .union 2 4, .add 9, .add 1]

/-! ## Union-find: invariant, termination -/

/-- The empty structure satisfies the invariant. -/
theorem inv_init : Inv init := UF.inv_init

example : init.elts = [] ∧ init.nComps = 0 := by decide

/-- Every operation — `add`, `union`, and the path-halving queries — preserves the invariant. -/
theorem inv_step {s : State} (h : Inv s) (op : Op) : Inv (step s op) := UF.inv_step h op

/-- Every reachable state satisfies the invariant. -/
theorem inv_run (ops : List Op) : Inv (run ops) := UF.inv_run ops

-- a reachable state with a non-trivial forest; the query `find 4` really rewrites `par`
example : (run hist).par = [0, 0, 0, 2, 4] ∧ (step (run hist) (.find 4)).par = [0, 0, 0, 0, 4] := by
  decide
example : Inv (step (run hist) (.find 4)) := inv_step (inv_run hist) _

/-- `find` on a present element terminates within the fuel `par.length`, returns a root index in
range (the root of the element's class), and leaves a state satisfying the invariant. -/
theorem find_root {s : State} (h : Inv s) {x : Nat} (hx : x ∈ s.elts) :
    ∃ s' r, find s x = some (s', r) ∧ r < s.elts.length ∧ parent s'.par r = r ∧
      r = classOf s x ∧ Inv s' := by
  obtain ⟨s', r, hf, i', pe, hr, hlt⟩ := find_spec h hx
  exact ⟨s', r, hf, hlt, (pe.par.root_iff r).mpr hr.isRoot,
    ((rootOf_eq_iff h (idxOf_lt hx) r).mpr hr).symm, i'⟩

example : 4 ∈ (run hist).elts ∧ (find (run hist) 4).map Prod.snd = some 0 := by decide

/-- `find` raises (`none`) exactly on absent elements. -/
theorem find_none_iff (s : State) (x : Nat) : find s x = none ↔ x ∉ s.elts :=
  find_eq_none_iff s x

example : find (run hist) 7 = none ∧ find (run hist) 9 ≠ none := by decide

/-! ## Union-find: refinement of the abstract partition -/

/-- The stored elements are exactly those added or mentioned by a union. -/
theorem elts_eq_present (ops : List Op) (x : Nat) : x ∈ (run ops).elts ↔ x ∈ present ops :=
  (refines_run ops).mem x

example : (run hist).elts = [1, 2, 3, 4, 9] ∧ present hist = [1, 2, 3, 4, 2, 4, 9, 1] := by decide

/-- MAIN: after any history, `connected x y` on present elements succeeds and answers `true`
exactly when a chain of unions joins `x` and `y`. -/
theorem uf_refines (ops : List Op) (x y : Nat) (hx : x ∈ (run ops).elts) (hy : y ∈ (run ops).elts) :
    ∃ s' b, connected (run ops) x y = some (s', b) ∧ (b = true ↔ Joined ops x y) := by
  obtain ⟨s', b, hc, _, _, hb⟩ := connected_spec (UF.inv_run ops) hx hy
  exact ⟨s', b, hc, hb.trans ((refines_run ops).cls x y hx hy)⟩

/-- `connected` raises exactly when one of the elements is absent. -/
theorem connected_none_iff (s : State) (x y : Nat) :
    connected s x y = none ↔ x ∉ s.elts ∨ y ∉ s.elts := connected_eq_none_iff s x y

example : (connected (run hist) 1 4).map Prod.snd = some true ∧
    (connected (run hist) 1 9).map Prod.snd = some false ∧ connected (run hist) 1 7 = none := by
  decide
-- both sides of the equivalence occur: 1 and 4 are joined by a chain of three unions, 1 and 9 are not
example : Joined hist 1 4 :=
  ((EqvClosure.rel (by decide : ((1, 2) : Nat × Nat) ∈ unionPairs hist)).trans
    (EqvClosure.rel (by decide : ((2, 4) : Nat × Nat) ∈ unionPairs hist)))
example : ¬ Joined hist 1 9 := by
  obtain ⟨s', b, hc, hb⟩ := uf_refines hist 1 9 (by decide) (by decide)
  intro hj
  have hb' := hb.mpr hj
  subst hb'
  have : (connected (run hist) 1 9).map Prod.snd = some true := by rw [hc]; rfl
  revert this; decide

/-- The pure observer agrees: two present elements have the same class root iff they are joined. -/
theorem classOf_eq_iff_joined (ops : List Op) (x y : Nat) (hx : x ∈ present ops)
    (hy : y ∈ present ops) : classOf (run ops) x = classOf (run ops) y ↔ Joined ops x y :=
  (refines_run ops).cls x y ((elts_eq_present ops x).mpr hx) ((elts_eq_present ops y).mpr hy)

example : classOf (run hist) 1 = classOf (run hist) 4 ∧ classOf (run hist) 1 ≠ classOf (run hist) 9 := by
  decide

/-! ## Counts and root set -/

/-- `n_elts` is the number of stored elements, which are pairwise distinct, i.e. the number of
distinct present elements; `n_comps` is the number of root indices. -/
theorem counts (ops : List Op) :
    (run ops).nElts = (run ops).elts.length ∧ (run ops).elts.Nodup ∧
    (run ops).nElts = (present ops).eraseDups.length ∧
    (run ops).nComps = ((List.range (run ops).elts.length).filter
      (fun i => decide (parent (run ops).par i = i))).length := by
  have inv := UF.inv_run ops
  refine ⟨inv.nEltsEq, inv.nodup, ?_, nComps_eq_rootIdxs inv⟩
  rw [inv.nEltsEq]
  apply List.Perm.length_eq
  rw [List.perm_ext_iff_of_nodup inv.nodup (nodup_eraseDups _ _ (Nat.le_refl _))]
  intro x
  rw [List.mem_eraseDups]
  exact elts_eq_present ops x

example : (run hist).nElts = 5 ∧ (run hist).nComps = 2 := by decide

/-- The component count describes the partition: there is a list of `n_comps` present elements,
pairwise *not* joined, such that every present element is joined to one of them — i.e. `n_comps`
is the number of `Joined`-classes among the present elements. -/
theorem nComps_counts_classes (ops : List Op) :
    ∃ reps : List Nat, reps.length = (run ops).nComps ∧
      (∀ e, e ∈ reps → e ∈ present ops) ∧
      (∀ x, x ∈ present ops → ∃ e, e ∈ reps ∧ Joined ops x e) ∧
      reps.Pairwise (fun a b => ¬ Joined ops a b) := by
  have inv := UF.inv_run ops
  have rf := refines_run ops
  obtain ⟨h1, h2, h3, h4⟩ := reps_spec inv
  refine ⟨_, h1, fun e he => (rf.mem e).mp (h2 e he), ?_, ?_⟩
  · intro x hx
    have hx' := (rf.mem x).mpr hx
    obtain ⟨e, he, hc⟩ := h3 x hx'
    exact ⟨e, he, (rf.cls x e hx' (h2 e he)).mp hc⟩
  · refine h4.imp_of_mem ?_
    intro a b ha hb hne hj
    exact hne ((rf.cls a b (h2 a ha) (h2 b hb)).mpr hj)

example : (rootIdxs (run hist)).map (eltAt (run hist)) = [1, 9] := by decide

/-- Each class contains exactly one root: the class root of a stored element is a root index in
range, and every root index is the class root of the element stored there (so root indices and
classes are in bijection). -/
theorem one_root_per_class {s : State} (h : Inv s) :
    (∀ x, x ∈ s.elts → classOf s x < s.elts.length ∧ parent s.par (classOf s x) = classOf s x) ∧
    (∀ r, r < s.elts.length → parent s.par r = r → eltAt s r ∈ s.elts ∧ classOf s (eltAt s r) = r) :=
  ⟨fun _ hx => ⟨classOf_lt h hx, rootOf_isRoot h (idxOf_lt hx)⟩,
   fun _ hr hp => ⟨eltAt_mem hr, classOf_eltAt_root h (mem_rootIdxs.mpr ⟨hr, hp⟩)⟩⟩

example : rootIdxs (run hist) = [0, 4] ∧ eltAt (run hist) 4 = 9 ∧ classOf (run hist) 9 = 4 ∧
    classOf (run hist) 3 = 0 := by decide

/-- The root set reported by `roots()` (`rootsList`) is exactly the set of root indices, the
`i`-th reported root is the class root of the `i`-th element, and computing it does not change
the partition. -/
theorem roots_spec {s : State} (h : Inv s) :
    (rootsList s).2 = s.elts.map (classOf s) ∧
    (∀ r, r ∈ (rootsList s).2 ↔ (r < s.elts.length ∧ parent s.par r = r)) ∧
    Inv (rootsList s).1 ∧ PEquiv s (rootsList s).1 :=
  ⟨rootsList_snd h, fun r => (mem_rootsList h r).trans mem_rootIdxs, (rootsList_spec h).1,
    (rootsList_spec h).2.1⟩

example : (rootsList (run hist)).2 = [0, 0, 0, 0, 4] := by decide

/-! ## Queries never change the partition -/

/-- A query (`find`, `connected`, `component`) leaves the elements, both counters and every
`connected` answer unchanged (it may only rearrange `par` by path halving). -/
theorem queries_preserve_partition {s : State} (h : Inv s) {op : Op} (hq : op.isQuery = true) :
    (step s op).elts = s.elts ∧ (step s op).nElts = s.nElts ∧ (step s op).nComps = s.nComps ∧
    (∀ x y, (connected (step s op) x y).map Prod.snd = (connected s x y).map Prod.snd) ∧
    (∀ x, x ∈ s.elts → classOf (step s op) x = classOf s x) := by
  obtain ⟨i', pe⟩ := step_query h hq
  exact ⟨pe.elts, pe.nElts, pe.nComps, fun x y => connected_answer_pequiv h i' pe x y,
    fun x hx => pe.classOf h i' hx⟩

-- the query really mutates the state, yet the observable partition is the same
example : step (run hist) (.find 4) ≠ run hist ∧ step (run hist) (.component 4) ≠ run hist ∧
    step (run hist) (.connected 4 9) ≠ run hist := by decide

/-- History form: inserting queries anywhere in a history changes no later answer — the partition
after `ops` only depends on the adds and unions. -/
theorem joined_ignores_queries (ops : List Op) (x y : Nat) :
    Joined ops x y ↔ Joined (ops.filter (fun op => !op.isQuery)) x y := by
  apply Joined_of_pairs_eq
  induction ops with
  | nil => rfl
  | cons op ops ih => cases op <;> simp [Op.isQuery, unionPairs, ih]

example : hist.filter (fun op => !op.isQuery) = hist := by decide

/-! ## Component listing -/

/-- `component x` on a present element returns exactly the stored elements in the class of `x`
(in `_elts` order, hence without repetition), and does not change the partition. -/
theorem component_spec {s : State} (h : Inv s) {x : Nat} {s' : State} {l : List Nat}
    (hc : component s x = some (s', l)) :
    (∀ e, e ∈ l ↔ (e ∈ s.elts ∧ classOf s e = classOf s x)) ∧ l.Nodup ∧ x ∈ l ∧
      Inv s' ∧ PEquiv s s' := by
  have hx : x ∈ s.elts := by
    apply Classical.byContradiction
    intro hn
    rw [component_of_not_mem hn] at hc; cases hc
  obtain ⟨s2, h2, i2, pe⟩ := component_spec' h hx
  rw [h2] at hc
  injection hc with hc
  injection hc with e1 e2
  subst e1 e2
  refine ⟨fun e => by simp [classOf], ?_, by simp [hx], i2, pe⟩
  exact List.Nodup.sublist List.filter_sublist h.nodup

/-- `component` raises exactly on absent elements. -/
theorem component_none_iff (s : State) (x : Nat) : component s x = none ↔ x ∉ s.elts :=
  component_eq_none_iff s x

/-- History form: after any history the component of a present `x` lists exactly the present
elements joined to `x` by a chain of unions. -/
theorem component_joined (ops : List Op) {x : Nat} (hx : x ∈ present ops) :
    ∃ s' l, component (run ops) x = some (s', l) ∧
      ∀ e, e ∈ l ↔ (e ∈ present ops ∧ Joined ops e x) := by
  have inv := UF.inv_run ops
  have rf := refines_run ops
  have hx' := (rf.mem x).mpr hx
  obtain ⟨s', h', _⟩ := component_spec' inv hx'
  refine ⟨s', _, h', fun e => ?_⟩
  rw [(component_spec inv h').1 e]
  constructor
  · rintro ⟨he, hc⟩; exact ⟨(rf.mem e).mp he, (rf.cls e x he hx').mp hc⟩
  · rintro ⟨he, hj⟩
    have he' := (rf.mem e).mpr he
    exact ⟨he', (rf.cls e x he' hx').mpr hj⟩

example : (component (run hist) 4).map Prod.snd = some [1, 2, 3, 4] ∧
    (component (run hist) 9).map Prod.snd = some [9] ∧ component (run hist) 7 = none := by decide

/-- Every element belongs to exactly one component: the components of two elements are either the
same list or disjoint, and each element is in its own component. -/
theorem component_partition {s : State} (h : Inv s) {x y : Nat} {sx sy : State} {lx ly : List Nat}
    (hx : component s x = some (sx, lx)) (hy : component s y = some (sy, ly)) :
    x ∈ lx ∧ ((∃ e, e ∈ lx ∧ e ∈ ly) → lx = ly) ∧ ((¬ ∃ e, e ∈ lx ∧ e ∈ ly) ∨ lx = ly) := by
  have hxm : x ∈ s.elts := by
    apply Classical.byContradiction
    intro hn
    rw [component_of_not_mem hn] at hx; cases hx
  have hym : y ∈ s.elts := by
    apply Classical.byContradiction
    intro hn
    rw [component_of_not_mem hn] at hy; cases hy
  have hmemx := (component_spec h hx).1
  have hmemy := (component_spec h hy).1
  obtain ⟨_, ex, _⟩ := component_spec' h hxm
  obtain ⟨_, ey, _⟩ := component_spec' h hym
  rw [ex] at hx; rw [ey] at hy
  injection hx with hx; injection hx with _ hx
  injection hy with hy; injection hy with _ hy
  have key : (∃ e, e ∈ lx ∧ e ∈ ly) → lx = ly := by
    rintro ⟨e, h1, h2⟩
    have c1 := ((hmemx e).mp h1).2
    have c2 := ((hmemy e).mp h2).2
    rw [← hx, ← hy]
    show List.filter (fun e => decide (classOf s e = classOf s x)) s.elts
      = List.filter (fun e => decide (classOf s e = classOf s y)) s.elts
    rw [← c1, ← c2]
  refine ⟨(component_spec h (by rw [ex, hx])).2.2.1, key, ?_⟩
  by_cases hex : ∃ e, e ∈ lx ∧ e ∈ ly
  · exact Or.inr (key hex)
  · exact Or.inl hex

example : (component (run hist) 1).map Prod.snd = (component (run hist) 4).map Prod.snd ∧
    (component (run hist) 1).map Prod.snd ≠ (component (run hist) 9).map Prod.snd := by decide

/-- `components()` lists each class once: its length is `n_comps`, every listed component is the
full class of one of its members, and every stored element lies in exactly one listed component. -/
theorem components_spec {s : State} (h : Inv s) :
    ∃ s' cs, components s = (s', cs) ∧ Inv s' ∧ PEquiv s s' ∧ cs.length = s.nComps ∧
      (∀ c, c ∈ cs → ∃ x, x ∈ c ∧ ∀ e, e ∈ c ↔ (e ∈ s.elts ∧ classOf s e = classOf s x)) ∧
      (∀ e, e ∈ s.elts → ∃ c, (c ∈ cs ∧ e ∈ c) ∧ ∀ c', (c' ∈ cs ∧ e ∈ c') → c' = c) := by
  obtain ⟨s', hc, i', pe⟩ := UF.components_spec h
  refine ⟨s', _, hc, i', pe, ?_, ?_, ?_⟩
  · rw [List.length_map, (eraseDups_roots_perm h).length_eq, nComps_eq_rootIdxs h]
  · intro c hc
    obtain ⟨r, hr, rfl⟩ := List.mem_map.mp hc
    rw [List.mem_eraseDups] at hr
    obtain ⟨x, hx, rfl⟩ := List.mem_map.mp hr
    exact ⟨x, mem_classList.mpr ⟨hx, rfl⟩, fun e => mem_classList⟩
  · intro e he
    refine ⟨classList s (classOf s e), ⟨List.mem_map.mpr ⟨classOf s e, ?_, rfl⟩,
      mem_classList.mpr ⟨he, rfl⟩⟩, ?_⟩
    · rw [List.mem_eraseDups]; exact List.mem_map.mpr ⟨e, he, rfl⟩
    · rintro c' ⟨hc', hec'⟩
      obtain ⟨r, _, rfl⟩ := List.mem_map.mp hc'
      rw [(mem_classList.mp hec').2]

example : (components (run hist)).2 = [[1, 2, 3, 4], [9]] := by decide

/-- `component_mapping()` maps exactly the stored elements, each to the list of its class. -/
theorem component_mapping_spec {s : State} (h : Inv s) :
    ∃ s' m, componentMapping s = (s', m) ∧ Inv s' ∧ PEquiv s s' ∧
      ∀ x c, (x, c) ∈ m ↔ (x ∈ s.elts ∧ c = classList s (classOf s x)) := by
  obtain ⟨s', hc, i', pe⟩ := componentMapping_spec h
  exact ⟨s', _, hc, i', pe, fun x c => mem_componentMapping_list x c⟩

example : (componentMapping (run hist)).2 =
    [(1, [1, 2, 3, 4]), (2, [1, 2, 3, 4]), (3, [1, 2, 3, 4]), (4, [1, 2, 3, 4]), (9, [9])] := by
  decide

/-! ## Corollaries: repeated adds, self unions, unions of absent elements -/

/-- Adding twice is adding once; adding a present element changes nothing. -/
theorem add_idempotent (s : State) (x : Nat) :
    add (add s x) x = add s x ∧ (x ∈ s.elts → add s x = s) :=
  ⟨UF.add_idempotent s x, fun h => add_of_mem h⟩

example : add (run hist) 3 = run hist ∧ add (run hist) 7 ≠ run hist := by decide

/-- A self union only makes sure the element is present: the state equals `add s x` up to path
halving, so elements, counters and all `connected` answers are those of `add s x`; and in the
history the pair `(x, x)` joins nothing new. -/
theorem union_self_noop_on_partition {s : State} (h : Inv s) (x : Nat) :
    PEquiv (add s x) (union s x x) ∧
    (∀ u v, (connected (union s x x) u v).map Prod.snd = (connected (add s x) u v).map Prod.snd) ∧
    (∀ (ops : List Op) (u v : Nat), Joined (ops ++ [.union x x]) u v ↔ Joined ops u v) := by
  have pe := union_self h x
  exact ⟨pe, fun u v => connected_answer_pequiv (inv_add h x) (UF.inv_step h (.union x x)) pe u v,
    fun ops u v => Joined_union_self ops x u v⟩

example : (union (run hist) 3 3).nComps = (run hist).nComps ∧
    (union (run hist) 7 7).elts = [1, 2, 3, 4, 9, 7] := by decide

/-- A union adds its absent arguments (as `add` would) before merging. -/
theorem union_absent_adds {s : State} (h : Inv s) (x y : Nat) :
    (union s x y).elts = (add (add s x) y).elts ∧ x ∈ (union s x y).elts ∧ y ∈ (union s x y).elts ∧
    (∀ z, z ∈ (union s x y).elts ↔ (z ∈ s.elts ∨ z = x ∨ z = y)) ∧
    (union s x y).nElts = (union s x y).elts.length :=
  ⟨(union_spec h x y).2.1, (union_elts h x y x).mpr (Or.inr (Or.inl rfl)),
    (union_elts h x y y).mpr (Or.inr (Or.inr rfl)), union_elts h x y,
    (UF.inv_step h (.union x y)).nEltsEq⟩

example : (union (run hist) 7 8).elts = [1, 2, 3, 4, 9, 7, 8] ∧ (union (run hist) 7 8).nComps = 3 := by
  decide

/-! ## Priority queue (for every tie-breaking choice) -/

/-- `Prio.le` is a total preorder on `Rat ∪ {-∞, +∞}`. -/
theorem le_refl (a : Prio) : Prio.le a a = true := Prio.le_refl a
theorem le_total (a b : Prio) : Prio.le a b = true ∨ Prio.le b a = true := Prio.le_total a b
theorem le_trans {a b c : Prio} (h1 : Prio.le a b = true) (h2 : Prio.le b c = true) :
    Prio.le a c = true := Prio.le_trans h1 h2

example : Prio.le .negInf (.fin 0) = true ∧ Prio.le (.fin (-2)) (.fin 3) = true ∧
    Prio.le .posInf (.fin 3) = false := by decide

/-- a queue with ties, both infinities and a negative priority -/
private def q0 : Queue := [(1, .fin 3), (2, .negInf), (3, .fin 3), (4, .posInf), (5, .fin (-2))]

/-- The model's `pop` hands out a pending pair of minimum priority and removes exactly it. -/
theorem pop_ok {q q' : Queue} {e : Nat × Prio} (h : pop q = some (e, q')) : PopOk q e q' :=
  PQ.pop_ok h

example : pop q0 = some ((2, .negInf), [(1, .fin 3), (3, .fin 3), (4, .posInf), (5, .fin (-2))]) := by
  decide

/-- `pop` raises (`none`) exactly on the empty queue. -/
theorem pop_none_iff (q : Queue) : pop q = none ↔ q = [] := PQ.pop_none_iff q

/-- `empty` is correct. -/
theorem empty_correct (q : Queue) : empty q = true ↔ q = [] := PQ.empty_correct q

example : empty q0 = false ∧ empty (push [] 1 .posInf) = false ∧ empty [] = true := by decide

/-- Draining: whatever valid pops are used (any tie-breaking), the pairs handed out until the queue
is empty are a permutation of the pending pairs — each pushed item exactly once. -/
theorem drain_perm {q : Queue} {out : List (Nat × Prio)} (h : Drains q out) : out.Perm q := h.perm

/-- … and they come out in non-decreasing priority order. -/
theorem drain_sorted {q : Queue} {out : List (Nat × Prio)} (h : Drains q out) :
    out.Pairwise (fun a b => Prio.le a.2 b.2 = true) := h.sorted

/-- Every queue can be drained (by the model's own `pop`), so `Drains` is never vacuous. -/
theorem drain_exists (q : Queue) : ∃ out, Drains q out := drains_exists q.length q rfl

-- a drain of `q0` that breaks the tie `(1,3)`/`(3,3)` the *other* way than the model's `pop`
example : Drains q0 [(2, .negInf), (5, .fin (-2)), (3, .fin 3), (1, .fin 3), (4, .posInf)] := by
  refine .cons (q' := [(1, .fin 3), (3, .fin 3), (4, .posInf), (5, .fin (-2))]) ⟨by decide, by decide, by decide⟩ ?_
  refine .cons (q' := [(1, .fin 3), (3, .fin 3), (4, .posInf)]) ⟨by decide, by decide, by decide⟩ ?_
  refine .cons (q' := [(1, .fin 3), (4, .posInf)]) ⟨by decide, by decide, by decide⟩ ?_
  refine .cons (q' := [(4, .posInf)]) ⟨by decide, by decide, by decide⟩ ?_
  exact .cons (q' := []) ⟨by decide, by decide, by decide⟩ .nil

/-- Mixed histories: for any interleaving of pushes and valid pops starting from the empty queue,
popped ++ pending is a permutation of pushed — every popped pair was pushed, none is handed out
twice, and what is pending is exactly pushed minus popped. -/
theorem trace_perm {evs : List Ev} {q' : Queue} (h : Trace [] evs q') :
    (popped evs ++ q').Perm (pushed evs) := by
  have := h.perm
  rwa [List.nil_append] at this

/-- General form from an arbitrary initial pending list. -/
theorem trace_perm_from {q q' : Queue} {evs : List Ev} (h : Trace q evs q') :
    (popped evs ++ q').Perm (q ++ pushed evs) := h.perm

/-- In a trace every pop hands out a pending pair of minimum priority (definitionally, by `PopOk`),
and the model's `pop` can always take the pop steps. -/
theorem trace_pop_model {q q1 q' : Queue} {e : Nat × Prio} {evs : List Ev}
    (hp : pop q = some (e, q1)) (h : Trace q1 evs q') : Trace q (.pop e :: evs) q' :=
  .pop (PQ.pop_ok hp) h

example : Trace [] [.push 1 (.fin 3), .push 2 (.fin 1), .pop (2, .fin 1), .push 3 .negInf,
    .pop (3, .negInf)] [(1, .fin 3)] := by
  refine .push (.push (.pop (q1 := [(1, .fin 3)]) ⟨by decide, by decide, by decide⟩ ?_))
  exact .push (.pop (q1 := [(1, .fin 3)]) ⟨by decide, by decide, by decide⟩ (.nil _))

end Mouette.Props.C20
