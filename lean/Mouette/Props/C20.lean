import Mouette.Model.UnionFind
import Mouette.Model.PQueue
namespace Mouette.Props.C20
-- placeholder; replaced by the proved theorems
theorem placeholder : Mouette.UF.init.nElts = 0 := rfl
end Mouette.Props.C20
