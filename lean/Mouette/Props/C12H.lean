import Mouette.Lemmas.BoxFresh
/-
C12, round 3 — histories of box operations, BY VALUE per box the caller holds (repaired code, heap model):
results of every operation are FRESH (they share no array with any operand, any earlier box or any caller array), and every
operation leaves the value of every box other than the one being padded unchanged.  Hence a later in-place change of a
result cannot change an operand, and vice versa.
-/
namespace Mouette.Props.C12H
open Mouette.AABB Mouette.BoxHist

/-- **Results are fresh.** An operation either registers no box, or registers exactly one new box whose two arrays are new
heap cells: beyond the caller's arrays, disjoint from the arrays of every box held before, and holding the result's bounds. -/
theorem results_fresh (n : Nat) (s : State) (h : Owned n s) (op : Op) :
    (step s op).1.boxes = s.boxes ∨
    ∃ r bx, (step s op).1.boxes = s.boxes ++ [r] ∧ (step s op).1.box r = bx ∧ n ≤ r.lo ∧ n ≤ r.hi ∧
      ∀ b ∈ s.boxes, r.lo ≠ b.lo ∧ r.lo ≠ b.hi ∧ r.hi ≠ b.lo ∧ r.hi ≠ b.hi := by
  rcases step_kind s op with hs | ⟨bx, hs, _, _⟩ | ⟨b, rb, p, _, hp, _⟩ | ⟨e, hs⟩
  · left; rw [hs]
  · right
    refine ⟨⟨s.heap.length, s.heap.length + 1⟩, bx, by rw [hs]; rfl, by rw [hs]; exact allocBox_new_box s bx, ?_, ?_, ?_⟩
    · exact h.len
    · have := h.len; simp only; omega
    · intro b hb
      have := h.refs b hb
      simp only
      refine ⟨?_, ?_, ?_, ?_⟩ <;> omega
  · left; exact (padAt_heap hp).choose_spec.choose_spec.2.1
  · left; rw [hs]

/-- **Every other box keeps its value.** Whatever the operation, a box the caller holds that is not the target of a `pad`
has the same bounds afterwards (compared by value). -/
theorem other_boxes_unchanged (n : Nat) (s : State) (h : Owned n s) (op : Op) (b' : BoxRef) (hb' : b' ∈ s.boxes)
    (hnot : ∀ b, ((∃ x, op = .padf b x) ∨ (∃ i, op = .padv b i)) → s.boxArg b ≠ some b') :
    (step s op).1.box b' = s.box b' := by
  have r' := h.refs b' hb'
  rcases step_kind s op with hs | ⟨bx, hs, _, _⟩ | ⟨b, rb, p, harg, hp, hop⟩ | ⟨e, hs⟩
  · rw [hs]
  · rw [hs]
    simp only [State.box]
    rw [allocBox_get s bx b'.lo (by omega), allocBox_get s bx b'.hi (by omega)]
  · have hne : b' ≠ rb := by
      intro e; apply hnot b hop; rw [harg, e]
    exact (pad_only_own_box_aux h hb' (boxArg_mem harg) hne hp)
  · rw [hs]; rfl
where
  pad_only_own_box_aux {n : Nat} {s s' : State} {b' rb : BoxRef} {p : List Rat} (h : Owned n s) (hb' : b' ∈ s.boxes)
      (hrb : rb ∈ s.boxes) (hne : b' ≠ rb) (hp : padAt s rb p = some s') : s'.box b' = s.box b' := by
    have d := owned_disjoint h hb' hrb hne
    simp only [State.box]
    rw [padAt_other hp b'.lo d.1 d.2.1, padAt_other hp b'.hi d.2.2.1 d.2.2.2]

/-- **A later in-place change of a result does not change an operand, and vice versa**: after `u = union(a, b)` (or an
intersection), padding `u` leaves `a` and `b` as they were, and padding `a` leaves `u` as it was. -/
theorem result_and_operands_independent (n : Nat) (s : State) (h : Owned n s) (a b : Nat) (ra rb : BoxRef)
    (ha : s.boxArg a = some ra) (hb : s.boxArg b = some rb) (u : Box) (hu : Box.union (s.box ra) (s.box rb) = some u)
    (p : List Rat) :
    let s1 := (step s (.union a b)).1
    let ru : BoxRef := ⟨s.heap.length, s.heap.length + 1⟩
    s1.boxes = s.boxes ++ [ru] ∧ s1.box ru = u ∧
    (∀ s2, padAt s1 ru p = some s2 → s2.box ra = s.box ra ∧ s2.box rb = s.box rb) ∧
    (∀ s2, padAt s1 ra p = some s2 → s2.box ru = u) := by
  intro s1 ru
  have hs1 : s1 = s.allocBox u := by
    simp only [s1, step, stepWith, ha, hb, hu]
  have ho1 : Owned n s1 := by rw [hs1]; exact allocBox_owned h u
  have hra := boxArg_mem ha
  have hrb := boxArg_mem hb
  have hmem : ∀ x ∈ s.boxes, x ∈ s1.boxes := by
    intro x hx; rw [hs1]; simp [State.allocBox, hx]
  have hru : ru ∈ s1.boxes := by rw [hs1]; simp [State.allocBox, ru]
  have keep : ∀ x ∈ s.boxes, s1.box x = s.box x := by
    intro x hx
    have r := h.refs x hx
    rw [hs1]; simp only [State.box]
    rw [allocBox_get s u x.lo (by omega), allocBox_get s u x.hi (by omega)]
  have hne : ∀ x ∈ s.boxes, x ≠ ru := by
    intro x hx e
    have r := h.refs x hx
    rw [e] at r; simp only [ru] at r; omega
  have hbox : s1.box ru = u := by rw [hs1]; exact allocBox_new_box s u
  refine ⟨by rw [hs1]; rfl, hbox, ?_, ?_⟩
  · intro s2 hp
    constructor
    · rw [other_boxes_unchanged.pad_only_own_box_aux ho1 (hmem ra hra) hru (hne ra hra) hp, keep ra hra]
    · rw [other_boxes_unchanged.pad_only_own_box_aux ho1 (hmem rb hrb) hru (hne rb hrb) hp, keep rb hrb]
  · intro s2 hp
    rw [other_boxes_unchanged.pad_only_own_box_aux ho1 hru (hmem ra hra) (fun e => hne ra hra e.symm) hp, hbox]

end Mouette.Props.C12H
