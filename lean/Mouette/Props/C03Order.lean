import Mouette.Props.C03Source
/-!
# C03 (round 5) — rotational order of `edge_to_face` and "at most two border faces around an edge",
from DECIDABLE predicates on the volume mesh

`Props/C03.lean` proves the order of `edge_to_face` (`edge_to_face_order_open`, `edge_to_face_order_ring`) under hypotheses
about the two walks of `_sort_edge_neighborhoods`.  Here the hypotheses are computed: `faceOrder k e` evaluates the walks and
the cover / no-repetition conditions and returns the order the theorem promises; `faceCover k e` is the flag "the faces
crossed by the two walks are all the stored faces around `e`".
-/
namespace Mouette.Props.C03Order
open Mouette.Vol Mouette.Props.C03Source

/-- what `umbrellaData` returning `some` means: the hypotheses `hedge hraw hpiv hw1 hw2` of the order theorems -/
theorem umbrellaData_spec {k : Conn} {e A B c0 : Nat} {cs1 fs1 cs2 fs2 : List Nat}
    (h : umbrellaData k e = some (A, B, c0, cs1, fs1, cs2, fs2)) :
    ∃ rest p1 p2, k.m.edge e = [A, B] ∧ k.e2cRaw e = c0 :: rest
      ∧ (k.m.cell c0).filter (fun x => x != A && x != B) = [p1, p2]
      ∧ k.walk A B (k.m.nC + 1) c0 p1 [c0] = some (cs1, fs1)
      ∧ k.walk A B (k.m.nC + 1) c0 p2 (cs1.reverse ++ [c0]) = some (cs2, fs2) := by
  unfold umbrellaData at h
  split at h
  · rename_i A' B' c0' rest hedge hraw
    split at h
    · rename_i p1 p2 hpiv
      split at h
      · rename_i cs1' fs1' hw1
        split at h
        · rename_i cs2' fs2' hw2
          simp only [Option.some.injEq, Prod.mk.injEq] at h
          obtain ⟨rfl, rfl, rfl, rfl, rfl, rfl, rfl⟩ := h
          exact ⟨rest, p1, p2, hedge, hraw, hpiv, hw1, hw2⟩
        · cases h
      · cases h
    · cases h
  · cases h

/-- **decidable**: the order of `edge_to_face(e)` that the theorems promise, when their hypotheses hold on this mesh:
open fan (border edge): backward faces reversed, then forward faces, all distinct and covering the stored faces around `e`;
closed ring (interior edge): the closing face `g` first, then the forward faces -/
def faceOrder (k : Conn) (e : Nat) : Option (List Nat) :=
  match umbrellaData k e with
  | some (_, _, _, _, fs1, _, fs2) =>
    if (k.e2f.getD e []).isPerm (fs2.reverse ++ fs1) && decide (fs1 ++ fs2).Nodup then some (fs2.reverse ++ fs1)
    else
      match fs1.getLast?, fs2 with
      | some g, [g'] =>
        if g = g' ∧ (k.e2f.getD e []).isPerm (g :: fs1.dropLast) = true ∧ (g :: fs1.dropLast).Nodup then some (g :: fs1.dropLast)
        else none
      | _, _ => none
  | none => none

/-- **rotational order of `edge_to_face` from the decidable predicate** (both the open and the ring case): whenever
`faceOrder k e` evaluates to `some fs`, `_sort_edge_neighborhoods` leaves `edge_to_face(e) = fs` -/
theorem edge_to_face_order_of_faceOrder (k : Conn) {e : Nat} {fs : List Nat} (h : faceOrder k e = some fs) :
    ∃ cs, k.sortEdge e = some (cs, fs) := by
  unfold faceOrder at h
  cases hd : umbrellaData k e with
  | none => rw [hd] at h; cases h
  | some d =>
    obtain ⟨A, B, c0, cs1, fs1, cs2, fs2⟩ := d
    rw [hd] at h
    obtain ⟨rest, p1, p2, hedge, hraw, hpiv, hw1, hw2⟩ := umbrellaData_spec hd
    simp only at h
    split at h
    · rename_i hc
      simp only [Bool.and_eq_true, decide_eq_true_eq] at hc
      cases h
      exact (Mouette.Props.C03.edge_to_face_order_open k hedge hraw hpiv hw1 hw2 (List.isPerm_iff.1 hc.1) hc.2).1
    · split at h
      · rename_i g g' hg hfs2
        split at h
        · rename_i hc
          obtain ⟨rfl, hperm, hnd⟩ := hc
          cases h
          have hfs1 : fs1 = fs1.dropLast ++ [g] := by
            have hne : fs1 ≠ [] := by intro h0; rw [h0] at hg; cases hg
            rw [List.getLast?_eq_getLast hne] at hg
            cases hg
            exact (List.dropLast_concat_getLast hne).symm
          rw [hfs1] at hw1
          exact (Mouette.Props.C03.edge_to_face_order_ring k hedge hraw hpiv hw1 hw2 (List.isPerm_iff.1 hperm) hnd).1
        · cases h
      · cases h

/-! ## at most two border faces around an edge -/

/-- in a walk every face but the last is really crossed: it lies in two cells, so it is not a border face -/
theorem walkChain_dropLast_interior {k : Conn} {A B c : Nat} {cs fs : List Nat} (h : WalkChain k A B c cs fs) :
    fs ≠ [] ∧ ∀ f ∈ fs.dropLast, k.isFaceOnBorder f = false := by
  induction h with
  | last _ => exact ⟨by simp, by simp⟩
  | step _ ho _ ih =>
    rename_i c1 c' face p cs' fs'
    refine ⟨by simp, ?_⟩
    obtain ⟨hne, hall⟩ := ih
    intro f hf
    rw [List.dropLast_cons_of_ne_nil hne] at hf
    rcases List.mem_cons.1 hf with rfl | hf
    · unfold Conn.isFaceOnBorder
      rw [(otherFaceSide_some ho).2.2]; rfl
    · exact hall f hf

theorem filter_le_one_of_dropLast {p : Nat → Bool} {l : List Nat} (h : ∀ f ∈ l.dropLast, p f = false) :
    (l.filter p).length ≤ 1 := by
  by_cases hne : l = []
  · subst hne; simp
  · rw [← List.dropLast_concat_getLast hne, List.filter_append]
    have : l.dropLast.filter p = [] := by
      rw [List.filter_eq_nil_iff]; intro a ha; simp [h a ha]
    rw [this]
    simp only [List.nil_append]
    exact Nat.le_trans (List.length_filter_le _ _) (by simp)

/-- **decidable**: the faces crossed by the two walks around `e` are all the stored faces having `e` as a side -/
def faceCover (k : Conn) (e : Nat) : Bool :=
  match umbrellaData k e with
  | some (_, _, _, _, fs1, _, fs2) => (k.e2f.getD e []).all fun f => fs1.contains f || fs2.contains f
  | none => false

/-- **at most two border faces around an edge, from the decidable predicate**: when the two walks around `e` cross every
stored face having `e` as a side (`faceCover`), at most two of these faces are border faces — the last face of each walk.
(`f ∈ e2f e` iff `e` is a side of the stored face `f`: `mem_e2f`; the boundary surface consists of exactly the border faces:
`boundary_faces_exactly_border`; the link to `Conn.boundaryEdgeManifold`, stated on the vertex pairs of the surface, is not
proved.) -/
theorem border_faces_around_edge_le_two (k : Conn) {e : Nat} (hnd : (k.e2f.getD e []).Nodup) (h : faceCover k e = true) :
    ((k.e2f.getD e []).filter k.isFaceOnBorder).length ≤ 2 := by
  unfold faceCover at h
  cases hd : umbrellaData k e with
  | none => rw [hd] at h; cases h
  | some d =>
    obtain ⟨A, B, c0, cs1, fs1, cs2, fs2⟩ := d
    rw [hd] at h
    obtain ⟨rest, p1, p2, _, _, _, hw1, hw2⟩ := umbrellaData_spec hd
    simp only at h
    rw [List.all_eq_true] at h
    have h1 := (walkChain_dropLast_interior (walk_chain k A B _ _ _ _ _ _ hw1).1).2
    have h2 := (walkChain_dropLast_interior (walk_chain k A B _ _ _ _ _ _ hw2).1).2
    -- every border face around `e` is a border face of `fs1 ++ fs2`
    have hsub : ∀ f ∈ (k.e2f.getD e []).filter k.isFaceOnBorder, f ∈ (fs1 ++ fs2).filter k.isFaceOnBorder := by
      intro f hf
      obtain ⟨hm, hb⟩ := List.mem_filter.1 hf
      have := h f hm
      simp only [Bool.or_eq_true, List.contains_iff_mem] at this
      exact List.mem_filter.2 ⟨List.mem_append.2 this, hb⟩
    have hlen : ((fs1 ++ fs2).filter k.isFaceOnBorder).length ≤ 2 := by
      rw [List.filter_append, List.length_append]
      have a := filter_le_one_of_dropLast h1
      have b := filter_le_one_of_dropLast h2
      omega
    -- a duplicate-free list all of whose members lie in a list with at most two DISTINCT members
    have hnd' : ((k.e2f.getD e []).filter k.isFaceOnBorder).Nodup := hnd.sublist List.filter_sublist
    have hle := (List.subperm_of_subset hnd' hsub).length_le
    exact Nat.le_trans hle hlen

/-! ## non-vacuity -/

open Mouette.Props.C03 in
example : faceOrder twoTets.conn 1 = some [6, 0, 3] ∧ faceOrder ring3.conn 5 = some [2, 3, 6] := by decide +kernel
open Mouette.Props.C03 in
example : ∃ cs, ring3.conn.sortEdge 5 = some (cs, [2, 3, 6]) := edge_to_face_order_of_faceOrder _ (by decide +kernel)
open Mouette.Props.C03 in
example : ∃ cs, twoTets.conn.sortEdge 1 = some (cs, [6, 0, 3]) := edge_to_face_order_of_faceOrder _ (by decide +kernel)
open Mouette.Props.C03 in
/-- the cover flag holds on a border edge and on an interior edge, and fails on the non-manifold edge of `edgeGlued`, around
which there ARE four border faces -/
example : faceCover twoTets.conn 1 = true ∧ faceCover ring3.conn 5 = true ∧ faceCover edgeGlued.conn 0 = false
    ∧ ((edgeGlued.conn.e2f.getD 0 []).filter edgeGlued.conn.isFaceOnBorder).length = 4 := by decide +kernel
open Mouette.Props.C03 in
example : ((twoTets.conn.e2f.getD 1 []).filter twoTets.conn.isFaceOnBorder).length ≤ 2 :=
  border_faces_around_edge_le_two _ (by decide +kernel) (by decide +kernel)

end Mouette.Props.C03Order
