import Mouette.Model.Geom
import Mouette.Model.GeomCache
import Mouette.Lemmas.GeomLemmas
import Mouette.Props.C07
/-
C07/C08 — histories on ONE mesh object (round 3): the n-th computation on a used mesh equals the computation on a fresh mesh
as long as the geometry-dependent attributes stored in the mesh are consistent with the geometry; rigid motions keep the stored
areas / corner pairs (angles, cotangents) consistent (consequence of the invariance theorems of Props/C07), while a scaling
(areas) or a rotation (normals) does not: the library's name-keyed caches are BY DESIGN never invalidated by a vertex write (the stored
attribute is state the caller is responsible for); the two `cached_*_not_invalidated_*` statements document that design on concrete
witnesses, and `drop_repairs` is what the harness (a careful caller) does before asking a reader of the cache again.
-/
namespace Mouette.Props.C07Hist
open Mouette.Geom Mouette.GeomCache Mouette.Props.C07

theorem consistent_step {α β : Type} (f : α → β) (I : α → Prop) (s : St α β) (op : Op α)
    (hc : Consistent f s) (hI : I s.geo)
    (hm : ∀ g, op = .move g → ∀ x, I x → I (g x) ∧ f (g x) = f x) :
    Consistent f (step f s op).1 ∧ I (step f s op).1.geo := by
  cases op with
  | compute => exact ⟨by intro c h; simp [step] at h; simp [step, h.symm], hI⟩
  | read => exact ⟨hc, hI⟩
  | move g =>
    have := hm g rfl s.geo hI
    refine ⟨?_, this.1⟩
    intro c h
    simp only [step] at h ⊢
    rw [this.2]; exact hc c h
  | drop => exact ⟨by intro c h; simp [step] at h, hI⟩

/-- a `read` on a consistent state returns what a fresh computation returns -/
theorem read_eq_fresh {α β : Type} (f : α → β) (s : St α β) (hc : Consistent f s) :
    (step f s .read).2 = some (f s.geo) := by
  simp only [step]
  cases h : s.cache with
  | none => rfl
  | some c => simp [hc c h]

/-- **n-th run = fresh run**: along ANY history of persistent computations, cached reads, deletions and moves that leave the
attribute unchanged, every returned value equals the value recomputed from the current geometry -/
theorem history_eq_fresh {α β : Type} (f : α → β) (I : α → Prop) (ops : List (Op α)) (s : St α β)
    (hc : Consistent f s) (hI : I s.geo) (hm : MovesPreserve f I ops) :
    (run f s ops).2 = fresh f s.geo ops := by
  induction ops generalizing s with
  | nil => rfl
  | cons op ops ih =>
    cases op with
    | compute =>
      have h := consistent_step f I s .compute hc hI (by intro g hg; cases hg)
      simp only [run, step, fresh, List.singleton_append]
      exact congrArg (f s.geo :: ·) (ih _ h.1 h.2 hm)
    | read =>
      have h := consistent_step f I s .read hc hI (by intro g hg; cases hg)
      have hr := read_eq_fresh f s hc
      simp only [run, fresh]
      rw [hr]
      simp only [List.singleton_append]
      exact congrArg (f s.geo :: ·) (ih _ h.1 h.2 hm)
    | move g =>
      obtain ⟨hg, hrest⟩ := hm
      have h := consistent_step f I s (.move g) hc hI (by intro g' hg'; cases hg'; exact hg)
      simp only [run, step, fresh, List.nil_append]
      exact ih _ h.1 h.2 hrest
    | drop =>
      have h := consistent_step f I s .drop hc hI (by intro g hg; cases hg)
      simp only [run, step, fresh, List.nil_append]
      exact ih _ h.1 h.2 hm

/-- a fresh mesh (nothing stored) is consistent -/
theorem fresh_mesh_consistent {α β : Type} (f : α → β) (x : α) : Consistent f ⟨x, none⟩ := by
  intro c h; cases h

/-! ### instances: what the stored `area` / `angles` / `cotan` attributes are computed from -/

theorem areaAttr_rigid (faces : List Face) (n : Nat) (hf : ∀ f ∈ faces, ∀ i ∈ f, i < n) (R : M3) (hR : R.Orthogonal) (t : V3) :
    ∀ vs : List V3, vs.length = n → (vs.map (move R t)).length = n ∧ areaAttr faces (vs.map (move R t)) = areaAttr faces vs := by
  intro vs hn
  refine ⟨by simpa using hn, ?_⟩
  unfold areaAttr
  apply List.map_congr_left
  intro f hfm
  exact faceAreaTerms_rotate R hR t vs f (fun i hi => hn ▸ hf f hfm i hi)

theorem cornerAttr_rigid (faces : List Face) (n : Nat) (hf : ∀ f ∈ faces, ∀ i ∈ f, i < n) (R : M3) (hR : R.Orthogonal) (t : V3) :
    ∀ vs : List V3, vs.length = n → (vs.map (move R t)).length = n ∧ cornerAttr faces (vs.map (move R t)) = cornerAttr faces vs := by
  intro vs hn
  refine ⟨by simpa using hn, ?_⟩
  unfold cornerAttr
  apply List.map_congr_left
  intro f hfm
  exact faceCornerCS_rotate R hR t vs f (fun i hi => hn ▸ hf f hfm i hi)

/-- histories whose moves are rigid motions (the library's `translate` / `rotate`): the stored areas stay valid, so `total_area`,
`mean_face_area`, the area weights of the interpolations and of the mass matrices computed at ANY later point equal a fresh computation -/
theorem area_history_rigid (faces : List Face) (vs : List V3) (hf : ∀ f ∈ faces, ∀ i ∈ f, i < vs.length)
    (ops : List (Op (List V3)))
    (hm : MovesPreserve (areaAttr faces) (fun x => x.length = vs.length) ops) :
    (run (areaAttr faces) ⟨vs, none⟩ ops).2 = fresh (areaAttr faces) vs ops :=
  history_eq_fresh (areaAttr faces) (fun x => x.length = vs.length) ops ⟨vs, none⟩ (fresh_mesh_consistent _ _) rfl hm

/-- one rigid move in the middle of any two cache-using sequences is harmless for the area attribute -/
theorem area_compute_move_read (faces : List Face) (vs : List V3) (hf : ∀ f ∈ faces, ∀ i ∈ f, i < vs.length)
    (R : M3) (hR : R.Orthogonal) (t : V3) :
    (run (areaAttr faces) ⟨vs, none⟩ [.compute, .move (List.map (move R t)), .read]).2
      = [areaAttr faces vs, areaAttr faces (vs.map (move R t))] := by
  rw [area_history_rigid faces vs hf]
  · rfl
  · exact ⟨fun x hx => areaAttr_rigid faces vs.length hf R hR t x hx, trivial⟩

/-- same for the corner pairs: stored angles / cotangents stay valid under rigid motions -/
theorem corner_compute_move_read (faces : List Face) (vs : List V3) (hf : ∀ f ∈ faces, ∀ i ∈ f, i < vs.length)
    (R : M3) (hR : R.Orthogonal) (t : V3) :
    (run (cornerAttr faces) ⟨vs, none⟩ [.compute, .move (List.map (move R t)), .read]).2
      = [cornerAttr faces vs, cornerAttr faces (vs.map (move R t))] := by
  rw [history_eq_fresh (cornerAttr faces) (fun x => x.length = vs.length) _ ⟨vs, none⟩ (fresh_mesh_consistent _ _) rfl]
  · rfl
  · exact ⟨fun x hx => cornerAttr_rigid faces vs.length hf R hR t x hx, trivial⟩

/-! ### the design of the cache, documented: a move that does not preserve the attribute is NOT followed by an invalidation
(the model, like the code, returns the stored value) — not a defect: the caller drops the attribute (`drop_repairs`) -/

/-- by design: after `transform.scale(mesh, 2)` a READER of the stored areas gets the stored (old) values, not recomputed ones -/
theorem cached_area_not_invalidated_by_scale :
    (run (areaAttr [[0, 1, 2]]) ⟨[⟨0,0,0⟩, ⟨1,0,0⟩, ⟨0,1,0⟩], none⟩ [.compute, .move (List.map (smul 2)), .read]).2
      ≠ fresh (areaAttr [[0, 1, 2]]) [⟨0,0,0⟩, ⟨1,0,0⟩, ⟨0,1,0⟩] [.compute, .move (List.map (smul 2)), .read] := by
  decide +kernel

/-- by design: after a rotation a READER of the stored (unnormalised) face normals gets the stored values -/
theorem cached_normals_not_invalidated_by_rotation :
    (run (fun vs => [faceNormalDir vs [0, 1, 2]]) ⟨[⟨0,0,0⟩, ⟨1,0,0⟩, ⟨0,1,0⟩], none⟩
        [.compute, .move (List.map ((quatRot 1 1 0 0).apply)), .read]).2
      ≠ fresh (fun vs => [faceNormalDir vs [0, 1, 2]]) [⟨0,0,0⟩, ⟨1,0,0⟩, ⟨0,1,0⟩]
        [.compute, .move (List.map ((quatRot 1 1 0 0).apply)), .read] := by
  decide +kernel

/-- dropping the stored attribute before the read gives the fresh value: the contract the harness follows after such a move -/
theorem drop_repairs {α β : Type} (f : α → β) (x : α) (g : α → α) :
    (run f ⟨x, none⟩ [.compute, .move g, .drop, .read]).2 = [f x, f (g x)] := rfl

end Mouette.Props.C07Hist
