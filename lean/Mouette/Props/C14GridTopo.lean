import Mouette.Props.C14Euler
import Mouette.Lemmas.GridSum
/-!
# C14 (round 3) — `unit_grid` (quads and triangulated) is an oriented disk for ALL resolutions nu, nv ≥ 2:
consistently oriented, exactly 2(nu-1) + 2(nv-1) unmatched sides, χ = V − E + F = 1, and the unmatched sides are exactly
the sides of ONE polygon, the perimeter of the grid (one border loop). Theorems are about the translated term
`unit_gridFaces` (re-addressed by `unit_gridFaces_addressed`).

The lemmas are stated for an m × n block of cells in a vertex grid of row stride `nv` (n < nv); the generator has
m = nu - 1, n = nv - 1.
-/
namespace Mouette.Props.C14
open Mouette.Generated.C14 Mouette.MeshCheck Mouette.ListCount Mouette.EdgeCount Mouette.GridSum

/-- the translated loop nest as an addressed face list: the guard `i < nu-1 ∧ j < nv-1` shortens both ranges -/
theorem unit_gridFaces_addressed (nu nv : Nat) (u : Bool) :
    unit_gridFaces nu nv false u = (grid2 (nu - 1) (nv - 1)).map (fun p => gridQuad nv p.1 p.2) ∧
    unit_gridFaces nu nv true u = (grid2b (nu - 1) (nv - 1)).map (fun p => gridTri nv p.1 p.2.1 p.2.2) := by
  rw [map_grid2 (nu - 1) (nv - 1) (fun i j => gridQuad nv i j),
    map_grid2b (nu - 1) (nv - 1) (fun i j k => gridTri nv i j k), (unit_gridFaces_eq nu nv u).1,
    (unit_gridFaces_eq nu nv u).2]
  exact ⟨flatMap_range_cut2 nu nv (nu - 1) (nv - 1) (by omega) (by omega) (fun i j => [gridQuad nv i j]),
    flatMap_range_cut2 nu nv (nu - 1) (nv - 1) (by omega) (by omega)
      (fun i j => [gridTri nv i j false, gridTri nv i j true])⟩

/-! ## quads -/

/-- directed sides of the m × n block of quads, spelled out -/
theorem mem_dirEdges_gridQ (m n nv : Nat) (p q : Nat) :
    (p, q) ∈ dirEdges ((grid2 m n).map (fun a => gridQuad nv a.1 a.2)) ↔ ∃ i j, i < m ∧ j < n ∧
      ((p = i * nv + j ∧ q = i * nv + j + 1) ∨ (p = i * nv + j + 1 ∧ q = (i + 1) * nv + j + 1) ∨
       (p = (i + 1) * nv + j + 1 ∧ q = (i + 1) * nv + j) ∨ (p = (i + 1) * nv + j ∧ q = i * nv + j)) := by
  rw [mem_dirEdges_map]
  simp only [gridQuad, sides_quad, List.mem_cons, Prod.mk.injEq, List.mem_nil_iff, or_false]
  constructor
  · rintro ⟨⟨i, j⟩, ha, h⟩
    rw [mem_grid2] at ha
    exact ⟨i, j, ha.1, ha.2, h⟩
  · rintro ⟨i, j, hi, hj, h⟩
    exact ⟨(i, j), (mem_grid2 m n _).mpr ⟨hi, hj⟩, h⟩

/-- which of the four sides of the quad at (i,j) have their opposite in some face: all but those on the perimeter -/
theorem gridQ_opp (m n nv i j : Nat) (hn : n < nv) (hi : i < m) (hj : j < n) (p q : Nat) :
    (p = i * nv + j + 1 → q = i * nv + j →
      ((p, q) ∈ dirEdges ((grid2 m n).map (fun a => gridQuad nv a.1 a.2)) ↔ i ≠ 0)) ∧
    (p = (i + 1) * nv + j + 1 → q = i * nv + j + 1 →
      ((p, q) ∈ dirEdges ((grid2 m n).map (fun a => gridQuad nv a.1 a.2)) ↔ j ≠ n - 1)) ∧
    (p = (i + 1) * nv + j → q = (i + 1) * nv + j + 1 →
      ((p, q) ∈ dirEdges ((grid2 m n).map (fun a => gridQuad nv a.1 a.2)) ↔ i ≠ m - 1)) ∧
    (p = i * nv + j → q = (i + 1) * nv + j →
      ((p, q) ∈ dirEdges ((grid2 m n).map (fun a => gridQuad nv a.1 a.2)) ↔ j ≠ 0)) := by
  have key : ∀ a b c d, b < nv → d < nv → a * nv + b = c * nv + d → a = c ∧ b = d :=
    fun a b c d hb hd h => idx_inj hb hd h
  have e0 : (i + 1) * nv = i * nv + nv := Nat.succ_mul i nv
  refine ⟨?_, ?_, ?_, ?_⟩ <;> intro hp hq <;> subst hp hq <;> rw [mem_dirEdges_gridQ] <;> constructor
  · rintro ⟨i', j', hi', hj', h⟩
    have s1 : (i' + 1) * nv = i' * nv + nv := Nat.succ_mul i' nv
    rcases h with ⟨e1, e2⟩ | ⟨e1, e2⟩ | ⟨e1, e2⟩ | ⟨e1, e2⟩ <;>
    (try simp only [Nat.add_assoc] at e1 e2
     have c1 := key _ _ _ _ (by omega) (by omega) e1
     have c2 := key _ _ _ _ (by omega) (by omega) e2
     omega)
  · intro h
    obtain ⟨i0, rfl⟩ : ∃ i0, i = i0 + 1 := ⟨i - 1, by omega⟩
    exact ⟨i0, j, by omega, hj, by omega⟩
  · rintro ⟨i', j', hi', hj', h⟩
    have s1 : (i' + 1) * nv = i' * nv + nv := Nat.succ_mul i' nv
    rcases h with ⟨e1, e2⟩ | ⟨e1, e2⟩ | ⟨e1, e2⟩ | ⟨e1, e2⟩ <;>
    (try simp only [Nat.add_assoc] at e1 e2
     have c1 := key _ _ _ _ (by omega) (by omega) e1
     have c2 := key _ _ _ _ (by omega) (by omega) e2
     omega)
  · intro h
    exact ⟨i, j + 1, hi, by omega, by omega⟩
  · rintro ⟨i', j', hi', hj', h⟩
    have s1 : (i' + 1) * nv = i' * nv + nv := Nat.succ_mul i' nv
    rcases h with ⟨e1, e2⟩ | ⟨e1, e2⟩ | ⟨e1, e2⟩ | ⟨e1, e2⟩ <;>
    (try simp only [Nat.add_assoc] at e1 e2
     have c1 := key _ _ _ _ (by omega) (by omega) e1
     have c2 := key _ _ _ _ (by omega) (by omega) e2
     omega)
  · intro h
    exact ⟨i + 1, j, by omega, hj, by omega⟩
  · rintro ⟨i', j', hi', hj', h⟩
    have s1 : (i' + 1) * nv = i' * nv + nv := Nat.succ_mul i' nv
    rcases h with ⟨e1, e2⟩ | ⟨e1, e2⟩ | ⟨e1, e2⟩ | ⟨e1, e2⟩ <;>
    (try simp only [Nat.add_assoc] at e1 e2
     have c1 := key _ _ _ _ (by omega) (by omega) e1
     have c2 := key _ _ _ _ (by omega) (by omega) e2
     omega)
  · intro h
    obtain ⟨j0, rfl⟩ : ∃ j0, j = j0 + 1 := ⟨j - 1, by omega⟩
    exact ⟨i, j0, hi, by omega, by omega⟩

/-- the four sides of a grid quad are non-degenerate and pairwise distinct -/
theorem gridQ_sides (nv i j : Nat) (hv : 2 ≤ nv) :
    (sides (gridQuad nv i j)).Nodup ∧ ∀ e ∈ sides (gridQuad nv i j), e.1 ≠ e.2 := by
  have e0 : (i + 1) * nv = i * nv + nv := Nat.succ_mul i nv
  simp only [gridQuad, sides_quad, List.nodup_cons, List.mem_cons, Prod.mk.injEq, List.mem_nil_iff, or_false,
    not_or, not_and, List.nodup_nil, and_true, not_false_eq_true, forall_eq_or_imp, forall_eq, ne_eq]
  omega

/-- per face: the number of sides of the quad at (i,j) whose opposite lies in no face -/
theorem gridQ_face_border (m n nv : Nat) (hn : n < nv) (a : Nat × Nat) (ha : a ∈ grid2 m n) :
    ((sides (gridQuad nv a.1 a.2)).filter
      (fun e => !(dirEdges ((grid2 m n).map (fun a => gridQuad nv a.1 a.2))).contains (e.2, e.1))).length =
      ((if a.1 = 0 then 1 else 0) + (if a.1 = m - 1 then 1 else 0)) +
      ((if a.2 = 0 then 1 else 0) + (if a.2 = n - 1 then 1 else 0)) := by
  obtain ⟨i, j⟩ := a
  rw [mem_grid2] at ha
  have f1 := (gridQ_opp m n nv i j hn ha.1 ha.2 _ _).1 rfl rfl
  have f2 := (gridQ_opp m n nv i j hn ha.1 ha.2 _ _).2.1 rfl rfl
  have f3 := (gridQ_opp m n nv i j hn ha.1 ha.2 _ _).2.2.1 rfl rfl
  have f4 := (gridQ_opp m n nv i j hn ha.1 ha.2 _ _).2.2.2 rfl rfl
  have hq : gridQuad nv (i, j).1 (i, j).2 = [i * nv + j, i * nv + j + 1, (i + 1) * nv + j + 1, (i + 1) * nv + j] := rfl
  rw [length_filter_eq_sum, hq, sides_quad]
  simp only [List.map_cons, List.map_nil, List.sum_cons, List.sum_nil]
  rw [ind_not_contains _ _ (i = 0) f1, ind_not_contains _ _ (j = n - 1) f2,
    ind_not_contains _ _ (i = m - 1) f3, ind_not_contains _ _ (j = 0) f4]
  omega

/-- m × n block of quads (m, n ≥ 1) on a vertex grid of stride nv > n: oriented, 2m + 2n unmatched sides -/
theorem gridQ_block (m n nv : Nat) (hm : 1 ≤ m) (hn1 : 1 ≤ n) (hn : n < nv) :
    (dirEdges ((grid2 m n).map (fun a => gridQuad nv a.1 a.2))).Nodup ∧
    numBorder ((grid2 m n).map (fun a => gridQuad nv a.1 a.2)) = 2 * m + 2 * n ∧
    euler ((m + 1) * (n + 1)) ((grid2 m n).map (fun a => gridQuad nv a.1 a.2)) = 1 := by
  have hor : ∀ a ∈ grid2 m n, ∀ b ∈ grid2 m n, ∀ e, e ∈ sides (gridQuad nv a.1 a.2) →
      e ∈ sides (gridQuad nv b.1 b.2) → a = b := by
    intro a ha b hb e h1 h2
    rw [mem_grid2] at ha hb
    have := unit_grid_quads_oriented nv a.1 a.2 b.1 b.2 (by omega) (by omega) e h1 h2
    exact Prod.ext this.1 this.2
  have hs : ∀ a ∈ grid2 m n, (sides (gridQuad nv a.1 a.2)).Nodup :=
    fun a _ => (gridQ_sides nv a.1 a.2 (by omega)).1
  have hl : ∀ a ∈ grid2 m n, ∀ e ∈ sides (gridQuad nv a.1 a.2), e.1 ≠ e.2 :=
    fun a _ => (gridQ_sides nv a.1 a.2 (by omega)).2
  have hb : numBorder ((grid2 m n).map (fun a => gridQuad nv a.1 a.2)) = 2 * m + 2 * n := by
    rw [numBorder_addressed _ _ _ (gridQ_face_border m n nv hn), sum_grid2_perimeter m n hm hn1]
  refine ⟨dirEdges_nodup_addressed _ _ (nodup_grid2 m n) hs hor, hb, ?_⟩
  apply euler_addressed _ _ _ (nodup_grid2 m n) hs hor hl _ hb
  rw [sum_map_const_on _ _ 4 (by intro a _; rfl), length_grid2]
  have e : (m + 1) * (n + 1) = m * n + m + n + 1 := by rw [Nat.succ_mul, Nat.mul_succ]; omega
  rw [e]
  push_cast; omega

/-- `unit_grid(nu, nv)` with quads: consistently oriented, exactly 2(nu-1) + 2(nv-1) unmatched sides, V − E + F = 1
(a disk), for all nu, nv ≥ 2 -/
theorem unit_grid_quads_euler (nu nv : Nat) (u : Bool) (hu : 2 ≤ nu) (hv : 2 ≤ nv) :
    (dirEdges (unit_gridFaces nu nv false u)).Nodup ∧
    numBorder (unit_gridFaces nu nv false u) = 2 * (nu - 1) + 2 * (nv - 1) ∧
    euler (unit_gridNVerts nu nv false u) (unit_gridFaces nu nv false u) = 1 := by
  rw [(unit_gridFaces_addressed nu nv u).1, unit_grid_nverts]
  have h := gridQ_block (nu - 1) (nv - 1) nv (by omega) (by omega) (by omega)
  rw [show nu - 1 + 1 = nu by omega, show nv - 1 + 1 = nv by omega] at h
  exact h

/-! ## triangles -/

/-- directed sides of the m × n block of split cells, spelled out -/
theorem mem_dirEdges_gridT (m n nv : Nat) (p q : Nat) :
    (p, q) ∈ dirEdges ((grid2b m n).map (fun a => gridTri nv a.1 a.2.1 a.2.2)) ↔ ∃ i j, i < m ∧ j < n ∧
      ((p = i * nv + j ∧ q = i * nv + j + 1) ∨ (p = i * nv + j + 1 ∧ q = (i + 1) * nv + j) ∨
       (p = (i + 1) * nv + j ∧ q = i * nv + j) ∨ (p = i * nv + j + 1 ∧ q = (i + 1) * nv + j + 1) ∨
       (p = (i + 1) * nv + j + 1 ∧ q = (i + 1) * nv + j) ∨ (p = (i + 1) * nv + j ∧ q = i * nv + j + 1)) := by
  rw [mem_dirEdges_map]
  constructor
  · rintro ⟨⟨i, j, k⟩, ha, h⟩
    rw [mem_grid2b] at ha
    refine ⟨i, j, ha.1, ha.2, ?_⟩
    cases k <;>
    simp only [gridTri, sides_tri, List.mem_cons, Prod.mk.injEq, List.mem_nil_iff, or_false, if_true,
      Bool.false_eq_true, if_false] at h <;> omega
  · rintro ⟨i, j, hi, hj, h⟩
    rcases h with h | h | h | h | h | h
    · exact ⟨(i, j, false), (mem_grid2b m n _).mpr ⟨hi, hj⟩, by simp [gridTri, sides_tri, h]⟩
    · exact ⟨(i, j, false), (mem_grid2b m n _).mpr ⟨hi, hj⟩, by simp [gridTri, sides_tri, h]⟩
    · exact ⟨(i, j, false), (mem_grid2b m n _).mpr ⟨hi, hj⟩, by simp [gridTri, sides_tri, h]⟩
    · exact ⟨(i, j, true), (mem_grid2b m n _).mpr ⟨hi, hj⟩, by simp [gridTri, sides_tri, h]⟩
    · exact ⟨(i, j, true), (mem_grid2b m n _).mpr ⟨hi, hj⟩, by simp [gridTri, sides_tri, h]⟩
    · exact ⟨(i, j, true), (mem_grid2b m n _).mpr ⟨hi, hj⟩, by simp [gridTri, sides_tri, h]⟩

/-- which sides of the two triangles of the cell (i,j) have their opposite in some face: the diagonal always, the
others unless they lie on the perimeter -/
theorem gridT_opp (m n nv i j : Nat) (hn : n < nv) (hi : i < m) (hj : j < n) (p q : Nat) :
    (p = i * nv + j + 1 → q = i * nv + j →
      ((p, q) ∈ dirEdges ((grid2b m n).map (fun a => gridTri nv a.1 a.2.1 a.2.2)) ↔ i ≠ 0)) ∧
    (p = (i + 1) * nv + j + 1 → q = i * nv + j + 1 →
      ((p, q) ∈ dirEdges ((grid2b m n).map (fun a => gridTri nv a.1 a.2.1 a.2.2)) ↔ j ≠ n - 1)) ∧
    (p = (i + 1) * nv + j → q = (i + 1) * nv + j + 1 →
      ((p, q) ∈ dirEdges ((grid2b m n).map (fun a => gridTri nv a.1 a.2.1 a.2.2)) ↔ i ≠ m - 1)) ∧
    (p = i * nv + j → q = (i + 1) * nv + j →
      ((p, q) ∈ dirEdges ((grid2b m n).map (fun a => gridTri nv a.1 a.2.1 a.2.2)) ↔ j ≠ 0)) ∧
    (p = (i + 1) * nv + j → q = i * nv + j + 1 →
      (p, q) ∈ dirEdges ((grid2b m n).map (fun a => gridTri nv a.1 a.2.1 a.2.2))) ∧
    (p = i * nv + j + 1 → q = (i + 1) * nv + j →
      (p, q) ∈ dirEdges ((grid2b m n).map (fun a => gridTri nv a.1 a.2.1 a.2.2))) := by
  have key : ∀ a b c d, b < nv → d < nv → a * nv + b = c * nv + d → a = c ∧ b = d :=
    fun a b c d hb hd h => idx_inj hb hd h
  have e0 : (i + 1) * nv = i * nv + nv := Nat.succ_mul i nv
  refine ⟨?_, ?_, ?_, ?_, ?_, ?_⟩ <;> intro hp hq <;> subst hp hq <;> rw [mem_dirEdges_gridT]
  · constructor
    · rintro ⟨i', j', hi', hj', h⟩
      have s1 : (i' + 1) * nv = i' * nv + nv := Nat.succ_mul i' nv
      rcases h with ⟨e1, e2⟩ | ⟨e1, e2⟩ | ⟨e1, e2⟩ | ⟨e1, e2⟩ | ⟨e1, e2⟩ | ⟨e1, e2⟩ <;>
      (try simp only [Nat.add_assoc] at e1 e2
       have c1 := key _ _ _ _ (by omega) (by omega) e1
       have c2 := key _ _ _ _ (by omega) (by omega) e2
       omega)
    · intro h
      obtain ⟨i0, rfl⟩ : ∃ i0, i = i0 + 1 := ⟨i - 1, by omega⟩
      exact ⟨i0, j, by omega, hj, by omega⟩
  · constructor
    · rintro ⟨i', j', hi', hj', h⟩
      have s1 : (i' + 1) * nv = i' * nv + nv := Nat.succ_mul i' nv
      rcases h with ⟨e1, e2⟩ | ⟨e1, e2⟩ | ⟨e1, e2⟩ | ⟨e1, e2⟩ | ⟨e1, e2⟩ | ⟨e1, e2⟩ <;>
      (try simp only [Nat.add_assoc] at e1 e2
       have c1 := key _ _ _ _ (by omega) (by omega) e1
       have c2 := key _ _ _ _ (by omega) (by omega) e2
       omega)
    · intro h
      exact ⟨i, j + 1, hi, by omega, by omega⟩
  · constructor
    · rintro ⟨i', j', hi', hj', h⟩
      have s1 : (i' + 1) * nv = i' * nv + nv := Nat.succ_mul i' nv
      rcases h with ⟨e1, e2⟩ | ⟨e1, e2⟩ | ⟨e1, e2⟩ | ⟨e1, e2⟩ | ⟨e1, e2⟩ | ⟨e1, e2⟩ <;>
      (try simp only [Nat.add_assoc] at e1 e2
       have c1 := key _ _ _ _ (by omega) (by omega) e1
       have c2 := key _ _ _ _ (by omega) (by omega) e2
       omega)
    · intro h
      exact ⟨i + 1, j, by omega, hj, by omega⟩
  · constructor
    · rintro ⟨i', j', hi', hj', h⟩
      have s1 : (i' + 1) * nv = i' * nv + nv := Nat.succ_mul i' nv
      rcases h with ⟨e1, e2⟩ | ⟨e1, e2⟩ | ⟨e1, e2⟩ | ⟨e1, e2⟩ | ⟨e1, e2⟩ | ⟨e1, e2⟩ <;>
      (try simp only [Nat.add_assoc] at e1 e2
       have c1 := key _ _ _ _ (by omega) (by omega) e1
       have c2 := key _ _ _ _ (by omega) (by omega) e2
       omega)
    · intro h
      obtain ⟨j0, rfl⟩ : ∃ j0, j = j0 + 1 := ⟨j - 1, by omega⟩
      exact ⟨i, j0, hi, by omega, by omega⟩
  · exact ⟨i, j, hi, hj, by omega⟩
  · exact ⟨i, j, hi, hj, by omega⟩

/-- the three sides of a grid triangle are non-degenerate and pairwise distinct -/
theorem gridT_sides (nv i j : Nat) (k : Bool) (hv : 2 ≤ nv) :
    (sides (gridTri nv i j k)).Nodup ∧ ∀ e ∈ sides (gridTri nv i j k), e.1 ≠ e.2 := by
  have e0 : (i + 1) * nv = i * nv + nv := Nat.succ_mul i nv
  cases k <;>
  simp only [gridTri, sides_tri, List.nodup_cons, List.mem_cons, Prod.mk.injEq, List.mem_nil_iff, or_false,
    not_or, not_and, List.nodup_nil, and_true, not_false_eq_true, forall_eq_or_imp, forall_eq, ne_eq, if_true,
    Bool.false_eq_true, if_false] <;> omega

/-- unmatched sides of the triangle (i,j,k): the lower triangle of a cell is unmatched on the first row / first column,
the upper one on the last column / last row -/
def gridTBorder (m n i j : Nat) (k : Bool) : Nat :=
  if k = true then (if j = n - 1 then 1 else 0) + (if i = m - 1 then 1 else 0)
  else (if i = 0 then 1 else 0) + (if j = 0 then 1 else 0)

/-- per face: the number of sides of the triangle (i,j,k) whose opposite lies in no face -/
theorem gridT_face_border (m n nv : Nat) (hn : n < nv) (a : Nat × Nat × Bool) (ha : a ∈ grid2b m n) :
    ((sides (gridTri nv a.1 a.2.1 a.2.2)).filter
      (fun e => !(dirEdges ((grid2b m n).map (fun a => gridTri nv a.1 a.2.1 a.2.2))).contains (e.2, e.1))).length =
      gridTBorder m n a.1 a.2.1 a.2.2 := by
  obtain ⟨i, j, k⟩ := a
  rw [mem_grid2b] at ha
  have f1 := (gridT_opp m n nv i j hn ha.1 ha.2 _ _).1 rfl rfl
  have f2 := (gridT_opp m n nv i j hn ha.1 ha.2 _ _).2.1 rfl rfl
  have f3 := (gridT_opp m n nv i j hn ha.1 ha.2 _ _).2.2.1 rfl rfl
  have f4 := (gridT_opp m n nv i j hn ha.1 ha.2 _ _).2.2.2.1 rfl rfl
  have f5 := (gridT_opp m n nv i j hn ha.1 ha.2 _ _).2.2.2.2.1 rfl rfl
  have f6 := (gridT_opp m n nv i j hn ha.1 ha.2 _ _).2.2.2.2.2 rfl rfl
  cases k
  · have hq : gridTri nv (i, j, false).1 (i, j, false).2.1 (i, j, false).2.2 =
        [i * nv + j, i * nv + j + 1, (i + 1) * nv + j] := rfl
    rw [length_filter_eq_sum, hq, sides_tri]
    simp only [List.map_cons, List.map_nil, List.sum_cons, List.sum_nil]
    rw [ind_not_contains _ _ (i = 0) f1, ind_contains _ _ f5, ind_not_contains _ _ (j = 0) f4]
    simp only [gridTBorder, Bool.false_eq_true, if_false]
    omega
  · have hq : gridTri nv (i, j, true).1 (i, j, true).2.1 (i, j, true).2.2 =
        [i * nv + j + 1, (i + 1) * nv + j + 1, (i + 1) * nv + j] := rfl
    rw [length_filter_eq_sum, hq, sides_tri]
    simp only [List.map_cons, List.map_nil, List.sum_cons, List.sum_nil]
    rw [ind_not_contains _ _ (j = n - 1) f2, ind_not_contains _ _ (i = m - 1) f3, ind_contains _ _ f6]
    simp only [gridTBorder, if_true]
    omega

/-- m × n block of split cells (m, n ≥ 1) on a vertex grid of stride nv > n: oriented, 2m + 2n unmatched sides -/
theorem gridT_block (m n nv : Nat) (hm : 1 ≤ m) (hn1 : 1 ≤ n) (hn : n < nv) :
    (dirEdges ((grid2b m n).map (fun a => gridTri nv a.1 a.2.1 a.2.2))).Nodup ∧
    numBorder ((grid2b m n).map (fun a => gridTri nv a.1 a.2.1 a.2.2)) = 2 * m + 2 * n ∧
    euler ((m + 1) * (n + 1)) ((grid2b m n).map (fun a => gridTri nv a.1 a.2.1 a.2.2)) = 1 := by
  have hor : ∀ a ∈ grid2b m n, ∀ b ∈ grid2b m n, ∀ e, e ∈ sides (gridTri nv a.1 a.2.1 a.2.2) →
      e ∈ sides (gridTri nv b.1 b.2.1 b.2.2) → a = b := by
    intro a ha b hb e h1 h2
    rw [mem_grid2b] at ha hb
    have := unit_grid_tris_oriented nv a.1 a.2.1 b.1 b.2.1 a.2.2 b.2.2 (by omega) (by omega) e h1 h2
    exact Prod.ext this.1 (Prod.ext this.2.1 this.2.2)
  have hs : ∀ a ∈ grid2b m n, (sides (gridTri nv a.1 a.2.1 a.2.2)).Nodup :=
    fun a _ => (gridT_sides nv a.1 a.2.1 a.2.2 (by omega)).1
  have hl : ∀ a ∈ grid2b m n, ∀ e ∈ sides (gridTri nv a.1 a.2.1 a.2.2), e.1 ≠ e.2 :=
    fun a _ => (gridT_sides nv a.1 a.2.1 a.2.2 (by omega)).2
  have hb : numBorder ((grid2b m n).map (fun a => gridTri nv a.1 a.2.1 a.2.2)) = 2 * m + 2 * n := by
    rw [numBorder_addressed _ _ _ (gridT_face_border m n nv hn), sum_grid2b m n (gridTBorder m n),
      ← sum_grid2_perimeter m n hm hn1]
    congr 1
    apply List.map_congr_left
    intro a _
    simp only [gridTBorder, Bool.false_eq_true, if_false, if_true]
    omega
  refine ⟨dirEdges_nodup_addressed _ _ (nodup_grid2b m n) hs hor, hb, ?_⟩
  apply euler_addressed _ _ _ (nodup_grid2b m n) hs hor hl _ hb
  rw [sum_map_const_on _ _ 3 (by intro a _; unfold gridTri; cases a.2.2 <;> rfl), length_grid2b]
  have e : (m + 1) * (n + 1) = m * n + m + n + 1 := by rw [Nat.succ_mul, Nat.mul_succ]; omega
  rw [e]
  push_cast; omega

/-- `unit_grid(nu, nv, triangulate=True)`: consistently oriented, exactly 2(nu-1) + 2(nv-1) unmatched sides,
V − E + F = 1 (a disk), for all nu, nv ≥ 2 -/
theorem unit_grid_tris_euler (nu nv : Nat) (u : Bool) (hu : 2 ≤ nu) (hv : 2 ≤ nv) :
    (dirEdges (unit_gridFaces nu nv true u)).Nodup ∧
    numBorder (unit_gridFaces nu nv true u) = 2 * (nu - 1) + 2 * (nv - 1) ∧
    euler (unit_gridNVerts nu nv true u) (unit_gridFaces nu nv true u) = 1 := by
  rw [(unit_gridFaces_addressed nu nv u).2, unit_grid_nverts]
  have h := gridT_block (nu - 1) (nv - 1) nv (by omega) (by omega) (by omega)
  rw [show nu - 1 + 1 = nu by omega, show nv - 1 + 1 = nv by omega] at h
  exact h

/-! ## the border loop: the perimeter of the grid -/

/-- `k`-th vertex of the perimeter of an m × n block of cells (row stride nv), starting at vertex 0: first row with the
column increasing, last column with the row increasing, last row with the column decreasing, first column with the row
decreasing -/
def rimV (m n nv k : Nat) : Nat :=
  if k < n then k else if k < n + m then (k - n) * nv + n else if k < 2 * n + m then m * nv + (2 * n + m - k)
  else (2 * m + 2 * n - k) * nv

/-- the perimeter polygon of `unit_grid(nu, nv)` -/
def gridRim (nu nv : Nat) : List Nat :=
  (List.range (2 * (nu - 1) + 2 * (nv - 1))).map (rimV (nu - 1) (nv - 1) nv)

theorem rimV_bot (m n nv j : Nat) (hm : 1 ≤ m) (hj : j ≤ n) : rimV m n nv j = j := by
  unfold rimV
  by_cases h : j < n
  · rw [if_pos h]
  · have : j = n := by omega
    subst this
    rw [if_neg h, if_pos (by omega), Nat.sub_self, Nat.zero_mul, Nat.zero_add]

theorem rimV_right (m n nv i : Nat) (hn : 1 ≤ n) (hi : i ≤ m) : rimV m n nv (n + i) = i * nv + n := by
  unfold rimV
  by_cases h : i < m
  · rw [if_neg (by omega), if_pos (by omega), Nat.add_sub_cancel_left]
  · have : i = m := by omega
    subst this
    rw [if_neg (by omega), if_neg (by omega), if_pos (by omega), show 2 * n + i - (n + i) = n by omega]

theorem rimV_top (m n nv j : Nat) (hm : 1 ≤ m) (hj : j ≤ n) : rimV m n nv (n + m + (n - j)) = m * nv + j := by
  unfold rimV
  by_cases h : j = 0
  · subst h
    rw [if_neg (by omega), if_neg (by omega), if_neg (by omega), show 2 * m + 2 * n - (n + m + (n - 0)) = m by omega]
    rfl
  · rw [if_neg (by omega), if_neg (by omega), if_pos (by omega), show 2 * n + m - (n + m + (n - j)) = j by omega]

theorem rimV_left (m n nv i : Nat) (hi : i ≤ m) : rimV m n nv (2 * n + m + (m - i)) = i * nv := by
  unfold rimV
  rw [if_neg (by omega), if_neg (by omega), if_neg (by omega), show 2 * m + 2 * n - (2 * n + m + (m - i)) = i by omega]

/-- row and column of the `k`-th perimeter vertex -/
theorem rimV_coord (m n nv k : Nat) : ∃ r c, rimV m n nv k = r * nv + c ∧
    ((k < n ∧ r = 0 ∧ c = k) ∨ (n ≤ k ∧ k < n + m ∧ r = k - n ∧ c = n) ∨
     (n + m ≤ k ∧ k < 2 * n + m ∧ r = m ∧ c = 2 * n + m - k) ∨ (2 * n + m ≤ k ∧ r = 2 * m + 2 * n - k ∧ c = 0)) := by
  unfold rimV
  by_cases h1 : k < n
  · exact ⟨0, k, by rw [if_pos h1]; omega, by omega⟩
  · by_cases h2 : k < n + m
    · exact ⟨k - n, n, by rw [if_neg h1, if_pos h2], by omega⟩
    · by_cases h3 : k < 2 * n + m
      · exact ⟨m, 2 * n + m - k, by rw [if_neg h1, if_neg h2, if_pos h3], by omega⟩
      · exact ⟨2 * m + 2 * n - k, 0, by rw [if_neg h1, if_neg h2, if_neg h3]; rfl, by omega⟩

/-- the perimeter visits pairwise distinct vertices -/
theorem rim_nodup (m n nv : Nat) (hm : 1 ≤ m) (hn1 : 1 ≤ n) (hn : n < nv) :
    ((List.range (2 * m + 2 * n)).map (rimV m n nv)).Nodup := by
  rw [List.nodup_iff_pairwise_ne, List.pairwise_map]
  apply List.Pairwise.imp_of_mem _ List.nodup_range
  intro a b ha hb hab h
  rw [List.mem_range] at ha hb
  obtain ⟨r, c, e1, h1⟩ := rimV_coord m n nv a
  obtain ⟨r', c', e2, h2⟩ := rimV_coord m n nv b
  rw [e1, e2] at h
  have := idx_inj (by omega) (by omega) h
  omega

/-- `(p, q)` is a side of a cell of the m × n block lying on the perimeter, traversed as the cell traverses it -/
def gridBorderSide (m n nv p q : Nat) : Prop :=
  ∃ i j, i < m ∧ j < n ∧
    ((i = 0 ∧ p = i * nv + j ∧ q = i * nv + j + 1) ∨ (j = n - 1 ∧ p = i * nv + j + 1 ∧ q = (i + 1) * nv + j + 1) ∨
     (i = m - 1 ∧ p = (i + 1) * nv + j + 1 ∧ q = (i + 1) * nv + j) ∨ (j = 0 ∧ p = (i + 1) * nv + j ∧ q = i * nv + j))

/-- the sides of the perimeter polygon are exactly the perimeter sides of the cells -/
theorem rim_sides_iff (m n nv : Nat) (hm : 1 ≤ m) (hn1 : 1 ≤ n) (p q : Nat) :
    (∃ k, k < 2 * m + 2 * n ∧ p = rimV m n nv k ∧ q = rimV m n nv ((k + 1) % (2 * m + 2 * n))) ↔
      gridBorderSide m n nv p q := by
  unfold gridBorderSide
  constructor
  · rintro ⟨k, hk, hp, hq⟩
    by_cases c1 : k < n
    · -- first row
      rw [Nat.mod_eq_of_lt (by omega), rimV_bot m n nv (k + 1) hm (by omega)] at hq
      rw [rimV_bot m n nv k hm (by omega)] at hp
      exact ⟨0, k, by omega, c1, Or.inl ⟨rfl, by omega, by omega⟩⟩
    · by_cases c2 : k < n + m
      · -- last column
        obtain ⟨i, rfl⟩ : ∃ i, k = n + i := ⟨k - n, by omega⟩
        rw [Nat.mod_eq_of_lt (by omega), Nat.add_assoc, rimV_right m n nv (i + 1) hn1 (by omega)] at hq
        rw [rimV_right m n nv i hn1 (by omega)] at hp
        exact ⟨i, n - 1, by omega, by omega, Or.inr (Or.inl ⟨rfl, by omega, by omega⟩)⟩
      · by_cases c3 : k < 2 * n + m
        · -- last row
          obtain ⟨j, hj, rfl⟩ : ∃ j, j < n ∧ k = n + m + (n - (j + 1)) := ⟨2 * n + m - k - 1, by omega, by omega⟩
          rw [Nat.mod_eq_of_lt (by omega), show n + m + (n - (j + 1)) + 1 = n + m + (n - j) by omega,
            rimV_top m n nv j hm (by omega)] at hq
          rw [rimV_top m n nv (j + 1) hm (by omega)] at hp
          obtain ⟨m0, rfl⟩ : ∃ m0, m = m0 + 1 := ⟨m - 1, by omega⟩
          exact ⟨m0, j, by omega, hj, Or.inr (Or.inr (Or.inl ⟨by omega, by omega, by omega⟩))⟩
        · -- first column
          obtain ⟨i, hi, rfl⟩ : ∃ i, i < m ∧ k = 2 * n + m + (m - (i + 1)) :=
            ⟨2 * m + 2 * n - k - 1, by omega, by omega⟩
          rw [rimV_left m n nv (i + 1) (by omega)] at hp
          have hq' : q = i * nv := by
            by_cases c : i = 0
            · subst c
              have e : (2 * n + m + (m - (0 + 1)) + 1) % (2 * m + 2 * n) = 0 := by
                rw [show 2 * n + m + (m - (0 + 1)) + 1 = 2 * m + 2 * n by omega, Nat.mod_self]
              rw [e, rimV_bot m n nv 0 hm (by omega)] at hq
              omega
            · rw [Nat.mod_eq_of_lt (by omega), show 2 * n + m + (m - (i + 1)) + 1 = 2 * n + m + (m - i) by omega,
                rimV_left m n nv i (by omega)] at hq
              exact hq
          exact ⟨i, 0, hi, by omega, Or.inr (Or.inr (Or.inr ⟨rfl, by omega, by omega⟩))⟩
  · rintro ⟨i, j, hi, hj, h⟩
    rcases h with ⟨hi0, hp, hq⟩ | ⟨hj0, hp, hq⟩ | ⟨hi0, hp, hq⟩ | ⟨hj0, hp, hq⟩
    · subst hi0
      refine ⟨j, by omega, ?_⟩
      rw [Nat.mod_eq_of_lt (by omega), rimV_bot m n nv j hm (by omega), rimV_bot m n nv (j + 1) hm (by omega)]
      omega
    · refine ⟨n + i, by omega, ?_⟩
      rw [Nat.mod_eq_of_lt (by omega), rimV_right m n nv i hn1 (by omega), Nat.add_assoc,
        rimV_right m n nv (i + 1) hn1 (by omega)]
      omega
    · obtain ⟨m0, rfl⟩ : ∃ m0, m = m0 + 1 := ⟨m - 1, by omega⟩
      have : i = m0 := by omega
      subst this
      refine ⟨n + (i + 1) + (n - (j + 1)), by omega, ?_⟩
      rw [Nat.mod_eq_of_lt (by omega), rimV_top (i + 1) n nv (j + 1) hm (by omega),
        show n + (i + 1) + (n - (j + 1)) + 1 = n + (i + 1) + (n - j) by omega, rimV_top (i + 1) n nv j hm (by omega)]
      omega
    · subst hj0
      refine ⟨2 * n + m + (m - (i + 1)), by omega, ?_⟩
      rw [rimV_left m n nv (i + 1) (by omega)]
      by_cases c : i = 0
      · subst c
        have e : (2 * n + m + (m - (0 + 1)) + 1) % (2 * m + 2 * n) = 0 := by
          rw [show 2 * n + m + (m - (0 + 1)) + 1 = 2 * m + 2 * n by omega, Nat.mod_self]
        rw [e, rimV_bot m n nv 0 hm (by omega)]
        omega
      · rw [Nat.mod_eq_of_lt (by omega), show 2 * n + m + (m - (i + 1)) + 1 = 2 * n + m + (m - i) by omega,
          rimV_left m n nv i (by omega)]
        omega

/-- a side of the block of quads is unmatched iff it is a perimeter side -/
theorem gridQ_border_iff (m n nv : Nat) (hn : n < nv) (p q : Nat) :
    ((p, q) ∈ dirEdges ((grid2 m n).map (fun a => gridQuad nv a.1 a.2)) ∧
      (q, p) ∉ dirEdges ((grid2 m n).map (fun a => gridQuad nv a.1 a.2))) ↔ gridBorderSide m n nv p q := by
  unfold gridBorderSide
  constructor
  · rintro ⟨h1, h2⟩
    rw [mem_dirEdges_gridQ] at h1
    obtain ⟨i, j, hi, hj, h⟩ := h1
    obtain ⟨o1, o2, o3, o4⟩ := gridQ_opp m n nv i j hn hi hj q p
    refine ⟨i, j, hi, hj, ?_⟩
    rcases h with ⟨hp, hq⟩ | ⟨hp, hq⟩ | ⟨hp, hq⟩ | ⟨hp, hq⟩
    · exact Or.inl ⟨Decidable.byContradiction fun c => h2 ((o1 hq hp).mpr c), hp, hq⟩
    · exact Or.inr (Or.inl ⟨Decidable.byContradiction fun c => h2 ((o2 hq hp).mpr c), hp, hq⟩)
    · exact Or.inr (Or.inr (Or.inl ⟨Decidable.byContradiction fun c => h2 ((o3 hq hp).mpr c), hp, hq⟩))
    · exact Or.inr (Or.inr (Or.inr ⟨Decidable.byContradiction fun c => h2 ((o4 hq hp).mpr c), hp, hq⟩))
  · rintro ⟨i, j, hi, hj, h⟩
    obtain ⟨o1, o2, o3, o4⟩ := gridQ_opp m n nv i j hn hi hj q p
    rw [mem_dirEdges_gridQ]
    rcases h with ⟨c, hp, hq⟩ | ⟨c, hp, hq⟩ | ⟨c, hp, hq⟩ | ⟨c, hp, hq⟩
    · exact ⟨⟨i, j, hi, hj, Or.inl ⟨hp, hq⟩⟩, fun h => (o1 hq hp).mp h c⟩
    · exact ⟨⟨i, j, hi, hj, Or.inr (Or.inl ⟨hp, hq⟩)⟩, fun h => (o2 hq hp).mp h c⟩
    · exact ⟨⟨i, j, hi, hj, Or.inr (Or.inr (Or.inl ⟨hp, hq⟩))⟩, fun h => (o3 hq hp).mp h c⟩
    · exact ⟨⟨i, j, hi, hj, Or.inr (Or.inr (Or.inr ⟨hp, hq⟩))⟩, fun h => (o4 hq hp).mp h c⟩

/-- a side of the block of split cells is unmatched iff it is a perimeter side (the diagonals are always matched) -/
theorem gridT_border_iff (m n nv : Nat) (hn : n < nv) (p q : Nat) :
    ((p, q) ∈ dirEdges ((grid2b m n).map (fun a => gridTri nv a.1 a.2.1 a.2.2)) ∧
      (q, p) ∉ dirEdges ((grid2b m n).map (fun a => gridTri nv a.1 a.2.1 a.2.2))) ↔ gridBorderSide m n nv p q := by
  unfold gridBorderSide
  constructor
  · rintro ⟨h1, h2⟩
    rw [mem_dirEdges_gridT] at h1
    obtain ⟨i, j, hi, hj, h⟩ := h1
    obtain ⟨o1, o2, o3, o4, o5, o6⟩ := gridT_opp m n nv i j hn hi hj q p
    refine ⟨i, j, hi, hj, ?_⟩
    rcases h with ⟨hp, hq⟩ | ⟨hp, hq⟩ | ⟨hp, hq⟩ | ⟨hp, hq⟩ | ⟨hp, hq⟩ | ⟨hp, hq⟩
    · exact Or.inl ⟨Decidable.byContradiction fun c => h2 ((o1 hq hp).mpr c), hp, hq⟩
    · exact absurd (o5 hq hp) h2
    · exact Or.inr (Or.inr (Or.inr ⟨Decidable.byContradiction fun c => h2 ((o4 hq hp).mpr c), hp, hq⟩))
    · exact Or.inr (Or.inl ⟨Decidable.byContradiction fun c => h2 ((o2 hq hp).mpr c), hp, hq⟩)
    · exact Or.inr (Or.inr (Or.inl ⟨Decidable.byContradiction fun c => h2 ((o3 hq hp).mpr c), hp, hq⟩))
    · exact absurd (o6 hq hp) h2
  · rintro ⟨i, j, hi, hj, h⟩
    obtain ⟨o1, o2, o3, o4, o5, o6⟩ := gridT_opp m n nv i j hn hi hj q p
    rw [mem_dirEdges_gridT]
    rcases h with ⟨c, hp, hq⟩ | ⟨c, hp, hq⟩ | ⟨c, hp, hq⟩ | ⟨c, hp, hq⟩
    · exact ⟨⟨i, j, hi, hj, Or.inl ⟨hp, hq⟩⟩, fun h => (o1 hq hp).mp h c⟩
    · exact ⟨⟨i, j, hi, hj, Or.inr (Or.inr (Or.inr (Or.inl ⟨hp, hq⟩)))⟩, fun h => (o2 hq hp).mp h c⟩
    · exact ⟨⟨i, j, hi, hj, Or.inr (Or.inr (Or.inr (Or.inr (Or.inl ⟨hp, hq⟩))))⟩, fun h => (o3 hq hp).mp h c⟩
    · exact ⟨⟨i, j, hi, hj, Or.inr (Or.inr (Or.inl ⟨hp, hq⟩))⟩, fun h => (o4 hq hp).mp h c⟩

/-- a face list whose unmatched sides are the perimeter sides has exactly one border loop, the perimeter polygon -/
theorem loop_of_border_iff (m n nv : Nat) (hm : 1 ≤ m) (hn1 : 1 ≤ n) (hn : n < nv) (fs : List Face)
    (h : ∀ p q, ((p, q) ∈ dirEdges fs ∧ (q, p) ∉ dirEdges fs) ↔ gridBorderSide m n nv p q) :
    BorderLoops fs [(List.range (2 * m + 2 * n)).map (rimV m n nv)] := by
  refine ⟨?_, by simp, ?_⟩
  · intro cc hc
    simp only [List.mem_cons, List.mem_nil_iff, or_false] at hc
    subst hc
    exact rim_nodup m n nv hm hn1 hn
  · rintro ⟨p, q⟩
    simp only [List.mem_cons, List.mem_nil_iff, or_false, exists_eq_left, mem_sides_map_range, Prod.mk.injEq]
    rw [h p q, rim_sides_iff m n nv hm hn1 p q]

/-- `unit_grid(nu, nv)` with quads: the unmatched sides are exactly the sides of ONE polygon, the perimeter of the grid
(one border loop of 2(nu-1) + 2(nv-1) sides: a disk), for all nu, nv ≥ 2 -/
theorem unit_grid_quads_loop (nu nv : Nat) (u : Bool) (hu : 2 ≤ nu) (hv : 2 ≤ nv) :
    BorderLoops (unit_gridFaces nu nv false u) [gridRim nu nv] ∧
    (gridRim nu nv).length = 2 * (nu - 1) + 2 * (nv - 1) := by
  rw [(unit_gridFaces_addressed nu nv u).1]
  exact ⟨loop_of_border_iff (nu - 1) (nv - 1) nv (by omega) (by omega) (by omega) _
    (gridQ_border_iff (nu - 1) (nv - 1) nv (by omega)), by simp [gridRim]⟩

/-- `unit_grid(nu, nv, triangulate=True)`: the same single border loop, for all nu, nv ≥ 2 -/
theorem unit_grid_tris_loop (nu nv : Nat) (u : Bool) (hu : 2 ≤ nu) (hv : 2 ≤ nv) :
    BorderLoops (unit_gridFaces nu nv true u) [gridRim nu nv] ∧
    (gridRim nu nv).length = 2 * (nu - 1) + 2 * (nv - 1) := by
  rw [(unit_gridFaces_addressed nu nv u).2]
  exact ⟨loop_of_border_iff (nu - 1) (nv - 1) nv (by omega) (by omega) (by omega) _
    (gridT_border_iff (nu - 1) (nv - 1) nv (by omega)), by simp [gridRim]⟩

/-! ## non-vacuity: the statements on concrete resolutions, by kernel evaluation of the translated terms -/

example : numBorder (unit_gridFaces 3 5 false false) = 12 ∧
    euler (unit_gridNVerts 3 5 false false) (unit_gridFaces 3 5 false false) = 1 := by decide +kernel

example : numBorder (unit_gridFaces 4 3 true true) = 10 ∧ (unit_gridFaces 4 3 true true).length = 12 ∧
    euler (unit_gridNVerts 4 3 true true) (unit_gridFaces 4 3 true true) = 1 := by decide +kernel

example : numBorder (unit_gridFaces 2 2 false false) = 4 ∧ numBorder (unit_gridFaces 2 2 true false) = 4 := by
  decide +kernel

example : gridRim 3 4 = [0, 1, 2, 3, 7, 11, 10, 9, 8, 4] := by decide +kernel

/-- the hypotheses nu, nv ≥ 2 are needed: a degenerate grid has no face, hence χ = V ≠ 1 -/
example : unit_gridFaces 1 4 false false = [] ∧
    euler (unit_gridNVerts 1 4 false false) (unit_gridFaces 1 4 false false) = 4 := by decide +kernel

end Mouette.Props.C14
