import Mouette.Lemmas.BorderMesh
import Mouette.Lemmas.BorderAll
import Mouette.Lemmas.BorderPoly
import Mouette.Lemmas.UmbrellaBorder
import Mouette.Lemmas.RingCheck
import Mouette.Model.BorderSpec
/-!
# C15 (part 2) — `border_cycle_correct` (P1)

`S = build nv faces true` (sorted rings), `bv = boundaryVertices S`.  Hypotheses (all decidable on a given
input): `Oriented faces`; `InRange faces nv` (vertex indices `< nv`); `BorderUmbrella faces nv` — at every
boundary vertex the corners form one open fan (`RingOpen`, the umbrella condition of C01 `ring_sorted`).

The walk follows `w0 A = vertex_to_vertices(A)[0]`, which by C01 `ring_sorted` (vertex ring part) is the
source of the border side entering `A`.
-/
namespace Mouette.Props.C15
open Mouette.Surface Mouette.Border Mouette.Props.C01

section
variable {faces : Faces} {nv : Nat}

/-- **first ring neighbour** (C01 `ring_sorted`, vertex ring, the part the border walk needs): at a boundary
vertex `A` with sorted rings, `vertex_to_vertices(A)` starts with the neighbour `w` that has no half-edge
`A → w`: `(w → A)` is a side of a face and `(A → w)` is not. -/
theorem first_ring_neighbour (hO : Oriented faces) (hU : BorderUmbrella faces nv) {A : Nat}
    (hA : A ∈ boundaryVertices (build nv faces true)) :
    (∃ rest, vertexToVertices (build nv faces true) A = w0 faces nv A :: rest) ∧
    (∃ f i, IsSide faces f i (w0 faces nv A) A) ∧ (∀ f i, ¬ IsSide faces f i A (w0 faces nv A)) :=
  w0_spec hO hU hA

/-- **`border_cycle_correct`** (single cycle): from ANY boundary vertex `start`, `extract_border_cycle`
returns `(vb, eb)` such that
* `vb` starts at `start`, has no repetition, consists of boundary vertices, `|eb| = |vb|`;
* every step `vb[t] → vb[t+1 mod n]` (including the closing one) is along a border EDGE, whose id is `eb[t]`,
  a member of `boundary_edges`;
* `vb` is the whole border loop of `start`: every border edge at a visited vertex leads to a visited vertex.
No bound on the mesh size or on the length of the loop. -/
theorem border_cycle_correct (hO : Oriented faces) (hR : InRange faces nv) (hU : BorderUmbrella faces nv)
    {start : Nat} (hs : start ∈ boundaryVertices (build nv faces true)) :
    ∃ vb eb, extractBorderCycle (build nv faces true) (boundaryVertices (build nv faces true)) start = some (vb, eb) ∧
      vb.head? = some start ∧ vb.Nodup ∧ eb.length = vb.length ∧
      (∀ x ∈ vb, x ∈ boundaryVertices (build nv faces true)) ∧
      (∀ t (ht : t < vb.length),
        isEdgeOnBorder (build nv faces true) vb[t] (vb[(t + 1) % vb.length]'(Nat.mod_lt _ (by omega))) = true ∧
        ∃ e, eb[t]? = some (some e) ∧ e ∈ boundaryEdges (build nv faces true) ∧
          edgeId (build nv faces true) vb[t] (vb[(t + 1) % vb.length]'(Nat.mod_lt _ (by omega))) = some e) ∧
      (∀ x ∈ vb, ∀ y, isEdgeOnBorder (build nv faces true) x y = true → y ∈ vb) := by
  have H := walkHyp_of_mesh hO hR hU
  obtain ⟨d, hd, hret, hmin⟩ := orbit_returns H hs
  have hbvlen : (boundaryVertices (build nv faces true)).length ≤ (build nv faces true).nv := by
    unfold boundaryVertices
    exact (List.length_filter_le _ _).trans (by simp)
  have hcyc := extractBorderCycle_eq H hs d (by omega) hret hmin
  refine ⟨_, _, hcyc, ?_, orbit_nodup H hs d hmin, by simp, ?_, ?_, ?_⟩
  · simp [List.range_succ_eq_map, iter]
  · intro x hx
    obtain ⟨t, _, rfl⟩ := List.mem_map.mp hx
    exact iter_mem H hs t
  · intro t ht
    simp only [List.length_map, List.length_range] at ht
    simp only [List.length_map, List.length_range, List.getElem_map, List.getElem_range]
    have hnext : iter (w0 faces nv) ((t + 1) % (d + 1)) start = w0 faces nv (iter (w0 faces nv) t start) := by
      rcases Nat.lt_or_ge (t + 1) (d + 1) with h1 | h1
      · rw [Nat.mod_eq_of_lt h1]; rfl
      · have : t + 1 = d + 1 := by omega
        rw [this, Nat.mod_self]
        have h2 : t = d := by omega
        subst h2
        simpa [iter] using hret.symm
    rw [hnext]
    have hx := iter_mem H hs t
    obtain ⟨_, ⟨f, i, hside⟩, hno⟩ := w0_spec hO hU hx
    obtain ⟨e, he1, he2, he3⟩ := edgeId_border (nv := nv) hO hside hno
    refine ⟨(border_of_side (nv := nv) hO hside hno).2, e, ?_, he3, he2⟩
    rw [List.getElem?_map, List.getElem?_range ht]
    simp only [Option.map_some]
    exact congrArg some he2
  · intro x hx y hb
    have hxo : x ∈ orbit (w0 faces nv) d start := hx
    have hxb : x ∈ boundaryVertices (build nv faces true) := by
      obtain ⟨t, _, rfl⟩ := List.mem_map.mp hx
      exact iter_mem H hs t
    show y ∈ orbit (w0 faces nv) d start
    rcases border_edge_cases hO hb with ⟨⟨f, i, hside⟩, hno⟩ | ⟨⟨f, i, hside⟩, hno⟩
    · -- border side x → y: then x = w0 y and the orbit is closed under the inverse of w0
      have hyb := (bv_of_side hO hR hside hno).2
      obtain ⟨ring, hr, _⟩ := hU y hyb
      obtain ⟨_, hsy, hny⟩ := w0_spec hO hU hyb
      have : w0 faces nv y = x := in_border_unique hO hr hsy hny ⟨f, i, hside⟩ hno
      exact orbit_back_closed H hs hret hyb (by rw [this]; exact hxo)
    · -- border side y → x: then y = w0 x
      obtain ⟨ring, hr, _⟩ := hU x hxb
      obtain ⟨_, hsx, hnx⟩ := w0_spec hO hU hxb
      have : w0 faces nv x = y := in_border_unique hO hr hsx hnx ⟨f, i, hside⟩ hno
      rw [← this]
      exact orbit_fwd_closed hret hxo

/-- **`border_cycle_correct`** (all cycles): `extract_border_cycle_all` returns cycles whose vertex lists,
concatenated, are a permutation of the boundary vertices — every boundary vertex lies on exactly one
returned cycle and no loop is returned twice — and each of them is the cycle `extract_border_cycle`
returns from one of its vertices (hence a closed simple walk along border edges covering a whole loop, by
the theorem above); so the number of cycles is the number of border loops. -/
theorem border_cycles_all_correct (hO : Oriented faces) (hR : InRange faces nv) (hU : BorderUmbrella faces nv) :
    ((cyclesAll (build nv faces true) (boundaryVertices (build nv faces true))).flatMap (·.1)).Perm
        (boundaryVertices (build nv faces true)) ∧
    ∀ c ∈ cyclesAll (build nv faces true) (boundaryVertices (build nv faces true)),
      ∃ u ∈ boundaryVertices (build nv faces true),
        extractBorderCycle (build nv faces true) (boundaryVertices (build nv faces true)) u = some c := by
  have H := walkHyp_of_mesh hO hR hU
  have hbvlen : (boundaryVertices (build nv faces true)).length ≤ (build nv faces true).nv := by
    unfold boundaryVertices
    exact (List.length_filter_le _ _).trans (by simp)
  have hnd : (boundaryVertices (build nv faces true)).Nodup := by
    unfold boundaryVertices
    exact List.nodup_range.sublist List.filter_sublist
  exact cyclesAll_correct H hbvlen hnd

/-- **edge set of the border**: the surface edge ids collected over all the cycles are a permutation of
`boundary_edges` (each border edge exactly once, nothing else) -/
theorem boundary_edges_collected (hO : Oriented faces) (hR : InRange faces nv) (hU : BorderUmbrella faces nv) :
    ((cyclesAll (build nv faces true) (boundaryVertices (build nv faces true))).flatMap (·.2)).Perm
      ((boundaryEdges (build nv faces true)).map some) := all_edges_perm hO hR hU

/-- **`extract_boundary_of_surface` is exact**: it succeeds, the polyline has one vertex per boundary vertex,
its edges are, one for one, `keyify(map[a], map[b])` for surface edges `(a,b)` that together are a permutation of
`boundary_edges`, and the inverse of the returned index map sends each polyline edge back to its surface edge -/
theorem boundary_polyline_correct (hO : Oriented faces) (hR : InRange faces nv) (hU : BorderUmbrella faces nv) :
    ∃ pe m, extractBoundary (build nv faces true) (boundaryVertices (build nv faces true)) =
        some (pe, m, (boundaryVertices (build nv faces true)).length) ∧
      ∃ es : List (Option Nat), es.Perm ((boundaryEdges (build nv faces true)).map some) ∧ pe.length = es.length ∧
        ∀ k (hk : k < es.length), ∃ e a b i j, es[k] = some e ∧ (build nv faces true).edges[e]? = some (a, b) ∧
          lookupMap m a = some i ∧ lookupMap m b = some j ∧ pe[k]? = some (key2 i j) ∧
          invLookup m i = some a ∧ invLookup m j = some b := extractBoundary_correct hO hR hU

/-- the hypothesis `BorderUmbrella` follows from the umbrella condition of C01 `ring_sorted` at the boundary
vertices (one path OR one cycle): at a boundary vertex the fan cannot be closed, and it is not empty -/
theorem border_umbrella_of_umbrella (hO : Oriented faces)
    (hU : ∀ A, A ∈ boundaryVertices (build nv faces true) →
      ∃ ring, RingOpen (build nv faces true) A ring ∨ RingClosed (build nv faces true) A ring) :
    BorderUmbrella faces nv := borderUmbrella_of_umbrella hO hU

/-- the decidable forms evaluated by the C15 driver (`Model/BorderSpec.lean`) imply the hypotheses -/
theorem inRangeB_sound (h : inRangeB faces nv = true) : InRange faces nv := by
  intro f i u v ⟨hf, hi, hu, hv⟩
  unfold inRangeB at h
  rw [List.all_eq_true] at h
  have hF : fa faces f ∈ faces := by
    have : fa faces f = faces[f] := by simp [fa, List.getD, hf]
    rw [this]; exact List.getElem_mem hf
  have hall := List.all_eq_true.mp (h _ hF)
  have hi' : (i + 1) % (fa faces f).length < (fa faces f).length := Nat.mod_lt _ (by omega)
  constructor
  · rw [← hu, getD_eq_getElem hi]
    simpa using hall _ (List.getElem_mem hi)
  · rw [← hv, getD_eq_getElem hi']
    simpa using hall _ (List.getElem_mem hi')

theorem borderUmbrellaB_sound (h : borderUmbrellaB faces nv = true) : BorderUmbrella faces nv := by
  intro A hA
  unfold borderUmbrellaB at h
  have := List.all_eq_true.mp h A hA
  rw [Bool.and_eq_true] at this
  refine ⟨_, ringOpenB_sound this.1, ?_⟩
  intro hnil
  rw [hnil] at this
  simp at this

/-- so the driver's `wf:1` on an input means the three hypotheses of `border_cycle_correct` hold on it -/
theorem borderWfB_sound (h : borderWfB faces nv = true) :
    Oriented faces ∧ InRange faces nv ∧ BorderUmbrella faces nv := by
  unfold borderWfB at h
  simp only [Bool.and_eq_true, decide_eq_true_eq] at h
  exact ⟨h.1.1, inRangeB_sound h.1.2, borderUmbrellaB_sound h.2⟩

end

/-! non-vacuity: two triangles sharing an edge (one border loop of 4 vertices) -/
example : Oriented [[0, 1, 2], [2, 1, 3]] ∧ inRangeB [[0, 1, 2], [2, 1, 3]] 4 = true := by decide +kernel

end Mouette.Props.C15
