import Mouette.Props.C15Border
import Mouette.Lemmas.C15Source
import Mouette.Lemmas.C15FeatSource
import Mouette.Lemmas.C15RunSource
import Mouette.Props.C15Runs
/-!
# C15 (part 4) — the border functions as TRANSLATED from the source

`Generated/C15Border.lean` is written on every run from the bodies of `extract_border_cycle`, `extract_border_cycle_all`,
`extract_boundary_of_surface` in `mouette/processing/border.py` (statement by statement: guards, the `while` loop with its
visit counter, the `for … break` neighbour scan, the visited bookkeeping, the index map, the in-place re-indexing of the polyline
edges).  The bridges below identify them with the hand-written `Model/Border.lean`, so the C15 border theorems speak about what
the source says now; a change of the source that changes the translated text breaks these proofs.
-/
namespace Mouette.Props.C15
open Mouette.Surface Mouette.Border Mouette.PySrc
open Mouette.Lemmas.C15Source

/-- **bridge** `extract_border_cycle` (explicit starting point): translated = model, for every mesh and every start -/
theorem source_extract_border_cycle_eq_model (S : Surf) (start : Nat) :
    Mouette.Generated.C15Src.extractBorderCycle S (some start) =
      Mouette.Border.extractBorderCycle S (boundaryVertices S) start := extractBorderCycle_bridge S start

/-- … and with the default `starting_point=None` the first boundary vertex is used -/
theorem source_extract_border_cycle_default (S : Surf) :
    Mouette.Generated.C15Src.extractBorderCycle S none =
      Mouette.Border.extractBorderCycle S (boundaryVertices S) ((boundaryVertices S).headD 0) := by
  rw [extractBorderCycle_default, extractBorderCycle_bridge]

/-- **termination of the translated `while` loop**: with the fuel `len(mesh.vertices)` it stops because its own condition
`point2 != starting_point and nvisited < MAX_VISITED` is false (the fuel is never what ends it) -/
theorem source_walk_loop_exits_by_its_condition (S : Surf) (start : Nat) (vb : List Nat) (eb : List (Option Nat)) (a b : Nat) :
    Mouette.Generated.C15Src.extractBorderCycle_while1_cond S start S.nv
      (Mouette.Generated.C15Src.extractBorderCycle_while1_loop S start S.nv S.nv (vb, eb, a, b, 0)) = false :=
  while_exits S start S.nv vb eb a b 0 (by omega)

section
variable {faces : Faces} {nv : Nat}

theorem cyclesOk_of_mesh (hO : Oriented faces) (hR : InRange faces nv) (hU : BorderUmbrella faces nv) :
    CyclesOk (build nv faces true) := by
  intro v hv
  obtain ⟨vb, eb, hc, _, _, hlen, _, hstep, _⟩ := border_cycle_correct hO hR hU hv
  refine ⟨(vb, eb), hc, ?_⟩
  intro oe hoe
  obtain ⟨t, ht, rfl⟩ := List.mem_iff_getElem.mp hoe
  have ht' : t < eb.length := ht
  obtain ⟨_, e, he, hbe, _⟩ := hstep t (by omega)
  rw [List.getElem?_eq_getElem ht'] at he
  have he' : eb[t] = some e := Option.some.inj he
  show (edgeAt (build nv faces true) eb[t]).isSome = true
  rw [he']
  unfold boundaryEdges at hbe
  obtain ⟨x, hx, _⟩ := (mem_zipIdx_filter _ _ e).mp hbe
  simp [edgeAt, hx]

/-- **`border_cycle_correct` for the TRANSLATED `extract_border_cycle`**: from any boundary vertex the function read from the
source returns a repetition-free closed walk along border edges covering the whole loop (statement of `border_cycle_correct`) -/
theorem source_border_cycle_correct (hO : Oriented faces) (hR : InRange faces nv) (hU : BorderUmbrella faces nv)
    {start : Nat} (hs : start ∈ boundaryVertices (build nv faces true)) :
    ∃ vb eb, Mouette.Generated.C15Src.extractBorderCycle (build nv faces true) (some start) = some (vb, eb) ∧
      vb.head? = some start ∧ vb.Nodup ∧ eb.length = vb.length ∧
      (∀ x ∈ vb, x ∈ boundaryVertices (build nv faces true)) ∧
      (∀ t (ht : t < vb.length),
        isEdgeOnBorder (build nv faces true) vb[t] (vb[(t + 1) % vb.length]'(Nat.mod_lt _ (by omega))) = true ∧
        ∃ e, eb[t]? = some (some e) ∧ e ∈ boundaryEdges (build nv faces true) ∧
          edgeId (build nv faces true) vb[t] (vb[(t + 1) % vb.length]'(Nat.mod_lt _ (by omega))) = some e) ∧
      (∀ x ∈ vb, ∀ y, isEdgeOnBorder (build nv faces true) x y = true → y ∈ vb) := by
  rw [source_extract_border_cycle_eq_model]
  exact border_cycle_correct hO hR hU hs

/-- **bridge** `extract_border_cycle_all`: translated = the vertex lists of the model's cycles, in the same order -/
theorem source_extract_border_cycle_all_eq_model (hO : Oriented faces) (hR : InRange faces nv) (hU : BorderUmbrella faces nv) :
    Mouette.Generated.C15Src.extractBorderCycleAll (build nv faces true) =
      some ((cyclesAll (build nv faces true) (boundaryVertices (build nv faces true))).map (·.1)) := by
  apply extractBorderCycleAll_bridge
  intro v hv
  obtain ⟨c, hc, _⟩ := cyclesOk_of_mesh hO hR hU v hv
  rw [hc]; rfl

/-- so the TRANSLATED `extract_border_cycle_all` returns cycles that partition the boundary vertices (each loop once) -/
theorem source_border_cycles_all_correct (hO : Oriented faces) (hR : InRange faces nv) (hU : BorderUmbrella faces nv) :
    ∃ cs, Mouette.Generated.C15Src.extractBorderCycleAll (build nv faces true) = some cs ∧
      cs.flatten.Perm (boundaryVertices (build nv faces true)) := by
  refine ⟨_, source_extract_border_cycle_all_eq_model hO hR hU, ?_⟩
  have := (border_cycles_all_correct hO hR hU).1
  rwa [List.flatMap_def] at this

/-- **bridge** `extract_boundary_of_surface`: translated = model (polyline edges, index map), and the polyline's vertices are
the cycle vertices in order -/
theorem source_extract_boundary_eq_model (hO : Oriented faces) (hR : InRange faces nv) (hU : BorderUmbrella faces nv) :
    Mouette.Generated.C15Src.extractBoundaryOfSurface (build nv faces true) =
      (extractBoundary (build nv faces true) (boundaryVertices (build nv faces true))).map
        (fun r => (r.1, r.2.1, (cyclesAll (build nv faces true) (boundaryVertices (build nv faces true))).flatMap (·.1))) :=
  extractBoundaryOfSurface_bridge _ (cyclesOk_of_mesh hO hR hU)

/-- **`boundary_polyline_correct` for the TRANSLATED function**: it succeeds; its vertex list is a permutation of the boundary
vertices (one polyline vertex per boundary vertex); its edges are, one for one, `keyify(map[a], map[b])` for surface edges `(a,b)`
that together are a permutation of `boundary_edges`; the returned map sends them back -/
theorem source_boundary_polyline_correct (hO : Oriented faces) (hR : InRange faces nv) (hU : BorderUmbrella faces nv) :
    ∃ pe m vs, Mouette.Generated.C15Src.extractBoundaryOfSurface (build nv faces true) = some (pe, m, vs) ∧
      vs.Perm (boundaryVertices (build nv faces true)) ∧
      ∃ es : List (Option Nat), es.Perm ((boundaryEdges (build nv faces true)).map some) ∧ pe.length = es.length ∧
        ∀ k (hk : k < es.length), ∃ e a b i j, es[k] = some e ∧ (build nv faces true).edges[e]? = some (a, b) ∧
          lookupMap m a = some i ∧ lookupMap m b = some j ∧ pe[k]? = some (key2 i j) ∧
          invLookup m i = some a ∧ invLookup m j = some b := by
  obtain ⟨pe, m, hb, hrest⟩ := boundary_polyline_correct hO hR hU
  refine ⟨pe, m, _, ?_, (border_cycles_all_correct hO hR hU).1, hrest⟩
  rw [source_extract_boundary_eq_model hO hR hU, hb]
  rfl

end

/-! non-vacuity / sensitivity of the translated loops on a concrete mesh (two triangles sharing the edge 1-2; every vertex is
on the border): the `for … break` scan over the neighbours `[1, 3, 0]` of vertex 2, coming from vertex 0, stops at the first
border vertex that is not the previous one; an already-set `break` flag freezes the state -/
example : [1, 3, 0].foldl (Mouette.Generated.C15Src.extractBorderCycle_for2_step (build 4 [[0, 1, 2], [2, 1, 3]] true)) (false, 0, 2) =
    (true, 2, 1) := by decide +kernel
example : [0, 3].foldl (Mouette.Generated.C15Src.extractBorderCycle_for2_step (build 4 [[0, 1, 2], [2, 1, 3]] true)) (false, 0, 2) =
    (true, 2, 3) := by decide +kernel
example : Mouette.Generated.C15Src.extractBorderCycle_while1_cond (build 4 [[0, 1, 2], [2, 1, 3]] true) 0 4 ([0], [], 0, 2, 0) = true ∧
    Mouette.Generated.C15Src.extractBorderCycle_while1_cond (build 4 [[0, 1, 2], [2, 1, 3]] true) 0 4 ([0], [], 3, 0, 3) = false ∧
    Mouette.Generated.C15Src.extractBorderCycle_while1_cond (build 4 [[0, 1, 2], [2, 1, 3]] true) 0 4 ([0], [], 3, 1, 4) = false := by
  decide +kernel
/-- the hypotheses of the bridges of `extract_border_cycle_all` / `extract_boundary_of_surface` are those of
`border_cycle_correct` (satisfiable: see Props/C15Border) -/
example : Oriented [[0, 1, 2], [2, 1, 3]] ∧ inRangeB [[0, 1, 2], [2, 1, 3]] 4 = true := by decide +kernel


/-! ## the feature passes and the corner flagging as TRANSLATED from `features.py` (`Generated/C15Feat.lean`) -/
section features
open Mouette.Features Mouette.FeatSource Mouette.Lemmas.C15FeatSource
open Mouette.Generated.C15Src

/-- **bridge**: the three passes read from the source (`_add_hard_edges_to_features`, `_add_sharp_angles_to_features`,
`_add_border_to_features`, applied in the order `run` applies them) are the model's three passes with the translated
thresholds, whatever the attribute held before — for every interface `env` that presents the per-edge data `es` -/
theorem source_feature_passes_eq_model (env : FeatEnv) (es : List EdgeInfo) (hm : EnvMatches env es) (ob : Bool) (init : BoolMap) :
    addBorderToFeatures env ob (addSharpAnglesToFeatures env ob (addHardEdgesToFeatures env ob init)) =
      flaggedFrom Mouette.Generated.C15.thresholds ob es init := by
  have h1 : Mouette.Generated.C15.thresholds.hardDelta = 1 / 5 := by decide +kernel
  rw [hard_bridge env ob es hm _ h1, sharp_bridge env ob es hm _ thresholds_bridge.1, border_bridge env ob es hm]
  rfl

/-- **`feature_set_exact` for the TRANSLATED passes**: starting from an empty attribute, edge `e` is flagged iff it is a border
edge, or (unless `only_border`) an interior edge with `cos < 1/2`, or a declared hard interior edge with `cos < 4/5` -/
theorem source_feature_set_exact (env : FeatEnv) (es : List EdgeInfo) (hm : EnvMatches env es) (ob : Bool) (e : Nat) :
    e ∈ addBorderToFeatures env ob (addSharpAnglesToFeatures env ob (addHardEdgesToFeatures env ob [])) ↔
      ∃ x, es[e]? = some x ∧
        (x.border = true ∨
         (ob = false ∧ interior x = true ∧ cosLt x.d x.q (1/2) = true) ∨
         (ob = false ∧ x.hard = true ∧ interior x = true ∧ cosLt x.d x.q (4/5) = true ∧ x.border = false)) := by
  rw [source_feature_passes_eq_model env es hm]
  have : flaggedFrom Mouette.Generated.C15.thresholds ob es [] = flagged Mouette.Generated.C15.thresholds ob es := rfl
  rw [this, flagged_iff, thresholds_bridge.1, thresholds_bridge.2]

/-- **bridge** `_flag_corners`: the loop read from the source writes, vertex after vertex, the model's `cornerOf` of
`angle sum · corner_order / 2π` (`twoPi` stands for the constant `2*pi`: any positive number) -/
theorem source_flag_corners_eq_model (cenv : CornerEnv) (twoPi : Rat) (order : Nat) (fv : List Nat) (c0 : IntMap)
    (hT : 0 < twoPi) (ho : 0 < order) :
    flagCorners cenv twoPi order fv c0 =
      fv.foldl (fun m v => (v, cornerOf (angleSum cenv v * (order : Rat) / twoPi)) :: m) c0 :=
  flagCorners_bridge cenv twoPi order fv c0 hT ho

/-- **corner flagging is exact**: after `_flag_corners`, every feature vertex `v` holds `+1` / `-1` (sign of the angle sum) when
`|angle sum| < 2π / corner_order`, and `round(angle sum · corner_order / 2π)` (Python's round: ties to even) otherwise; the
vertices that are not feature vertices keep what the attribute held -/
theorem source_corner_flagging_exact (cenv : CornerEnv) (twoPi : Rat) (order : Nat) (fv : List Nat) (c0 : IntMap)
    (hT : 0 < twoPi) (ho : 0 < order) (v : Nat) :
    (v ∈ fv → intGet (flagCorners cenv twoPi order fv c0) v =
        if ratAbs (angleSum cenv v) < twoPi / (order : Rat) then (if 0 ≤ angleSum cenv v then 1 else -1)
        else roundHalfEven (angleSum cenv v * (order : Rat) / twoPi)) ∧
    (v ∉ fv → intGet (flagCorners cenv twoPi order fv c0) v = intGet c0 v) := by
  rw [flagCorners_bridge cenv twoPi order fv c0 hT ho,
    foldl_corner_get (fun w => cornerOf (angleSum cenv w * (order : Rat) / twoPi))]
  constructor
  · intro hv
    simp only [hv, if_true]
    rw [← corner_rule twoPi (angleSum cenv v) order hT ho]
    by_cases h : ratAbs (angleSum cenv v) < twoPi / (order : Rat)
    · simp only [h, decide_true, if_true]
      by_cases h0 : (0 : Rat) ≤ angleSum cenv v <;> simp [h0]
    · simp only [h, decide_false, Bool.false_eq_true, if_false]
  · intro hv; simp only [hv, if_false]

/-! non-vacuity: a hinge of two faces; edge 0 border, edge 1 interior with `cos = 0` (sharp), edge 2 a declared hard interior
edge with `cos = 3/4` (between the two thresholds), edge 3 a declared hard edge with `cos = 9/10` (too flat) -/
def srcDemo : List EdgeInfo :=
  [{ a := 0, b := 1, t1 := some 0, t2 := none, border := true, hard := false, d := 0, q := 1 },
   { a := 2, b := 3, t1 := some 2, t2 := some 3, border := false, hard := false, d := 0, q := 1 },
   { a := 4, b := 5, t1 := some 4, t2 := some 5, border := false, hard := true, d := 3/4, q := 1 },
   { a := 6, b := 7, t1 := some 6, t2 := some 7, border := false, hard := true, d := 9/10, q := 1 }]
example : addBorderToFeatures (demoEnv srcDemo) false (addSharpAnglesToFeatures (demoEnv srcDemo) false
    (addHardEdgesToFeatures (demoEnv srcDemo) false [])) = [2, 1, 0] := by decide +kernel
example : addBorderToFeatures (demoEnv srcDemo) true (addSharpAnglesToFeatures (demoEnv srcDemo) true
    (addHardEdgesToFeatures (demoEnv srcDemo) true [])) = [0] := by decide +kernel
/-- the hypothesis `EnvMatches` of the bridges is satisfiable (this interface presents these data) -/
example : EnvMatches (demoEnv srcDemo) srcDemo where
  nEdges := rfl
  border := by decide +kernel
  hard := by decide +kernel
  edge := by
    intro e x h
    rcases e with _|_|_|_|e <;> simp [srcDemo] at h <;> subst h <;> rfl
  faces := by
    intro e x h
    rcases e with _|_|_|_|e <;> simp [srcDemo] at h <;> subst h <;> rfl
  onBorder := by
    intro e x h
    rcases e with _|_|_|_|e <;> simp [srcDemo] at h <;> subst h <;> rfl
  dot := by
    intro e x f1 f2 h h1 h2 t
    rcases e with _|_|_|_|e <;> simp [srcDemo] at h <;> subst h <;> simp at h1 h2 <;> subst h1 <;> subst h2 <;> rfl
/-- corner rule on `2π ≈ 44/7`, order 4: an angle sum of `11/7 ≈ π/2` gives 1, `33/7 ≈ 3π/2` gives 3, a small one gives ±1 -/
example : (flagCorners { vertexToFaces := fun _ => [0], cornerInFace := fun v _ => v, angle := fun c => if c = 0 then 11/7 else if c = 1 then 33/7 else -1/10 }
    (44/7) 4 [0, 1, 2] []) = [(2, -1), (1, 3), (0, 1)] := by decide +kernel


/-! ## `FeatureEdgeDetector.run` / `clear` as TRANSLATED from `features.py` (`Generated/C15RunSrc.lean`) -/
section run
open Mouette.Lemmas.C15RunSource Mouette.SurfSource

/-- **resets of the translated `run`**: it starts from `clear()` and opens both `feature` attributes cleared, so neither what the
attributes held before nor the detector's earlier containers reach the result (history independence, read from the body) -/
theorem source_run_resets (env : FeatEnv) (v2e : Nat → List Nat) (ob : Bool) (fv0 fe0 : Option BoolMap) (fc : Bool) (ce : CornerEnv) (tp : Rat) (od : Nat) (c0 cm : IntMap) :
    run env v2e ob fv0 fe0 fc ce tp od c0 cm = run env v2e ob none none fc ce tp od c0 cm := run_history_free env v2e ob fv0 fe0 fc ce tp od c0 cm

/-- **`feature_edges` of the translated `run` is exact**: a set (no repetition) whose members are the border edges, the interior
edges with `cos < 1/2` and the declared hard interior edges with `cos < 4/5` (only the border with `only_border`) -/
theorem source_run_feature_edges_exact (env : FeatEnv) (es : List EdgeInfo) (hm : EnvMatches env es) (v2e : Nat → List Nat)
    (ob : Bool) (fv0 fe0 : Option BoolMap) (fc : Bool) (ce : CornerEnv) (tp : Rat) (od : Nat) (c0 cm : IntMap) :
    (run env v2e ob fv0 fe0 fc ce tp od c0 cm).2.1.Nodup ∧
    ∀ e, e ∈ (run env v2e ob fv0 fe0 fc ce tp od c0 cm).2.1 ↔ ∃ x, es[e]? = some x ∧
      (x.border = true ∨
       (ob = false ∧ interior x = true ∧ cosLt x.d x.q (1/2) = true) ∨
       (ob = false ∧ x.hard = true ∧ interior x = true ∧ cosLt x.d x.q (4/5) = true ∧ x.border = false)) := by
  obtain ⟨h1, h2, _, _⟩ := run_fe_fv env v2e ob fv0 fe0 fc ce tp od c0 cm
  refine ⟨h2, fun e => ?_⟩
  rw [h1]; exact source_feature_set_exact env es hm ob e

/-- **`feature_vertices`** = the end points of the feature edges, each once -/
theorem source_run_feature_vertices_exact (env : FeatEnv) (v2e : Nat → List Nat) (ob : Bool) (fv0 fe0 : Option BoolMap) (fc : Bool) (ce : CornerEnv) (tp : Rat) (od : Nat) (c0 cm : IntMap) :
    (run env v2e ob fv0 fe0 fc ce tp od c0 cm).1.Nodup ∧
    ∀ v, v ∈ (run env v2e ob fv0 fe0 fc ce tp od c0 cm).1 ↔
      ∃ e ∈ (run env v2e ob fv0 fe0 fc ce tp od c0 cm).2.1, v = (env.edge e).1 ∨ v = (env.edge e).2 := by
  obtain ⟨h1, _, h3, h4⟩ := run_fe_fv env v2e ob fv0 fe0 fc ce tp od c0 cm
  refine ⟨h4, fun v => ?_⟩
  rw [h3]
  constructor <;> rintro ⟨e, he, h⟩
  · exact ⟨e, (h1 e).mpr he, h⟩
  · exact ⟨e, (h1 e).mp he, h⟩

/-- **`feature_degrees`**: the translated loop is the model's `degrees` on `feature_edges` (so `feature_degree_spec` applies:
the degree of `v` is the number of feature-edge ends at `v`) -/
theorem source_run_degrees_eq_model (env : FeatEnv) (es : List EdgeInfo) (hm : EnvMatches env es) (v2e : Nat → List Nat)
    (ob : Bool) (fv0 fe0 : Option BoolMap) (fc : Bool) (ce : CornerEnv) (tp : Rat) (od : Nat) (c0 cm : IntMap) :
    (run env v2e ob fv0 fe0 fc ce tp od c0 cm).2.2.1 = degrees es (run env v2e ob fv0 fe0 fc ce tp od c0 cm).2.1 := by
  rw [run_deg]
  unfold degrees
  apply Mouette.Lemmas.C15FeatSource.foldl_congr_mem
  intro d e he
  obtain ⟨x, hx, _⟩ := ((source_run_feature_edges_exact env es hm v2e ob fv0 fe0 fc ce tp od c0 cm).2 e).mp he
  simp only [degStep, hx, hm.edge e x hx]

/-- **`local_feat_edges`**: for a feature vertex `v`, the positions in `vertex_to_edges(v)` of the feature edges (the model's
`localFeat`); no entry for the other vertices -/
theorem source_run_local_feat_exact (env : FeatEnv) (v2e : Nat → List Nat) (ob : Bool) (fv0 fe0 : Option BoolMap) (fc : Bool) (ce : CornerEnv) (tp : Rat) (od : Nat) (c0 cm : IntMap) (v : Nat) :
    locGet (run env v2e ob fv0 fe0 fc ce tp od c0 cm).2.2.2.1 v =
      if v ∈ (run env v2e ob fv0 fe0 fc ce tp od c0 cm).1 then some (localFeat (run env v2e ob fv0 fe0 fc ce tp od c0 cm).2.2.2.2.2.1 (v2e v)) else none := by
  rw [run_featE]; exact run_loc env v2e ob fv0 fe0 fc ce tp od c0 cm v

/-- the two mesh attributes `feature` at the end: the edge one holds the flags of the three passes started from empty, the vertex
one flags exactly the feature vertices -/
theorem source_run_attributes (env : FeatEnv) (v2e : Nat → List Nat) (ob : Bool) (fv0 fe0 : Option BoolMap) (fc : Bool) (ce : CornerEnv) (tp : Rat) (od : Nat) (c0 cm : IntMap) :
    (run env v2e ob fv0 fe0 fc ce tp od c0 cm).2.2.2.2.2.1 =
      addBorderToFeatures env ob (addSharpAnglesToFeatures env ob (addHardEdgesToFeatures env ob [])) ∧
    ∀ v, v ∈ (run env v2e ob fv0 fe0 fc ce tp od c0 cm).2.2.2.2.1 ↔ v ∈ (run env v2e ob fv0 fe0 fc ce tp od c0 cm).1 :=
  ⟨run_featE env v2e ob fv0 fe0 fc ce tp od c0 cm, run_featV env v2e ob fv0 fe0 fc ce tp od c0 cm⟩

/-- **corner flags of the translated `run`**: with `flag_corners` set, every feature vertex holds ±1 (sign of its angle sum) when
`|angle sum| < 2π/corner_order` and `round(angle sum · corner_order / 2π)` otherwise; with `flag_corners` unset `self.corners` is left
as it was (`2π` = any positive rational) -/
theorem source_run_corner_flags (env : FeatEnv) (v2e : Nat → List Nat) (ob : Bool) (fv0 fe0 : Option BoolMap) (fc : Bool) (ce : CornerEnv)
    (tp : Rat) (od : Nat) (c0 cm : IntMap) (hT : 0 < tp) (ho : 0 < od) :
    (fc = false → (run env v2e ob fv0 fe0 fc ce tp od c0 cm).2.2.2.2.2.2 = c0) ∧
    (fc = true → ∀ v ∈ (run env v2e ob fv0 fe0 fc ce tp od c0 cm).1,
      intGet (run env v2e ob fv0 fe0 fc ce tp od c0 cm).2.2.2.2.2.2 v =
        if ratAbs (angleSum ce v) < tp / (od : Rat) then (if 0 ≤ angleSum ce v then 1 else -1)
        else roundHalfEven (angleSum ce v * (od : Rat) / tp)) := by
  rw [run_corners]
  constructor
  · intro h; simp [h]
  · intro h v hv
    simp only [h, if_true]
    exact (source_corner_flagging_exact ce tp od _ cm hT ho v).1 hv

def demoCorners : CornerEnv := { vertexToFaces := fun _ => [0], cornerInFace := fun v _ => v, angle := fun c => if c % 2 = 0 then 11/7 else 1/10 }
/-! non-vacuity / sensitivity: on the hinge data of `srcDemo`, with stale attributes and whatever containers before -/
example : (run (demoEnv srcDemo) (fun v => [v / 2]) false (some [7, 9]) (some [3]) true demoCorners (44/7) 4 [(9, 9)] []).1 = [4, 5, 2, 3, 0, 1] ∧
    (run (demoEnv srcDemo) (fun v => [v / 2]) false (some [7, 9]) (some [3]) true demoCorners (44/7) 4 [(9, 9)] []).2.1 = [2, 1, 0] ∧
    (run (demoEnv srcDemo) (fun v => [v / 2]) false (some [7, 9]) (some [3]) true demoCorners (44/7) 4 [(9, 9)] []).2.2.1 = [(1, 1), (0, 1), (3, 1), (2, 1), (5, 1), (4, 1)] ∧
    (run (demoEnv srcDemo) (fun v => [v / 2]) false (some [7, 9]) (some [3]) true demoCorners (44/7) 4 [(9, 9)] []).2.2.2.2.1 = [4, 5, 2, 3, 0, 1] ∧
    (run (demoEnv srcDemo) (fun v => [v / 2]) false (some [7, 9]) (some [3]) true demoCorners (44/7) 4 [(9, 9)] []).2.2.2.2.2.2 =
      [(1, 1), (0, 1), (3, 1), (2, 1), (5, 1), (4, 1)] ∧
    (run (demoEnv srcDemo) (fun v => [v / 2]) false (some [7, 9]) (some [3]) false demoCorners (44/7) 4 [(9, 9)] []).2.2.2.2.2.2 = [(9, 9)] := by decide +kernel

end run

end features

end Mouette.Props.C15
