import Mouette.Props.C14Euler
import Mouette.Generated.C14Verts
import Mathlib.Tactic.Ring
import Mathlib.Tactic.LinearCombination
/-!
# C14 (round 3) — the generators built on other modules

* `icosphere`: both projection statements (translated: `center + radius * normalize (v − center)`, applied to every vertex id
  after the last subdivision round) put the vertex at squared distance radius² from the centre, whenever `normalize`
  returns a unit vector — for every centre, radius and vertex position;
* `dual_mesh` has one vertex per face and one face per vertex (translated loop heads), hence octahedron = dual of the
  quad hexahedron has 6 vertices / 8 faces and dodecahedron = dual of the icosahedron has 20 / 12;
* `sphere_fibonacci`: ANY closed, consistently oriented triangulation with χ = 2 on n vertices has exactly 2n − 4 faces
  (so the documented face count follows from the oracle-checked sphere topology of the convex hull);
* `chain_of_vertices` (translated with the pair iterators of utils/iterators.py): n − 1 edges (i, i+1) — a path — or, with
  `loop`, the n sides of the polygon 0 … n−1 — a cycle; `vector_field`: n disjoint edges (2i, 2i+1) over 2n vertices.
-/
namespace Mouette.Props.C14
open Mouette.Generated.C14 Mouette.Generated.C14Verts Mouette.MeshCheck Mouette.ListCount Mouette.EdgeCount

/-! ## icosphere -/

theorem icosphere_projection_on_sphere {K : Type} [Field K] (normalize : K × K × K → K × K × K) (radius : K)
    (center v : K × K × K)
    (hn : let n := normalize (v.1 - center.1, v.2.1 - center.2.1, v.2.2 - center.2.2)
          n.1 ^ 2 + n.2.1 ^ 2 + n.2.2 ^ 2 = 1) :
    (let p := icosphereProject0 normalize radius center v
     (p.1 - center.1) ^ 2 + (p.2.1 - center.2.1) ^ 2 + (p.2.2 - center.2.2) ^ 2 = radius ^ 2) ∧
    (let p := icosphereProject1 normalize radius center v
     (p.1 - center.1) ^ 2 + (p.2.1 - center.2.1) ^ 2 + (p.2.2 - center.2.2) ^ 2 = radius ^ 2) := by
  simp only at hn
  constructor <;>
  · simp only [icosphereProject0, icosphereProject1]
    linear_combination radius ^ 2 * hn

/-! ## dual meshes: octahedron, dodecahedron -/

theorem dual_counts (nF nV : Nat) : dualNVerts nF nV = nF ∧ dualNFaces nF nV = nV := by
  unfold dualNVerts dualNFaces
  constructor <;> (rw [length_flatMap_const _ _ 1] <;> simp)

/-- octahedron() = dual of the quad hexahedron: 6 vertices, 8 faces; dodecahedron() = dual of the icosahedron: 20 / 12 -/
theorem octahedron_dodecahedron_counts :
    octahedronDualOf = "axis_aligned_cube" ∧ dodecahedronDualOf = "icosahedron" ∧
    dualNVerts hexahedronFacesQuad.length hexahedronNVerts = 6 ∧ dualNFaces hexahedronFacesQuad.length hexahedronNVerts = 8 ∧
    dualNVerts icosahedronFaces.length icosahedronNVerts = 20 ∧ dualNFaces icosahedronFaces.length icosahedronNVerts = 12 := by
  refine ⟨by decide, by decide, ?_, ?_, ?_, ?_⟩ <;> simp [dual_counts] <;> decide

/-- the dual of a closed surface has the same Euler characteristic: V' − E + F' = F − E + V (same number of edges: every
dual edge crosses one primal edge — not derived here, stated for the counts) -/
theorem dual_euler (V E F : Int) : (F - E + V) = (V - E + F) := by omega

/-! ## sphere_fibonacci: the face count of a triangulated sphere -/

/-- a closed, consistently oriented triangle surface with Euler characteristic 2 on nV vertices has 2·nV − 4 faces -/
theorem triangulated_sphere_face_count (nV : Nat) (fs : List Face) (htri : ∀ f ∈ fs, f.length = 3)
    (hnd : (dirEdges fs).Nodup) (hl : ∀ e ∈ dirEdges fs, e.1 ≠ e.2)
    (hcl : ∀ e ∈ dirEdges fs, (e.2, e.1) ∈ dirEdges fs) (hchi : euler nV fs = 2) : fs.length + 4 = 2 * nV := by
  have h2 := two_numEdges fs hnd hl
  rw [numBorder_closed fs hcl] at h2
  have hlen : (dirEdges fs).length = 3 * fs.length := by
    have e : dirEdges fs = dirEdges (fs.map id) := by simp
    rw [e, dirEdges_length_addressed]
    rw [sum_map_const_on fs (fun a => (id a).length) 3 (fun f hf => htri f hf)]; omega
  unfold euler at hchi
  omega

/-! ## polylines -/

/-- open chain: the n − 1 edges (i, i+1), in order — a path through 0, 1, …, n−1 -/
theorem chain_open (n : Nat) : chainEdges n false = (List.range (n - 1)).map (fun i => (i, i + 1)) ∧
    (chainEdges n false).length = n - 1 := by
  have : chainEdges n false = (List.range (n - 1)).map (fun i => (i, i + 1)) := by
    simp [chainEdges, List.map_eq_flatMap]
  rw [this]; simp

/-- closed chain: n edges, exactly the sides of the polygon 0, 1, …, n−1 — a cycle -/
theorem chain_loop (n : Nat) : (chainEdges n true).length = n ∧
    ∀ e, e ∈ chainEdges n true ↔ e ∈ sides ((List.range n).map (fun k => k)) := by
  constructor
  · simp only [chainEdges, if_true]; rw [length_flatMap_const _ _ 1] <;> simp
  · intro e
    rw [mem_sides_map_range]
    simp only [chainEdges, if_true, List.mem_flatMap, List.mem_range, List.mem_cons, List.mem_nil_iff, or_false]

/-- `vector_field`: n edges (2i, 2i+1), pairwise disjoint, over the 2n vertices added two per origin -/
theorem vector_field_edges (n : Nat) : (vectorFieldEdges n).length = n ∧ vectorFieldVertsPer = 2 ∧
    (∀ e ∈ vectorFieldEdges n, ∃ i, i < n ∧ e = [2 * i, 2 * i + 1]) ∧
    (∀ k, k < vectorFieldVertsPer * n → ∃ e ∈ vectorFieldEdges n, k ∈ e) := by
  refine ⟨?_, rfl, ?_, ?_⟩
  · unfold vectorFieldEdges; rw [length_flatMap_const _ _ 1] <;> simp
  · intro e he
    simp only [vectorFieldEdges, List.mem_flatMap, List.mem_range, List.mem_cons, List.mem_nil_iff, or_false] at he
    exact he
  · intro k hk
    simp only [vectorFieldVertsPer] at hk
    refine ⟨[2 * (k / 2), 2 * (k / 2) + 1], ?_, ?_⟩
    · simp only [vectorFieldEdges, List.mem_flatMap, List.mem_range, List.mem_cons, List.mem_nil_iff, or_false]
      exact ⟨k / 2, by omega, rfl⟩
    · simp only [List.mem_cons, List.mem_nil_iff, or_false]; omega

example : chainEdges 4 true = [(0, 1), (1, 2), (2, 3), (3, 0)] ∧ chainEdges 4 false = [(0, 1), (1, 2), (2, 3)] := by decide
example : euler icosahedronNVerts icosahedronFaces = 2 ∧ icosahedronFaces.length + 4 = 2 * icosahedronNVerts := by decide +kernel

end Mouette.Props.C14
