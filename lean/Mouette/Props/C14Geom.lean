import Mathlib.Tactic.Ring
import Mathlib.Tactic.LinearCombination
import Mathlib.Tactic.Linarith
import Mathlib.Tactic.FieldSimp
/-!
# C14, part D — the vertex formulas of the generators put the points on the named surface

The generators compute positions with `cos`/`sin`; the only facts about them that matter are the Pythagorean
identities, taken here as hypotheses over an arbitrary commutative ring (so the statements cover ℝ).
Which formula each generator uses is checked against the implementation by the oracle (distance to the centre /
axis at 1e-9), not by the translator.
-/
namespace Mouette.Props.C14

variable {K : Type} [CommRing K]

/-- `sphere_uv`: `center + radius * (sinφ cosθ, sinφ sinθ, cosφ)` is at squared distance `radius²` from `center` -/
theorem sphere_uv_on_sphere (cx cy cz r sp cp st ct : K) (h1 : sp ^ 2 + cp ^ 2 = 1) (h2 : st ^ 2 + ct ^ 2 = 1) :
    ((cx + r * (sp * ct)) - cx) ^ 2 + ((cy + r * (sp * st)) - cy) ^ 2 + ((cz + r * cp) - cz) ^ 2 = r ^ 2 := by
  linear_combination (r ^ 2) * h1 + (r ^ 2 * sp ^ 2) * h2

/-- `torus`: with ρ = R + r cos v, the point (ρ cos u, ρ sin u, r sin v) satisfies x²+y² = ρ² and (ρ−R)²+z² = r² -/
theorem torus_on_torus (R r su cu sv cv : K) (h1 : su ^ 2 + cu ^ 2 = 1) (h2 : sv ^ 2 + cv ^ 2 = 1) :
    ((R + r * cv) * cu) ^ 2 + ((R + r * cv) * su) ^ 2 = (R + r * cv) ^ 2 ∧
    ((R + r * cv) - R) ^ 2 + (r * sv) ^ 2 = r ^ 2 := by
  constructor
  · linear_combination ((R + r * cv) ^ 2) * h1
  · linear_combination (r ^ 2) * h2

/-- `icosphere` / `sphere_fibonacci` style projection: `center + radius * n` with `|n|² = 1` -/
theorem projected_on_sphere (cx cy cz r nx ny nz : K) (h : nx ^ 2 + ny ^ 2 + nz ^ 2 = 1) :
    ((cx + r * nx) - cx) ^ 2 + ((cy + r * ny) - cy) ^ 2 + ((cz + r * nz) - cz) ^ 2 = r ^ 2 := by
  linear_combination (r ^ 2) * h

/-- `sphere_fibonacci`: (c sinθ, c cosθ, s) with c² = (n+j)(n−j)/n², s = j/n has unit norm -/
theorem fibonacci_unit (n j c st ct : ℚ) (hn : n ≠ 0) (hc : c ^ 2 = (n + j) * (n - j) / n ^ 2) (h : st ^ 2 + ct ^ 2 = 1) :
    (c * st) ^ 2 + (c * ct) ^ 2 + (j / n) ^ 2 = 1 := by
  have : (c * st) ^ 2 + (c * ct) ^ 2 = c ^ 2 := by linear_combination (c ^ 2) * h
  rw [this, hc]; field_simp; ring

/-- `unit_grid` / `unit_triangle`: `linspace(0,1,n)[i] = i/(n-1)` lies in [0,1] and hits both ends -/
theorem linspace_in_unit (n i : ℕ) (hn : 2 ≤ n) (hi : i < n) :
    (0 : ℚ) ≤ (i : ℚ) / ((n : ℚ) - 1) ∧ (i : ℚ) / ((n : ℚ) - 1) ≤ 1 := by
  have hn' : (0 : ℚ) < (n : ℚ) - 1 := by
    have : (2 : ℚ) ≤ (n : ℚ) := by exact_mod_cast hn
    linarith
  have hi' : (i : ℚ) ≤ (n : ℚ) - 1 := by
    have : (i : ℚ) + 1 ≤ (n : ℚ) := by exact_mod_cast hi
    linarith
  constructor
  · apply div_nonneg (by exact_mod_cast Nat.zero_le i) hn'.le
  · rw [div_le_iff₀ hn']; linarith

theorem linspace_ends (n : ℕ) (hn : 2 ≤ n) : ((0 : ℕ) : ℚ) / ((n : ℚ) - 1) = 0 ∧ ((n - 1 : ℕ) : ℚ) / ((n : ℚ) - 1) = 1 := by
  have hn' : (n : ℚ) - 1 ≠ 0 := by
    have : (2 : ℚ) ≤ (n : ℚ) := by exact_mod_cast hn
    linarith
  constructor
  · simp
  · rw [Nat.cast_sub (by omega)]; simp; exact hn'

/-- `quad`: the fourth corner `P2 + P1 − P0` closes a parallelogram: opposite sides are equal vectors -/
theorem quad_parallelogram (p0 p1 p2 : K) : (p2 + p1 - p0) - p1 = p2 - p0 ∧ (p2 + p1 - p0) - p2 = p1 - p0 := by
  constructor <;> ring

/-- `hexahedron_4pts`: the eight corners are `P1 + a X + b Y + c Z` with X = P2−P1, Y = P3−P1, Z = P4−P1 -/
theorem hexahedron_4pts_corners (p1 p2 p3 p4 : K) :
    let x := p2 - p1; let y := p3 - p1
    (p1 + x = p2) ∧ (p1 + y = p3) ∧ (p4 + x + y = p1 + x + y + (p4 - p1)) := by
  refine ⟨by ring, by ring, by ring⟩

end Mouette.Props.C14
