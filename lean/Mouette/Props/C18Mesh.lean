import Mouette.Props.C18Source
import Mouette.Props.C01
/-
C18 × C01 — the connectivity contract of the face-based `flag_singularities`, DISCHARGED on a built mesh.

`source_flag_faces_holonomy_refines` / `source_flag_faces_index_total` (Props/C18Source.lean) assume that the loop over
`connectivity.vertex_to_edges(v)` sees, up to order, exactly the (other end, rotation) pairs of the edges incident to `v`.
Here that hypothesis is PROVED from C01's model of the connectivity (`Model/Surface.lean`, to which C01's `source_*` bridges tie the
translated `vertex_to_edges`, `other_edge_end`, `edge_id`) for every mesh `build nv faces so`: `vertex_to_edges(v)` is
`vertex_to_vertices(v)` mapped through `edge_id(v, ·)`, `vertex_to_vertices(v)` is a sort of the neighbour set, the edge container is
duplicate-free (`edges_eq_spec`) and `edge_id` answers the index of the sorted pair (`edgeId_eq_spec`).  No hypothesis on the mesh is
left (not even manifoldness): the index total `4 × Σ defect` holds for the sums the translated code accumulates on ANY face list.
-/
namespace Mouette.Props.C18Mesh
open Mouette.FF Mouette.FFS Mouette.Surface Mouette.Lemmas.C18 Mouette.Lemmas.C18S

variable {faces : Faces} (nv : Nat) (so : Bool)

/-- the edges of the mesh with a rotation each, as the round-1 model's edge list -/
def redges (rot : Nat → Rat) : List REdge :=
  (build nv faces so).edges.zipIdx.map (fun p => ({ a := p.1.1, b := p.1.2, rot := rot p.2 } : REdge))

/-- what the loop `for e in vertex_to_edges(v): u = other_edge_end(e, v); … edge_rot[e]` sees -/
def seenPairs (rot : Nat → Rat) (v : Nat) : List (Nat × Rat) :=
  ((vertexToEdges (build nv faces so) v).filterMap id).map (fun e => (((otherEdgeEnd (build nv faces so) e v).join).getD 0, rot e))

/-- raw neighbour list, in edge order -/
def nbRaw (v : Nat) : List Nat :=
  (build nv faces so).edges.filterMap (fun (p : Nat × Nat) => if p.1 == v then some p.2 else if p.2 == v then some p.1 else none)

theorem vertexToVertices_perm (v : Nat) : (vertexToVertices (build nv faces so) v).Perm (nbRaw (faces := faces) nv so v) := by
  have h1 : (neighbours (build nv faces so) v).Perm (nbRaw (faces := faces) nv so v) := by
    unfold neighbours sortNat nbRaw
    exact List.mergeSort_perm _ _
  unfold vertexToVertices
  simp only []
  split
  · exact (List.mergeSort_perm _ _).trans h1
  · exact h1

theorem edge_canonical (e : Nat × Nat) (he : e ∈ (build nv faces so).edges) : key2 e.1 e.2 = e := by
  have he' : e ∈ edgesOf faces := he
  obtain ⟨f, i, a, b, _, rfl⟩ := mem_edgesOf.mp he'
  show key2 (key2 a b).1 (key2 a b).2 = key2 a b
  unfold key2
  by_cases h : a ≤ b
  · simp [h]
  · have : b ≤ a := by omega
    simp [h, this]

theorem key2_comm (a b : Nat) : key2 a b = key2 b a := by
  unfold key2
  by_cases h1 : a ≤ b <;> by_cases h2 : b ≤ a <;> simp [h1, h2] <;> omega

/-- the pair the loop sees for neighbour `w` -/
def seenOf (rot : Nat → Rat) (v w : Nat) : Option (Nat × Rat) :=
  (edgeId (build nv faces so) v w).map (fun e => (((otherEdgeEnd (build nv faces so) e v).join).getD 0, rot e))

theorem seenPairs_eq (rot : Nat → Rat) (v : Nat) :
    seenPairs (faces := faces) nv so rot v = (vertexToVertices (build nv faces so) v).filterMap (seenOf (faces := faces) nv so rot v) := by
  unfold seenPairs vertexToEdges seenOf
  rw [List.filterMap_map, List.map_filterMap]
  apply List.filterMap_congr
  intro w _
  rfl

theorem seen_at_edge (rot : Nat → Rat) (v : Nat) (p : (Nat × Nat) × Nat) (hp : p ∈ (build nv faces so).edges.zipIdx) :
    ((if p.1.1 == v then some p.1.2 else if p.1.2 == v then some p.1.1 else none).bind (seenOf (faces := faces) nv so rot v))
      = (if p.1.1 = v then some (p.1.2, rot p.2) else if p.1.2 = v then some (p.1.1, rot p.2) else none) := by
  obtain ⟨⟨a, b⟩, i⟩ := p
  have hget : (build nv faces so).edges[i]? = some (a, b) := List.mem_zipIdx_iff_getElem?.mp hp
  have hmem : (a, b) ∈ (build nv faces so).edges := List.mem_of_getElem? hget
  have hcan : key2 a b = (a, b) := edge_canonical (faces := faces) nv so (a, b) hmem
  simp only []
  by_cases ha : a = v
  · subst ha
    have hid : edgeId (build nv faces so) a b = some i := (Mouette.Props.C01.edgeId_eq_spec nv so a b i).mpr (by rw [hcan]; exact hget)
    simp only [beq_self_eq_true, if_true, Option.bind_some, seenOf, hid, Option.map_some, otherEdgeEnd, hget]
    simp
  · have ha' : (a == v) = false := by simpa using ha
    by_cases hb : b = v
    · subst hb
      have hid : edgeId (build nv faces so) b a = some i :=
        (Mouette.Props.C01.edgeId_eq_spec nv so b a i).mpr (by rw [key2_comm, hcan]; exact hget)
      have hba : (b == a) = false := by
        cases h : (b == a)
        · rfl
        · exact absurd (by simpa using h : b = a).symm ha
      simp only [ha', if_false, Bool.false_eq_true, beq_self_eq_true, if_true, Option.bind_some, seenOf, hid, Option.map_some, otherEdgeEnd, hget,
        ha, hba]
      simp
    · have hb' : (b == v) = false := by simpa using hb
      simp [ha', hb', ha, hb]

/-- **the contract, proved**: what the loop over `vertex_to_edges(v)` sees is a permutation of the incident pairs of the edge list -/
theorem vertex_to_edges_contract (rot : Nat → Rat) (v : Nat) :
    (seenPairs (faces := faces) nv so rot v).Perm (incidentPairs (redges (faces := faces) nv so rot) v) := by
  rw [seenPairs_eq]
  refine ((vertexToVertices_perm (faces := faces) nv so v).filterMap _).trans ?_
  unfold nbRaw incidentPairs redges
  rw [List.filterMap_filterMap, List.filterMap_map]
  have hfst : (build nv faces so).edges = (build nv faces so).edges.zipIdx.map Prod.fst := (List.zipIdx_map_fst 0 _).symm
  conv_lhs => rw [hfst]
  rw [List.filterMap_map]
  apply List.Perm.of_eq
  apply List.filterMap_congr
  intro p hp
  exact seen_at_edge (faces := faces) nv so rot v p hp

/-- **index total without any connectivity hypothesis**: for the inputs read off a built mesh (`vertex_to_edges`, `other_edge_end`, the edge
rotations indexed by edge id), the scaled holonomy sums the translated vertex loop accumulates add up to `4 × Σ defect` — `4 χ` with C07's
Gauss–Bonnet — whatever the rotations are -/
theorem source_flag_faces_index_total_on_mesh (P : FlagFacesIn) (rot : Nat → Rat) (chi : Rat)
    (hve : ∀ v, P.vertexEdges v = (vertexToEdges (build nv faces so) v).filterMap id)
    (hoe : ∀ e v, P.otherEnd e v = ((otherEdgeEnd (build nv faces so) e v).join).getD 0)
    (hmesh : ∀ e ∈ redges (faces := faces) nv so rot, e.a ≠ e.b ∧ e.a < P.nV ∧ e.b < P.nV) (hGB : sumTo P.defect P.nV = chi) :
    sumTo (fun v => indexOf (holonomyAdjM P rot v)) P.nV = 4 * chi := by
  apply Mouette.Props.C18Source.source_flag_faces_index_total P rot (redges (faces := faces) nv so rot) chi _ hmesh hGB
  intro v _
  have := vertex_to_edges_contract (faces := faces) nv so rot v
  unfold seenPairs at this
  rw [hve v]
  simpa [hoe] using this

/-! ## non-vacuity: two triangles sharing an edge -/
example : (seenPairs (faces := [[0, 1, 2], [0, 2, 3]]) 4 true (fun e => (e : Rat)) 0).Perm
    (incidentPairs (redges (faces := [[0, 1, 2], [0, 2, 3]]) 4 true (fun e => (e : Rat))) 0) :=
  vertex_to_edges_contract 4 true _ 0

end Mouette.Props.C18Mesh
