import Mouette.Props.C14Euler
import Mouette.Props.C14CylinderTopo
import Mouette.Props.C14RingsTopo
import Mouette.Props.C14GridTopo
import Mouette.Props.C14TriangleTopo
import Mouette.Lemmas.C14NoRepeat
/-!
# C14 (round 4) — "no repeated face" for ALL parametric families, all resolutions

For every family the face list is duplicate-free, and more: two faces at different positions of the list have no directed side in
common (so no face is a rotation of another one either). Consequence of the consistent orientation proved with the Euler
characteristic (`(dirEdges fs).Nodup`) by the general lemma `faces_nodup_of_oriented`; the only family-specific part is that no
generated face is empty.
-/
namespace Mouette.Props.C14
open Mouette.Generated.C14 Mouette.MeshCheck Mouette.EdgeCount

/-- the statement proved for every family: no face twice, and different positions share no directed side -/
def NoRepeatedFace (fs : List Face) : Prop := fs.Nodup ∧ fs.Pairwise (fun f g => ∀ e ∈ sides f, e ∉ sides g)

theorem noRepeatedFace_of (fs : List Face) (hne : ∀ f ∈ fs, f ≠ []) (hnd : (dirEdges fs).Nodup) : NoRepeatedFace fs :=
  ⟨faces_nodup_of_oriented fs hne hnd, faces_pairwise_disjoint_sides fs hnd⟩

theorem torus_noRepeatedFace (M N : Nat) (t : Bool) (hM : 3 ≤ M) (hN : 3 ≤ N) : NoRepeatedFace (torusFaces M N t) := by
  cases t
  · refine noRepeatedFace_of _ ?_ (torus_quads_euler M N hM hN).1
    rw [(torusFaces_addressed M N).1]; intro f hf
    obtain ⟨a, _, rfl⟩ := List.mem_map.mp hf; simp [torusQuad]
  · refine noRepeatedFace_of _ ?_ (torus_tris_euler M N hM hN).1
    rw [(torusFaces_addressed M N).2]; intro f hf
    obtain ⟨a, _, rfl⟩ := List.mem_map.mp hf; unfold torusTri; split <;> simp

theorem unit_grid_noRepeatedFace (nu nv : Nat) (t u : Bool) (hu : 2 ≤ nu) (hv : 2 ≤ nv) :
    NoRepeatedFace (unit_gridFaces nu nv t u) := by
  cases t
  · refine noRepeatedFace_of _ ?_ (unit_grid_quads_euler nu nv u hu hv).1
    rw [(unit_gridFaces_addressed nu nv u).1]; intro f hf
    obtain ⟨a, _, rfl⟩ := List.mem_map.mp hf; simp [gridQuad]
  · refine noRepeatedFace_of _ ?_ (unit_grid_tris_euler nu nv u hu hv).1
    rw [(unit_gridFaces_addressed nu nv u).2]; intro f hf
    obtain ⟨a, _, rfl⟩ := List.mem_map.mp hf; unfold gridTri; split <;> simp

theorem sphere_uv_noRepeatedFace (a b : Nat) (ha : 1 ≤ a) (hb : 3 ≤ b) : NoRepeatedFace (sphere_uvFaces a b) := by
  refine noRepeatedFace_of _ ?_ (sphere_uv_euler a b ha hb).1
  rw [sphere_uvFaces_addressed a b ha]; intro f hf
  obtain ⟨x, _, rfl⟩ := List.mem_map.mp hf; cases x <;> simp [sphFace]

theorem cylinder_noRepeatedFace (N : Nat) (fc : Bool) (hN : 3 ≤ N) : NoRepeatedFace (cylinderFaces N fc) := by
  have hnd : (dirEdges (cylinderFaces N fc)).Nodup := by
    cases fc
    · exact (cylinder_open_euler N hN).1
    · exact (cylinder_closed_euler N hN).1
  refine noRepeatedFace_of _ ?_ hnd
  rw [cylinderFaces_addressed]; intro f hf
  obtain ⟨x, _, rfl⟩ := List.mem_map.mp hf; cases x <;> simp [cylFace]

theorem ring_noRepeatedFace (N c : Nat) (o : Bool) (hn : 3 ≤ N * c) : NoRepeatedFace (ringFaces N c o) := by
  cases o
  · refine noRepeatedFace_of _ ?_ (ring_closed_euler N c hn).1
    rw [ringFaces_addressed N c (by omega)]; intro f hf
    obtain ⟨x, _, rfl⟩ := List.mem_map.mp hf; unfold ringTri; split <;> simp
  · refine noRepeatedFace_of _ ?_ (ring_open_euler N c (by omega)).1
    rw [ringFaces_open_eq N c (by omega)]; intro f hf
    obtain ⟨x, _, rfl⟩ := List.mem_map.mp hf; simp [fanTri]

theorem flat_ring_noRepeatedFace (N c : Nat) (hn : 1 ≤ N * c) : NoRepeatedFace (flat_ringFaces N c) := by
  refine noRepeatedFace_of _ ?_ (flat_ring_euler N c hn).1
  rw [flat_ringFaces_eq, fanFaces_eq]; intro f hf
  obtain ⟨x, _, rfl⟩ := List.mem_map.mp hf; simp [fanTri]

theorem unit_triangle_noRepeatedFace (nu nv : Nat) (u : Bool) (h : nv ≤ nu) (hv : 2 ≤ nv) :
    NoRepeatedFace (unit_triangleFaces nu nv u) := by
  refine noRepeatedFace_of _ ?_ (unit_triangle_euler nu nv u h hv).1
  rw [unit_triangleFaces_addressed nu nv u h]; intro f hf
  obtain ⟨x, _, rfl⟩ := List.mem_map.mp hf; unfold triFace; split <;> simp

/-- non-vacuity: the hypotheses hold on concrete resolutions, and a list with a repeated (rotated) face is rejected -/
example : NoRepeatedFace (torusFaces 3 4 true) := torus_noRepeatedFace 3 4 true (by omega) (by omega)
example : ¬ NoRepeatedFace [[0, 1, 2], [1, 2, 0]] := by
  intro h
  have := h.2
  simp [sides] at this
  exact (this 0 1 (Or.inl ⟨rfl, rfl⟩)).2.2 rfl rfl

end Mouette.Props.C14
