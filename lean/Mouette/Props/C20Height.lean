import Mouette.Lemmas.UnionFindHeight
/-!
# C20 (round 4) - union by size keeps the trees shallow: height ≤ log2 (size of the class), for EVERY history and for
EITHER spelling (`<` / `<=`) of the size test; hence the `while p != par[p]` loop of `find` runs at most
`log2 (size of the class of p)` ≤ `log2 n` iterations.

Property theorems only (helpers and the rank invariant `HInv` / `HRank` in `Lemmas/UnionFindHeight.lean`).
"The loop started at `p` needs at most `f` iterations" is stated on the fuel of the model loop `findLoop`: every larger
fuel `f + k` gives the same result (parent array AND returned index), and the returned index is the root of `p`.
-/
namespace Mouette.Props.C20Height
open Mouette.UF

private def hist : List Op := [.union 1 2, .union 3 4, .union 2 4, .add 9, .add 1]

/-- seven unions building the binomial tree B3 on 8 elements: with the source's `<` every union links two ROOTS of equal
size, no path is ever halved, and index 7 ends at depth 3 = log2 8 -/
private def hist8 : List Op :=
  [.union 1 2, .union 3 4, .union 1 3, .union 5 6, .union 7 8, .union 5 7, .union 1 5]

/-! ### the rank witness -/

/-- After ANY history, with ANY size comparison `c` that is a size order, the state has a rank witness (`HInv`): a
function `rk` that strictly increases along every parent link and such that a root of rank `k` has size field `≥ 2 ^ k`. -/
theorem rank_witness (c : Nat → Nat → Bool) (hc : SizeOrder c) (ops : List Op) : HInv (runC c ops) :=
  hInv_runC c hc ops

/-- the same, spelled out, with the consequence `2 ^ rk i ≤ n` (no rank exceeds `log2 n`) -/
theorem rank_witness_spelled (c : Nat → Nat → Bool) (hc : SizeOrder c) (ops : List Op) :
    ∃ rk : Nat → Nat,
      (∀ i, i < (runC c ops).elts.length → parent (runC c ops).par i ≠ i → rk i < rk (parent (runC c ops).par i)) ∧
      (∀ r, r < (runC c ops).elts.length → parent (runC c ops).par r = r →
        2 ^ rk r ≤ (runC c ops).siz.getD r 0) ∧
      (∀ i, i < (runC c ops).elts.length → 2 ^ rk i ≤ (runC c ops).elts.length) := by
  obtain ⟨rk, h⟩ := hInv_runC c hc ops
  exact ⟨rk, fun i _ hne => h.inc i hne, h.size, h.bound (inv_runC c ops) (sizeInv_runC c ops)⟩

/-- the comparison written in the source today (`<`): the statement is about `run` -/
theorem rank_witness_lt (ops : List Op) : HInv (run ops) := by
  rw [← runC_lt]; exact rank_witness ltCmp sizeOrder_lt ops

/-- the other spelling (`<=`) -/
theorem rank_witness_le (ops : List Op) : HInv (runC leCmp ops) := rank_witness leCmp sizeOrder_le ops

-- a concrete witness on the binomial history (the three clauses are decidable on a concrete state): the root needs rank 3
example : let s := runC ltCmp hist8
    let rk : Nat → Nat := fun i => [3, 0, 1, 0, 2, 0, 1, 0].getD i 0
    s = run hist8 ∧ s.par = [0, 0, 0, 2, 0, 4, 4, 6] ∧ s.siz.getD 0 0 = 8 ∧
    (∀ i, i < s.elts.length → parent s.par i ≠ i → rk i < rk (parent s.par i)) ∧
    (∀ r, r < s.elts.length → parent s.par r = r → 2 ^ rk r ≤ s.siz.getD r 0) ∧
    (∀ i, i < s.elts.length → 2 ^ rk i ≤ s.elts.length) := by decide

-- the two spellings really build different trees on the same history (and both are covered)
example : (runC ltCmp hist).par = [0, 0, 0, 2, 4] ∧ (runC leCmp hist).par = [1, 3, 3, 3, 4] := by decide

/-! ### height ≤ log2 (size of the class) -/

/-- state form: on a state satisfying the representation invariant, the size invariant and the rank invariant, the
`find` loop started at a stored index `p` is complete with fuel `log2 (cardinality of the class of p)`. -/
theorem height_le_log2_size_state {s : State} (inv : Inv s) (hs : SizeInv s) (h : HInv s) {p : Nat}
    (hp : p < s.elts.length) :
    (∀ k, findLoop s.par (Nat.log2 (card s (rootOf s p)) + k) p
        = findLoop s.par (Nat.log2 (card s (rootOf s p))) p) ∧
    (findLoop s.par (Nat.log2 (card s (rootOf s p))) p).2 = rootOf s p := by
  obtain ⟨rk, h⟩ := h
  have := findLoop_of_rank inv h hp (h.root_le_log2 hs (rootOf_lt inv hp) (rootOf_isRoot inv hp))
  exact ⟨this.1, this.2.1⟩

/-- HEIGHT ≤ LOG2 (SIZE), every history, either spelling of the size test: the path from any stored element `p` to the
root of its class has at most `log2 (size of the class)` edges - the loop of `find` with that fuel already returns the
root, and any extra fuel changes nothing (neither the returned index nor the halved parent array). -/
theorem height_le_log2_size (c : Nat → Nat → Bool) (hc : SizeOrder c) (ops : List Op) (p : Nat)
    (hp : p < (runC c ops).elts.length) :
    (∀ k, findLoop (runC c ops).par (Nat.log2 (card (runC c ops) (rootOf (runC c ops) p)) + k) p
        = findLoop (runC c ops).par (Nat.log2 (card (runC c ops) (rootOf (runC c ops) p))) p) ∧
    (findLoop (runC c ops).par (Nat.log2 (card (runC c ops) (rootOf (runC c ops) p))) p).2
      = rootOf (runC c ops) p :=
  height_le_log2_size_state (inv_runC c ops) (sizeInv_runC c ops) (hInv_runC c hc ops) hp

/-- … for the source's `<` (about `run`) -/
theorem height_le_log2_size_lt (ops : List Op) (p : Nat) (hp : p < (run ops).elts.length) :
    (∀ k, findLoop (run ops).par (Nat.log2 (card (run ops) (rootOf (run ops) p)) + k) p
        = findLoop (run ops).par (Nat.log2 (card (run ops) (rootOf (run ops) p))) p) ∧
    (findLoop (run ops).par (Nat.log2 (card (run ops) (rootOf (run ops) p))) p).2 = rootOf (run ops) p := by
  have := height_le_log2_size ltCmp sizeOrder_lt ops p
  rw [runC_lt] at this
  exact this hp

-- the bound is reached: in the binomial tree index 7 is at depth 3 = log2 8 (fuel 3 finds the root 0, fuel 2 does not)
example : card (run hist8) (rootOf (run hist8) 7) = 8 ∧ Nat.log2 8 = 3 ∧
    (findLoop (run hist8).par 3 7).2 = rootOf (run hist8) 7 ∧
    (findLoop (run hist8).par 2 7).2 ≠ rootOf (run hist8) 7 := by decide

-- on the mixed history: the class of index 3 has 4 elements, depth of 3 is 2 = log2 4; the singleton 9 needs fuel 0
example : card (run hist) (rootOf (run hist) 3) = 4 ∧
    (findLoop (run hist).par (Nat.log2 4) 3).2 = rootOf (run hist) 3 ∧
    (findLoop (run hist).par 1 3).2 ≠ rootOf (run hist) 3 ∧
    card (run hist) (rootOf (run hist) 4) = 1 ∧ (findLoop (run hist).par 0 4).2 = rootOf (run hist) 4 := by decide

/-! ### `find` within log2 n iterations -/

/-- state form of `find_within_log2_n` -/
theorem find_within_log2_n_state {s : State} (inv : Inv s) (hs : SizeInv s) (h : HInv s) {p : Nat}
    (hp : p < s.elts.length) :
    (∀ k, findLoop s.par (Nat.log2 s.elts.length + k) p = findLoop s.par (Nat.log2 s.elts.length) p) ∧
    (findLoop s.par (Nat.log2 s.elts.length) p).2 = rootOf s p ∧
    parent (findLoop s.par (Nat.log2 s.elts.length) p).1 (findLoop s.par (Nat.log2 s.elts.length) p).2
      = (findLoop s.par (Nat.log2 s.elts.length) p).2 := by
  obtain ⟨rk, h⟩ := h
  have hb := h.bound inv hs _ (rootOf_lt inv hp)
  have hle : rk (rootOf s p) ≤ Nat.log2 s.elts.length := (Nat.le_log2 (by omega)).mpr hb
  obtain ⟨a, b, c⟩ := findLoop_of_rank inv h hp hle
  refine ⟨a, b, ?_⟩
  rw [b]; exact c

/-- Size-independent form, every history, either spelling: `log2 n` iterations (n = number of stored elements) are
enough for every `find`; at that point the loop condition `p != par[p]` is false, the index returned is the root, and
more iterations change nothing. -/
theorem find_within_log2_n (c : Nat → Nat → Bool) (hc : SizeOrder c) (ops : List Op) (p : Nat)
    (hp : p < (runC c ops).elts.length) :
    (∀ k, findLoop (runC c ops).par (Nat.log2 (runC c ops).elts.length + k) p
        = findLoop (runC c ops).par (Nat.log2 (runC c ops).elts.length) p) ∧
    (findLoop (runC c ops).par (Nat.log2 (runC c ops).elts.length) p).2 = rootOf (runC c ops) p ∧
    parent (findLoop (runC c ops).par (Nat.log2 (runC c ops).elts.length) p).1
        (findLoop (runC c ops).par (Nat.log2 (runC c ops).elts.length) p).2
      = (findLoop (runC c ops).par (Nat.log2 (runC c ops).elts.length) p).2 :=
  find_within_log2_n_state (inv_runC c ops) (sizeInv_runC c ops) (hInv_runC c hc ops) hp

/-- the method itself: `find x` (whose model loop is given fuel `len(_par)`) computes exactly what the loop limited to
`log2 n` iterations computes - same new state (halved parents), same root. -/
theorem find_is_log2_loop (c : Nat → Nat → Bool) (hc : SizeOrder c) (ops : List Op) (x : Nat)
    (hx : x ∈ (runC c ops).elts) :
    find (runC c ops) x = some
      ({ runC c ops with
          par := (findLoop (runC c ops).par (Nat.log2 (runC c ops).elts.length) ((runC c ops).elts.idxOf x)).1 },
       (findLoop (runC c ops).par (Nat.log2 (runC c ops).elts.length) ((runC c ops).elts.idxOf x)).2) := by
  have inv := inv_runC c ops
  obtain ⟨a, _, _⟩ := find_within_log2_n c hc ops _ (idxOf_lt hx)
  have hle := Nat.log2_le_self (runC c ops).elts.length
  have e : (runC c ops).par.length
      = Nat.log2 (runC c ops).elts.length + ((runC c ops).elts.length - Nat.log2 (runC c ops).elts.length) := by
    rw [inv.parLen]; omega
  rw [find_of_mem hx, e, a]

-- 5 stored elements: log2 5 = 2 iterations for every index; `find 4` is the 2-iteration loop
example : Nat.log2 (run hist).elts.length = 2 ∧
    (∀ p, p < 5 → (findLoop (run hist).par 2 p).2 = rootOf (run hist) p) ∧
    (find (run hist) 4).map Prod.snd = some (findLoop (run hist).par 2 3).2 ∧
    (find (run hist) 4).map (fun r => r.1.par) = some (findLoop (run hist).par 2 3).1 := by decide

/-! ### the hypothesis `SizeOrder` is needed -/

/-- With a comparison that is NOT a size order (always hang x's root under y's root, whatever the sizes) three unions
build a chain of 4 elements: index 0 is at depth 3 > log2 4 = 2, and the loop limited to `log2 n` iterations stops before
the root. So the bound is a theorem about the size test, not about union-find in general. -/
theorem height_bound_needs_size_order :
    ∃ (c : Nat → Nat → Bool) (ops : List Op) (p : Nat), p < (runC c ops).elts.length ∧
      (findLoop (runC c ops).par (Nat.log2 (runC c ops).elts.length) p).2 ≠ rootOf (runC c ops) p :=
  ⟨fun _ _ => true, [.union 1 2, .union 2 3, .union 3 4], 0, by decide, by decide⟩

-- the chain, and the reason: the comparison answers `true` on (2, 1), which `SizeOrder` forbids
example : (runC (fun _ _ => true) [.union 1 2, .union 2 3, .union 3 4]).par = [1, 2, 3, 3] ∧
    ¬ SizeOrder (fun _ _ => true) :=
  ⟨by decide, fun h => absurd (h.1 2 1 rfl) (by decide)⟩

end Mouette.Props.C20Height
