import Mouette.Props.C03Manifold
import Mouette.Props.C03Walk
/-!
# C03 (round 7) — the edge-umbrella hypothesis from a WALK-FREE decidable predicate

`edgeUmbrella` (round 4) evaluates the two walks of `_sort_edge_neighborhoods` and checks that they reach every cell around
the edge.  Here the second half is derived: if the cells around the edge are CONNECTED through the stored faces around it
(`linkConnected`: a plain closure computation on `other_face_side`, no walk involved), then the two walks reach every one of
them.  The proof: the set of visited cells is closed under "go through a face around the edge" — a tetrahedron has exactly two
faces through a given edge, the walk leaves each cell through the one it did not enter by.
-/
namespace Mouette.Props.C03Link
open Mouette.Vol Mouette.Props.C03Source Mouette.Props.C03Order Mouette.Props.C03Manifold

theorem perm_of_nodup_subset_length {l1 l2 : List Nat} (h1 : l1.Nodup) (hs : l1 ⊆ l2) (hl : l2.length ≤ l1.length) :
    l1.Perm l2 := (List.subperm_of_subset h1 hs).perm_of_length_le hl

/-- a triangle through `A ≠ B` has a third vertex -/
theorem third_vertex {F : List Nat} (h3 : F.length = 3) (hn : F.Nodup) {A B : Nat} :
    ∃ x ∈ F, x ≠ A ∧ x ≠ B := by
  by_contra hc
  have hsub : F ⊆ [A, B] := by
    intro x hx
    by_cases h1 : x = A
    · simp [h1]
    · by_cases h2 : x = B
      · simp [h2]
      · exact absurd ⟨x, hx, h1, h2⟩ hc
  have := (List.subperm_of_subset hn hsub).length_le
  simp at this; omega

/-- **a tetrahedron has exactly two faces through a given edge**: in a cell with the four distinct vertices `A B p p'`, a triangle
of the cell through `A` and `B` is `{A,B,p}` or `{A,B,p'}` -/
theorem face_through_edge {C F : List Nat} (hC4 : C.length = 4) (hCn : C.Nodup) {A B p p' : Nat}
    (hA : A ∈ C) (hB : B ∈ C) (hp : p ∈ C) (hp' : p' ∈ C) (hd : [A, B, p, p'].Nodup)
    (hF3 : F.length = 3) (hFn : F.Nodup) (hsub : F ⊆ C) (hAF : A ∈ F) (hBF : B ∈ F) :
    F.Perm [A, B, p] ∨ F.Perm [A, B, p'] := by
  have hperm : [A, B, p, p'].Perm C := perm_of_nodup_subset_length hd (by
    intro x hx; simp only [List.mem_cons, List.not_mem_nil, or_false] at hx
    rcases hx with rfl | rfl | rfl | rfl <;> assumption) (by simp [hC4])
  obtain ⟨x, hx, hxA, hxB⟩ := third_vertex hF3 hFn (A := A) (B := B)
  have hxC : x ∈ [A, B, p, p'] := hperm.mem_iff.2 (hsub hx)
  simp only [List.mem_cons, List.not_mem_nil, or_false] at hxC
  have hnd := hd
  simp only [List.nodup_cons, List.mem_cons, List.not_mem_nil, or_false, not_or, List.nodup_nil, and_true] at hnd
  rcases hxC with h | h | h | h
  · exact absurd h hxA
  · exact absurd h hxB
  · subst h
    left
    exact (perm_of_nodup_subset_length (l1 := [A, B, x]) (by simp; tauto) (by
      intro y hy; simp only [List.mem_cons, List.not_mem_nil, or_false] at hy
      rcases hy with rfl | rfl | rfl <;> assumption) (by simp [hF3])).symm
  · subst h
    right
    exact (perm_of_nodup_subset_length (l1 := [A, B, x]) (by simp; tauto) (by
      intro y hy; simp only [List.mem_cons, List.not_mem_nil, or_false] at hy
      rcases hy with rfl | rfl | rfl <;> assumption) (by simp [hF3])).symm

/-- the other side of the other side: a face crossed from `c` to `c'` leads from `c'` back to `c` only -/
theorem otherFaceSide_back {k : Conn} {c c' f d : Nat} (h1 : k.otherFaceSide c f = some c') (h2 : k.otherFaceSide c' f = some d)
    (hne : c ≠ c') : d = c := by
  obtain ⟨_, _, hlen⟩ := otherFaceSide_some h1
  match hl : k.faceToCells f, hlen with
  | [x, y], _ =>
    unfold Conn.otherFaceSide at h1 h2
    rw [hl] at h1 h2
    simp only at h1 h2
    split_ifs at h1 h2 <;> simp_all

variable {m : Mesh}

/-- the vertices of a stored face are vertices of every cell it lies in -/
theorem face_subset_cell (h : Conforming m) {f c : Nat} (hf : f < m.nF) (hc : c ∈ m.conn.faceToCells f) : m.face f ⊆ m.cell c := by
  obtain ⟨_, i, _, hp⟩ := (faceToCells_spec h.faceKeys hf).1 hc
  intro x hx
  exact (List.eraseIdx_sublist _ _).subset (hp.mem_iff.1 hx)

/-- `f` is a stored face through the edge `(A, B)` -/
def EFace (m : Mesh) (A B f : Nat) : Prop := f < m.nF ∧ A ∈ m.face f ∧ B ∈ m.face f

/-- **one walk is closed**: the face through which the walk leaves `c` leads to a cell already seen or entered; and from every
cell `x` the walk entered, BOTH faces of `x` through the edge lead to the start cell, to an entered cell or to a seen one -/
theorem walk_closed (h : Conforming m) {A B : Nat} (hAB : A ≠ B) :
    ∀ (fuel c p : Nat) (seen cs fs : List Nat),
      m.conn.walk A B fuel c p seen = some (cs, fs) → c < m.nC → A ∈ m.cell c → B ∈ m.cell c → p ∈ m.cell c → p ≠ A → p ≠ B →
      (∀ g d, m.faceId [A, B, p] = some g → m.conn.otherFaceSide c g = some d → d ∈ seen ∨ d ∈ cs)
      ∧ (∀ x ∈ cs, ∀ f d, EFace m A B f → m.conn.otherFaceSide x f = some d → d = c ∨ d ∈ cs ∨ d ∈ seen) := by
  intro fuel
  induction fuel with
  | zero => intro c p seen cs fs hw; simp [Conn.walk] at hw
  | succ n ih =>
    intro c p seen cs fs hw hc hAc hBc hpc hpA hpB
    unfold Conn.walk at hw
    split at hw
    · cases hw
    · rename_i face hface
      have hface' : m.faceId [A, B, p] = some face := hface
      split at hw
      · rename_i hofs
        simp only [Option.some.injEq, Prod.mk.injEq] at hw
        obtain ⟨rfl, rfl⟩ := hw
        refine ⟨?_, by intro x hx; cases hx⟩
        intro g d hg ho
        rw [hface'] at hg; cases hg
        rw [hofs] at ho; cases ho
      · rename_i c' hofs
        split at hw
        · rename_i hin
          simp only [Option.some.injEq, Prod.mk.injEq] at hw
          obtain ⟨rfl, rfl⟩ := hw
          refine ⟨?_, by intro x hx; cases hx⟩
          intro g d hg ho
          rw [hface'] at hg; cases hg
          rw [hofs] at ho; cases ho
          left; simpa using hin
        · rename_i hnin
          split at hw
          · cases hw
          · rename_i p' rest hp'
            split at hw
            · cases hw
            · rename_i cs' fs' hw'
              simp only [Option.some.injEq, Prod.mk.injEq] at hw
              obtain ⟨rfl, rfl⟩ := hw
              -- geometry of the entered cell
              have hfl : face < m.nF := faceId_lt hface'
              obtain ⟨hne, hcin, hc'in⟩ := (otherFaceSide_spec h hfl).1 hofs
              have hc' : c' < m.nC := (mem_faceToCells.1 hc'in).2.1
              have hfp : (m.face face).Perm [A, B, p] := ((faceId_eq_some_iff h.faceKeys).1 hface').2
              have hsubc' := face_subset_cell h hfl hc'in
              have hAc' : A ∈ m.cell c' := hsubc' (hfp.mem_iff.2 (by simp))
              have hBc' : B ∈ m.cell c' := hsubc' (hfp.mem_iff.2 (by simp))
              have hpc' : p ∈ m.cell c' := hsubc' (hfp.mem_iff.2 (by simp))
              have hp'mem : p' ∈ (m.cell c').filter (fun x => x != A && x != B && x != p) := by
                have : (m.conn.m.cell c').filter (fun x => x != A && x != B && x != p) = p' :: rest := hp'
                rw [show m.conn.m = m from rfl] at this
                rw [this]; simp
              obtain ⟨hp'c, hp'cond⟩ := List.mem_filter.1 hp'mem
              simp only [Bool.and_eq_true, bne_iff_ne, ne_eq] at hp'cond
              obtain ⟨⟨hp'A, hp'B⟩, hp'p⟩ := hp'cond
              have hnd4 : [A, B, p, p'].Nodup := by
                have e1 : A ≠ p := fun hh => hpA hh.symm
                have e2 : A ≠ p' := fun hh => hp'A hh.symm
                have e3 : B ≠ p := fun hh => hpB hh.symm
                have e4 : B ≠ p' := fun hh => hp'B hh.symm
                have e5 : p ≠ p' := fun hh => hp'p hh.symm
                simp [hAB, e1, e2, e3, e4, e5]
              obtain ⟨i1, i2⟩ := ih c' p' (c' :: seen) cs' fs' hw' hc' hAc' hBc' hp'c hp'A hp'B
              refine ⟨?_, ?_⟩
              · intro g d hg ho
                rw [hface'] at hg; cases hg
                rw [hofs] at ho; cases ho
                right; simp
              · intro x hx f d hE ho
                rcases List.mem_cons.1 hx with rfl | hx
                · -- the first entered cell: its two faces through the edge
                  obtain ⟨hfl', hAf, hBf⟩ := hE
                  obtain ⟨_, hxin, _⟩ := (otherFaceSide_spec h hfl').1 ho
                  rcases face_through_edge (h.cell4 x hc') (h.cellNodup x hc') hAc' hBc' hpc' hp'c hnd4
                      (h.face3 f hfl') (face_nodup h hfl') (face_subset_cell h hfl' hxin) hAf hBf with hP | hP
                  · have : m.faceId [A, B, p] = some f := (faceId_eq_some_iff h.faceKeys).2 ⟨hfl', hP⟩
                    rw [hface'] at this; cases this
                    left; exact otherFaceSide_back hofs ho hne
                  · have hg' : m.faceId [A, B, p'] = some f := (faceId_eq_some_iff h.faceKeys).2 ⟨hfl', hP⟩
                    rcases i1 f d hg' ho with hd | hd
                    · rcases List.mem_cons.1 hd with rfl | hd
                      · right; left; simp
                      · right; right; exact hd
                    · right; left; exact List.mem_cons_of_mem _ hd
                · rcases i2 x hx f d hE ho with rfl | hd | hd
                  · right; left; simp
                  · right; left; exact List.mem_cons_of_mem _ hd
                  · rcases List.mem_cons.1 hd with rfl | hd
                    · right; left; simp
                    · right; right; exact hd

/-! ## the walk-free predicate -/

/-- `d` is reachable from `c0` by crossing stored faces around the edge `e` -/
inductive Reach (k : Conn) (e c0 : Nat) : Nat → Prop
  | base : Reach k e c0 c0
  | step {x d f : Nat} : Reach k e c0 x → f ∈ k.e2f.getD e [] → k.otherFaceSide x f = some d → Reach k e c0 d

/-- one round of the closure: add every cell on the other side of a stored face around `e` -/
def linkStep (k : Conn) (e : Nat) (S : List Nat) : List Nat :=
  S ++ S.flatMap fun c => (k.e2f.getD e []).filterMap (k.otherFaceSide c)

def linkClosure (k : Conn) (e : Nat) : Nat → List Nat → List Nat
  | 0, S => S
  | n + 1, S => linkClosure k e n (linkStep k e S)

/-- **decidable, no walk involved**: the cells around the stored edge `e` are connected through the stored faces around `e`
(closure of the first cell of `_adjE2C[e]` under `other_face_side`, `nC` rounds) -/
def linkConnected (k : Conn) (e : Nat) : Bool :=
  match k.e2cRaw e with
  | c0 :: _ => (k.e2cRaw e).all fun c => (linkClosure k e k.m.nC [c0]).contains c
  | [] => false

theorem reach_of_closure (k : Conn) (e c0 : Nat) :
    ∀ (n : Nat) (S : List Nat), (∀ x ∈ S, Reach k e c0 x) → ∀ x ∈ linkClosure k e n S, Reach k e c0 x := by
  intro n
  induction n with
  | zero => intro S hS x hx; exact hS x hx
  | succ n ih =>
    intro S hS x hx
    refine ih (linkStep k e S) ?_ x hx
    intro y hy
    unfold linkStep at hy
    rcases List.mem_append.1 hy with hy | hy
    · exact hS y hy
    · obtain ⟨c, hc, hy⟩ := List.mem_flatMap.1 hy
      obtain ⟨f, hf, hy⟩ := List.mem_filterMap.1 hy
      exact .step (hS c hc) hf hy

/-- a stored face around the stored edge `e = (A, B)` is a face through `A` and `B`, and `A ≠ B` -/
theorem eface_of_mem_e2f (h : Conforming m) {e A B f : Nat} (hedge : m.edge e = [A, B]) (hf : f ∈ m.conn.e2f.getD e []) :
    EFace m A B f ∧ A ≠ B := by
  obtain ⟨he, hfl, hfe⟩ := mem_e2f.1 hf
  obtain ⟨i, hi, hid⟩ := mem_faceToEdges.1 hfe
  have hk := edgeIdD_eq he hid
  rw [hedge] at hk
  have hperm : [A, B].Perm [(m.face f).getD i 0, (m.face f).getD ((i + 1) % (m.face f).length) 0] := key_eq_iff_perm.1 hk
  have hl : (m.face f).length = 3 := h.face3 f hfl
  have hj : (i + 1) % (m.face f).length < (m.face f).length := Nat.mod_lt _ (by omega)
  have g1 : (m.face f).getD i 0 = (m.face f)[i] := by rw [List.getD_eq_getElem?_getD, List.getElem?_eq_getElem hi]; rfl
  have g2 : (m.face f).getD ((i + 1) % (m.face f).length) 0 = (m.face f)[(i + 1) % (m.face f).length] := by
    rw [List.getD_eq_getElem?_getD, List.getElem?_eq_getElem hj]; rfl
  have hm1 : (m.face f).getD i 0 ∈ m.face f := by rw [g1]; exact List.getElem_mem _
  have hm2 : (m.face f).getD ((i + 1) % (m.face f).length) 0 ∈ m.face f := by rw [g2]; exact List.getElem_mem _
  have hne : (m.face f).getD i 0 ≠ (m.face f).getD ((i + 1) % (m.face f).length) 0 := by
    rw [g1, g2]
    intro heq
    have := (List.Nodup.getElem_inj_iff (face_nodup h hfl)).1 heq
    rw [hl] at this; omega
  have hA : A ∈ [(m.face f).getD i 0, (m.face f).getD ((i + 1) % (m.face f).length) 0] := hperm.mem_iff.1 (by simp)
  have hB : B ∈ [(m.face f).getD i 0, (m.face f).getD ((i + 1) % (m.face f).length) 0] := hperm.mem_iff.1 (by simp)
  have hnd : [A, B].Nodup := hperm.nodup_iff.2 (List.nodup_cons.2 ⟨by simpa using hne, by simp⟩)
  refine ⟨⟨hfl, ?_, ?_⟩, by simpa using hnd⟩
  · simp only [List.mem_cons, List.not_mem_nil, or_false] at hA
    rcases hA with rfl | rfl <;> assumption
  · simp only [List.mem_cons, List.not_mem_nil, or_false] at hB
    rcases hB with rfl | rfl <;> assumption

/-- every cell entered by a walk lies in a stored face `{A, B, p}` -/
theorem walkChain_cells {k : Conn} {A B c : Nat} {cs fs : List Nat} (h : WalkChain k A B c cs fs) :
    ∀ x ∈ cs, ∃ g p, k.m.faceId [A, B, p] = some g ∧ x ∈ k.faceToCells g := by
  induction h with
  | last _ => intro x hx; cases hx
  | step hf ho _ ih =>
    intro x hx
    rcases List.mem_cons.1 hx with rfl | hx
    · exact ⟨_, _, hf, (otherFaceSide_some ho).2.1⟩
    · exact ih x hx

/-- **the edge-umbrella hypothesis from the walk-free predicate**: on a mesh passing the decidable `conforming` flag, if the two
walks around the stored edge `e` return at all (`umbrellaData … = some`) and the cells around `e` are connected through the
stored faces around `e` (`linkConnected`, computed without any walk), then the walks reach every cell around `e`:
`edgeUmbrella m.conn e = true`, the hypothesis of the order theorems -/
theorem edgeUmbrella_of_linkConnected (hflag : m.conforming = true) {e : Nat}
    (hsome : (umbrellaData m.conn e).isSome = true) (hlc : linkConnected m.conn e = true) :
    edgeUmbrella m.conn e = true := by
  have h := conforming_of_flag hflag
  obtain ⟨d, hd⟩ := Option.isSome_iff_exists.1 hsome
  obtain ⟨A, B, c0, cs1, fs1, cs2, fs2⟩ := d
  obtain ⟨rest, p1, p2, hedge, hraw, hpiv, hw1, hw2⟩ := umbrellaData_spec hd
  have hm : m.conn.m = m := rfl
  rw [hm] at hedge hpiv
  -- the start cell
  have hc0mem : c0 ∈ m.conn.e2cRaw e := by rw [hraw]; simp
  obtain ⟨f0, hf0, hc0f0⟩ := (mem_e2cRaw m.conn).1 hc0mem
  obtain ⟨⟨hf0l, hAf0, hBf0⟩, hAB⟩ := eface_of_mem_e2f h hedge hf0
  have hc0 : c0 < m.nC := (mem_faceToCells.1 hc0f0).2.1
  have hsub0 := face_subset_cell h hf0l hc0f0
  have hA0 := hsub0 hAf0
  have hB0 := hsub0 hBf0
  have hp1m : p1 ∈ (m.cell c0).filter (fun x => x != A && x != B) := by rw [hpiv]; simp
  have hp2m : p2 ∈ (m.cell c0).filter (fun x => x != A && x != B) := by rw [hpiv]; simp
  obtain ⟨hp1c, hp1x⟩ := List.mem_filter.1 hp1m
  obtain ⟨hp2c, hp2x⟩ := List.mem_filter.1 hp2m
  simp only [Bool.and_eq_true, bne_iff_ne, ne_eq] at hp1x hp2x
  have hp12 : p1 ≠ p2 := by
    have : [p1, p2].Nodup := by rw [← hpiv]; exact (h.cellNodup c0 hc0).filter _
    simpa using this
  have hnd4 : [A, B, p1, p2].Nodup := by
    have e1 : A ≠ p1 := fun hh => hp1x.1 hh.symm
    have e2 : A ≠ p2 := fun hh => hp2x.1 hh.symm
    have e3 : B ≠ p1 := fun hh => hp1x.2 hh.symm
    have e4 : B ≠ p2 := fun hh => hp2x.2 hh.symm
    simp [hAB, e1, e2, e3, e4, hp12]
  obtain ⟨i1, i2⟩ := walk_closed h hAB _ _ _ _ _ _ hw1 hc0 hA0 hB0 hp1c hp1x.1 hp1x.2
  obtain ⟨j1, j2⟩ := walk_closed h hAB _ _ _ _ _ _ hw2 hc0 hA0 hB0 hp2c hp2x.1 hp2x.2
  -- the visited cells are closed under crossing a face through the edge
  have hclosed : ∀ x ∈ c0 :: cs1 ++ cs2, ∀ f dd, EFace m A B f → m.conn.otherFaceSide x f = some dd → dd ∈ c0 :: cs1 ++ cs2 := by
    intro x hx f dd hE ho
    simp only [List.cons_append, List.mem_cons, List.mem_append] at hx ⊢
    rcases hx with rfl | hx | hx
    · obtain ⟨hfl', hAf, hBf⟩ := hE
      obtain ⟨_, hxin, _⟩ := (otherFaceSide_spec h hfl').1 ho
      rcases face_through_edge (h.cell4 x hc0) (h.cellNodup x hc0) hA0 hB0 hp1c hp2c hnd4
          (h.face3 f hfl') (face_nodup h hfl') (face_subset_cell h hfl' hxin) hAf hBf with hP | hP
      · have hg : m.faceId [A, B, p1] = some f := (faceId_eq_some_iff h.faceKeys).2 ⟨hfl', hP⟩
        rcases i1 f dd hg ho with hh | hh
        · left; simpa using hh
        · right; left; exact hh
      · have hg : m.faceId [A, B, p2] = some f := (faceId_eq_some_iff h.faceKeys).2 ⟨hfl', hP⟩
        rcases j1 f dd hg ho with hh | hh
        · simp only [List.mem_append, List.mem_reverse, List.mem_cons, List.not_mem_nil, or_false] at hh
          rcases hh with hh | hh
          · right; left; exact hh
          · left; exact hh
        · right; right; exact hh
    · rcases i2 x hx f dd hE ho with hh | hh | hh
      · left; exact hh
      · right; left; exact hh
      · left; simpa using hh
    · rcases j2 x hx f dd hE ho with hh | hh | hh
      · left; exact hh
      · right; right; exact hh
      · simp only [List.mem_append, List.mem_reverse, List.mem_cons, List.not_mem_nil, or_false] at hh
        rcases hh with hh | hh
        · right; left; exact hh
        · left; exact hh
  have hreach : ∀ x, Reach m.conn e c0 x → x ∈ c0 :: cs1 ++ cs2 := by
    intro x hx
    induction hx with
    | base => simp
    | step _ hf ho ih => exact hclosed _ ih _ _ (eface_of_mem_e2f h hedge hf).1 ho
  -- every cell around the edge is visited
  have hcover : ∀ x ∈ m.conn.e2cRaw e, x ∈ c0 :: cs1 ++ cs2 := by
    intro x hx
    unfold linkConnected at hlc
    rw [hraw] at hlc
    simp only [List.all_eq_true, List.contains_iff_mem] at hlc
    rw [← hraw] at hlc
    exact hreach x (reach_of_closure m.conn e c0 _ _ (by intro y hy; simp at hy; subst hy; exact .base) x (hlc x hx))
  -- every visited cell is around the edge
  have he : e < m.nE := (mem_e2f.1 hf0).1
  have hEK := edgeKeys_of_flag hflag
  have heid : m.edgeIdD A B = e := by
    unfold Mesh.edgeIdD Mesh.edgeId
    have : idOf m.edges (key [A, B]) = some e :=
      (idOf_eq_some_iff_of_nodup hEK).2 ⟨he, by rw [← edge_eq_getElem he, hedge]⟩
    rw [this]; rfl
  have hback : ∀ (cs fs : List Nat) (c : Nat), WalkChain m.conn A B c cs fs → ∀ x ∈ cs, x ∈ m.conn.e2cRaw e := by
    intro cs fs c hch x hx
    obtain ⟨g, p, hg, hxg⟩ := walkChain_cells hch x hx
    have hg' : m.faceId [A, B, p] = some g := hg
    obtain ⟨hgl, hgp⟩ := (faceId_eq_some_iff h.faceKeys).1 hg'
    have hhe : hasEdge (m.face g) A B = true := by
      unfold hasEdge
      simp only [Bool.and_eq_true, List.contains_iff_mem]
      exact ⟨hgp.mem_iff.2 (by simp), hgp.mem_iff.2 (by simp)⟩
    have := (mem_e2f_of_hasEdge hflag hgl hAB hhe).2
    rw [heid] at this
    exact (mem_e2cRaw m.conn).2 ⟨g, this, hxg⟩
  obtain ⟨hch1, hnew1, hnd1, _⟩ := walk_chain m.conn A B _ _ _ _ _ _ hw1
  obtain ⟨hch2, hnew2, hnd2, _⟩ := walk_chain m.conn A B _ _ _ _ _ _ hw2
  have hV : (cs2.reverse ++ c0 :: cs1).Nodup := by
    rw [List.nodup_append]
    refine ⟨List.nodup_reverse.2 hnd2, List.nodup_cons.2 ⟨fun hh => hnew1 c0 hh (by simp), hnd1⟩, ?_⟩
    intro a ha b hb heq
    subst heq
    have := hnew2 a (List.mem_reverse.1 ha)
    simp only [List.mem_append, List.mem_reverse, List.mem_cons, List.not_mem_nil, or_false, not_or] at this
    rcases List.mem_cons.1 hb with rfl | hb
    · exact this.2 rfl
    · exact this.1 hb
  unfold edgeUmbrella
  rw [hd]
  simp only
  rw [List.isPerm_iff, List.perm_ext_iff_of_nodup (e2cRaw_nodup _ _) hV]
  intro x
  constructor
  · intro hx
    have := hcover x hx
    simp only [List.cons_append, List.mem_cons, List.mem_append] at this
    simp only [List.mem_append, List.mem_reverse, List.mem_cons]
    tauto
  · intro hx
    simp only [List.mem_append, List.mem_reverse, List.mem_cons] at hx
    rcases hx with hx | rfl | hx
    · exact hback _ _ _ hch2 x hx
    · exact hc0mem
    · exact hback _ _ _ hch1 x hx

/-- **rotational order of `edge_to_cell`, on the source, from the walk-free predicate**: conforming flag + the walks return +
the cells around `e` are connected through the faces around `e` ⇒ the list `_adjE2C[e]` left by the translated
`_sort_edge_neighborhoods` is: backward walk reversed, start cell, forward walk (chains through faces containing the edge,
no repetition) -/
theorem edge_to_cell_order_of_linkConnected (hflag : m.conforming = true) {e : Nat}
    (hsome : (umbrellaData m.conn e).isSome = true) (hlc : linkConnected m.conn e = true) :
    ∃ A B c0 cs1 fs1 cs2 fs2, m.edge e = [A, B]
      ∧ VolS.dGet (Mouette.Generated.C03W.sort_edge_neighborhoods m).adjE2C e = cs2.reverse ++ c0 :: cs1
      ∧ WalkChain m.conn A B c0 cs1 fs1 ∧ WalkChain m.conn A B c0 cs2 fs2 ∧ (c0 :: cs1 ++ cs2).Nodup :=
  Mouette.Props.C03Walk.edge_to_cell_order_source (conforming_of_flag hflag) (edgeUmbrella_of_linkConnected hflag hsome hlc)

/-! ## non-vacuity -/

open Mouette.Props.C03 in
example : linkConnected twoTets.conn 1 = true ∧ linkConnected ring3.conn 5 = true ∧ linkConnected edgeGlued.conn 0 = false := by
  decide +kernel
open Mouette.Props.C03 in
example : edgeUmbrella ring3.conn 5 = true :=
  edgeUmbrella_of_linkConnected (by decide +kernel) (by decide +kernel) (by decide +kernel)
open Mouette.Props.C03 in
/-- on the non-manifold edge of `edgeGlued` the walks do return, the cells are NOT connected around the edge, and indeed the
walks miss a cell -/
example : (umbrellaData edgeGlued.conn 0).isSome = true ∧ edgeUmbrella edgeGlued.conn 0 = false := by decide +kernel

end Mouette.Props.C03Link
