import Mouette.Props.C01
import Mouette.Lemmas.RingSort
import Mouette.Lemmas.RingMesh
import Mouette.Lemmas.RingCheck
import Mouette.Lemmas.RingVerts
import Mouette.Lemmas.RingVerts2
import Mouette.Lemmas.RingComplete
/-!
# C01 (part 3) — rotational order of the corners around a vertex (`ring_sorted`, P1)

Vocabulary (`Model/RingSpec.lean`): `stepB c = opposite(previous c)`, `stepF c = next(opposite c)`;
`RingOpen S v ring` / `RingClosed S v ring` = the *umbrella condition* at `v`: `ring` lists the corners
at `v` once each, one position down the list is `stepB`, one position up is `stepF`, and the list is a
path ending on border sides (border vertex) or closes up (interior vertex).  The hypothesis is decidable
for a given `ring` (`ringOpenB`/`ringClosedB`, proved sound) and the C01 driver evaluates it on every
generated input (`wf:`), with the ring the model computes as the witness.

Direction: the code sorts by the keys 0,-1,-2… given along `Cn = opposite(previous(Cn))`, so in the
returned list it is the corner one position *down* that is `opposite(previous ·)` of the corner above:
`L[j] = stepB L[j+1]`, equivalently `L[j+1] = stepF L[j] = next(opposite L[j])`.
-/
namespace Mouette.Props.C01
open Mouette.Surface

section ring
variable {S : Surf} {v : Nat} {ring : List Nat}

/-- **border vertex, sorting on**: `vertex_to_corners(v)` IS the path: it starts at the corner whose
entering side is a border side (`stepB = none`), each next corner is `next(opposite ·)` of the previous
one, and it ends at the corner whose own side is a border side.  Any mesh size, any starting corner
picked by the set iteration. -/
theorem ring_sorted_border (hs : S.sortOn = true) (hr : RingOpen S v ring) :
    vertexToCorners S v = ring := vertexToCorners_open hs hr

/-- **interior vertex, sorting on**: `vertex_to_corners(v)` is the cycle, read from the position after
the corner the code happened to start from -/
theorem ring_sorted_interior (hs : S.sortOn = true) (hr : RingClosed S v ring) :
    ∃ r, vertexToCorners S v = ring.rotate r := vertexToCorners_closed hs hr

/-- **`ring_sorted`** (corner ring, full statement; `SortedRing` is spelled out in `Model/RingSpec.lean`):
under the umbrella condition at `v`, with sorting on, `L = vertex_to_corners(v)` is a permutation of the
corners at `v` in rotational order: `stepB L[j+1] = L[j]` for consecutive positions; for a border vertex
moreover `stepB L[0] = none` (it starts at the border corner) and `stepF L[last] = none`; for an interior
vertex the order is cyclic (`stepB L[(j+1) % n] = L[j]` for every `j`). -/
theorem ring_sorted (hs : S.sortOn = true) (hu : ∃ ring, RingOpen S v ring ∨ RingClosed S v ring) :
    SortedRing S v (vertexToCorners S v) := by
  obtain ⟨ring, hr | hr⟩ := hu
  · rw [ring_sorted_border hs hr]
    exact ⟨hr.perm, hr.back, Or.inl fun h0 => ⟨hr.first h0, hr.last h0⟩⟩
  · obtain ⟨r, hrot⟩ := ring_sorted_interior hs hr
    rw [hrot]
    have hlen : (ring.rotate r).length = ring.length := List.length_rotate ring r
    have hcyc : ∀ j (hj : j < (ring.rotate r).length),
        stepB S ((ring.rotate r)[(j + 1) % (ring.rotate r).length]'(Nat.mod_lt _ (by omega))) =
          some (ring.rotate r)[j] := by
      intro j hj
      have := closed_rotate_chain hr r j (by omega)
      simp only [hlen]
      exact this
    refine ⟨(List.rotate_perm ring r).trans hr.perm, ?_, Or.inr hcyc⟩
    intro j hj
    have := hcyc j (by omega)
    have hmod : (j + 1) % (ring.rotate r).length = j + 1 := Nat.mod_eq_of_lt hj
    simp only [hmod] at this
    exact this

/-- sorting off: only the permutation statement — the list is the set of corners at `v` -/
theorem ring_unsorted (hs : S.sortOn = false) : vertexToCorners S v = cornersAt S v := by
  unfold vertexToCorners; simp [hs]

/-- in both settings the answer lists every corner at `v` exactly once -/
theorem vertexToCorners_perm (S : Surf) (v : Nat) :
    (vertexToCorners S v).Perm (cornersAt S v) ∧ (vertexToCorners S v).Nodup := by
  have hp : (vertexToCorners S v).Perm (cornersAt S v) := by
    unfold vertexToCorners
    split
    · exact List.mergeSort_perm _ _
    · exact List.Perm.refl _
  exact ⟨hp, (hp.nodup_iff).mpr (cornersAt_nodup S v)⟩

/-- `vertex_to_faces(v)` is the image of the corner ring, in the matching order -/
theorem vertexToFaces_eq_map (S : Surf) (v : Nat) :
    vertexToFaces S v = (vertexToCorners S v).map (cornerToFace S) := rfl

/-- `vertex_to_edges(v)` is the image of the vertex ring, in the matching order -/
theorem vertexToEdges_eq_map (S : Surf) (v : Nat) :
    vertexToEdges S v = (vertexToVertices S v).map (edgeId S v) := rfl

/-- the decidable check evaluated by the driver implies the hypothesis of `ring_sorted` -/
theorem umbrella_check_sound (h : umbrellaB S v = true) :
    ∃ ring, RingOpen S v ring ∨ RingClosed S v ring := umbrellaB_sound h

end ring

section onFaces
variable {faces : Faces} (nv : Nat) (so : Bool)

/-- the corners at `v` are the positions `(f,i)` of the face list with `F[i] = v` -/
theorem cornersAt_eq_spec (v c : Nat) :
    c ∈ cornersAt (build nv faces so) v ↔
      ∃ f i, f < faces.length ∧ i < (fa faces f).length ∧ (fa faces f).getD i 0 = v ∧ c = offset faces f + i :=
  mem_cornersAt

/-- what the ring relation says on the face list: `stepB (f,i) = c'` iff `c'` is the corner `(g,j)` that
starts the reversed entering side, `G[j] = F[i]` and `G[j+1] = F[i-1]` — the corner at the same vertex in
the face across the side `F[i-1] → F[i]`; `none` when no face has the reversed side (border) -/
theorem stepB_eq_spec (hO : Oriented faces) {f i : Nat} (hf : f < faces.length) (hi : i < (fa faces f).length)
    (c' : Nat) :
    stepB (build nv faces so) (offset faces f + i) = some c' ↔
      ∃ g j, IsSide faces g j ((fa faces f).getD i 0)
          ((fa faces f).getD ((i + (fa faces f).length - 1) % (fa faces f).length) 0) ∧ c' = offset faces g + j := by
  rw [stepB_eq nv so hO hf hi]
  exact halfEdgeToCorner_eq_spec nv so hO _ _ _

/-- `stepF` and `stepB` are inverse moves on an oriented face list -/
theorem stepF_stepB_inverse (hO : Oriented faces) {f i : Nat} (hf : f < faces.length)
    (hi : i < (fa faces f).length) (c' : Nat) :
    (stepB (build nv faces so) (offset faces f + i) = some c' → stepF (build nv faces so) c' = some (offset faces f + i)) ∧
    (stepF (build nv faces so) (offset faces f + i) = some c' → stepB (build nv faces so) c' = some (offset faces f + i)) :=
  ⟨stepF_of_stepB nv so hO hf hi, stepB_of_stepF nv so hO hf hi⟩

/-- **`vertex_to_vertices(v)` as a set** (sorting on or off): `w` is listed iff some face has `(v,w)` or
`(w,v)` as a directed side -/
theorem vertexToVertices_mem_spec (v w : Nat) :
    w ∈ vertexToVertices (build nv faces so) v ↔
      (∃ f i, IsSide faces f i v w) ∨ (∃ f i, IsSide faces f i w v) := by
  have hn : neighbours (build nv faces so) v = neighbours (build nv faces true) v := rfl
  have hperm : w ∈ vertexToVertices (build nv faces so) v ↔ w ∈ neighbours (build nv faces true) v := by
    unfold vertexToVertices
    split
    · rw [(List.mergeSort_perm _ _).mem_iff, hn]
    · rw [hn]
  rw [hperm]
  constructor
  · exact neighbour_side
  · rintro (⟨f, i, hs⟩ | ⟨f, i, hs⟩)
    · exact (side_neighbour hs).2
    · exact (side_neighbour hs).1

/-- the vertex a corner `(f,i)` points to is `F[(i+1) % n]` -/
theorem spoke_eq_spec {f i : Nat} (hf : f < faces.length) (hi : i < (fa faces f).length) :
    spoke (build nv faces true) (offset faces f + i) = (fa faces f).getD ((i + 1) % (fa faces f).length) 0 :=
  spoke_eq hf hi

/-- **`ring_sorted`, vertex ring, border vertex**: with sorting on, `vertex_to_vertices(A)` is the
half-edge-less border neighbour `w0` (`(w0 → A)` is a side, `(A → w0)` is not) FIRST, followed by the
neighbours the corners of `vertex_to_corners(A)` point to, in the same order -/
theorem ring_sorted_vertices_border (hO : Oriented faces) {A : Nat} {ring : List Nat}
    (hr : RingOpen (build nv faces true) A ring) (hne : ring ≠ []) :
    ∃ w0, vertexToVertices (build nv faces true) A =
        w0 :: (vertexToCorners (build nv faces true) A).map (spoke (build nv faces true)) ∧
      (∃ f i, IsSide faces f i w0 A) ∧ (∀ f i, ¬ IsSide faces f i A w0) :=
  v2v_border hO hr hne

/-- **`ring_sorted`, vertex ring, interior vertex**: `vertex_to_vertices(A)` is the image of
`vertex_to_corners(A)` under "the vertex the corner points to", in the same order (so `vertex_to_edges(A)`
and `vertex_to_faces(A)` are images of the same ring, by `vertexToEdges_eq_map`/`vertexToFaces_eq_map`) -/
theorem ring_sorted_vertices_interior (hO : Oriented faces) {A : Nat} {ring : List Nat}
    (hr : RingClosed (build nv faces true) A ring) (hne : ring ≠ []) :
    vertexToVertices (build nv faces true) A =
      (vertexToCorners (build nv faces true) A).map (spoke (build nv faces true)) :=
  v2v_interior hO hr hne

/-- **`opposite_face(u,v,F)`**: the face on the other side of the edge, seen from `F` -/
theorem oppositeFace_eq_spec (hO : Oriented faces) (u v F G : Nat) :
    oppositeFace (build nv faces so) u v F = some G ↔
      ((∃ i, IsSide faces F i u v) ∧ (∃ j, IsSide faces G j v u)) ∨
      ((¬ ∃ i, IsSide faces F i u v) ∧ (∃ i, IsSide faces F i v u) ∧ (∃ j, IsSide faces G j u v)) := by
  unfold oppositeFace
  simp only [beq_iff_eq]
  by_cases h1 : directFace (build nv faces so) u v = some F
  · rw [if_pos h1]
    have h1' := (directFace_eq_spec nv so hO u v F).mp h1
    rw [directFace_eq_spec nv so hO v u G]
    constructor
    · intro h; exact Or.inl ⟨h1', h⟩
    · rintro (⟨_, h⟩ | ⟨hn, _⟩)
      · exact h
      · exact absurd h1' hn
  · rw [if_neg h1]
    have h1' : ¬ ∃ i, IsSide faces F i u v := fun h => h1 ((directFace_eq_spec nv so hO u v F).mpr h)
    by_cases h2 : directFace (build nv faces so) v u = some F
    · rw [if_pos h2]
      have h2' := (directFace_eq_spec nv so hO v u F).mp h2
      rw [directFace_eq_spec nv so hO u v G]
      constructor
      · intro h; exact Or.inr ⟨h1', h2', h⟩
      · rintro (⟨h, _⟩ | ⟨_, _, h⟩)
        · exact absurd h h1'
        · exact h
    · rw [if_neg h2]
      have h2' : ¬ ∃ i, IsSide faces F i v u := fun h => h2 ((directFace_eq_spec nv so hO v u F).mpr h)
      constructor
      · intro h; cases h
      · rintro (⟨h, _⟩ | ⟨_, h, _⟩)
        · exact absurd h h1'
        · exact absurd h h2'

/-- **`common_edge(f1,f2)`**: when it answers `(a,b)`, that is the sorted pair of a side of `f1` across
which `f2` lies; it answers `(None,None)` exactly when no side of `f1` has `f2` on the other side -/
theorem commonEdge_eq_spec (f1 f2 : Nat) :
    (∀ ab, commonEdge (build nv faces so) f1 f2 = some ab →
      ∃ i, i < (fa faces f1).length ∧
        ab = key2 ((fa faces f1).getD i 0) ((fa faces f1).getD ((i+1) % (fa faces f1).length) 0) ∧
        oppositeFace (build nv faces so) ((fa faces f1).getD i 0)
          ((fa faces f1).getD ((i+1) % (fa faces f1).length) 0) f1 = some f2) ∧
    (commonEdge (build nv faces so) f1 f2 = none ↔
      ∀ i, i < (fa faces f1).length →
        oppositeFace (build nv faces so) ((fa faces f1).getD i 0)
          ((fa faces f1).getD ((i+1) % (fa faces f1).length) 0) f1 ≠ some f2) := by
  have hF : faceOf (build nv faces so) f1 = fa faces f1 := rfl
  unfold commonEdge
  simp only [hF]
  constructor
  · intro ab h
    obtain ⟨i, hi, rfl⟩ := Option.map_eq_some_iff.mp h
    have hp := List.find?_some hi
    have hm := List.mem_range.mp (List.mem_of_find?_eq_some hi)
    simp only [beq_iff_eq] at hp
    exact ⟨i, hm, rfl, hp⟩
  · rw [Option.map_eq_none_iff, List.find?_eq_none]
    constructor
    · intro h i hi; have := h i (List.mem_range.mpr hi); simpa using this
    · intro h i hi; have := h i (List.mem_range.mp hi); simpa using this

end onFaces

/-! non-vacuity: a fan of two triangles around border vertex 1, and the closed fan of a tetrahedron -/
example : ringOpenB (build 4 [[0, 1, 2], [2, 1, 3]] true) 1 [1, 4] = true := by decide +kernel
example : vertexToCorners (build 4 [[0, 1, 2], [2, 1, 3]] true) 1 = [1, 4] :=
  ring_sorted_border rfl (ringOpenB_sound (by decide +kernel))
example : ∃ r, vertexToCorners (build 4 [[0, 1, 2], [0, 2, 3], [0, 3, 1], [1, 3, 2]] true) 0 = [6, 3, 0].rotate r :=
  ring_sorted_interior rfl (ringClosedB_sound (by decide +kernel))

/-! ### the umbrella hypothesis is decidable: the checker the driver evaluates is equivalent to it -/
section decidableUmbrella
variable {faces : Faces} (nv : Nat)

/-- **completeness of the umbrella checker** (converse of `umbrella_check_sound`): on a built oriented mesh with sorting on, whenever
the corners at `v` form one open fan or one closed fan (the textbook umbrella condition), `umbrellaB` evaluates to `true` -/
theorem umbrella_check_complete (hO : Oriented faces) {v : Nat}
    (hu : ∃ ring, RingOpen (build nv faces true) v ring ∨ RingClosed (build nv faces true) v ring) :
    umbrellaB (build nv faces true) v = true := umbrellaB_complete nv hO hu

/-- so `umbrellaB` DECIDES the umbrella condition -/
theorem umbrella_check_iff (hO : Oriented faces) (v : Nat) :
    umbrellaB (build nv faces true) v = true ↔
      ∃ ring, RingOpen (build nv faces true) v ring ∨ RingClosed (build nv faces true) v ring := umbrellaB_iff nv hO v

/-- **`ring_sorted` from decidable hypotheses only**: `Oriented faces` (no directed side twice) and `umbrellaB … v = true`, both
evaluated by the driver on every generated input; by `umbrella_check_iff` nothing is lost with respect to the umbrella condition -/
theorem ring_sorted_of_check {v : Nat} (h : umbrellaB (build nv faces true) v = true) :
    SortedRing (build nv faces true) v (vertexToCorners (build nv faces true) v) :=
  ring_sorted rfl (umbrella_check_sound h)

end decidableUmbrella

/-- non-vacuity of `umbrella_check_complete`: the tetrahedron satisfies its hypotheses at vertex 0, hence the checker accepts it -/
example : umbrellaB (build 4 [[0, 1, 2], [0, 2, 3], [0, 3, 1], [1, 3, 2]] true) 0 = true :=
  umbrella_check_complete 4 (by decide +kernel) ⟨[6, 3, 0], Or.inr (ringClosedB_sound (by decide +kernel))⟩

end Mouette.Props.C01
