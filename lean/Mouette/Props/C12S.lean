import Mouette.Lemmas.BoxSource
import Mouette.Props.C12
import Mouette.Props.C12T
/-!
# C12 (round 4) - the box laws of `Props/C12.lean` transferred to what the SOURCE of `aabb.py` says now

`vlib/gen/c12_source.py` re-extracts, on every run, the BODIES of the methods of `AABB` from
`$MOUETTE_REPO/mouette/geometry/aabb.py` into Lean definitions (`Generated/C12Box.lean`, vocabulary `Model/BoxSource.lean`:
numpy's componentwise operations as `zipWith`s over bounds in ℚ ∪ {±∞}).  This file proves

* BRIDGES - each extracted method computes what the box algebra of `Model/AABB.lean` computes: `ctor_bridge`, `dim_bridge`,
  `infinite_bridge`, `unitCube_bridge`, `ofPoints_bridge`, `span_bridge`, `center_bridge`, `inter_bridge`, `union_bridge`,
  `andOr_bridge`, `doIntersect_bridge`, `padVec_bridge`, `padFloat_bridge`, `containsPoint_bridge`, `project_bridge`,
  `distance_bridge`, `isEmpty_bridge`, and the flag `ctor_copies` (the constructor copies its arguments);
* THE BOX LAWS restated on the extracted definitions (`*_source`).
Assumed about numpy (the vocabulary): `np.maximum/minimum/max/min(axis=0)`, `+`, `-`, comparisons are componentwise on arrays
of one length; `.all()`/`np.any` are conjunction/disjunction; `span`/`center` are claimed for finite boxes only
(numpy would give NaN for ∞ − ∞); floating-point rounding is not modelled.
-/
namespace Mouette.Props.C12S
open Mouette.AABB Mouette.AABB.EQ Mouette.AABB.Box Mouette.BoxS
open Mouette.Generated

/-! ### bridges -/

theorem ctor_bridge (lo hi : V) : C12Box.ctor lo hi = Box.mk? lo hi := by
  unfold C12Box.ctor Box.mk?
  by_cases h : lo.length = hi.length <;> simp [h]

/-- the constructor stores copies of the caller's arrays (the heap model `mk` of `Model/BoxHist.lean`, not `mkWrap`) -/
theorem ctor_copies : C12Box.ctorCopies = true := rfl

theorem dim_bridge (b : Box) : C12Box.dim b = b.dim ∧ C12Box.mini b = b.lo ∧ C12Box.maxi b = b.hi := ⟨rfl, rfl, rfl⟩

theorem infinite_bridge (d : Nat) : C12Box.infinite d = Box.infinite d := rfl

theorem unitCube_bridge (d : Nat) :
    C12Box.unitCube d false = Box.finBox (List.replicate d 0) (List.replicate d 1) ∧
    C12Box.unitCube d true = Box.finBox (List.replicate d (-(1 / 2))) (List.replicate d (1 / 2)) := by
  constructor <;> simp [C12Box.unitCube, Box.finBox, ofPt, full]

theorem ofPoints_bridge (p : List Rat) (ps : List (List Rat)) (pad : Rat) (hd : ∀ q ∈ ps, q.length = p.length) :
    Box.ofPoints (p :: ps) pad = some (C12Box.ofPoints (p :: ps) pad) := by
  simp only [Box.ofPoints, C12Box.ofPoints, List.headD_cons, List.tail_cons, colMin, colMax, psub, padd, full, ofPt]
  rw [zipWith_replicate_sub _ _ _ (by rw [length_colFold rmin ps p hd]),
    zipWith_replicate_add _ _ _ (by rw [length_colFold rmax ps p hd])]
  simp [List.map_map, Function.comp_def]

theorem span_bridge (b : Box) : b.span = if allFin b.lo && allFin b.hi then some (C12Box.span b) else none := by
  unfold Box.span C12Box.span vsubFin
  rw [List.zipWith_comm]

theorem center_bridge (b : Box) : b.center = if allFin b.lo && allFin b.hi then some (C12Box.center b) else none := rfl

theorem inter_bridge (a b : Box) : C12Box.inter a b = Box.inter a b := by
  unfold C12Box.inter Box.inter C12Box.dim Box.dim
  by_cases h : a.lo.length = b.lo.length <;> simp [h, vmax, vmin]

theorem union_bridge (a b : Box) : C12Box.union a b = Box.union a b := by
  unfold C12Box.union Box.union C12Box.dim Box.dim
  by_cases h : a.lo.length = b.lo.length <;> simp [h, vmax, vmin]

/-- `a & b`, `a | b` are `intersection`, `union` -/
theorem andOr_bridge (a b : Box) : C12Box.andOp a b = Box.inter a b ∧ C12Box.orOp a b = Box.union a b :=
  ⟨inter_bridge a b, union_bridge a b⟩

theorem doIntersect_bridge (a b : Box) (ha : a.lo.length = a.hi.length) (hb : b.lo.length = b.hi.length) :
    C12Box.doIntersect a b = Box.doIntersect a b := by
  unfold C12Box.doIntersect Box.doIntersect C12Box.dim Box.dim
  by_cases h : a.lo.length = b.lo.length
  · simp only [h, ne_eq, not_true_eq_false, decide_false, Bool.false_eq_true, if_false, if_true]
    rw [← h, overlapAll_eq a.lo a.hi b.lo b.hi ha.symm h.symm (by omega)]
  · simp [h]

theorem padVec_bridge (b : Box) (p : List Rat) : C12Box.padVec b p = Box.pad b p := by
  unfold C12Box.padVec Box.pad C12Box.dim Box.dim
  by_cases h : p.length = b.lo.length <;> simp [h, vsubPt_eq, vaddPt, clamp0]

theorem padFloat_bridge (b : Box) (x : Rat) : C12Box.padFloat b x = Box.pad b (List.replicate b.dim x) := by
  unfold C12Box.padFloat Box.pad C12Box.dim Box.dim
  simp [vsubPt_eq, vaddPt, clamp0, full]

theorem containsPoint_bridge (b : Box) (p : List Rat) (hl : b.lo.length = b.hi.length) :
    C12Box.containsPoint b p = b.contains p := by
  unfold C12Box.containsPoint Box.contains C12Box.dim Box.dim
  by_cases h : p.length = b.lo.length
  · simp only [h, ne_eq, not_true_eq_false, decide_false, Bool.false_eq_true, if_false, if_true]
    rw [containsAux_eq b.lo b.hi p h.symm (by omega)]
  · simp [h]

theorem project_bridge (b : Box) (p : List Rat) (hl : b.lo.length = b.hi.length) : C12Box.project b p = b.project p := by
  unfold C12Box.project Box.project
  dsimp only
  rw [containsPoint_bridge b p hl]
  unfold Box.contains C12Box.dim Box.dim
  by_cases h : p.length = b.lo.length
  · simp only [h, ne_eq, not_true_eq_false, decide_false, Bool.false_eq_true, if_false, if_true, clampVec_eq, ofPt]
    have hc := clampVec_eq b.lo b.hi p
    simp only [ofPt] at hc
    cases containsAux b.lo b.hi p <;> simp [hc]
  · simp [h]

theorem distance_bridge (b : Box) (q : List Rat) (w : String) : C12Box.distance b q w = b.distance q w := by
  unfold C12Box.distance Box.distance C12Box.dim Box.dim
  by_cases h : q.length = b.lo.length
  · simp only [h, ne_eq, not_true_eq_false, decide_false, Bool.false_eq_true, if_false, if_true, distVec_eq, normOf]
    by_cases h1 : w = "l1"
    · subst h1; simp +decide
    · by_cases h2 : w = "linf"
      · subst h2; simp +decide
      · by_cases h3 : w = "l2"
        · subst h3; simp +decide
        · have e1 : (w == "l1") = false := beq_eq_false_iff_ne.mpr h1
          have e2 : (w == "linf") = false := beq_eq_false_iff_ne.mpr h2
          have e3 : (w == "l2") = false := beq_eq_false_iff_ne.mpr h3
          simp [h1, h2, h3, e1, e2, e3, List.contains, List.elem]
  · simp [h]

theorem isEmpty_bridge (b : Box) : C12Box.isEmpty b = b.isEmpty := anyGe_eq b.lo b.hi

/-! ### the box laws, on the extracted methods -/

/-- projection ∈ closed box (source) -/
theorem project_in_box_source (b : Box) (p : List Rat) (hv : AllLe b.lo b.hi) (hp : p.length = b.dim) :
    ∃ r, C12Box.project b p = some r ∧ AllLe b.lo r ∧ AllLe r b.hi := by
  rw [project_bridge b p hv.length_eq]; exact Mouette.Props.C12.project_in_box b p hv hp

/-- the projection realises the point-box distance of the source's `distance` in each norm (l2 squared) -/
theorem project_realises_source (b : Box) (q : List Rat) (hv : AllLe b.lo b.hi) (hp : q.length = b.dim)
    (x : List EQ) (hx : C12Box.project b q = some x) :
    C12Box.distance b q "l1" = some (normL1 (diffVec q x)) ∧ C12Box.distance b q "linf" = some (normLinf (diffVec q x)) ∧
    C12Box.distance b q "l2" = some (normL2sq (diffVec q x)) := by
  rw [project_bridge b q hv.length_eq] at hx
  have h1 := Mouette.Props.C12.project_realises_l1 b q hv hp x hx
  have h2 := Mouette.Props.C12.project_realises_linf b q hv hp x hx
  have h3 := Mouette.Props.C12.project_realises_l2 b q hv hp x hx
  simp only [distance_bridge, Box.distance, hp, if_true, h1, h2, h3, Box.dist2]
  simp +decide

/-- a point the source's `contains_point` accepts is at distance zero in each norm of the source's `distance` -/
theorem contained_dist_zero_source (b : Box) (q : List Rat) (hl : b.lo.length = b.hi.length)
    (hc : C12Box.containsPoint b q = some true) :
    C12Box.distance b q "l1" = some (fin 0) ∧ C12Box.distance b q "linf" = some (fin 0) ∧ C12Box.distance b q "l2" = some (fin 0) := by
  rw [containsPoint_bridge b q hl] at hc
  simp only [distance_bridge]
  exact (Mouette.Props.C12.contained_dist_zero b q hl).1 hc

/-- the source's union contains both operands -/
theorem union_contains_source (a b u : Box) (ha : a.lo.length = a.hi.length) (hb : b.lo.length = b.hi.length)
    (h : C12Box.union a b = some u) : AllLe u.lo a.lo ∧ AllLe u.lo b.lo ∧ AllLe a.hi u.hi ∧ AllLe b.hi u.hi := by
  rw [union_bridge] at h; exact Mouette.Props.C12.union_contains a b u ha hb h

/-- the source's intersection is the componentwise overlap -/
theorem inter_is_overlap_source (a b i : Box) (ha : a.lo.length = a.hi.length) (hb : b.lo.length = b.hi.length)
    (h : C12Box.inter a b = some i) :
    i.lo = List.zipWith EQ.max a.lo b.lo ∧ i.hi = List.zipWith EQ.min a.hi b.hi ∧
    ∀ p, insideClosed i.lo i.hi p = true ↔ insideClosed a.lo a.hi p = true ∧ insideClosed b.lo b.hi p = true := by
  rw [inter_bridge] at h; exact Mouette.Props.C12.inter_is_overlap a b i ha hb h

/-- the source's `do_intersect` answers True exactly when the overlap (= the source's intersection) has non-negative extent -/
theorem doIntersect_iff_overlap_source (a b : Box) (ha : AllLe a.lo a.hi) (hb : AllLe b.lo b.hi) (hd : a.dim = b.dim) :
    C12Box.doIntersect a b = some true ↔ ∃ i, C12Box.inter a b = some i ∧ AllLe i.lo i.hi := by
  rw [doIntersect_bridge a b ha.length_eq hb.length_eq, Mouette.Props.C12.doIntersect_iff_overlap a b ha hb hd, inter_bridge]
  unfold Box.inter
  rw [if_pos hd]
  constructor
  · intro h; exact ⟨_, rfl, h⟩
  · rintro ⟨i, hi, h⟩
    simp only [Option.some.injEq] at hi
    subst hi; exact h

/-- the source's `of_points` (padding ≥ 0) contains every point and is tight up to the padding -/
theorem ofPoints_source (p : List Rat) (ps : List (List Rat)) (pad : Rat) (hd : ∀ q ∈ ps, q.length = p.length) :
    (0 ≤ pad → ∀ q ∈ p :: ps, insideClosed (C12Box.ofPoints (p :: ps) pad).lo (C12Box.ofPoints (p :: ps) pad).hi q = true) ∧
    (∀ a < p.length, (∃ q ∈ p :: ps, (C12Box.ofPoints (p :: ps) pad).lo.getD a ninf = fin (q.getD a 0 - pad)) ∧
      (∃ q ∈ p :: ps, (C12Box.ofPoints (p :: ps) pad).hi.getD a pinf = fin (q.getD a 0 + pad))) :=
  ⟨fun hpad => Mouette.Props.C12.ofPoints_contains p ps pad hpad hd _ (ofPoints_bridge p ps pad hd),
   fun a ha => Mouette.Props.C12.ofPoints_tight p ps pad hd _ (ofPoints_bridge p ps pad hd) a ha⟩

/-- padding (source, vector argument): negative entries are clamped - the padded box contains the original one -/
theorem pad_superset_source (b b' : Box) (p : List Rat) (hl : b.lo.length = b.hi.length) (h : C12Box.padVec b p = some b') :
    AllLe b'.lo b.lo ∧ AllLe b.hi b'.hi := by
  rw [padVec_bridge] at h
  exact Mouette.Props.C12T.pad_superset b b' p hl h

/-! ### non-vacuity -/

example : C12Box.doIntersect ⟨[fin 0, fin 0], [fin 1, fin 1]⟩ ⟨[fin 1, fin 0], [fin 2, fin 1]⟩ = some true := by decide +kernel
example : C12Box.project ⟨[fin 0, fin 0], [fin 1, fin 1]⟩ [3, -2] = some [fin 1, fin 0] := by decide +kernel
example : C12Box.distance ⟨[fin 0, fin 0], [fin 1, fin 1]⟩ [3, -2] "l2" = some (fin 8) := by decide +kernel
example : C12Box.distance ⟨[fin 0], [fin 1]⟩ [3] "l3" = none := by decide +kernel
example : C12Box.padVec ⟨[fin 0, fin 0], [fin 1, fin 1]⟩ [2, -5] = some ⟨[fin (-2), fin 0], [fin 3, fin 1]⟩ := by decide +kernel
example : C12Box.containsPoint ⟨[fin 0], [fin 1]⟩ [1] = some false := by decide +kernel

end Mouette.Props.C12S
