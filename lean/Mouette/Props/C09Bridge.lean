import Mouette.Generated.C09Loop
import Mouette.Props.C09
/-
Bridges between the fragments translated from the CURRENT source (Generated/C09Loop.lean) and the hand-written
model the theorems of Props/C09 are about. If the source changes the meaning of a statement of the loops (operator,
operand, order that matters, missing guard, …) one of these stops compiling: a broken obligation.
-/
namespace Mouette.Props.C09
open Mouette.Dijkstra Mouette.PQ Mouette.Generated.C09

/-- the relaxation body of `shortest_path`, as written in the source, is the model's `relax` -/
theorem bridge_relax_sp : relax_sp = relax := by
  funext v s e
  unfold relax_sp relax
  simp only
  split <;> (cases h : State.visited _ e.1 <;> simp)

/-- the relaxation body of `shortest_path_to_vertex_set` (the copy of the loop) is the same `relax` -/
theorem bridge_relax_set : relax_set = relax := by
  funext v s e
  unfold relax_set relax
  simp only
  split <;> (cases h : State.visited _ e.1 <;> simp)

/-- one iteration of `while not queue.empty()` as written in the source is the model's `step` -/
theorem bridge_step_sp : step_sp = step := by
  funext pop adj s
  unfold step_sp step
  rw [bridge_relax_sp]
  cases pop s.queue with
  | none => rfl
  | some r => rfl

theorem bridge_step_set : step_set = step := by
  funext pop adj s
  unfold step_set step
  rw [bridge_relax_set]
  cases pop s.queue with
  | none => rfl
  | some r => rfl

/-- the initialisation (dicts over all vertex ids, `distance[start] = 0.`, `queue.push(start, 0.)`) -/
theorem bridge_init_sp : init_sp = init := by
  funext start; rfl

theorem bridge_init_set : init_set = init := by
  funext start; rfl

theorem prioLt_false_le {a b : Prio} (h : prioLt a b = false) : Prio.le b a = true := by
  cases a <;> cases b <;> simp_all [prioLt, Prio.le]

/-- heapq pops an item `e` such that no pending item is `__lt__` it; with the `__lt__` of the source this is the
`min` clause of the pop contract (`PopOK.min`) used by every theorem of C09. -/
theorem bridge_item_lt_min {q : Queue} {e : Nat × Prio} (h : ∀ e' ∈ q, itemLt e' e = false) :
    ∀ e' ∈ q, Prio.le e.2 e'.2 = true := by
  intro e' he'
  exact prioLt_false_le (h e' he')

/-- hence the theorems transfer verbatim to the loops as written: e.g. the source-level iteration preserves the
invariant of the model -/
theorem source_step_preserves_invariant {pop : Pop} {adj : Adj} {start n : Nat} (hpop : PopOK pop) (hnn : NonNeg adj)
    (hwf : WF adj n) {s s' : State} (R : Reach adj start n s) (h : step_sp pop adj s = some s') :
    Reach adj start n s' := by
  rw [bridge_step_sp] at h
  exact reach_step hpop hnn hwf R h

end Mouette.Props.C09
