import Mouette.Lemmas.C19Fn
import Mouette.Generated.C19FnAABB
import Mouette.Generated.C19FnSphere
import Mouette.Generated.C19FnBall
import Mouette.Generated.C19FnBox
import Mouette.Generated.C19FnPoly
import Mouette.Generated.C19FnSurf
import Mouette.Generated.C19FnCurve
import Mouette.Props.C19Source
/-
C19 (round 4) — WHOLE-FUNCTION tie. `Generated/C19Fn*.lean` hold the five samplers of `mouette/sampling.py` and the
`AABB` accessors they call, re-read imperatively from the working tree on every run (statement order, guards, mode /
option dispatch, the enumerate loop with its row stores, defaults). The bridges below prove each generated function
EQUAL to the hand model of `Model/SamplingFn.lean`; the property clauses are then stated on the generated functions,
for ANY random stream (`g`, `u`, `x`, `rnd`, `rnd2`, `choice` are arbitrary functions; only range hypotheses are made).
-/
namespace Mouette.Props.C19Fn
open Mouette.Sampling Mouette.SamplingWrap Mouette.SamplingSrc Mouette.SamplingFn Mouette.Lemmas.C19 Mouette.Lemmas.C19Fn
open Mouette.Generated.C19Fn

/-! ## bridges: generated whole function = hand model -/

/-- the `AABB` accessors as written: `dim`, `mini`, `maxi`, `span`, `center`, `is_empty` -/
theorem bridge_AABB (p1 p2 : Row) :
    AABB_dim p1 p2 = p1.length ∧ AABB_mini p1 p2 = p1 ∧ AABB_maxi p1 p2 = p2 ∧ AABB_span p1 p2 = vsub p2 p1 ∧
    AABB_center p1 p2 = vdivS (vadd p1 p2) 2 ∧ AABB_is_empty p1 p2 = boxEmpty p1 p2 := by
  refine ⟨rfl, rfl, rfl, rfl, rfl, ?_⟩
  simp only [AABB_is_empty, AABB_mini, AABB_maxi]
  exact isEmpty_src p1 p2

theorem bridge_sample_sphere (nrm : Row → Rat) (g : Nat → Row) (c : Row) (r : Rat) (n : Nat) (pc : Bool) :
    sample_sphere nrm g c r n pc = sampleSphere nrm g c r n pc := by
  cases pc <;>
    simp [sample_sphere, sampleSphere, wrapPts, PC.out, PC.addVerts, PC.new, normalDirs, divCol, rowNorms, scale, addRow,
      spherePt, sphereCoord, List.zipWith_map_left, List.zipWith_map_right, List.zipWith_map, Function.comp_def]

theorem bridge_sample_ball (nrm : Row → Rat) (cbrt : Rat → Rat) (g : Nat → Row) (u : Nat → Rat) (c : Row) (r : Rat) (n : Nat)
    (pc : Bool) : sample_ball nrm cbrt g u c r n pc = sampleBall nrm cbrt g u c r n pc := by
  cases pc <;>
    simp [sample_ball, sampleBall, wrapPts, PC.out, PC.addVerts, PC.new, normalDirs, divCol, rowNorms, mulCol, addRow,
      uniformCol, colScale, colMap, ballPt, ballCoord, List.zipWith_map_left, List.zipWith_map_right,
      Function.comp_def]

/-- the affine map of both modes, as written (`box.mini + box.span * points`), is the model's `boxMap` row by row -/
theorem bridge_boxAffine (p1 p2 : Row) (pts : Arr) :
    addRow (mulRow pts (AABB_span p1 p2)) (AABB_mini p1 p2) = pts.map (boxMap p1 p2) := by
  simp only [addRow, mulRow, AABB_span, AABB_mini, List.map_map]
  apply List.map_congr_left
  intro row _
  exact boxMap_src p1 p2 row

theorem bridge_sample_polyline (choice : Nat → Nat → List Rat → List Nat) (rnd : Nat → Rat) (lens : List Rat) (V : Arr)
    (E : List (List Nat)) (n : Nat) (pc : Bool)
    (hc : ∀ k p, (choice k n p).length = n) :
    sample_polyline choice rnd lens V E n pc = SamplingFn.samplePolyline choice rnd lens V E n pc := by
  have key : ∀ es : List Nat, es.length = n →
      (es.zipIdx).foldl (fun (b : Arr) (ix : Nat × Nat) =>
        setRow b ix.2 (vadd (smul (1 - rnd ix.2) (corner V (E.getD ix.1 []) 1)) (smul (rnd ix.2) (corner V (E.getD ix.1 []) 0))))
        (zeros n 3) = es.zipIdx.map (fun ei => polyPt rnd V E ei.1 ei.2) := by
    intro es hes
    have := foldl_setRow_zipIdx (fun e i => polyPt rnd V E e i) es (zeros n 3) (by simp [zeros, hes])
    rw [← this]
    simp only [setRow, polyPt, segPoint_src]
  by_cases h : 1 < E.length
  · have hd : decide (1 < E.length) = true := decide_eq_true h
    have k1 := key (choice E.length n (probs lens)) (hc _ _)
    simp only [sample_polyline, SamplingFn.samplePolyline, drawnEdges, hd, if_pos h, normalise_eq, if_true]
    rw [k1]
    cases pc <;> simp [wrapPts, PC.out, PC.addVerts, PC.new]
  · have hd : decide (1 < E.length) = false := decide_eq_false h
    have k1 := key (List.replicate n 0) (by simp)
    simp only [sample_polyline, SamplingFn.samplePolyline, drawnEdges, hd, if_neg h, Bool.false_eq_true, if_false]
    rw [k1]
    cases pc <;> simp [wrapPts, PC.out, PC.addVerts, PC.new]

theorem bridge_sample_surface {N : Type} (sqrt : Rat → Rat) (choice : Nat → Nat → List Rat → List Nat) (rnd2 : Nat → Rat × Rat)
    (areas : List Rat) (normals : List N) (dflt : N) (isTri : Bool) (V : Arr) (F : List (List Nat)) (n : Nat) (pc rn : Bool)
    (hc : ∀ k p, (choice k n p).length = n) :
    sample_surface sqrt choice rnd2 areas normals dflt isTri V F n pc rn
      = SamplingFn.sampleSurface sqrt choice rnd2 areas normals dflt isTri V F n pc rn := by
  have key : ∀ fs : List Nat, fs.length = n →
      (fs.zipIdx).foldl (fun (b : Arr) (ix : Nat × Nat) =>
        setRow b ix.2 (vadd
          (smul ((1 - (1 - sqrt (rnd2 ix.2).1)) * (rnd2 ix.2).2) (vsub (corner V (F.getD ix.1 []) 2) (corner V (F.getD ix.1 []) 0)))
          (vadd (smul (1 - sqrt (rnd2 ix.2).1) (vsub (corner V (F.getD ix.1 []) 1) (corner V (F.getD ix.1 []) 0)))
            (corner V (F.getD ix.1 []) 0))))
        (zeros n 3) = fs.zipIdx.map (fun fi => surfPt sqrt rnd2 V F fi.1 fi.2) := by
    intro fs hfs
    have := foldl_setRow_zipIdx (fun f i => surfPt sqrt rnd2 V F f i) fs (zeros n 3) (by simp [zeros, hfs])
    rw [← this]
    simp only [setRow, surfPt, triPoint_src]
  have k1 := key (choice F.length n (probs areas)) (hc _ _)
  cases isTri
  · simp [sample_surface, SamplingFn.sampleSurface]
  · cases rn
    · simp only [sample_surface, SamplingFn.sampleSurface, normalise_eq, if_true, Bool.false_eq_true, if_false]
      rw [k1]
      cases pc <;> simp [wrapSurface, PC.out, PC.addVerts, PC.new]
    · simp only [sample_surface, SamplingFn.sampleSurface, normalise_eq, if_true]
      rw [k1]
      cases pc <;> simp [wrapSurface, PC.out, PC.addVerts, PC.setNormals, PC.new, sampledNormals]

/-- `sample_AABB` as written = the model: argument check, empty-box guard, `dim>3 and return_point_cloud` guard, the
two modes (affine map in both), `from_arrays` / raw array -/
theorem bridge_sample_AABB (root : Nat → Nat → Nat) (x : Nat → Nat → Rat) (p1 p2 : Row) (n : Nat) (mode : String) (pc : Bool)
    (hd : p1.length ≠ 0) :
    sample_AABB root x p1 p2 n mode pc = SamplingFn.sampleAABB root x p1 p2 n mode pc := by
  obtain ⟨hdim, -, -, -, -, hemp⟩ := bridge_AABB p1 p2
  have hgrid : meshgridPts (List.replicate p1.length (linspaceV (root n p1.length))) = unitGrid p1.length (root n p1.length) := by
    cases hp : p1.length with
    | zero => exact absurd hp hd
    | succ d =>
      simp only [List.replicate_succ, meshgridPts, linspaceV, List.length_map, List.length_range, List.length_cons,
        List.length_replicate, unitGrid]
      apply List.map_congr_left
      intro t ht
      apply List.map_congr_left
      intro k hk
      have hk' : k < root n (d + 1) :=
        (digitTuples_mem _ _ t ht).2 k ((xySwap_mem t k).mp hk)
      simp [List.getD_eq_getElem?_getD, hk']
  unfold sample_AABB SamplingFn.sampleAABB
  by_cases hu : mode = "uniform"
  · subst hu
    simp only [hemp, hdim, bridge_boxAffine]
    by_cases he : boxEmpty p1 p2 = true
    · simp [he]
    · by_cases h3 : 3 < p1.length <;> cases pc <;>
        simp [he, h3, wrapBox, boxPoints, aabbUniform, fromArrays]
  · by_cases hg : mode = "grid"
    · subst hg
      simp only [hemp, hdim, bridge_boxAffine, hgrid]
      by_cases he : boxEmpty p1 p2 = true
      · simp [he]
      · by_cases h3 : 3 < p1.length <;> cases pc <;>
          simp [he, h3, wrapBox, boxPoints, aabbGrid, fromArrays]
    · simp [hu, hg]

/-- the default values written in the five `def` lines: raw arrays, no normals, uniform mode -/
theorem bridge_defaults :
    sample_sphere_defaults = [("return_point_cloud", "False")] ∧ sample_ball_defaults = [("return_point_cloud", "False")] ∧
    sample_AABB_defaults = [("mode", "'uniform'"), ("return_point_cloud", "False")] ∧
    sample_polyline_defaults = [("return_point_cloud", "False")] ∧
    sample_surface_defaults = [("return_point_cloud", "False"), ("return_normals", "False")] := by
  refine ⟨rfl, rfl, rfl, rfl, rfl⟩

/-! ## the property clauses on the generated whole functions, for ANY random stream -/

theorem wrapPts_points (pc : Bool) (pts : List Pt) : (wrapPts pc pts).points = pts ∧ (wrapPts pc pts).isCloud = pc := by
  cases pc <;> simp [wrapPts, Out.points, Out.isCloud]

/-- `sample_sphere` as written, for ANY stream of normal draws with non-zero norm, any centre, any radius, both
containers: it returns, exactly `n_pts` points, in the requested container, each at squared distance `radius²` of the centre -/
theorem sphere_fn_on_sphere (nrm : Row → Rat) (g : Nat → V3) (c : V3) (r : Rat) (n : Nat) (pc : Bool)
    (hn : ∀ i, i < n → nrm (toL (g i)) * nrm (toL (g i)) = normSq3 (g i) ∧ nrm (toL (g i)) ≠ 0) :
    ∃ out, sample_sphere nrm (fun i => toL (g i)) (toL c) r n pc = .ok out ∧ out.points.length = n ∧ out.isCloud = pc ∧
      ∀ i, i < n → ∃ p : V3, out.points[i]? = some (toL p) ∧ normSq3 (sub3 p c) = r * r := by
  rw [bridge_sample_sphere]
  refine ⟨_, rfl, ?_, (wrapPts_points _ _).2, ?_⟩
  · rw [(wrapPts_points _ _).1]; simp
  · intro i hi
    obtain ⟨h1, h2⟩ := hn i hi
    refine ⟨spherePoint c r (g i) (nrm (toL (g i))), ?_, ?_⟩
    · rw [(wrapPts_points _ _).1]
      simp [hi, spherePt, toL, spherePoint]
    · obtain ⟨c1, c2, c3⟩ := c
      generalize g i = gi at h1 h2 ⊢
      obtain ⟨g1, g2, g3⟩ := gi
      generalize nrm _ = s at h1 h2 ⊢
      simp only [normSq3, dot3, sub3, spherePoint, sphereCoord] at h1 ⊢
      field_simp
      linear_combination (r ^ 2) * h1.symm

/-- `sample_ball` as written, for ANY stream of normal draws (non-zero norm) and ANY stream of uniforms in `[0,1)`, with `cbrt`
any function whose cube gives back its argument on the draws: `n_pts` points, requested container, all within `radius` -/
theorem ball_fn_in_ball (nrm : Row → Rat) (cbrt : Rat → Rat) (g : Nat → V3) (u : Nat → Rat) (c : V3) (r : Rat) (n : Nat) (pc : Bool)
    (hn : ∀ i, i < n → nrm (toL (g i)) * nrm (toL (g i)) = normSq3 (g i) ∧ nrm (toL (g i)) ≠ 0)
    (hu : ∀ i, i < n → 0 ≤ u i ∧ u i < 1 ∧ cbrt (u i) * cbrt (u i) * cbrt (u i) = u i) :
    ∃ out, sample_ball nrm cbrt (fun i => toL (g i)) u (toL c) r n pc = .ok out ∧ out.points.length = n ∧ out.isCloud = pc ∧
      ∀ i, i < n → ∃ p : V3, out.points[i]? = some (toL p) ∧ normSq3 (sub3 p c) ≤ r * r := by
  rw [bridge_sample_ball]
  refine ⟨_, rfl, ?_, (wrapPts_points _ _).2, ?_⟩
  · rw [(wrapPts_points _ _).1]; simp
  · intro i hi
    obtain ⟨h1, h2⟩ := hn i hi
    obtain ⟨u0, u1, hcb⟩ := hu i hi
    refine ⟨ballPoint c r (g i) (nrm (toL (g i))) (cbrt (u i)), ?_, ?_⟩
    · rw [(wrapPts_points _ _).1]
      simp [hi, ballPt, toL, ballPoint]
    · obtain ⟨hc0, hc1⟩ := cbrt_unit hcb u0 (le_of_lt u1)
      obtain ⟨c1, c2, c3⟩ := c
      generalize g i = gi at h1 h2 ⊢
      obtain ⟨g1, g2, g3⟩ := gi
      generalize nrm _ = s at h1 h2 ⊢
      generalize cbrt (u i) = cb at hc0 hc1 ⊢
      have key : normSq3 (sub3 (ballPoint (c1, c2, c3) r (g1, g2, g3) s cb) (c1, c2, c3)) = (r * cb) * (r * cb) := by
        simp only [normSq3, dot3, sub3, ballPoint, ballCoord] at h1 ⊢
        field_simp
        linear_combination (r ^ 2 * cb ^ 2) * h1.symm
      rw [key]
      have : cb * cb ≤ 1 := by nlinarith
      nlinarith [mul_nonneg (mul_self_nonneg r) (sub_nonneg.mpr this)]

/-- `sample_AABB` as written returns (does not raise) exactly when the mode is one of the two, the box is not empty and
a point cloud is not asked for in dimension > 3 -/
theorem box_fn_returns_iff (root : Nat → Nat → Nat) (x : Nat → Nat → Rat) (p1 p2 : Row) (n : Nat) (mode : String) (pc : Bool)
    (hd : p1.length ≠ 0) :
    (∃ out, sample_AABB root x p1 p2 n mode pc = .ok out) ↔
      ((mode = "uniform" ∨ mode = "grid") ∧ boxEmpty p1 p2 = false ∧ ¬ (3 < p1.length ∧ pc = true)) := by
  rw [bridge_sample_AABB _ _ _ _ _ _ _ hd]
  unfold SamplingFn.sampleAABB
  by_cases hu : mode = "uniform" <;> by_cases hg : mode = "grid" <;> by_cases he : boxEmpty p1 p2 = true <;>
    by_cases h3 : 3 < p1.length <;> cases pc <;> simp [hu, hg, he, h3, wrapBox]

/-- `sample_AABB` as written, both modes, every dimension ≥ 1, ANY stream of uniforms in `[0,1)`: whenever it returns, the
box satisfies `mini ≤ maxi`, the container is the requested one, the count is `n_pts` (uniform) resp. `res^dim` (grid,
`res = round(n_pts^(1/dim))` as numpy computes it), and every point (first `dim` coordinates; a point cloud pads with
zeros) lies in the box -/
theorem box_fn_contained (root : Nat → Nat → Nat) (x : Nat → Nat → Rat) (p1 p2 : Row) (n : Nat) (mode : String) (pc : Bool)
    (hd : p1.length ≠ 0) (hlen : p1.length = p2.length) (hx : ∀ i k, 0 ≤ x i k ∧ x i k < 1)
    (out : Out Unit) (hout : sample_AABB root x p1 p2 n mode pc = .ok out) :
    BoxLE p1 p2 ∧ out.isCloud = pc ∧
    (mode = "uniform" → out.points.length = n) ∧ (mode = "grid" → out.points.length = (root n p1.length) ^ p1.length) ∧
    ∀ p ∈ out.points, InBox p1 p2 (p.take p1.length) := by
  rw [bridge_sample_AABB _ _ _ _ _ _ _ hd] at hout
  unfold SamplingFn.sampleAABB at hout
  by_cases hm : mode ≠ "uniform" ∧ mode ≠ "grid"
  · simp [hm] at hout
  · rw [if_neg hm] at hout
    by_cases he : boxEmpty p1 p2 = true
    · simp [he] at hout
    · have he' : boxEmpty p1 p2 = false := by simpa using he
      have hb : BoxLE p1 p2 := boxEmpty_false_boxLE p1 p2 hlen he'
      rw [if_neg he] at hout
      -- the points before wrapping: in the box, of dimension `dim`
      have hpts : ∀ q ∈ boxPoints root x p1 p2 n (decide (mode = "grid")), InBox p1 p2 q ∧ q.length = p1.length := by
        intro q hq
        unfold boxPoints at hq
        by_cases hg : mode = "grid"
        · simp only [hg, decide_true, if_true] at hq
          obtain ⟨t, ht, rfl⟩ := List.mem_map.mp hq
          obtain ⟨h1, h2⟩ := unitGrid_mem p1.length _ t ht
          exact ⟨boxMap_inBox p1 p2 t hb h1 h2, boxMap_length p1 p2 t hlen h1⟩
        · simp only [hg, decide_false, Bool.false_eq_true, if_false] at hq
          obtain ⟨t, ht, rfl⟩ := List.mem_map.mp hq
          simp only [randomArr, List.mem_map, List.mem_range] at ht
          obtain ⟨i, _, rfl⟩ := ht
          have h1 : ((List.range p1.length).map (x i)).length = p1.length := by simp
          refine ⟨boxMap_inBox p1 p2 _ hb h1 ?_, boxMap_length p1 p2 _ hlen h1⟩
          intro y hy
          obtain ⟨k, _, rfl⟩ := List.mem_map.mp hy
          exact ⟨(hx i k).1, le_of_lt (hx i k).2⟩
      have hcnt : (mode = "uniform" → (boxPoints root x p1 p2 n (decide (mode = "grid"))).length = n) ∧
          (mode = "grid" → (boxPoints root x p1 p2 n (decide (mode = "grid"))).length = (root n p1.length) ^ p1.length) := by
        constructor
        · intro h; subst h; simp [boxPoints, aabbUniform, randomArr]
        · intro h; subst h; simp [boxPoints, aabbGrid, unitGrid, digitTuples_length]
      generalize boxPoints root x p1 p2 n (decide (mode = "grid")) = pts at hout hpts hcnt
      have hw : out.points.length = pts.length ∧ out.isCloud = pc ∧ (pc = false → out.points = pts) ∧
          (pc = true → out.points = pts.map pad3) := by
        by_cases h3 : 3 < p1.length <;> cases pc <;> simp [wrapBox, h3] at hout <;> subst hout <;>
          simp [Out.points, Out.isCloud]
      obtain ⟨w1, w2, w3, w4⟩ := hw
      refine ⟨hb, w2, fun h => by rw [w1]; exact hcnt.1 h, fun h => by rw [w1]; exact hcnt.2 h, ?_⟩
      intro p hp
      cases pc with
      | false =>
        rw [w3 rfl] at hp
        obtain ⟨h1, h2⟩ := hpts p hp
        rw [← h2, List.take_length]; exact h1
      | true =>
        rw [w4 rfl] at hp
        obtain ⟨q, hq, rfl⟩ := List.mem_map.mp hp
        obtain ⟨h1, h2⟩ := hpts q hq
        rw [← h2, pad3_take]; exact h1

/-- `sample_polyline` as written, for ANY `choice` returning `n_pts` indices and ANY stream of uniforms in `[0,1)`, both
containers: `n_pts` points; point `i` is `t·A + (1-t)·B` for the two end points `A, B` of the edge drawn for sample `i`
(edge 0 when the polyline has at most one edge), hence on that edge -/
theorem polyline_fn_on_edges (choice : Nat → Nat → List Rat → List Nat) (rnd : Nat → Rat) (lens : List Rat) (V : Arr)
    (E : List (List Nat)) (n : Nat) (pc : Bool) (hc : ∀ k p, (choice k n p).length = n)
    (ht : ∀ i, 0 ≤ rnd i ∧ rnd i < 1) :
    ∃ out, sample_polyline choice rnd lens V E n pc = .ok out ∧ out.points.length = n ∧ out.isCloud = pc ∧
      out.normals = none ∧
      ∀ i, i < n → ∃ e p, (drawnEdges choice lens E.length n)[i]? = some e ∧ out.points[i]? = some p ∧
        (E.length ≤ 1 → e = 0) ∧
        ((corner V (E.getD e []) 0).length = (corner V (E.getD e []) 1).length →
          OnSegment (corner V (E.getD e []) 0) (corner V (E.getD e []) 1) p) := by
  rw [bridge_sample_polyline _ _ _ _ _ _ _ hc]
  have hlen : (drawnEdges choice lens E.length n).length = n := by
    unfold drawnEdges; split <;> simp [hc]
  refine ⟨_, rfl, ?_, (wrapPts_points _ _).2, by cases pc <;> simp [wrapPts, Out.normals], ?_⟩
  · rw [(wrapPts_points _ _).1]; simp [hlen]
  · intro i hi
    have hi' : i < (drawnEdges choice lens E.length n).length := by omega
    refine ⟨(drawnEdges choice lens E.length n)[i], polyPt rnd V E (drawnEdges choice lens E.length n)[i] i,
      by simp [hi'], ?_, ?_, ?_⟩
    · rw [(wrapPts_points _ _).1]
      simp [hi']
    · intro hE
      have : ¬ 1 < E.length := by omega
      simp [drawnEdges, this]
    · intro hl
      exact ⟨rnd i, (ht i).1, le_of_lt (ht i).2, segPoint_eq _ _ _ hl⟩

/-- `sample_surface` as written, all four combinations of `return_point_cloud` / `return_normals`, for ANY `choice` returning
`n_pts` indices, ANY stream of pairs of uniforms in `[0,1)` and any `sqrt` with `sqrt(u)² = u`, `sqrt(u) ≥ 0` on the draws:
it raises exactly on a non-triangular mesh; otherwise `n_pts` points in the requested container, normals present iff
requested and then (position by position) the normals of the drawn faces, and point `i` is a convex combination of the
three corners of the face drawn for sample `i` -/
theorem surface_fn_in_faces {N : Type} (sqrt : Rat → Rat) (choice : Nat → Nat → List Rat → List Nat) (rnd2 : Nat → Rat × Rat)
    (areas : List Rat) (normals : List N) (dflt : N) (V : Arr) (F : List (List Nat)) (n : Nat) (pc rn : Bool)
    (hc : ∀ k p, (choice k n p).length = n)
    (hu : ∀ i, 0 ≤ (rnd2 i).1 ∧ (rnd2 i).1 < 1 ∧ 0 ≤ (rnd2 i).2 ∧ (rnd2 i).2 < 1 ∧
      sqrt (rnd2 i).1 * sqrt (rnd2 i).1 = (rnd2 i).1 ∧ 0 ≤ sqrt (rnd2 i).1) :
    sample_surface sqrt choice rnd2 areas normals dflt false V F n pc rn = .raised "AssertionError" ∧
    ∃ out, sample_surface sqrt choice rnd2 areas normals dflt true V F n pc rn = .ok out ∧ out.points.length = n ∧
      out.isCloud = pc ∧
      out.normals = (if rn then some ((choice F.length n (probs areas)).map (fun f => normals.getD f dflt)) else none) ∧
      ∀ i, i < n → ∃ f p, (choice F.length n (probs areas))[i]? = some f ∧ out.points[i]? = some p ∧
        InTriangle (corner V (F.getD f []) 0) (corner V (F.getD f []) 1) (corner V (F.getD f []) 2) p := by
  rw [bridge_sample_surface _ _ _ _ _ _ _ _ _ _ _ _ hc, bridge_sample_surface _ _ _ _ _ _ _ _ _ _ _ _ hc]
  refine ⟨by simp [SamplingFn.sampleSurface],
    wrapSurface pc rn ((choice F.length n (probs areas)).zipIdx.map (fun fi => surfPt sqrt rnd2 V F fi.1 fi.2))
      (sampledNormals dflt normals (choice F.length n (probs areas))),
    by simp only [SamplingFn.sampleSurface, if_true], ?_, ?_, ?_, ?_⟩
  · cases pc <;> cases rn <;> simp [wrapSurface, Out.points, hc]
  · cases pc <;> cases rn <;> simp [wrapSurface, Out.isCloud]
  · cases pc <;> cases rn <;> simp [wrapSurface, Out.normals, sampledNormals]
  · intro i hi
    have hi' : i < (choice F.length n (probs areas)).length := by rw [hc]; exact hi
    have hpts : ∀ pts (sn : List N), (wrapSurface pc rn pts sn).points = pts := by
      intro pts sn; cases pc <;> cases rn <;> simp [wrapSurface, Out.points]
    refine ⟨(choice F.length n (probs areas))[i], surfPt sqrt rnd2 V F (choice F.length n (probs areas))[i] i,
      by simp [hi'], ?_, ?_⟩
    · rw [hpts]
      simp [hi']
    · obtain ⟨a0, a1, b0, b1, hs, hs0⟩ := hu i
      have hs1 : sqrt (rnd2 i).1 ≤ 1 := sqrt_unit hs hs0 (le_of_lt a1)
      refine ⟨sqrt (rnd2 i).1 * (1 - (rnd2 i).2), 1 - sqrt (rnd2 i).1, (rnd2 i).2 * sqrt (rnd2 i).1, ?_, ?_, ?_, ?_,
        triPoint_eq _ _ _ _ _⟩
      · exact mul_nonneg hs0 (by linarith)
      · linarith
      · exact mul_nonneg b0 hs0
      · ring

/-! ## grid resolution `res = round(np.power(n_pts, 1/dim))`: no ties, unique answer, harmless float error

The source has NO integer correction step after the float root. These theorems say when none is needed. -/

/-- for `d ≥ 1` no count `n` has its `d`-th root exactly halfway between two integers: `(r + 1/2)^d ≠ n`, in integers
`(2r+1)^d ≠ 2^d·n` (odd vs even); so "nearest integer to `n^(1/d)`" never has a tie -/
theorem grid_no_halfway (r d n : ℕ) (hd : d ≠ 0) : (2 * r + 1) ^ d ≠ 2 ^ d * n := by
  intro h
  have h1 : (2 * r + 1) ^ d % 2 = 1 := by
    rw [Nat.pow_mod]
    have : (2 * r + 1) % 2 = 1 := by omega
    rw [this, Nat.one_pow]
  cases d with
  | zero => exact hd rfl
  | succ e =>
    rw [h] at h1
    have h2 : 2 ^ (e + 1) * n % 2 = 0 := by
      rw [Nat.pow_succ, Nat.mul_comm (2 ^ e) 2, Nat.mul_assoc]
      exact Nat.mul_mod_right 2 _
    omega

/-- hence the oracle's integer test `(2res-1)^d ≤ 2^d n ≤ (2res+1)^d` has AT MOST ONE solution `res ≥ 1`: the number of grid
points `res^d` is determined by `n_pts` and the dimension -/
theorem grid_resolution_unique (r r' d n : ℕ) (hd : d ≠ 0) (hr : 1 ≤ r) (hr' : 1 ≤ r')
    (h : (2 * r - 1) ^ d ≤ 2 ^ d * n ∧ 2 ^ d * n ≤ (2 * r + 1) ^ d)
    (h' : (2 * r' - 1) ^ d ≤ 2 ^ d * n ∧ 2 ^ d * n ≤ (2 * r' + 1) ^ d) : r = r' := by
  by_contra hne
  rcases Nat.lt_or_gt_of_ne hne with hlt | hlt
  · have : (2 * r + 1) ^ d ≤ (2 * r' - 1) ^ d := Nat.pow_le_pow_left (by omega) d
    exact grid_no_halfway r d n hd (by omega)
  · have : (2 * r' + 1) ^ d ≤ (2 * r - 1) ^ d := Nat.pow_le_pow_left (by omega) d
    exact grid_no_halfway r' d n hd (by omega)

/-- float error of the root is harmless below the margin: if the exact root `x` is nearer than `1/2` to the integer `r` and
the computed root `y` is off by less than the remaining margin `1/2 - |r - x|`, then `r` is still strictly the nearest
integer to `y`: `round(y) = r`, no correction step needed -/
theorem grid_rounding_error_harmless {K : Type} [Field K] [LinearOrder K] [IsStrictOrderedRing K]
    (r x y : K) (herr : |y - x| < 1 / 2 - |r - x|) : |r - y| < 1 / 2 := by
  have h1 : |r - y| ≤ |r - x| + |x - y| := by
    have : r - y = (r - x) + (x - y) := by ring
    rw [this]; exact abs_add_le _ _
  have h2 : |x - y| = |y - x| := abs_sub_comm x y
  linarith

/-- … and `r` is then the only such integer: any other integer `r'` is at distance more than `1/2` from `y` -/
theorem grid_rounding_unique_int (r r' : ℤ) {K : Type} [Field K] [LinearOrder K] [IsStrictOrderedRing K] (y : K)
    (h : |(r : K) - y| < 1 / 2) (hne : r ≠ r') : 1 / 2 < |(r' : K) - y| := by
  have h1 : (1 : K) ≤ |(r' : K) - (r : K)| := by
    have : (1 : ℤ) ≤ |r' - r| := Int.one_le_abs (sub_ne_zero.mpr (Ne.symm hne))
    have h2 : ((1 : ℤ) : K) ≤ ((|r' - r| : ℤ) : K) := by exact_mod_cast this
    simpa using h2
  have h3 : |(r' : K) - (r : K)| ≤ |(r' : K) - y| + |(r : K) - y| := by
    have : (r' : K) - (r : K) = ((r' : K) - y) - ((r : K) - y) := by ring
    rw [this]; exact abs_sub _ _
  linarith

/-! ## BezierCurve.evaluate / order, BezierPatch.order (whole bodies) -/

/-- `BezierCurve.evaluate(t)` as written (delegation `de_casteljau(self.pts, t)`, with the guard and loop nest of the source)
is the model's guarded evaluation -/
theorem bridge_curveEvaluate (t : Rat) (P : List Rat) :
    curveEvaluate (fun P t => srcDeCasteljau? t P) P t = Mouette.Bezier.deCasteljau? t P := by
  simp only [curveEvaluate, srcDeCasteljau?, Mouette.Bezier.deCasteljau?, Mouette.Props.C19Source.bridge_dcRaises,
    Mouette.Lemmas.C19.srcDeCasteljau_eq]
  cases Mouette.Bezier.inRange t <;> simp

theorem bridge_orders (nrows ncols : Nat) : curveOrder nrows = nrows - 1 ∧ patchOrder nrows ncols = (nrows - 1, ncols - 1) :=
  ⟨rfl, rfl⟩

/-- source level: `evaluate` rejects exactly the parameters outside `[0,1]` and otherwise returns the Bernstein polynomial of
degree `order` (the value of the `order` property) of the control values, every degree, every `t` -/
theorem curve_evaluate_source (t : Rat) (P : List Rat) :
    ((t < 0 ∨ 1 < t) → curveEvaluate (fun P t => srcDeCasteljau? t P) P t = none) ∧
    ((0 ≤ t ∧ t ≤ 1) → curveEvaluate (fun P t => srcDeCasteljau? t P) P t =
      some (∑ i ∈ Finset.range (curveOrder P.length + 1),
        (((curveOrder P.length).choose i : Nat) : Rat) * t ^ i * (1 - t) ^ (curveOrder P.length - i) * P.getD i 0)) := by
  constructor
  · intro h
    have : Mouette.Generated.C19.dcRaises t = true := (Mouette.Props.C19Source.dcRaises_iff t).mpr h
    simp [curveEvaluate, srcDeCasteljau?, this]
  · intro h
    have : Mouette.Generated.C19.dcRaises t = false := by
      cases hr : Mouette.Generated.C19.dcRaises t with
      | false => rfl
      | true =>
        rcases (Mouette.Props.C19Source.dcRaises_iff t).mp hr with h' | h' <;> linarith [h.1, h.2]
    simp only [curveEvaluate, srcDeCasteljau?, this, Bool.false_eq_true, if_false, curveOrder,
      Mouette.Props.C19Source.source_deCasteljau_eq_bernstein]

/-! non-vacuity: the generated functions evaluated on concrete draws -/
example : sample_sphere (fun _ => 3) (fun _ => [1, 2, 2]) [1, 1, 1] 3 1 false = .ok (.array [[2, 3, 3]]) := by
  decide +kernel
example : sample_ball (fun _ => 3) (fun v => if v = 1 / 8 then 1 / 2 else 0) (fun _ => [1, 2, 2]) (fun _ => 1 / 8) [0, 0, 0] 6 1 true
    = .ok (.cloud [[1, 2, 2]] none) := by
  decide +kernel
example : sample_AABB (fun _ _ => 2) (fun _ _ => 0) [2, 10] [3, 14] 5 "grid" false
    = .ok (.array [[2, 10], [3, 10], [2, 14], [3, 14]]) := by
  decide +kernel
example : sample_AABB (fun _ _ => 2) (fun _ _ => 1 / 2) [2, 10] [3, 14] 2 "uniform" true
    = .ok (.cloud [[5 / 2, 12, 0], [5 / 2, 12, 0]] none) := by
  decide +kernel
example : sample_AABB (fun _ _ => 2) (fun _ _ => 0) [2] [2] 5 "grid" false = .raised "Exception" := by decide +kernel
example : sample_AABB (fun _ _ => 2) (fun _ _ => 0) [2] [3] 5 "lattice" false = .raised "InvalidArgumentValueError" := by
  decide +kernel
example : sample_polyline (fun _ n _ => List.replicate n 1) (fun _ => 1 / 4) [1, 1] [[0, 0, 0], [4, 0, 0], [4, 8, 0]]
    [[0, 1], [1, 2]] 2 false = .ok (.array [[4, 6, 0], [4, 6, 0]]) := by
  decide +kernel
example : (2 * 2 + 1) ^ 3 ≠ 2 ^ 3 * 16 := grid_no_halfway 2 3 16 (by decide)          -- 2.5³ = 15.625 is not a count
example : |(2 : ℚ) - 2001 / 1000| < 1 / 2 :=                                            -- x = 2 (n = 8, d = 3), y = 2.001
  grid_rounding_error_harmless 2 2 (2001 / 1000) (by norm_num [abs_of_pos])
example : curveEvaluate (fun P t => srcDeCasteljau? t P) [0, 2, 1] (1 / 2) = some (5 / 4) := by
  rw [bridge_curveEvaluate]; norm_num [Mouette.Bezier.deCasteljau?, Mouette.Bezier.inRange, Mouette.Bezier.deCasteljau,
    Mouette.Bezier.loop, Mouette.Bezier.pass, Mouette.Bezier.lerp]
example : sample_surface (N := Nat) (fun v => if v = 1 / 4 then 1 / 2 else 0) (fun _ n _ => List.replicate n 0) (fun _ => (1 / 4, 1 / 2))
    [1] [7] 0 true [[0, 0, 0], [4, 0, 0], [0, 4, 0]] [[0, 1, 2]] 1 false true = .ok (.arrayNormals [[2, 1, 0]] [7]) := by
  decide +kernel

end Mouette.Props.C19Fn
