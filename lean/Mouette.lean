-- Root of the `Mouette` library: models, generated fragments, lemmas and property theorems.
import Mouette.Model.Proto
import Mouette.Model.UnionFind
import Mouette.Model.PQueue
import Mouette.Model.DriveC20
