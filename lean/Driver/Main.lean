import Mouette.Model.DriveC20
/- Line-protocol driver: one request per line on stdin, one reply per line on stdout. -/
open Mouette

def dispatch (line : String) : String :=
  let ts := (line.splitOn " ").filter (· ≠ "")
  match ts with
  | [] => "bad-request"
  | "C20" :: r => (DriveC20.handle r).getD "bad-request"
  | _ => "bad-request"

partial def loop (h : IO.FS.Stream) (out : IO.FS.Stream) : IO Unit := do
  let line ← h.getLine
  if line.isEmpty then return ()
  let l := line.trimAscii.toString
  out.putStrLn (dispatch l)
  loop h out

def main : IO Unit := do
  let out ← IO.getStdout
  loop (← IO.getStdin) out
  out.flush
