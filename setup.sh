#!/bin/bash
# MANIFEST.setup_cmd: regenerate translated fragments from /repo, build all Lean modules and the driver.
set -e
cd "$(dirname "$0")"
export PYTHONPATH="$PWD"
/venv/bin/python -W ignore tools/translate.py || true
/venv/bin/python tools/gen_roots.py
cd lean
lake build Mouette mouette_model 2>&1 | tail -5
