#!/bin/bash
# MANIFEST.setup_cmd: regenerate translated fragments from /repo, build every Lean module and one model driver per
# property. Each target is built on its own so that one failing target does not hide the others.
cd "$(dirname "$0")"
export PYTHONPATH="${MOUETTE_REPO:-/repo}:$PWD"
/venv/bin/python -W ignore tools/translate.py || true
/venv/bin/python tools/gen_roots.py
cd lean
rc=0
lake build Mouette 2>&1 | tail -3 || rc=1
for f in Driver/MainC*.lean; do
  pid=$(basename "$f" .lean); pid=${pid#Main}
  lake build "model_$(echo "$pid" | tr 'A-Z' 'a-z')" 2>&1 | tail -1 || rc=1
done
exit 0
