"""C15 — border and feature extraction are exact."""
import ast, json, math
from fractions import Fraction

from .. import translate as T
from ..gen import mesh as G
from ..gen import c15_source as CS
from .c01 import Spec, _rotmin

PID = "C15"
TITLE = "Border and feature extraction are exact"
LEAN_MODULES = ["Mouette.Props.C15", "Mouette.Props.C15Border", "Mouette.Props.C15Runs", "Mouette.Props.C15Source"]
REQUIRED_THEOREMS = [
    "thresholds_bridge", "sharp_threshold_is_sixty_degrees", "hard_threshold_is_arccos", "cosLt_unit_iff", "cosLt_scale_invariant", "flagged_iff", "feature_set_exact", "feature_set_only_border",
    "feature_vertices_spec", "feature_degree_spec", "local_feat_spec",
    "indexMap_lookup", "indexMap_injective", "boundary_index_map_roundtrip", "walk_closed_lengths",
    # round 2
    "first_ring_neighbour", "border_cycle_correct", "border_cycles_all_correct", "borderWfB_sound",
    # round 3
    "generated_run_resets", "nth_run_eq_fresh", "fresh_run_is_stateless", "feature_set_exact_after_history",
    "boundary_edges_collected", "boundary_polyline_correct", "border_umbrella_of_umbrella",
    # round 4: bodies of border.py / features.py translated imperatively + bridges
    "source_extract_border_cycle_eq_model", "source_extract_border_cycle_default", "source_walk_loop_exits_by_its_condition",
    "source_border_cycle_correct", "source_extract_border_cycle_all_eq_model", "source_border_cycles_all_correct",
    "source_extract_boundary_eq_model", "source_boundary_polyline_correct", "cyclesOk_of_mesh",
    "source_feature_passes_eq_model", "source_feature_set_exact", "source_flag_corners_eq_model", "source_corner_flagging_exact",
    # round 5: bodies of run() / clear()
    "source_run_resets", "source_run_feature_edges_exact", "source_run_feature_vertices_exact", "source_run_degrees_eq_model",
    "source_run_local_feat_exact", "source_run_attributes", "source_run_corner_flags",
]
TRUSTED = [
    "Lean 4.33.0 kernel; axioms ⊆ {propext, Classical.choice, Quot.sound}",
    "threshold translator (features.py: the two DOT_THRESHOLD literals, the comparison operators and the `1 - DOT_THRESHOLD` "
    "expression are read with Python ast; any other shape is refused)",
    "hand-written models Mouette/Model/Border.lean, Features.lean tied to border.py/features.py by the correspondence of this run",
    "body translator vlib/gen/c01_pylean.py + vocabulary vlib/gen/c15_source.py (how the mesh API border.py/features.py call - "
    "boundary_vertices, vertex_to_vertices, edge_id, edge_to_faces, geometry.dot(fnormals[..]) < t, attributes used as sets / dicts - "
    "is rendered in Lean); the bridges Generated = Model are theorems",
    "floating point: the code compares float dot products of (unit) normals; the model compares exact rationals; inputs are "
    "generated away from the thresholds by > 1e-7 or exactly on them with exactly representable dot products",
    "face normals / corner angles themselves belong to C07 (the harness recomputes them independently)",
]
ASSUMPTIONS = ["input is an oriented manifold polygon surface (generator + independent check); config.sort_neighborhoods at its default (True)",
               "agreement model/implementation is established on the meshes explored in this run only"]
RULE = ("border: random manifold surfaces with 0..4+ border loops, 1-2 components, chords between border vertices; every border "
        "vertex (and one interior vertex) as starting point; features: triangle meshes with their own geometry (folded strips/grids "
        "with dihedral angles on both sides of 60° and 36.87°) and polygon meshes with injected exact normals (dot exactly at, just "
        "below, just above 0.5 and 0.8), random declared hard edges, only_border/flag_corners/corner_order options; non-trivial = "
        "distinct case with ≥ 1 border loop (border) or ≥ 1 interior edge flagged or examined at a threshold (features)")


# ------------------------------------------------------------------------------------------------
# building
# ------------------------------------------------------------------------------------------------
VREPS = ["vec", "list", "ndarray", "tuple", "int", "npint"]   # how the coordinates are handed to RawMeshData
FREPS = ["list", "tuple", "ndarray", "npint"]                 # how faces / declared hard edges are handed over


def _coords(case):
    """coordinates as handed to mouette. "int"/"npint": case["V"] holds integer-valued floats (a surface scaled by its
    common dyadic denominator: same normals and angles), handed over as Python ints / numpy int64 arrays."""
    import numpy as np
    import mouette as M
    r = case.get("vrep", "vec")
    V = case["V"]
    if r == "list": return [list(v) for v in V]
    if r == "tuple": return [tuple(v) for v in V]
    if r == "ndarray": return [np.array(v, dtype=float) for v in V]
    if r == "int": return [[int(x) for x in v] for v in V]
    if r == "npint": return [np.array([int(x) for x in v], dtype=np.int64) for v in V]
    return [M.Vec(*v) for v in V]


def _ids(rows, rep):
    import numpy as np
    if rep == "tuple": return [tuple(r) for r in rows]
    if rep == "ndarray": return [np.array(r) for r in rows]
    if rep == "npint": return [[np.int64(x) for x in r] for r in rows]
    return [list(r) for r in rows]


def _mesh(case, hard_pairs=()):
    import mouette as M
    import mouette.config as cfg
    cfg.sort_neighborhoods = True
    d = M.mesh.RawMeshData()
    d.vertices += _coords(case)
    fr = case.get("frep", "list")
    if hard_pairs: d.edges += [tuple(p) for p in hard_pairs] if fr == "list" else _ids(hard_pairs, fr)
    d.faces += _ids(case["F"], fr)
    return M.mesh.SurfaceMesh(d)


def _ecanon(m, spec, e):
    if e is None: return None
    a, b = m.edges[int(e)]
    return spec.ecanon.get((min(a, b), max(a, b)), 10 ** 6 + int(e))


def _o(x): return "N" if x is None else str(int(x))
def _l(xs): xs = list(xs); return " ".join([str(len(xs))] + [_o(x) for x in xs])


# ------------------------------------------------------------------------------------------------
# exact geometry (Fractions)
# ------------------------------------------------------------------------------------------------
def _fv(v): return [Fraction(x) for x in v]
def _sub(a, b): return [a[i] - b[i] for i in range(3)]
def _cross(a, b): return [a[1] * b[2] - a[2] * b[1], a[2] * b[0] - a[0] * b[2], a[0] * b[1] - a[1] * b[0]]
def _dot(a, b): return sum(a[i] * b[i] for i in range(3))


def face_normal_exact(case, f):
    if case.get("normals"): return _fv(case["normals"][f])
    A, B, C = (_fv(case["V"][v]) for v in case["F"][f][:3])
    return _cross(_sub(B, A), _sub(C, A))


def edge_dq(case, spec):
    """per canonical edge: (d, q) exact for interior edges, None for border edges"""
    out = []
    for (a, b) in spec.ekeys:
        f1, f2 = spec.dface(a, b), spec.dface(b, a)
        if f1 is None or f2 is None: out.append(None); continue
        n1, n2 = face_normal_exact(case, f1), face_normal_exact(case, f2)
        d = _dot(n1, n2)
        q = Fraction(1) if case.get("normals") else _dot(n1, n1) * _dot(n2, n2)
        out.append((d, q))
    return out


def cos_lt(dq, t):
    d, q = dq
    return d < 0 or d * d < t * t * q


def cos_float(dq):
    d, q = dq
    return float(d) / math.sqrt(float(q)) if q > 0 else 0.0


def corner_x(case, spec, v):
    """angle sum at v times order / 2π, computed independently; None when within 1e-6 of a decision boundary"""
    tot = 0.0
    for c in spec.at[v]:
        f, i = spec.corner[c]
        F = case["F"][f]
        P, A, N = (case["V"][F[i - 1]], case["V"][F[i]], case["V"][F[(i + 1) % len(F)]])
        u = [P[k] - A[k] for k in range(3)]; w = [N[k] - A[k] for k in range(3)]
        cr = _cross(u, w)
        tot += math.atan2(math.sqrt(sum(x * x for x in cr)), sum(u[k] * w[k] for k in range(3)))
    x = tot * case["order"] / (2 * math.pi)
    if abs(abs(x) - 1) < 1e-6 or abs((x % 1) - 0.5) < 1e-6: return None
    return x


# ------------------------------------------------------------------------------------------------
# observation of the implementation
# ------------------------------------------------------------------------------------------------
_CACHE = {"k": None, "v": None}


def _run(case):
    k = json.dumps(case, sort_keys=True)
    if _CACHE["k"] == k: return _CACHE["v"]
    import mouette as M
    spec = Spec(len(case["V"]), case["F"])
    res = {"spec": spec}
    if case["t"] == "b":
        m = _mesh(case)
        used = case.get("used")
        if used:
            import numpy as np
            # the mesh object has a history: lazy caches filled by other queries, a detector run, an earlier extraction,
            # then (optionally) the documented resets
            try:
                if "queries" in used: m.connectivity.vertex_to_faces(0); m.interior_edges; m.connectivity.face_to_faces(0)
                if "detector" in used:
                    # (normals injected: the polygons of this family may start with three collinear vertices, for which
                    #  face_normals is undefined - that is C07's business, the detector run is only history here)
                    na = m.faces.create_attribute("normals", float, 3)
                    for f in range(len(case["F"])): na[f] = M.Vec(0.0, 0.0, 1.0)
                    M.processing.FeatureEdgeDetector(verbose=False, compute_feature_graph=False, flag_corners=False).run(m)
                if "extract" in used: M.processing.extract_boundary_of_surface(m); M.processing.extract_border_cycle_all(m)
                if "clear" in used: m.connectivity.clear(); m.clear_boundary_data()
            except Exception as e:  # noqa
                res["used_err"] = e
        per = []
        for s in case["starts"]:
            try:
                r = M.processing.extract_border_cycle(m, np.int64(s) if (used and "npstart" in used) else s)
                per.append((s, r, None))
            except Exception as e:  # noqa
                per.append((s, None, e))
        res["per"] = per
        try: res["all"] = M.processing.extract_border_cycle_all(m); res["all_err"] = None
        except Exception as e: res["all"], res["all_err"] = None, e  # noqa
        try: res["bnd"] = M.processing.extract_boundary_of_surface(m); res["bnd_err"] = None
        except Exception as e: res["bnd"], res["bnd_err"] = None, e  # noqa
        res["m"] = m
    else:
        hard_pairs = [spec.ekeys[e] for e in case["hard"]]
        m = _mesh(case, hard_pairs)
        if case.get("normals"):
            attr = m.faces.create_attribute("normals", float, 3)
            for f, n in enumerate(case["normals"]): attr[f] = M.Vec(*n)
        # history: earlier detector runs on the SAME mesh object (other options, other injected normals), made with another
        # detector object or (same_det) with the very detector object observed at the end, whose option attributes are set
        # for that run. The statement is about each run, whatever ran before: neither the attributes left on the mesh nor the
        # containers of a used detector may leak into this one.
        det = M.processing.FeatureEdgeDetector(only_border=case["only_border"], flag_corners=case["flag_corners"],
                                               corner_order=case["order"], compute_feature_graph=case.get("graph", False), verbose=False)
        def move_to(V):
            # vertices moved IN PLACE through the container API (same representation as the mesh was built with)
            for i, v in enumerate(_coords(dict(case, V=V))): m.vertices[i] = M.Vec(v)
        other = None
        for pr in case.get("prior") or []:
            try:
                if pr.get("other"):
                    # a detector run on another mesh object in between (a sharply folded hinge with a declared hard edge)
                    if other is None:
                        od = M.mesh.RawMeshData()
                        od.vertices += [M.Vec(0., 0., 0.), M.Vec(1., 0., 0.), M.Vec(0., 1., 0.), M.Vec(1., 1., 2.), M.Vec(2., 0., 2.)]
                        od.edges += [(1, 2)]
                        od.faces += [[0, 1, 2], [2, 1, 3], [1, 4, 3]]
                        other = M.mesh.SurfaceMesh(od)
                    if pr.get("same_det"):
                        det.only_border, det.flag_corners, det.corner_order = pr["only_border"], pr["flag_corners"], pr["order"]
                        det.run(other)
                    else:
                        M.processing.FeatureEdgeDetector(only_border=pr["only_border"], flag_corners=pr["flag_corners"],
                                                         corner_order=pr["order"], compute_feature_graph=False, verbose=False).run(other)
                    continue
                if pr.get("V"): move_to(pr["V"])
                if case.get("normals") and pr.get("normals"):
                    for f, n in enumerate(pr["normals"]): attr[f] = M.Vec(*n)
                if pr.get("same_det"):
                    det.only_border, det.flag_corners, det.corner_order = pr["only_border"], pr["flag_corners"], pr["order"]
                    det.compute_feature_graph = pr.get("graph", False)
                    det.run(m)
                else:
                    M.processing.FeatureEdgeDetector(only_border=pr["only_border"], flag_corners=pr["flag_corners"], corner_order=pr["order"],
                                                     compute_feature_graph=pr.get("graph", False), verbose=False).run(m)
            except Exception as e:  # noqa
                res["prior_err"] = e
        if any(pr.get("V") for pr in case.get("prior") or []): move_to(case["V"])
        if case.get("normals") and case.get("prior"):
            for f, n in enumerate(case["normals"]): attr[f] = M.Vec(*n)
        det.only_border, det.flag_corners, det.corner_order = case["only_border"], case["flag_corners"], case["order"]
        det.compute_feature_graph = case.get("graph", False)
        if case.get("conn_clear"): m.connectivity.clear(); m.clear_boundary_data()   # documented reset of the lazy caches
        try: det.run(m); res["err"] = None
        except Exception as e: res["err"] = e  # noqa
        res["m"], res["det"] = m, det
    _CACHE["k"], _CACHE["v"] = k, res
    return res


def _err(e):
    n = type(e).__name__
    return {"TypeError": "err:Type", "KeyError": "err:Key", "IndexError": "err:Index", "ValueError": "err:Value"}.get(n, f"err:Other({n})")


def impl_observe(case):
    try:
        return _observe(case)
    except Exception as e:  # noqa  (malformed output of the implementation: observed as such, the oracle names it)
        return f"malformed:{type(e).__name__}"


def _observe(case):
    r = _run(case)
    spec, m = r["spec"], r["m"]
    if case["t"] == "b":
        per = []
        for s, res, e in r["per"]:
            if e is not None: per.append(_err(e)); continue
            if isinstance(res, list) and not res: per.append("empty"); continue
            vb, eb = res
            per.append(f"{_l(vb)} ; {_l([_ecanon(m, spec, x) for x in eb])}")
        if r["all_err"] is not None: alls = _err(r["all_err"])
        else:
            cyc = sorted((_rotmin([int(x) for x in c]) for c in r["all"]), key=lambda c: c[0] if c else -1)
            alls = " ; ".join([str(len(cyc))] + [_l(c) for c in cyc])
        if r["bnd_err"] is not None: bnd = _err(r["bnd_err"])
        else:
            bound, mp = r["bnd"]
            inv = {v: k for k, v in mp.items()}
            back = sorted((min(inv[a], inv[b]), max(inv[a], inv[b])) for a, b in bound.edges)
            bnd = f"{len(bound.vertices)} ; {_l([x for ab in back for x in ab])}"
        return f"{' | '.join(per)} || {alls} || {bnd}"
    if r["err"] is not None: return _err(r["err"])
    det = r["det"]
    fe = sorted(_ecanon(m, spec, e) for e in det.feature_edges)
    fv = sorted(int(v) for v in det.feature_vertices)
    deg = [det.feature_degrees[v] for v in fv]
    loc = []
    for v in fv:
        v2e = m.connectivity.vertex_to_edges(v)
        loc.append(_l(sorted((_ecanon(m, spec, v2e[i]) if 0 <= i < len(v2e) else 10 ** 6 + i) for i in det.local_feat_edges.get(v, []))))
    cor = []
    for v in fv:
        x = corner_x(case, spec, v) if case["flag_corners"] else None
        cor.append("N" if x is None else str(int(det.corners[v])))
    return f"{_l(fe)} ; {_l(fv)} ; {_l(deg)} ; {' / '.join(loc)} ; {' '.join(cor)}"


def _frac(x):
    f = Fraction(x)
    return str(f.numerator) if f.denominator == 1 else f"{f.numerator}/{f.denominator}"


def model_request(case):
    spec = Spec(len(case["V"]), case["F"])
    toks = ["b" if case["t"] == "b" else "f", str(len(case["V"])), str(len(case["F"]))]
    for f in case["F"]: toks += [str(len(f))] + [str(v) for v in f]
    if case["t"] == "b":
        toks += [str(len(case["starts"]))] + [str(s) for s in case["starts"]]
        return " ".join(toks)
    hard = set(case["hard"])
    inj = 1 if case.get("normals") else 0
    runs = [(1 if pr.get("same_det") else 0, pr["only_border"],
             dict(case, normals=pr.get("normals") or case.get("normals"), V=pr.get("V") or case["V"]))
            for pr in (case.get("prior") or []) if not pr.get("other")] + [(1, case["only_border"], case)]
    toks.append(str(len(runs)))
    for sd, ob, cc in runs:
        dq = edge_dq(cc, spec)
        toks += [str(sd), "1" if ob else "0", str(inj), str(len(dq))]
        for e, x in enumerate(dq):
            d, q = x if x is not None else (Fraction(0), Fraction(1))
            toks += ["1" if e in hard else "0", _frac(d), _frac(q)]
    toks.append(str(len(case["V"])))
    for v in range(len(case["V"])):
        x = corner_x(case, spec, v) if case["flag_corners"] and spec.at[v] else None
        toks.append("N" if x is None else _frac(x))
    return " ".join(toks)


def compare(case, model, impl):
    if case["t"] == "b":
        wf, _, model = model.partition(" ## ")
        if wf != "wf:1" and G.surface_stats(len(case["V"]), case["F"])["manifold"]:
            return f"the hypotheses of border_cycle_correct (Oriented, InRange, BorderUmbrella) do not hold on a manifold input: {wf}"
    if model == impl: return None
    if case["t"] == "b":
        for name, a, b in zip(("cycles", "all cycles", "boundary polyline"), model.split(" || "), impl.split(" || ")):
            if a != b: return f"{name}: model {a[:120]!r} implementation {b[:120]!r}"
    else:
        for name, a, b in zip(("feature_edges", "feature_vertices", "feature_degrees", "local_feat_edges", "corners"),
                              model.split(" ; "), impl.split(" ; ")):
            if a != b: return f"{name}: model {a[:120]!r} implementation {b[:120]!r}"
    return f"model {model[:100]!r} implementation {impl[:100]!r}"


# ------------------------------------------------------------------------------------------------
# oracle
# ------------------------------------------------------------------------------------------------
def border_loops(spec):
    """border loops by direct inspection: half-edges without opposite, chained head to tail"""
    nxt = {}
    for (u, v) in spec.side:
        if (v, u) not in spec.side: nxt.setdefault(u, []).append(v)
    loops, seen = [], set()
    for u in sorted(nxt):
        if u in seen: continue
        loop, cur = [], u
        while cur not in seen:
            seen.add(cur); loop.append(cur); cur = nxt[cur][0]
        loops.append(loop)
    return loops


def oracle(case):
    try:
        return _oracle(case)
    except Exception as e:  # noqa
        return [{"key": f"C15/malformed-output/{type(e).__name__}", "what": "the implementation returned data the property cannot be read on",
                 "detail": str(e)[:200]}]


def _oracle(case):
    st = G.surface_stats(len(case["V"]), case["F"])
    if not st["manifold"]: return []
    r = _run(case)
    spec, m = r["spec"], r["m"]
    out, seen = [], set()

    def add(key, what, detail=""):
        if key not in seen: seen.add(key); out.append({"key": key, "what": what, "detail": str(detail)[:300]})
    k2 = lambda a, b: (min(a, b), max(a, b))
    ekey = lambda e: None if e is None else k2(*m.edges[e])
    if r.get("used_err") is not None:
        add(f"C15/border/used-mesh/raises/{type(r['used_err']).__name__}", "a query / detector run / extraction made on the mesh before raised", r["used_err"])
    if case["t"] == "b":
        loops = border_loops(spec)
        loop_of = {v: i for i, L in enumerate(loops) for v in L}
        for s, res, e in r["per"]:
            if s not in spec.border_v:
                continue  # behaviour on an interior starting point is not part of the statement
            if e is not None:
                add(f"C15/border/cycle/raises/{type(e).__name__}", f"extract_border_cycle raised {type(e).__name__} from a border vertex", f"start {s}: {e}"); continue
            try:
                vb, eb = res
                vb = [int(x) for x in vb]
            except Exception:  # noqa
                add("C15/border/cycle/shape", "extract_border_cycle did not return (vertices, edges)", f"start {s}: {res}"); continue
            L = loops[loop_of[s]]
            if not vb or vb[0] != s: add("C15/border/cycle/start", "cycle does not start at the starting point", f"start {s}: {vb[:6]}")
            if sorted(vb) != sorted(L):
                add("C15/border/cycle/vertices", "cycle does not visit every border vertex of the loop exactly once", f"start {s}: got {vb} loop {L}"); continue
            n = len(vb)
            steps = [k2(vb[i], vb[(i + 1) % n]) for i in range(n)]
            if any(k not in spec.border_keys for k in steps):
                add("C15/border/cycle/not-border-edges", "cycle is not a closed walk along border edges", f"start {s}: {vb}")
            if len(eb) != n or any(ekey(eb[i]) != steps[i] for i in range(n) if eb[i] is not None) or any(x is None for x in eb):
                add("C15/border/cycle/edges", "edge list does not match the walk", f"start {s}: v {vb} e {[ekey(x) for x in eb]}")
        if r["all_err"] is not None:
            add(f"C15/border/all/raises/{type(r['all_err']).__name__}", "extract_border_cycle_all raised", r["all_err"])
        else:
            got = sorted(sorted(int(x) for x in c) for c in r["all"])
            if len(got) != len(loops): add("C15/border/all/count", "number of cycles differs from the number of border loops", f"{len(got)} vs {len(loops)}")
            elif got != sorted(sorted(L) for L in loops): add("C15/border/all/loops", "cycles are not the border loops, each once", f"{got[:3]}")
        if r["bnd_err"] is not None:
            add(f"C15/border/polyline/raises/{type(r['bnd_err']).__name__}", "extract_boundary_of_surface raised", r["bnd_err"])
        else:
            bound, mp = r["bnd"]
            vals = list(mp.values())
            if sorted(mp.keys()) != sorted(spec.border_v) or sorted(vals) != list(range(len(bound.vertices))):
                add("C15/border/polyline/map", "index map is not a bijection between border vertices and polyline vertices", f"{dict(list(mp.items())[:6])}")
            else:
                inv = {v: k for k, v in mp.items()}
                back = [k2(inv[a], inv[b]) for a, b in bound.edges]
                if sorted(back) != sorted(spec.border_keys):
                    add("C15/border/polyline/edges", "polyline edges mapped back are not exactly the border edges", f"{sorted(back)[:6]}")
                if any(tuple(float(x) for x in bound.vertices[i]) != tuple(float(x) for x in case["V"][inv[i]]) for i in inv):
                    add("C15/border/polyline/coords", "polyline vertex is not the surface vertex the map names")
        return out
    # ---- features -------------------------------------------------------------------------------
    if r.get("prior_err") is not None:
        add(f"C15/features/rerun/raises/{type(r['prior_err']).__name__}", "an earlier FeatureEdgeDetector run on the same mesh raised", r["prior_err"])
    if r["err"] is not None:
        add(f"C15/features/raises/{type(r['err']).__name__}", f"FeatureEdgeDetector.run raised {type(r['err']).__name__}", r["err"]); return out
    det = r["det"]
    dq = edge_dq(case, spec)
    hard = set(case["hard"])
    want = set()
    for e, k in enumerate(spec.ekeys):
        if k in spec.border_keys: want.add(e); continue
        if case["only_border"]: continue
        if cos_lt(dq[e], Fraction(1, 2)): want.add(e)               # normals more than 60° apart
        elif e in hard and cos_lt(dq[e], Fraction(4, 5)): want.add(e)  # declared hard edge, more than ≈36.87° apart
    got = {_ecanon(m, spec, e) for e in det.feature_edges}
    if got != want:
        extra, miss = sorted(got - want), sorted(want - got)
        kind = "border" if any(spec.ekeys[e] in spec.border_keys for e in extra + miss if e < len(spec.ekeys)) else \
               "hard" if any(e in hard for e in extra + miss) else "sharp"
        add(f"C15/features/edges/{kind}", "feature edge set is not border ∪ sharp(>60°) ∪ hard(>36.87°)",
            f"extra {[(e, spec.ekeys[e], round(cos_float(dq[e]), 9) if dq[e] else None) for e in extra[:4] if e < len(spec.ekeys)]} "
            f"missing {[(e, spec.ekeys[e], round(cos_float(dq[e]), 9) if dq[e] else None) for e in miss[:4]]} only_border={case['only_border']}")
    # derived data must be consistent with the edge set the detector reports
    fes = {ekey(e) for e in det.feature_edges}
    ends = {v for k in fes for v in k}
    if set(int(v) for v in det.feature_vertices) != ends:
        add("C15/features/vertices", "feature_vertices are not the end points of the feature edges")
    for v in range(len(case["V"])):
        d = sum(1 for k in fes if v in k)
        if det.feature_degrees[v] != d:
            add("C15/features/degrees", "feature_degrees differs from the number of incident feature edges", f"vertex {v}: {det.feature_degrees[v]} vs {d}"); break
    if set(det.local_feat_edges.keys()) != ends:
        add("C15/features/local/keys", "local_feat_edges is not defined exactly on the feature vertices")
    else:
        for v in ends:
            v2e = m.connectivity.vertex_to_edges(v)
            idx = det.local_feat_edges[v]
            if any(i < 0 or i >= len(v2e) for i in idx) or sorted(set(idx)) != list(idx) or \
                    {ekey(v2e[i]) for i in idx} != {k for k in fes if v in k}:
                add("C15/features/local/indices", "local_feat_edges are not the positions of the incident feature edges in vertex_to_edges", f"vertex {v}: {idx}"); break
    if case["flag_corners"]:
        for v in ends:
            x = corner_x(case, spec, v)
            if x is None: continue
            wantc = (1 if x >= 0 else -1) if abs(x) < 1 else round(x)
            if det.corners[v] != wantc:
                add("C15/features/corners", "corner order differs from round(angle·order/2π)", f"vertex {v}: {det.corners[v]} vs {wantc} (x={x:.6f})"); break
    return out


# ------------------------------------------------------------------------------------------------
# generators
# ------------------------------------------------------------------------------------------------
def _border_case(rng, max_faces):
    s = G.random_surface(rng, max_faces, closed=(True if rng.random() < 0.08 else None))
    if rng.random() < 0.5 and len(s["F"]) > 8:
        V, F = G.remove_faces(rng, s["V"], s["F"], rng.randint(1, 4))
        if G.surface_stats(len(V), F)["manifold"]: s = {"V": V, "F": F, "tag": s["tag"] + "+moreholes"}
    spec = Spec(len(s["V"]), s["F"])
    starts = sorted(spec.border_v)
    interior = [v for v in range(spec.nv) if v not in spec.border_v]
    if interior and rng.random() < 0.5: starts.append(rng.choice(interior))
    c = {"t": "b", "V": s["V"], "F": s["F"], "starts": starts, "tag": s["tag"]}
    if rng.random() < 0.35:
        c["used"] = sorted(set(rng.sample(["queries", "detector", "extract", "clear", "npstart"], rng.randint(1, 3))))
    if rng.random() < 0.3:
        c["vrep"] = rng.choice(VREPS[1:4]); c["frep"] = rng.choice(FREPS)
    return c


SPECIAL_Z = [0.5, 0.5 - 2.0 ** -20, 0.5 + 2.0 ** -20, 0.8, 0.8 - 2.0 ** -20, 0.8 + 2.0 ** -20, 0.25, 0.75, 0.9, -0.5, 0.0, 1.0]


def _unit_with_z(rng, z):
    a = rng.uniform(0, 2 * math.pi)
    r = math.sqrt(max(0.0, 1 - z * z))
    return [r * math.cos(a), r * math.sin(a), z]


def _feat_injected(rng, max_faces):
    """polygon mesh, all faces get normal (0,0,1) except pairwise non-adjacent faces which get a unit normal with a chosen
    z: the dot product across their edges is exactly z (products with 0 and 1 are exact)"""
    s = G.random_surface(rng, max_faces)
    spec = Spec(len(s["V"]), s["F"])
    nf = len(s["F"])
    normals = [[0.0, 0.0, 1.0] for _ in range(nf)]
    blocked = set()
    order = list(range(nf)); rng.shuffle(order)
    for f in order:
        if f in blocked or rng.random() < 0.3: continue
        nb = {spec.dface(s["F"][f][(i + 1) % len(s["F"][f])], s["F"][f][i]) for i in range(len(s["F"][f]))}
        normals[f] = _unit_with_z(rng, rng.choice(SPECIAL_Z))
        blocked |= {g for g in nb if g is not None}; blocked.add(f)
    return s, normals


FOLD_ANGLES = [10, 25, 35, 38.5, 45, 58, 62, 75, 90, 120, 150]


def _fold_geometry(nu, nv, angs):
    """vertex positions of a strip of nu rows folded along its rows by the dihedral angles `angs` (degrees, signed)"""
    V, y, z, th = [], 0.0, 0.0, 0.0
    rows = []
    for i in range(nu):
        rows.append((y, z))
        th += math.radians(angs[i])
        y += math.cos(th); z += math.sin(th)
    for i in range(nu):
        for j in range(nv):
            V.append([float(G.dy(j + 0.0, 64)), float(G.dy(rows[i][0], 1024)), float(G.dy(rows[i][1], 1024))])
    return V


def _fold_strip(rng):
    """triangulated strip/grid folded along its rows: row i lies in a plane turned by a chosen dihedral angle"""
    nu, nv = rng.randint(2, 5), rng.randint(2, 5)
    angs = [rng.choice(FOLD_ANGLES) * rng.choice([1, -1]) for _ in range(nu)]
    V = _fold_geometry(nu, nv, angs)
    F = []
    for i in range(nu - 1):
        for j in range(nv - 1):
            a, b, c, d = i * nv + j, (i + 1) * nv + j, (i + 1) * nv + j + 1, i * nv + j + 1
            F += ([[a, d, c], [a, c, b]] if rng.random() < 0.5 else [[a, d, b], [d, c, b]])
    return {"V": V, "F": F, "tag": "fold", "fold": [nu, nv, angs]}


def _rigid(rng, V):
    """an exact rigid motion (signed permutation of the axes with determinant +1, then a dyadic translation)"""
    perm, sg = rng.choice([((0, 1, 2), (1, 1, 1)), ((1, 0, 2), (-1, 1, 1)), ((2, 0, 1), (1, 1, 1)), ((0, 2, 1), (1, -1, 1)),
                           ((1, 2, 0), (1, 1, 1)), ((0, 1, 2), (-1, -1, 1))])
    t = [rng.randint(-8, 8) / 4.0 for _ in range(3)]
    return [[sg[k] * v[perm[k]] + t[k] for k in range(3)] for v in V]


def _moved_geometry(rng, s, V):
    """where the vertices of the SAME mesh were at the time of an earlier run: the strip folded by other angles (dihedral
    angles cross 60° and 36.87° in both directions), the surface with other heights, or a rigid motion of it"""
    r = rng.random()
    if s.get("fold") and r < 0.6:
        nu, nv, angs = s["fold"]
        return _fold_geometry(nu, nv, [rng.choice(FOLD_ANGLES) * rng.choice([1, -1]) for _ in angs]), "refolded"
    if r < 0.8:
        return _rigid(rng, V), "rigid-motion"
    return [[v[0], v[1], v[2] + rng.randint(-48, 48) / 64.0] for v in V], "heights-changed"


def _feat_case(rng, max_faces):
    kind = rng.choice(["injected", "injected", "fold", "geom"])
    normals = None
    if kind == "injected": s, normals = _feat_injected(rng, max_faces)
    elif kind == "fold": s = _fold_strip(rng)
    else: s = G.random_surface(rng, max_faces, tri_only=True)
    if rng.random() < 0.6:
        F = G.rotate_faces(rng, s["F"]) if normals is None else s["F"]
        s = dict(s, F=F)
    spec = Spec(len(s["V"]), s["F"])
    ne = len(spec.ekeys)
    hard = sorted(rng.sample(range(ne), rng.randint(0, min(ne, max(1, ne // 3))))) if rng.random() < 0.7 else []
    case = {"t": "f", "V": s["V"], "F": s["F"], "tag": kind + ":" + s["tag"], "normals": normals, "hard": hard,
            "only_border": rng.random() < 0.2, "flag_corners": rng.random() < 0.7, "order": rng.choice([4, 4, 6, 3, 8]),
            "graph": rng.random() < 0.3}
    if rng.random() < 0.4:
        # the detector has already run on this mesh object, 1-2 times, with other options (and other injected normals)
        case["prior"] = []
        for _ in range(rng.randint(1, 2)):
            pr = {"only_border": rng.random() < 0.25, "flag_corners": rng.random() < 0.5, "order": rng.choice([4, 6, 3]), "graph": rng.random() < 0.2,
                  "same_det": rng.random() < 0.45}
            if normals is not None:
                pr["normals"] = [_unit_with_z(rng, rng.choice([-0.5, 0.0, 0.25, 0.6, 0.9, 1.0])) for _ in normals]
            elif rng.random() < 0.7:
                # the vertices were elsewhere when that run was made (moved in place afterwards)
                pr["V"], pr["moved"] = _moved_geometry(rng, s, case["V"])
            if rng.random() < 0.25:
                # that run was made on ANOTHER mesh object (state shared between instances / detectors must not leak)
                pr["other"] = True
            case["prior"].append(pr)
        if case["prior"][-1]["only_border"] and rng.random() < 0.5: case["prior"][-1]["only_border"] = False
        if rng.random() < 0.4: case["only_border"] = True
    if rng.random() < 0.15: case["conn_clear"] = True
    # input representation: coordinates as lists / tuples / numpy arrays, or - for the streams that use the mesh's own geometry -
    # as INTEGERS (the surface scaled by the common denominator of its dyadic coordinates: same normals, same angles);
    # faces and declared hard edges as tuples / numpy arrays / numpy scalars
    r = rng.random()
    if r < 0.25:
        case["vrep"] = rng.choice(VREPS[1:4])
    elif r < 0.45 and normals is None:
        allV = [case["V"]] + [p["V"] for p in case.get("prior") or [] if p.get("V")]
        den = 1
        while any(abs(x * den - round(x * den)) > 0 for VV in allV for v in VV for x in v) and den < 2 ** 20: den *= 2
        if den < 2 ** 20 and max(abs(x) for VV in allV for v in VV for x in v) * den < 2 ** 24:
            case["V"] = [[float(round(x * den)) for x in v] for v in case["V"]]
            for p in case.get("prior") or []:
                if p.get("V"): p["V"] = [[float(round(x * den)) for x in v] for v in p["V"]]
            case["vrep"] = rng.choice(["int", "npint"])
    if rng.random() < 0.3: case["frep"] = rng.choice(FREPS[1:])
    # own geometry: stay away from the thresholds (float normalisation); injected normals: every interior edge has one face
    # with normal (0,0,1), so the float dot product IS the z of the other normal, exactly - on-threshold values are kept
    if normals is None:
        for cc in [case] + [dict(case, V=p["V"]) for p in case.get("prior") or [] if p.get("V")]:
            for x in edge_dq(cc, spec):
                if x is None: continue
                if x[1] == 0: return None
                c = cos_float(x)
                if abs(c - 0.5) < 1e-7 or abs(c - 0.8) < 1e-7: return None
    return case


def _rational_rotation(rng):
    """an exact rotation matrix with rational entries (unit quaternion with integer components), generically tilted"""
    while True:
        a, b, c, d = (rng.randint(-7, 7) for _ in range(4))
        n = a * a + b * b + c * c + d * d
        if n and sum(1 for x in (a, b, c, d) if x) >= 3: break
    n = Fraction(n)
    return [[(a * a + b * b - c * c - d * d) / n, 2 * (b * c - a * d) / n, 2 * (b * d + a * c) / n],
            [2 * (b * c + a * d) / n, (a * a - b * b + c * c - d * d) / n, 2 * (c * d - a * b) / n],
            [2 * (b * d - a * c) / n, 2 * (c * d + a * b) / n, (a * a - b * b - c * c + d * d) / n]]


def _feat_flat(rng):
    """zero-thickness but manifold shapes in a generically tilted plane: a sheet folded flat onto itself, a flat pillow (zero-volume
    tetrahedron), a polygon seen from both sides, a triangulated grid seen from both sides.  The rim edges separate faces whose
    normals are EXACTLY opposite (180° apart: the sharpest crease there is), the other interior edges coplanar faces."""
    kind = rng.choice(["pillow", "folded", "two-sided-polygon", "two-sided-grid"])
    if kind == "pillow":
        P = [(0, 0), (1, 0), (1, 1), (0, 1)]; F = [[0, 1, 2], [0, 2, 3], [1, 0, 3], [1, 3, 2]]
    elif kind == "folded":
        P = [(0, 0), (1, 0), (1, 1), (1, 0)]; F = [[0, 1, 2], [2, 3, 0]]            # vertices 1 and 3 coincide
    elif kind == "two-sided-polygon":
        k = rng.choice([3, 4, 5, 6])
        P = [[(0, 0), (2, 0), (3, 1), (2, 3), (0, 3), (-1, 1)][i] for i in range(k)]
        F = [list(range(k)), list(range(k - 1, -1, -1))]
    else:
        nu, nv = rng.randint(2, 4), rng.randint(2, 4)
        P = [(i, j) for i in range(nu) for j in range(nv)]
        rim = {i * nv + j for i in range(nu) for j in range(nv) if i in (0, nu - 1) or j in (0, nv - 1)}
        back = {}
        for v in range(nu * nv):
            if v in rim: back[v] = v
            else: back[v] = len(P); P.append(P[v])                                 # interior vertices of the back side coincide with the front
        F = []
        for i in range(nu - 1):
            for j in range(nv - 1):
                a, b, c, d = i * nv + j, (i + 1) * nv + j, (i + 1) * nv + j + 1, i * nv + j + 1
                tri = ([[a, d, c], [a, c, b]] if rng.random() < 0.5 else [[a, d, b], [d, c, b]])
                F += tri + [[back[t[2]], back[t[1]], back[t[0]]] for t in tri]
    R = _rational_rotation(rng)
    sc, t = Fraction(rng.choice([1, 2, 3, 5]), rng.choice([1, 2, 4])), [Fraction(rng.randint(-8, 8), 4) for _ in range(3)]
    V = [[float(sc * (R[r][0] * x + R[r][1] * y) + t[r]) for r in range(3)] for (x, y) in P]
    F = G.rotate_faces(rng, F) if rng.random() < 0.5 else F
    spec = Spec(len(V), F)
    ne = len(spec.ekeys)
    hard = sorted(rng.sample(range(ne), rng.randint(0, max(1, ne // 3)))) if rng.random() < 0.4 else []
    case = {"t": "f", "V": V, "F": F, "tag": "flat:" + kind, "normals": None, "hard": hard, "only_border": rng.random() < 0.1,
            "flag_corners": rng.random() < 0.5, "order": rng.choice([4, 6, 3]), "graph": rng.random() < 0.2}
    for x in edge_dq(case, spec):
        if x is None: continue
        if x[1] == 0: return None
        c = cos_float(x)
        if abs(c - 0.5) < 1e-7 or abs(c - 0.8) < 1e-7: return None
    return case


def _flat_cases(rng, n):
    k = 0
    while k < n:
        c = _feat_flat(rng)
        if c is not None and G.surface_stats(len(c["V"]), c["F"])["manifold"]:
            k += 1; yield c


def cases(rng, tier):
    nb, nf, mf = (140, 260, 50) if tier == "quick" else (1500, 3000, 150)
    for c in _flat_cases(rng, 40 if tier == "quick" else 400): yield c
    for k in range(nb):
        yield _border_case(rng, mf if k % 3 else 14)
    n = 0
    while n < nf:
        c = _feat_case(rng, (mf // 2) if n % 3 else 10)
        if c is not None:
            n += 1; yield c
    # hand-made: two triangles hinged with exact normals on the thresholds; a disk with a chord between border vertices
    hinge = {"V": [[0.0, 0.0, 0.0], [1.0, 0.0, 0.0], [0.0, 1.0, 0.0], [1.0, 1.0, 0.5]], "F": [[0, 1, 2], [2, 1, 3]]}
    for z in SPECIAL_Z:
        for hard in ([], [1]):
            yield dict(hinge, t="f", tag="hinge", normals=[[0.0, 0.0, 1.0], [math.sqrt(max(0.0, 1 - z * z)), 0.0, z]], hard=hard,
                       only_border=False, flag_corners=True, order=4, graph=True)
    chord = {"V": [[0.0, 0.0, 0.0], [1.0, 0.0, 0.0], [2.0, 0.0, 0.1], [2.0, 1.0, 0.0], [1.0, 1.0, 0.2], [0.0, 1.0, 0.0]],
             "F": [[0, 1, 4, 5], [1, 2, 3, 4]]}
    yield dict(chord, t="b", starts=[0, 1, 2, 3, 4, 5], tag="chord")


def nontrivial(case, obs):
    if obs.startswith("err"): return False
    if case["t"] == "b": return len(case["starts"]) >= 1 and not obs.split(" || ")[1].startswith("0")
    spec = Spec(len(case["V"]), case["F"])
    return any(x is not None for x in edge_dq(case, spec)) and not case["only_border"]


def classify(case, obs):
    st = G.surface_stats(len(case["V"]), case["F"])
    ks = ["kind:" + ("border" if case["t"] == "b" else "features"), "faces:" + ("<10" if len(case["F"]) < 10 else "10-39" if len(case["F"]) < 40 else "40+")]
    if case["t"] == "b":
        ks += ["loops:" + str(min(st["loops"], 4)), "components:" + str(min(st["components"], 3)), "starts", ]
        if any(s for s in case["starts"] if s not in Spec(len(case["V"]), case["F"]).border_v): ks.append("interior-start")
        ks.append("mesh-history:" + ("fresh" if not case.get("used") else "+".join(case["used"])))
    else:
        spec = Spec(len(case["V"]), case["F"])
        ks += ["stream:" + case["tag"].split(":")[0], "only_border:" + str(case["only_border"]), "flag_corners:" + str(case["flag_corners"]),
               "order:" + str(case["order"]), "hard:" + ("0" if not case["hard"] else "1+")]
        for x in edge_dq(case, spec):
            if x is None: continue
            c = cos_float(x)
            ks.append("cos:" + ("=0.5" if c == 0.5 else "=0.8" if c == 0.8 else "<0.5" if c < 0.5 else "0.5-0.8" if c < 0.8 else ">0.8"))
        ks.append("history:" + ("fresh-mesh" if not case.get("prior") else f"{len(case['prior'])}-earlier-runs"))
        if any(p.get("same_det") for p in case.get("prior") or []): ks.append("history:same-detector-object-reused")
        for p in case.get("prior") or []:
            if p.get("V"): ks.append("history:vertices-moved-between-runs:" + p.get("moved", "?"))
            if p.get("other"): ks.append("history:run-on-another-mesh-in-between")
        if case.get("conn_clear"): ks.append("history:connectivity.clear()-before-run")
    ks += ["coords-as:" + case.get("vrep", "vec"), "ids-as:" + case.get("frep", "list")]
    if case["t"] == "f":
        pass
    if obs.startswith("err"): ks.append(obs.split(" ")[0])
    return ks


def describe(case):
    d = {k: case[k] for k in ("t", "tag") if k in case}
    d.update(n_vertices=len(case["V"]), n_faces=len(case["F"]), faces=case["F"][:10])
    if case["t"] == "b": d["starts"] = case["starts"][:10]
    else: d.update({k: case[k] for k in ("only_border", "flag_corners", "order")}, hard=case["hard"][:10], injected_normals=bool(case.get("normals")),
                   earlier_runs_on_same_mesh=[{k: p[k] for k in ("only_border", "flag_corners", "order")} for p in case.get("prior") or []])
    return d


def shrink(case, still):
    budget = [200]

    def ok(c):
        if budget[0] <= 0: return False
        budget[0] -= 1
        return still(c)
    cur = case
    if cur["t"] == "b" and len(cur["starts"]) > 1:
        for s in cur["starts"]:
            t = dict(cur, starts=[s])
            if ok(t): cur = t; break
    changed = True
    while changed and budget[0] > 0:
        changed = False
        for k in range(len(cur["F"]) - 1, -1, -1):
            F2 = cur["F"][:k] + cur["F"][k + 1:]
            if not F2: continue
            used = sorted({v for f in F2 for v in f})
            vm = {o: n for n, o in enumerate(used)}
            NF = [[vm[v] for v in f] for f in F2]
            if not G.surface_stats(len(used), NF)["manifold"]: continue
            t = dict(cur, V=[cur["V"][o] for o in used], F=NF)
            if cur["t"] == "b":
                t["starts"] = [vm[s] for s in cur["starts"] if s in vm]
                if not t["starts"]: continue
            else:
                old, new = Spec(len(cur["V"]), cur["F"]), Spec(len(used), NF)
                t["hard"] = sorted({new.ecanon[(min(vm[a], vm[b]), max(vm[a], vm[b]))] for e in cur["hard"] for (a, b) in [old.ekeys[e]]
                                    if a in vm and b in vm and (min(vm[a], vm[b]), max(vm[a], vm[b])) in new.ecanon})
                if cur.get("normals"): t["normals"] = cur["normals"][:k] + cur["normals"][k + 1:]
                if cur.get("prior"):
                    t["prior"] = [dict(p, normals=p["normals"][:k] + p["normals"][k + 1:]) if p.get("normals") else p for p in cur["prior"]]
            if ok(t): cur = t; changed = True; break
    return cur


def search_on_break(rng, broken, mismatches):
    # zero-thickness shapes under generic tilts first (normals exactly opposite: the extreme of the sharp-angle test)
    for c in _flat_cases(rng, 200): yield c
    for _ in range(60):
        yield _border_case(rng, 30)
    n = 0
    while n < 150:
        c = _feat_case(rng, 12)
        if c is not None: n += 1; yield c


# ------------------------------------------------------------------------------------------------
# translated fragment: the thresholds
# ------------------------------------------------------------------------------------------------
def _const_fraction(node, src, where):
    """exact value of a numeric literal or of +,-,*,/ over numeric literals (`1/2`, `0.5`, `5e-1`); anything else is refused"""
    if isinstance(node, ast.Constant) and isinstance(node.value, (int, float)) and not isinstance(node.value, bool):
        return Fraction(ast.get_source_segment(src, node))
    if isinstance(node, ast.UnaryOp) and isinstance(node.op, (ast.USub, ast.UAdd)):
        v = _const_fraction(node.operand, src, where); return -v if isinstance(node.op, ast.USub) else v
    if isinstance(node, ast.BinOp) and isinstance(node.op, (ast.Add, ast.Sub, ast.Mult, ast.Div)):
        a, b = _const_fraction(node.left, src, where), _const_fraction(node.right, src, where)
        if isinstance(node.op, ast.Add): return a + b
        if isinstance(node.op, ast.Sub): return a - b
        if isinstance(node.op, ast.Mult): return a * b
        if b == 0: raise T.TranslateError(f"{where}: division by zero in DOT_THRESHOLD")
        return a / b
    raise T.TranslateError(f"{where}: DOT_THRESHOLD is not a numeric literal expression")


def _threshold_site(tree, src, fn_name, want_rhs):
    fn = T.find_def(tree, f"FeatureEdgeDetector.{fn_name}")
    lit = None
    for n in ast.walk(fn):
        if isinstance(n, ast.Assign) and len(n.targets) == 1 and isinstance(n.targets[0], ast.Name) and n.targets[0].id == "DOT_THRESHOLD":
            if lit is not None: raise T.TranslateError(f"{fn_name}: DOT_THRESHOLD assigned twice")
            lit = _const_fraction(n.value, src, fn_name)
    if lit is None: raise T.TranslateError(f"{fn_name}: DOT_THRESHOLD not found")
    def _is_dot(x): return isinstance(x, ast.Call) and isinstance(x.func, ast.Attribute) and x.func.attr == "dot"
    cmps = [n for n in ast.walk(fn) if isinstance(n, ast.Compare) and len(n.ops) == 1 and (_is_dot(n.left) or _is_dot(n.comparators[0]))]
    if len(cmps) != 1: raise T.TranslateError(f"{fn_name}: expected exactly one comparison of geometry.dot(...)")
    c = cmps[0]
    # `dot(..) < T`  or, commuted, `T > dot(..)`
    if _is_dot(c.left) and isinstance(c.ops[0], ast.Lt): call, rhs = c.left, c.comparators[0]
    elif _is_dot(c.comparators[0]) and isinstance(c.ops[0], ast.Gt): call, rhs = c.comparators[0], c.left
    else: raise T.TranslateError(f"{fn_name}: comparison operator is {type(c.ops[0]).__name__}, expected `dot(..) < threshold`")
    if ast.unparse(rhs).replace(" ", "") != want_rhs:
        raise T.TranslateError(f"{fn_name}: right-hand side is `{ast.unparse(rhs)}`, expected `{want_rhs}`")
    # the two arguments are the two face normals: two different locals bound together from self.fnormals[..] (any names)
    args = [ast.unparse(a) for a in call.args]
    bound = [n for n in ast.walk(fn) if isinstance(n, ast.Assign) and isinstance(n.targets[0], ast.Tuple) and isinstance(n.value, ast.Tuple)
             and sorted(ast.unparse(t) for t in n.targets[0].elts) == sorted(args)
             and all(ast.unparse(v).startswith("self.fnormals[") for v in n.value.elts)]
    if len(args) != 2 or args[0] == args[1] or not bound:
        raise T.TranslateError(f"{fn_name}: dot() is not applied to the two face normals")
    guards = [n for n in ast.walk(fn) if isinstance(n, ast.If) and ast.unparse(n.test) == "self.only_border"
              and len(n.body) == 1 and isinstance(n.body[0], ast.Return)]
    if not guards: raise T.TranslateError(f"{fn_name}: `if self.only_border: return` not found")
    return lit


def _run_reset_site(tree):
    """FeatureEdgeDetector.run: does it start with self.clear(), does clear() re-create the four containers, and is an existing
    edge attribute "feature" cleared before the passes?  Any other shape is refused."""
    run = T.find_def(tree, "FeatureEdgeDetector.run")
    clr = T.find_def(tree, "FeatureEdgeDetector.clear")
    body = [st for st in run.body if not (isinstance(st, ast.Expr) and isinstance(st.value, ast.Constant))]
    calls = [n for n in ast.walk(run) if isinstance(n, ast.Call) and ast.unparse(n.func) == "self.clear"]
    if calls:
        if not (body and isinstance(body[0], ast.Expr) and body[0].value is calls[0] and len(calls) == 1):
            raise T.TranslateError("run(): self.clear() is not the first statement")
        self_clear = True
    else:
        self_clear = False
    want = {"feature_vertices": "set()", "feature_edges": "set()", "feature_degrees": "Attribute(int)", "local_feat_edges": "dict()"}
    got = {}
    for st in clr.body:
        if isinstance(st, ast.Assign) and len(st.targets) == 1 and ast.unparse(st.targets[0]).startswith("self."):
            got[ast.unparse(st.targets[0])[5:]] = ast.unparse(st.value)
    if any(got.get(k) != v for k, v in want.items()):
        raise T.TranslateError(f"clear(): containers are not re-created as expected: {got}")
    # the has_attribute / get_attribute (+ .clear()) / create_attribute branch for mesh.edges "feature" (any local variable name)
    def _pos(st):
        """(test source, then-branch, else-branch) of an `if`, with `if not c: A else: B` read as `if c: B else: A`"""
        if isinstance(st.test, ast.UnaryOp) and isinstance(st.test.op, ast.Not):
            return ast.unparse(st.test.operand).replace('"', "'"), st.orelse, st.body
        return ast.unparse(st.test).replace('"', "'"), st.body, st.orelse
    ifs = [st for st in ast.walk(run) if isinstance(st, ast.If) and _pos(st)[0] == "mesh.edges.has_attribute('feature')"]
    if len(ifs) != 1: raise T.TranslateError("run(): `if mesh.edges.has_attribute('feature')` branch not found (or not unique)")
    _, body_, orelse_ = _pos(ifs[0])
    ifs[0].body, ifs[0].orelse = body_, orelse_
    b = [ast.unparse(x).replace('"', "'") for x in ifs[0].body]
    o = [ast.unparse(x).replace('"', "'") for x in ifs[0].orelse]
    if not (b and isinstance(ifs[0].body[0], ast.Assign) and isinstance(ifs[0].body[0].targets[0], ast.Name)):
        raise T.TranslateError(f"run(): unexpected branch body {b}")
    X = ifs[0].body[0].targets[0].id
    if o != [f"{X} = mesh.edges.create_attribute('feature', bool)"]:
        raise T.TranslateError(f"run(): unexpected else-branch {o}")
    if b == [f"{X} = mesh.edges.get_attribute('feature')", f"{X}.clear()"]: edge_clear = True
    elif b == [f"{X} = mesh.edges.get_attribute('feature')"]: edge_clear = False
    else: raise T.TranslateError(f"run(): unexpected branch body {b}")
    # the three passes must be fed with that attribute, after the branch
    asg = [n for n in ast.walk(run) if isinstance(n, ast.Assign) and ast.unparse(n.targets[0]) == X
           and isinstance(n.value, ast.Call) and ast.unparse(n.value.func).startswith("self._add_")]
    passes = [ast.unparse(n.value.func) for n in asg]
    if sorted(passes) != sorted(["self._add_hard_edges_to_features", "self._add_sharp_angles_to_features", "self._add_border_to_features"]) \
            or min(n.lineno for n in asg) < ifs[0].lineno or any([ast.unparse(a) for a in n.value.args] != ["mesh", X] for n in asg):
        raise T.TranslateError(f"run(): the three passes are not applied once each to the opened attribute: {passes}")
    # the normals: `if mesh.faces.has_attribute('normals'): self.fnormals = get_attribute  else: self.fnormals = face_normals(mesh, persistent=…)`
    nifs = [st for st in ast.walk(run) if isinstance(st, ast.If) and ast.unparse(st.test).replace('"', "'") == "mesh.faces.has_attribute('normals')"]
    if len(nifs) != 1: raise T.TranslateError("run(): `if mesh.faces.has_attribute('normals')` branch not found (or not unique)")
    nb = [ast.unparse(x).replace('"', "'") for x in nifs[0].body]
    if nb != ["self.fnormals = mesh.faces.get_attribute('normals')"] or len(nifs[0].orelse) != 1:
        raise T.TranslateError(f"run(): unexpected normals branch {nb}")
    el = nifs[0].orelse[0]
    if not (isinstance(el, ast.Assign) and ast.unparse(el.targets[0]) == "self.fnormals" and isinstance(el.value, ast.Call)
            and ast.unparse(el.value.func) == "face_normals" and [ast.unparse(a) for a in el.value.args][:1] == ["mesh"]):
        raise T.TranslateError(f"run(): unexpected way of computing the normals: {ast.unparse(el)}")
    # value of `persistent` at that call: keyword, 3rd positional argument, or the default in attr_faces.face_normals
    ft, _ = T.load("mouette/attributes/attr_faces.py")
    fdef = T.find_def(ft, "face_normals")
    names = [a.arg for a in fdef.args.args]
    if "persistent" not in names: raise T.TranslateError("face_normals has no `persistent` parameter")
    k = names.index("persistent")
    dflt = fdef.args.defaults[k - (len(names) - len(fdef.args.defaults))] if k >= len(names) - len(fdef.args.defaults) else None
    val = None
    for kw in el.value.keywords:
        if kw.arg == "persistent": val = kw.value
    if val is None and len(el.value.args) > k: val = el.value.args[k]
    if val is None: val = dflt
    if not (isinstance(val, ast.Constant) and isinstance(val.value, bool)):
        raise T.TranslateError("run(): cannot tell whether face_normals is persistent")
    return self_clear, edge_clear, bool(val.value)


def translate():
    tree, src = T.load("mouette/processing/features.py")
    vals = {}
    s3 = T.site("features.py: FeatureEdgeDetector.run/clear resets (self.clear() first; existing edge attribute 'feature' .clear()ed; own normals not persistent)",
                lambda: vals.setdefault("resets", _run_reset_site(tree)) and {"self_clear": vals["resets"][0], "edge_clear": vals["resets"][1],
                                                                              "normals_persistent": vals["resets"][2]})
    # (site refused: flags for which `generated_run_resets` does NOT build, never the values of an earlier tree)
    sc, ec, npers = vals.get("resets", (False, False, True))
    T.write_generated("C15Run", "def runFlags : Mouette.Features.RunFlags := { selfClear := %s, edgeClear := %s, normalsPersistent := %s }\nend Mouette.Generated.C15\n"
                      % tuple("true" if b else "false" for b in (sc, ec, npers)), "import Mouette.Model.FeatRuns\nnamespace Mouette.Generated.C15\n")
    s1 = T.site("features.py: _add_sharp_angles_to_features DOT_THRESHOLD / `dot(N1,N2) < DOT_THRESHOLD`",
                lambda: vals.setdefault("sharp", _threshold_site(tree, src, "_add_sharp_angles_to_features", "DOT_THRESHOLD")) and {"value": str(vals["sharp"])})
    s2 = T.site("features.py: _add_hard_edges_to_features DOT_THRESHOLD / `dot(N1,N2) < 1 - DOT_THRESHOLD`",
                lambda: vals.setdefault("hard", _threshold_site(tree, src, "_add_hard_edges_to_features", "1-DOT_THRESHOLD")) and {"value": str(vals["hard"])})

    def lean_rat(f): return f"(({f.numerator} : Rat) / {f.denominator})"
    sharp, hard = vals.get("sharp", Fraction(-1)), vals.get("hard", Fraction(-1))
    body = (f"def sharpDot : Rat := {lean_rat(sharp)}\ndef hardDelta : Rat := {lean_rat(hard)}\n"
            "def thresholds : Mouette.Features.Thresholds := { sharp := sharpDot, hardDelta := hardDelta }\n")
    T.write_generated("C15Thresholds", body + "end Mouette.Generated.C15\n", "import Mouette.Model.Features\nnamespace Mouette.Generated.C15\n")
    return [s1, s2, s3] + CS.translate_sites()



# SOURCE_MAP: every function of border.py / features.py -> how it is tied to the Lean side ("translated" = its body is compiled to
# Generated/C15Border.lean / C15Feat.lean on every run and a bridge theorem of Props/C15Source uses it)
def _smap():
    B, F = "mouette/processing/border.py::", "mouette/processing/features.py::FeatureEdgeDetector."
    m = {B + "extract_border_cycle": "translated", B + "extract_border_cycle_all": "translated", B + "extract_boundary_of_surface": "translated",
         B + "extract_boundary_of_volume": "out-of-scope: volume meshes (the statement is about surfaces)"}
    for f in ["_add_border_to_features", "_add_hard_edges_to_features", "_add_sharp_angles_to_features", "_flag_corners"]:
        m[F + f] = "translated"
    m[F + "run"] = ("translated: whole body (Generated/C15RunSrc.lean; theorems source_run_*): clear() first, both `feature` attributes opened "
                    "and cleared, the three passes in order, the container loops, the `if self.flag_corners: self._flag_corners(mesh)` call (source_run_corner_flags), "
                    "the final vertex flags; the normals branch and the feature-graph block are recognised (exact shape required) and left out: "
                    "they write none of the containers")
    m[F + "clear"] = "translated"
    m[F + "__init__"] = "modelled: the option attributes are inputs of the model"
    m[F + "detect"] = "modelled: alias of run"
    for f in ["feature_graph", "corner_point_cloud", "_compute_feature_graph", "_compute_corner_point_cloud"]:
        m[F + f] = "out-of-scope: visualisation outputs, not part of the statement (run with compute_feature_graph on and off in the history cases)"
    return m


SOURCE_MAP = _smap()

MANIFEST = {
    "level_text": ("Proof. Lean 4 theorems about executable models of FeatureEdgeDetector.run and of the border extraction: the set of "
                   "flagged edges after the three passes (hard, sharp, border) is exactly border ∪ (interior ∧ cos < 1/2) ∪ (hard ∧ "
                   "interior ∧ cos < 4/5), only the border when only_border is set, with the thresholds read from the source by a "
                   "Python-ast translator and bridged to 1/2 and 4/5; cos < t is decided without square roots and proved equivalent to "
                   "d < t for unit normals; feature_vertices, feature_degrees and local_feat_edges are proved consistent with the edge "
                   "set (for every mesh size); the polyline index map is proved to round-trip. border_cycle_correct: under the decidable "
                   "hypotheses Oriented + indices in range + umbrella condition at the boundary vertices (evaluated by the driver on "
                   "every generated surface), extract_border_cycle from ANY boundary vertex returns a repetition-free closed walk along "
                   "border edges (ids = the returned edge list, members of boundary_edges) that covers the whole loop, and "
                   "extract_border_cycle_all returns cycles partitioning the boundary vertices (each loop once); the walk's first step "
                   "rests on the proved C01 ring_sorted (first ring neighbour = source of the entering border side). Round 4: the BODIES of "
                   "extract_border_cycle, extract_border_cycle_all, extract_boundary_of_surface, the three feature passes and _flag_corners are "
                   "compiled statement by statement from border.py/features.py into Generated/C15Border.lean, C15Feat.lean on every run and "
                   "proved equal to the models (Props/C15Source): border_cycle_correct, the partition into loops, the polyline's edge set + "
                   "index map, feature_set_exact and the corner rule (±1 below 2π/order, round-half-even above) are theorems about the "
                   "translated source; the walk's while loop is proved to stop by its own condition within the fuel len(vertices)."),
    "level_note": ("Trusted: Lean kernel + propext/Classical.choice/Quot.sound; threshold translator; hand-written Border/Features "
                   "models (sampled agreement); float vs exact rational comparison away from / exactly on thresholds; the "
                   "boundary polyline's edge set = border edges is correspondence/oracle-only (only the index map is proved)."),
    "technique": "Lean 4 proofs over an executable model + ast-translated thresholds; differential correspondence on generated surfaces with exact normals",
}
