"""C02 — mesh construction normalises raw data, whatever its form.

Three independent pieces (see DESIGN.md §5/C02):
  * impl_observe  : builds the scenario with the REAL code (raw containers of lists / tuples / numpy rows, or
                    from_arrays), once / twice / re-prepared / re-wrapped, and prints every container canonically;
  * model_request : the same scenario for the Lean model Mouette/Model/Prepare.lean (compared string-exactly);
  * oracle        : the property stated directly on the finished object in plain Python sets / multisets
                    (does not mirror the code's order of operations and does not use the model).
"""
import ast, os
from collections import Counter
from fractions import Fraction

from ..gen import mesh as G
from ..gen import rawmesh as R
from .. import translate as T

PID = "C02"
TITLE = "Mesh construction normalises raw data, whatever its form"
LEAN_MODULES = ["Mouette.Props.C02"]
REQUIRED_THEOREMS = [
    # translated tables
    "tet_tables_agree", "hex_tables_agree", "generated_tables_eq_model", "tet_face_i_omits_vertex_i",
    "tet_faces_consistently_oriented", "hex_faces_cover_each_edge_twice",
    # P0
    "vertices_3d", "edges_normalised", "edges_complete_once", "edge_key_is_unordered_pair", "declared_edges_first",
    "edge_attr_follow", "edge_attr_no_stale_keys", "faces_from_cells", "face_key_is_vertex_multiset", "faces_declared_prefix",
    "faces_per_cell", "owners_spec", "corner_records", "cell_face_records", "class_by_dim", "hard_edges_only_declared",
    "prepare_never_fails", "prepare_cf_on_never_fails", "prepare_cf_off_witness", "cell_face_records_meaning",
    "cell_face_records_complete",
    # P1
    "prepare_idempotent", "prepare_rewrap_prepare", "rewrap_same_class",
    # round 2: translated control skeleton (Generated/C02Structure.lean) and its bridges
    "prepare_program_bridge", "prepare_follows_source_structure", "prepare_program_order", "is_valid_bridge",
    "hard_edges_guard_bridge", "corner_append_bridge", "corner_generation_uses_append_order", "dimensionality_bridge",
    "instantiate_follows_source_structure", "class_table_bridge", "mesh_init_bridge", "rewrap_follows_mesh_init",
    # round 2: row container types
    "prepare_commutes_with_forgetting_row_type", "prepare_depends_on_row_values_only", "prepared_rows_are_lists_or_tuples",
]
TRUSTED = [
    "Lean 4.33.0 kernel; axioms ⊆ {propext, Classical.choice, Quot.sound}",
    "hand-written model Mouette/Model/Prepare.lean of RawMeshData.prepare / _instanciate_raw_mesh_data / from_arrays / "
    "RawMeshData(mesh), tied to mouette/mesh/mesh_data.py, mesh.py, datatypes/base.py by the container correspondence of this run",
    "translator: cell-face tables of _complete_faces_from_cells, _generate_cell_faces (mesh_data.py) and "
    "_compute_adjacent_cell (volume.py) are read with Python ast (name -> position in the tuple unpacking of the cell)",
    "translator (vlib/props/c02_structure.py): the control skeleton of prepare(), _prepare_edges.is_valid, the hard_edges block, "
    "the corner appends, _compute_dimensionality, _instanciate_raw_mesh_data and Mesh.__init__ is read with Python ast into the "
    "vocabulary of Lemmas/C02Steps.lean, whose interpreters (runProgram, completeEdgesWith, cornerLists, dimBy, runInst, visible) "
    "are hand-written",
    "row-typed model prepareR (Lemmas/C02Rows.lean) tied to the code by the K section of the correspondence: type(row) of every "
    "stored edge/face/cell row for list, tuple and numpy input rows",
    "Python set/dict of key tuples abstracted to lists with membership; numpy int rows abstracted to integer lists "
    "(the row-type independence itself is checked by running every scenario per container type and a query battery)",
    "edge attribute values are ints (one per element); Vec/ndarray vertex rows abstracted to rational lists",
]
ASSUMPTIONS = [
    "agreement model/implementation is established on the scenarios explored in this run only",
    "faces index existing vertices; cells are tetrahedra (4) or hexahedra (8) (the quantifier of the statement)",
    "file readers are C04's object; here 'a file' is an .obj (polygon soups, polylines) or medit .mesh (tetrahedra) text written by "
    "the harness and read back by mouette.mesh.load(raw=True); what the reader hands over goes through the same prepare()",
]
RULE = ("raw scenarios (points, polylines, manifold polygon surfaces, tet meshes, hex grids, mixed tet+hex, tiny random "
        "polygon soups) + declared edges (valid/reversed/duplicate/self-loop/out-of-range/negative) + sparse/dense int edge "
        "attributes with/without custom default + cell faces declared up front; x {list,tuple,numpy rows, from_arrays, "
        ".obj/.mesh file written by the harness and read by mouette.mesh.load} x "
        "completion switches x {once, constructor twice, prepare again, RawMeshData(mesh) re-wrap (same class / "
        "instanciate)} x {instanciate with dim None/0..3, direct class}; every raw scenario is built from list, tuple AND numpy "
        "rows and all three must match the one model reply, incl. the container type of every stored row; every container, attribute, corner record and the "
        "class are compared with the Lean model; non-trivial = distinct scenario whose construction succeeds and holds at "
        "least one face, cell or declared edge")

CLASSES = ["PointCloud", "PolyLine", "SurfaceMesh", "VolumeMesh"]


# ------------------------------------------------------------------------------------------------------------
# cases
# ------------------------------------------------------------------------------------------------------------
def _uniform(rows):
    return len({len(r) for r in rows}) <= 1


def _finish(rng, sc):
    c = dict(sc)
    c["ce"] = rng.random() < .8
    c["cf"] = rng.random() < .85
    ct = rng.choice(["list", "tuple", "numpy", "numpy"])
    via = "raw"
    if ct == "numpy" and _uniform(c["F"]) and _uniform(c["C"]) and c["V"] and rng.random() < .5:
        via = "arrays"
    if via == "raw" and ct == "list" and _file_format(c) and c["V"] and rng.random() < .5 \
            and not (c["vdim"] == 2 and _file_format(c) == "mesh"):
        via = "file"
    c["ctype"], c["via"] = ct, via
    c["build"] = rng.choice(["once", "once", "once", "twice", "reprep", "rewrap", "rewrap", "rewrapinst"])
    r = rng.random()
    if r < .55: c["how"] = "inst:N"
    elif r < .75: c["how"] = "inst:%d" % rng.randint(0, 3)
    else:
        top = 3 if c["C"] else 2 if c["F"] else 1 if c["E"] else 0
        c["how"] = "direct:%d" % rng.choice([top, top, top, rng.randint(0, 3)])
    return c


HAND = [
    # the hand-made scenarios of DESIGN.md §5/C02 (kept as ordinary generated cases so that they are re-established
    # by the machinery on every run)
    {"kind": "hand-numpy-tets", "V": [[0., 0., 0.], [1., 0., 0.], [0., 1., 0.], [0., 0., 1.], [1., 1., 1.]], "vdim": 3, "E": [], "EA": [],
     "F": [], "C": [[0, 1, 2, 3], [1, 2, 3, 4]], "ce": True, "cf": True, "ctype": "numpy", "via": "arrays", "build": "once", "how": "inst:N"},
    {"kind": "hand-dense-attr", "V": [[0., 0., 0.], [1., 0., 0.], [0., 1., 0.], [1., 1., 0.]], "vdim": 3,
     "E": [[0, 1], [1, 1], [2, 1], [3, 7], [3, 2]],
     "EA": [{"name": "w", "dense": True, "dflt": None, "vals": {"0": 10, "1": 11, "2": 12, "3": 13, "4": 14}},
            {"name": "s", "dense": False, "dflt": None, "vals": {"0": 5, "2": 7, "3": 9}}],
     "F": [], "C": [], "ce": True, "cf": True, "ctype": "tuple", "via": "raw", "build": "once", "how": "inst:N"},
    {"kind": "hand-rewrap-hard", "V": [[0., 0., 0.], [1., 0., 0.], [0., 1., 0.], [1., 1., 0.]], "vdim": 3, "E": [[1, 0]], "EA": [],
     "F": [[0, 1, 2], [1, 3, 2]], "C": [], "ce": True, "cf": True, "ctype": "list", "via": "raw", "build": "rewrap", "how": "direct:2"},
    {"kind": "hand-2d", "V": [[0., 0.], [1., 0.], [0., 1.]], "vdim": 2, "E": [], "EA": [], "F": [[0, 1, 2]], "C": [],
     "ce": True, "cf": True, "ctype": "tuple", "via": "raw", "build": "once", "how": "direct:2"},
    {"kind": "hand-two-tets", "V": [[0., 0., 0.], [1., 0., 0.], [0., 1., 0.], [0., 0., 1.], [1., 1., 1.]], "vdim": 3, "E": [], "EA": [],
     "F": [], "C": [[0, 1, 2, 3], [1, 2, 3, 4]], "ce": True, "cf": True, "ctype": "list", "via": "raw", "build": "once", "how": "direct:3"},
    {"kind": "hand-two-tets-rewrap", "V": [[0., 0., 0.], [1., 0., 0.], [0., 1., 0.], [0., 0., 1.], [1., 1., 1.]], "vdim": 3, "E": [], "EA": [],
     "F": [], "C": [[0, 1, 2, 3], [1, 2, 3, 4]], "ce": True, "cf": True, "ctype": "list", "via": "raw", "build": "rewrap", "how": "direct:3"},
    {"kind": "hand-hex", "V": [[0., 0., 0.], [1., 0., 0.], [1., 1., 0.], [0., 1., 0.], [0., 0., 1.], [1., 0., 1.], [1., 1., 1.], [0., 1., 1.]],
     "vdim": 3, "E": [[6, 0]], "EA": [], "F": [], "C": [[0, 1, 2, 3, 4, 5, 6, 7]], "ce": True, "cf": True, "ctype": "tuple", "via": "raw",
     "build": "once", "how": "inst:N"},
    {"kind": "hand-default", "V": [[0., 0., 0.], [1., 0., 0.], [0., 1., 0.]], "vdim": 3, "E": [[0, 1], [2, 2], [1, 2]],
     "EA": [{"name": "lab", "dense": False, "dflt": 7, "vals": {"0": 3}}], "F": [], "C": [],
     "ce": True, "cf": True, "ctype": "list", "via": "raw", "build": "once", "how": "inst:N"},
]


def cases(rng, tier):
    n = 2600 if tier == "quick" else 24000
    for h in HAND:
        yield dict(h)
    for _ in range(n):
        yield _finish(rng, R.scenario(rng, tier))
    if tier == "thorough":
        # every configuration combination on a few fixed scenarios (a test of the tie, not a proof)
        import itertools
        fixed = [R.scenario(rng, "quick") for _ in range(12)]
        for sc in fixed:
            for ce, cf, ct, build in itertools.product([True, False], [True, False], ["list", "tuple", "numpy"],
                                                       ["once", "twice", "reprep", "rewrap", "rewrapinst"]):
                c = dict(sc); c.update(ce=ce, cf=cf, ctype=ct, via="raw", build=build, how="inst:N")
                yield c


# ------------------------------------------------------------------------------------------------------------
# driving the implementation
# ------------------------------------------------------------------------------------------------------------
def _err(e):
    n = type(e).__name__
    return {"KeyError": "err:Key", "ValueError": "err:Value", "IndexError": "err:Index", "TypeError": "err:Type",
            "OutOfBoundsError": "err:OutOfBounds", "InvalidSizeError": "err:Size"}.get(n, f"err:Other({n})")


def _rows(rows, ct):
    import numpy as np
    if ct == "list": return [list(r) for r in rows]
    if ct == "tuple": return [tuple(r) for r in rows]
    return [np.array(r, dtype=np.int64) for r in rows]


def _vrows(rows, ct):
    import numpy as np
    if ct == "list": return [list(r) for r in rows]
    if ct == "tuple": return [tuple(r) for r in rows]
    return [np.array(r, dtype=float) for r in rows]


def _file_format(case):
    """obj for polygon soups / polylines, medit (.mesh) when there are tetrahedra; None when no reader fits"""
    if not case["C"]:
        return "obj"
    if all(len(c) == 4 for c in case["C"]) and all(len(f) in (3, 4) for f in case["F"]):
        return "mesh"
    return None


def _file_edges(case):
    """the declared edges as the reader hands them over (obj: `l a b` lines are keyified by the reader)"""
    if _file_format(case) == "obj":
        return [sorted(e) for e in case["E"]]
    return [list(e) for e in case["E"]]


def _load_from_file(case):
    import tempfile
    import mouette as M
    fmt = _file_format(case)
    fr = lambda x: repr(float(x))
    with tempfile.TemporaryDirectory() as td:
        path = os.path.join(td, "m." + fmt)
        with open(path, "w") as f:
            if fmt == "obj":
                for v in case["V"]: f.write("v " + " ".join(fr(x) for x in v) + "\n")
                for a, b in case["E"]: f.write(f"l {a + 1} {b + 1}\n")
                for fa in case["F"]: f.write("f " + " ".join(str(x + 1) for x in fa) + "\n")
            else:
                f.write("MeshVersionFormatted 2\nDimension 3\nVertices\n%d\n" % len(case["V"]))
                for v in case["V"]: f.write(" ".join(fr(x) for x in v) + " 0\n" if len(v) == 3 else " ".join(fr(x) for x in v) + "\n")
                if case["E"]:
                    f.write("Edges\n%d\n" % len(case["E"]))
                    for a, b in case["E"]: f.write(f"{a + 1} {b + 1} 0\n")
                i = 0
                F = case["F"]
                while i < len(F):                      # one block per run of equal arity keeps the declared order
                    j = i
                    while j < len(F) and len(F[j]) == len(F[i]): j += 1
                    f.write(("Triangles" if len(F[i]) == 3 else "Quadrilaterals") + "\n%d\n" % (j - i))
                    for fa in F[i:j]: f.write(" ".join(str(x + 1) for x in fa) + " 0\n")
                    i = j
                f.write("Tetrahedra\n%d\n" % len(case["C"]))
                for c in case["C"]: f.write(" ".join(str(x + 1) for x in c) + " 0\n")
                f.write("End\n")
        return M.mesh.load(path, raw=True)


def _make_raw(case, ct, via):
    import numpy as np
    import mouette as M
    from mouette.mesh.mesh_data import RawMeshData
    if via == "file":
        d = _load_from_file(case)
    elif via == "arrays":
        V = np.array(case["V"], dtype=float).reshape(len(case["V"]), case["vdim"])
        E = np.array(case["E"], dtype=np.int64) if case["E"] else None
        F = np.array(case["F"], dtype=np.int64) if case["F"] else None
        C = np.array(case["C"], dtype=np.int64) if case["C"] else None
        d = M.mesh.from_arrays(V, E, F, C, raw=True)
    else:
        d = RawMeshData()
        d.vertices += _vrows(case["V"], ct)
        d.edges += _rows(case["E"], ct)
        d.faces += _rows(case["F"], ct)
        d.cells += _rows(case["C"], ct)
    for a in case["EA"]:
        at = d.edges.create_attribute(a["name"], int, dense=a["dense"], default_value=a["dflt"])
        for k, v in sorted(a["vals"].items(), key=lambda kv: int(kv[0])):
            at[int(k)] = int(v)
    return d


def _construct(d, how):
    import mouette as M
    from mouette.mesh import mesh as mm
    kind, k = how.split(":")
    if kind == "inst":
        return mm._instanciate_raw_mesh_data(d, None if k == "N" else int(k))
    return getattr(M.mesh, CLASSES[int(k)])(d)


def _attr_snap(cont):
    from mouette.mesh.mesh_attributes import ArrayAttribute
    out = []
    for name in sorted(cont.attributes):
        a = cont.get_attribute(name)
        dv = a.default_value
        dv = int(dv) if not hasattr(dv, "__len__") else int(dv[0])
        if isinstance(a, ArrayAttribute):
            out.append([name, "d", dv, [int(a._data[i, 0]) for i in range(a.n_elem)]])
        else:
            out.append([name, "s", dv, sorted([int(k), int(v)] for k, v in a._data.items())])
    return out


def _kind_char(row):
    import numpy as np
    return "t" if isinstance(row, tuple) else "l" if isinstance(row, list) else "n" if isinstance(row, np.ndarray) else "?"


def _kinds(mesh):
    """container type of every stored index row (the observable of the row-typed model prepareR)"""
    k = lambda cont: "".join(_kind_char(r) for r in cont)
    return ("E" + (k(mesh.edges) if hasattr(mesh, "edges") else "-") + "F" + (k(mesh.faces) if hasattr(mesh, "faces") else "-")
            + "C" + (k(mesh.cells) if hasattr(mesh, "cells") else "-"))


def _kinds_mode(case):
    return "all" if case["via"] == "raw" else "numpy" if case["via"] == "arrays" else "none"


def _snap(mesh):
    import numpy as np
    s = {"cls": type(mesh).__name__, "K": _kinds(mesh)}
    s["V"] = [[Fraction(float(x)) for x in np.asarray(v).ravel()] for v in mesh.vertices]
    if hasattr(mesh, "edges"):
        s["E"] = [[int(x) for x in e] for e in mesh.edges]
        s["A"] = _attr_snap(mesh.edges)
    if hasattr(mesh, "faces"):
        s["F"] = [[int(x) for x in f] for f in mesh.faces]
        s["FC"] = [[int(x) for x in mesh.face_corners._elem], [int(x) for x in mesh.face_corners._adj]]
    if hasattr(mesh, "cells"):
        s["C"] = [[int(x) for x in c] for c in mesh.cells]
        s["CC"] = [[int(x) for x in mesh.cell_corners._elem], [int(x) for x in mesh.cell_corners._adj]]
        s["CF"] = [[int(x) for x in mesh.cell_faces._elem], [int(x) for x in mesh.cell_faces._adj]]
    return s


def _frac(f):
    return str(f.numerator) if f.denominator == 1 else f"{f.numerator}/{f.denominator}"


def _nl(l):
    return " ".join([str(len(l))] + [str(x) for x in l])


def _fmt(s):
    parts = ["cls:" + s["cls"]]
    parts.append("V:" + " ".join([str(len(s["V"]))] + [" ".join([str(len(v))] + [_frac(x) for x in v]) for v in s["V"]]))
    if "E" in s:
        parts.append("E:" + " ".join([str(len(s["E"]))] + [f"{a} {b}" for a, b in s["E"]]))
        at = [str(len(s["A"]))]
        for name, kind, dv, data in s["A"]:
            if kind == "d": at.append(f"{name} d {dv} {_nl(data)}")
            else: at.append(f"{name} s {dv} " + " ".join([str(len(data))] + [f"{k} {v}" for k, v in data]))
        parts.append("A:" + " ".join(at))
    if "F" in s:
        parts.append("F:" + " ".join([str(len(s["F"]))] + [_nl(f) for f in s["F"]]))
        parts.append("FC:" + _nl(s["FC"][0]) + " " + _nl(s["FC"][1]))
    if "C" in s:
        parts.append("C:" + " ".join([str(len(s["C"]))] + [_nl(c) for c in s["C"]]))
        parts.append("CC:" + _nl(s["CC"][0]) + " " + _nl(s["CC"][1]))
        parts.append("CF:" + _nl(s["CF"][0]) + " " + _nl(s["CF"][1]))
    return ";".join(parts)


_CACHE = {}


def _run(case, ct=None, via=None):
    """Build the scenario with the real code. Returns dict(err, stage, first, final, mesh)."""
    ct = ct or case["ctype"]
    via = via or case["via"]
    key = (G.__name__, str(sorted(case.items(), key=lambda kv: kv[0])), ct, via)
    if key in _CACHE:
        return _CACHE[key]
    import mouette as M
    from mouette.mesh.mesh_data import RawMeshData
    from mouette.mesh import mesh as mm
    cfg = M.config
    old = (cfg.complete_edges_from_faces, cfg.complete_faces_from_cells)
    res = {"err": None, "stage": None, "first": None, "final": None, "mesh": None}
    try:
        cfg.complete_edges_from_faces, cfg.complete_faces_from_cells = bool(case["ce"]), bool(case["cf"])
        try:
            d = _make_raw(case, ct, via)
            m1 = _construct(d, case["how"])
            res["first"] = _snap(m1)
        except Exception as e:  # noqa
            res["err"], res["stage"] = _err(e), "first"
        if res["err"] is None:
            b = case["build"]
            try:
                if b == "once": m2 = m1
                elif b == "twice": m2 = _construct(d, case["how"])
                elif b == "reprep":
                    d.prepare(); m2 = m1
                elif b == "rewrap": m2 = type(m1)(RawMeshData(m1))
                else: m2 = mm._instanciate_raw_mesh_data(RawMeshData(m1), CLASSES.index(type(m1).__name__))
                res["final"] = _snap(m2); res["mesh"] = m2
            except Exception as e:  # noqa
                res["err"], res["stage"] = _err(e), "again"
    finally:
        cfg.complete_edges_from_faces, cfg.complete_faces_from_cells = old
    if len(_CACHE) > 64: _CACHE.clear()
    _CACHE[key] = res
    return res


def _obs_values(r):
    return r["err"] if r["err"] else _fmt(r["final"])


def _obs_kinds(r):
    return r["first"]["K"] if r["first"] is not None else r["err"]


def _ctype_runs(case):
    """the scenario once per container type of the index rows (raw route), else the single route of the case"""
    mode = _kinds_mode(case)
    if mode == "all":
        return [(ct, _run(case, ct, "raw")) for ct in ("list", "tuple", "numpy")]
    if mode == "numpy":
        return [("numpy", _run(case))]
    return []


def impl_observe(case):
    """values: containers of the finished mesh for the container type of the case; K: container type of every stored
    row of the first build, for each input container type (compared with the row-typed model prepareR)"""
    runs = _ctype_runs(case)
    ks = "K:" + ",".join(f"{ct}={_obs_kinds(r)}" for ct, r in runs) if runs else "K:-"
    return _obs_values(_run(case)) + ";" + ks


# ------------------------------------------------------------------------------------------------------------
# model request
# ------------------------------------------------------------------------------------------------------------
def model_request(case):
    kind, k = case["how"].split(":")
    t = ["prep", "1" if case["ce"] else "0", "1" if case["cf"] else "0", "arrays" if case["via"] == "arrays" else "raw", kind, k, case["build"], _kinds_mode(case)]
    t += ["V", str(len(case["V"]))]
    for v in case["V"]:
        t += [str(len(v))] + [G.frac(x) for x in v]
    t += ["E", str(len(case["E"]))]
    for a, b in (_file_edges(case) if case["via"] == "file" else case["E"]):
        t += [str(a), str(b)]
    t += ["A", str(len(case["EA"]))]
    for a in case["EA"]:
        items = sorted(((int(i), int(v)) for i, v in a["vals"].items()))
        t += [a["name"], "d" if a["dense"] else "s", "N" if a["dflt"] is None else str(a["dflt"]), str(len(items))]
        for i, v in items:
            t += [str(i), str(v)]
    for tag in ("F", "C"):
        t += [tag, str(len(case[tag]))]
        for r in case[tag]:
            t += [str(len(r))] + [str(x) for x in r]
    return " ".join(t)


def _first_diff(a, b):
    for x, y in zip(a.split(";"), b.split(";")):
        if x != y:
            return f"section differs: model `{x[:160]}` vs implementation `{y[:160]}`"
    return f"model `{a[:120]}` vs implementation `{b[:120]}`"


def compare(case, model, impl):
    # the same model reply must describe the mesh built from EVERY container type of the index rows
    mvals = model.rsplit(";K:", 1)[0]
    for ct, r in _ctype_runs(case):
        if ct != case["ctype"] and case["via"] == "raw" and _obs_values(r) != mvals:
            return f"rows given as {ct}: " + (_first_diff(mvals, _obs_values(r)))
    if model == impl:
        return None
    ms, is_ = model.split(";"), impl.split(";")
    for a, b in zip(ms, is_):
        if a != b:
            return f"section differs: model `{a[:160]}` vs implementation `{b[:160]}`"
    return f"model `{model[:120]}` vs implementation `{impl[:120]}`"


# ------------------------------------------------------------------------------------------------------------
# oracle: the statement, directly
# ------------------------------------------------------------------------------------------------------------
def _key(r):
    return tuple(sorted(r))


def _cyc_eq(a, b):
    """same cyclic sequence up to rotation and reversal"""
    if len(a) != len(b): return False
    n = len(a)
    for seq in (list(b), list(b)[::-1]):
        for r in range(n):
            if list(a) == seq[r:] + seq[:r]: return True
    return False


def _canon(x):
    import numpy as np
    if isinstance(x, (list, tuple)): return [_canon(y) for y in x]
    if isinstance(x, (set, frozenset)): return sorted(_canon(y) for y in x)
    if isinstance(x, np.ndarray): return [_canon(y) for y in x.tolist()]
    if isinstance(x, (bool, np.bool_)): return bool(x)
    if isinstance(x, (int, np.integer)): return int(x)
    if isinstance(x, (float, np.floating)): return float(x)
    return x if x is None or isinstance(x, str) else repr(x)


def _battery(mesh):
    """a fixed battery of later queries (C01/C03 accessors, border data) on a built mesh"""
    res = {}
    cls = type(mesh).__name__

    def q(name, fn, srt=False):
        try:
            v = _canon(fn())
            if srt: v = [sorted(x, key=repr) if isinstance(x, list) else x for x in v]
            res[name] = v
        except Exception as e:  # noqa
            res[name] = "raises:" + type(e).__name__
    if cls == "PointCloud":
        return res
    c = mesh.connectivity
    nv, ne = len(mesh.vertices), len(mesh.edges)
    vol = cls == "VolumeMesh"
    q("vertex_to_vertices", lambda: [c.vertex_to_vertices(v) for v in range(nv)], srt=vol or cls == "PolyLine")
    q("vertex_to_edges", lambda: [c.vertex_to_edges(v) for v in range(nv)], srt=True)
    q("edge_id", lambda: [c.edge_id(a, b) for a, b in mesh.edges] + [c.edge_id(b, a) for a, b in mesh.edges])
    q("edge_to_vertices", lambda: [c.edge_to_vertices(e) for e in range(ne)])
    q("other_edge_end", lambda: [c.other_edge_end(e, mesh.edges[e][0]) for e in range(ne)])
    if cls == "PolyLine":
        return res
    nf, nc = len(mesh.faces), len(mesh.face_corners)
    q("face_id", lambda: [c.face_id(*f) for f in mesh.faces])
    q("face_to_vertices", lambda: [c.face_to_vertices(f) for f in range(nf)])
    q("face_to_edges", lambda: [c.face_to_edges(f) for f in range(nf)])
    q("face_to_corners", lambda: [c.face_to_corners(f) for f in range(nf)])
    q("corner_to_face", lambda: [c.corner_to_face(k) for k in range(nc)])
    q("vertex_to_faces", lambda: [c.vertex_to_faces(v) for v in range(nv)], srt=vol)
    q("in_face_index", lambda: [c.in_face_index(f, mesh.faces[f][0]) for f in range(nf)])
    if not vol:
        q("next_corner", lambda: [c.next_corner(k) for k in range(nc)])
        q("opposite_corner", lambda: [c.opposite_corner(k) for k in range(nc)])
        q("vertex_to_corners", lambda: [c.vertex_to_corners(v) for v in range(nv)])
        q("direct_face", lambda: [[c.direct_face(a, b), c.direct_face(b, a)] for a, b in mesh.edges])
        q("edge_to_faces", lambda: [c.edge_to_faces(a, b) for a, b in mesh.edges])
        q("face_to_faces", lambda: [c.face_to_faces(f) for f in range(nf)])
        q("boundary_edges", lambda: mesh.boundary_edges)
        q("boundary_vertices", lambda: mesh.boundary_vertices)
        q("is_triangular", lambda: mesh.is_triangular())
        return res
    ncell = len(mesh.cells)
    q("face_to_cells", lambda: [c.face_to_cells(f) for f in range(nf)], srt=True)
    q("cell_to_face", lambda: [c.cell_to_face(k) for k in range(ncell)], srt=True)
    q("cell_to_cell", lambda: [c.cell_to_cell(k) for k in range(ncell)], srt=True)
    q("vertex_to_cell", lambda: [c.vertex_to_cell(v) for v in range(nv)], srt=True)
    q("cell_to_vertex", lambda: [c.cell_to_vertex(k) for k in range(ncell)])
    q("cell_to_edge", lambda: [c.cell_to_edge(k) for k in range(ncell)], srt=True)
    q("edge_to_cell", lambda: [c.edge_to_cell(e) for e in range(ne)], srt=True)
    q("edge_to_face", lambda: [c.edge_to_face(e) for e in range(ne)], srt=True)
    q("in_cell_index", lambda: [c.in_cell_index(k, mesh.cells[k][-1]) for k in range(ncell)])
    q("in_cell_face_index", lambda: [[c.in_cell_face_index(k, f) for f in sorted(c.cell_to_face(k))] for k in range(ncell)])
    q("other_face_side", lambda: [[c.other_face_side(k, f) for f in sorted(c.cell_to_face(k))] for k in range(ncell)])
    q("common_face", lambda: [c.common_face(0, k) for k in range(ncell)])
    q("boundary_faces", lambda: mesh.boundary_faces)
    q("is_tetrahedral", lambda: mesh.is_tetrahedral())
    return res


def _ctx(case):
    return case["via"] if case["via"] in ("arrays", "file") else case["ctype"]


def oracle(case):
    out = []

    def add(key, what, detail=""):
        if not any(f["key"] == key for f in out):
            out.append({"key": key, "what": what, "detail": str(detail)[:400]})
    nV = len(case["V"])
    E, F, C = case["E"], case["F"], case["C"]
    valid = lambda e: e[0] != e[1] and 0 <= e[0] < nV and 0 <= e[1] < nV
    r = _run(case)
    # ---- construction must succeed (documented rejection: from_arrays refuses indices >= nV)
    if r["err"]:
        if case["via"] == "arrays" and r["err"] == "err:Other(Exception)" and any(max(e) >= nV for e in E):
            return out
        add(f"C02/raises/{r['stage']}/{r['err']}/{_ctx(case)}", f"construction ({r['stage']} build, {case['build']}) raised {r['err']} on a valid raw input", r["err"])
        return out
    s = r["final"]
    dimc = CLASSES.index(s["cls"])
    # ---- 3-D vertices
    if any(len(v) != 3 for v in s["V"]):
        add(f"C02/vertices/not-3d/{case['via']}", "finished mesh holds vertices that are not 3-D", [len(v) for v in s["V"]][:5])
    if [list(v)[:case["vdim"]] for v in s["V"]] != [[Fraction(x) for x in v] for v in case["V"]]:
        add("C02/vertices/changed", "vertex coordinates changed by construction")
    # ---- expected faces (multiset of vertex sets)
    decl_fk = [_key(f) for f in F]
    cellf = [fs for c in C for fs in R.cell_face_sets(c)]
    exp_f = Counter(decl_fk)
    if case["cf"] and C:
        for fs in cellf:
            if _key(fs) not in exp_f: exp_f[_key(fs)] = 1
    if dimc >= 2:
        got = Counter(_key(f) for f in s["F"])
        if got != exp_f:
            miss, extra = exp_f - got, got - exp_f
            add("C02/faces/" + ("missing" if miss else "duplicated-or-extra"),
                "face list is not: declared faces + each face of each cell not already present, once", f"missing {dict(miss)} extra {dict(extra)}")
        for f in s["F"][len(F):]:
            if len(f) == 4 and not any(_cyc_eq(f, q) for c in C if len(c) == 8 for q in R.cell_face_sets(c)):
                add("C02/faces/hex-quad-order", "a completed quad is not one of the six quads of its hexahedron", f)
        # corner records
        if s["FC"][0] != [v for f in s["F"] for v in f]:
            add("C02/face-corners/elem", "face corner elements are not the face vertices in element order")
        if s["FC"][1] != [i for i, f in enumerate(s["F"]) for _ in f]:
            add("C02/face-corners/owner", "face corner owners are not the faces in element order", s["FC"][1][:12])
    faces_final = list(exp_f.elements()) if (C or F) else []
    # ---- edges
    surv = [i for i, e in enumerate(E) if valid(e)]
    decl_valid = [_key(E[i]) for i in surv]
    exp_e = Counter(decl_valid)
    if case["ce"] and faces_final:
        # stored faces: declared ones as declared; completed cell faces (vertex set not declared) in their cyclic order
        all_faces = [list(f) for f in F] + ([fs for fs in cellf if _key(fs) not in set(decl_fk)] if (case["cf"] and C) else [])
        for f in all_faces:
            for i in range(len(f)):
                k = _key((f[i], f[(i + 1) % len(f)]))
                if valid(k) and k not in exp_e: exp_e[k] = 1
    if dimc >= 1:
        bad = [e for e in s["E"] if not (0 <= e[0] < e[1] < nV)]
        if bad:
            add("C02/edges/not-normalised", "a stored edge is not (low, high) with both ends in range", bad[:5])
        got = Counter(tuple(e) for e in s["E"])
        if got != exp_e:
            miss, extra = exp_e - got, got - exp_e
            kind = "missing-side" if any(k not in decl_valid for k in miss) else "declared-lost" if miss else \
                   "duplicated-side" if any(got[k] > 1 and k not in decl_valid for k in extra) else "extra"
            add(f"C02/edges/{kind}", "edge list is not: valid declared edges + every undirected face side not already present, once",
                f"missing {dict(miss)} extra {dict(extra)}")
        prefix_ok = [tuple(e) for e in s["E"][:len(surv)]] == decl_valid
        if not prefix_ok:
            add("C02/edges/declared-order", "surviving declared edges do not come first in declaration order")
        # ---- attributes follow their edges
        names = {a[0]: a for a in s["A"]}
        for a in case["EA"]:
            kind = "dense" if a["dense"] else "sparse"
            if a["name"] not in names:
                add(f"C02/edge-attr/{kind}/missing", "edge attribute disappeared during construction", a["name"]); continue
            _, st, dv, data = names[a["name"]]
            d0 = a["dflt"] if a["dflt"] is not None else 0
            ref = lambda i: a["vals"].get(str(i), d0)
            rd = (lambda k: (data[k] if k < len(data) else None)) if st == "d" else (lambda k: dict(map(tuple, data)).get(k, dv))
            if prefix_ok:
                for k, i in enumerate(surv):
                    if rd(k) != ref(i):
                        why = "default" if (str(i) not in a["vals"]) else "value"
                        add(f"C02/edge-attr/{kind}/{why}-lost" + ("/filtered" if len(surv) < len(E) else ""),
                            f"surviving edge does not read its {why} after construction ({kind} attribute)",
                            f"attr {a['name']}: declared edge {i} -> edge {k}: {rd(k)} != {ref(i)}")
                        break
                if st == "s" and not a["dense"]:
                    expk = {k for k, i in enumerate(surv) if str(i) in a["vals"]}
                    gotk = {k for k, _ in data}
                    if gotk != expk:
                        add("C02/edge-attr/sparse/keys", "sparse key set does not follow the surviving edges (absent stays absent, dropped edges drop their values)",
                            f"{sorted(gotk)} != {sorted(expk)}")
            if st == "d" and len(data) != len(s["E"]):
                add("C02/edge-attr/dense/size", "dense attribute size differs from the number of edges", f"{len(data)} vs {len(s['E'])}")
        # ---- hard edges
        if "hard_edges" in names and not any(a["name"] == "hard_edges" for a in case["EA"]):
            hk = sorted(k for k, v in names["hard_edges"][3] if v) if names["hard_edges"][1] == "s" else \
                [k for k, v in enumerate(names["hard_edges"][3]) if v]
            und = [k for k in hk if k >= len(surv)]
            if und:
                add(f"C02/hard-edges/undeclared-flagged/{case['build']}", "an edge the caller did not declare is flagged as hard edge",
                    f"flagged {hk}, declared survivors 0..{len(surv) - 1}")
    # ---- cells
    if dimc >= 3:
        if s["C"] != [list(c) for c in C]:
            add("C02/cells/changed", "cells changed by construction")
        if s["CC"][0] != [v for c in C for v in c]:
            add("C02/cell-corners/elem", "cell corner elements are not the cell vertices in element order")
        if s["CC"][1] != [i for i, c in enumerate(C) for _ in c]:
            add("C02/cell-corners/owner", "cell corner owners are not the cells in element order", s["CC"][1][:12])
        # one record per cell-face incidence: an incidence is a face of the cell (4 triangles / 6 quads) that is stored
        stored = {_key(f) for f in s["F"]}
        present = [[_key(fs) for fs in R.cell_face_sets(c) if _key(fs) in stored] for c in C]
        per = [len(pr) for pr in present]
        el, ow = s["CF"]
        if len(el) != sum(per):
            add("C02/cell-faces/count", "not one cell-face record per cell-face incidence", f"{len(el)} vs {sum(per)}")
        else:
            p = 0
            for ic, c in enumerate(C):
                want = sorted(present[ic])
                gotk = sorted(_key(s["F"][i]) if 0 <= i < len(s["F"]) else () for i in el[p:p + per[ic]])
                if want != gotk:
                    add("C02/cell-faces/elem", "cell-face records of a cell do not point to its faces", f"cell {ic}: {gotk} vs {want}"); break
                p += per[ic]
        if ow != [i for i, n in enumerate(per) for _ in range(n)]:
            add("C02/cell-faces/owner" + ("/empty" if not ow else ""), "cell-face records do not record their owner cell", f"owners {ow[:12]} for {len(el)} records")
        if case["cf"] and any(len(pr) != (4 if len(c) == 4 else 6) for pr, c in zip(present, C)):
            add("C02/cell-faces/incomplete", "with face completion on a cell does not have 4 (tetrahedron) / 6 (hexahedron) cell-face records")
    # ---- class
    kind, k = case["how"].split(":")
    if kind == "inst":
        have_e = bool(exp_e)
        top = 3 if C else 2 if faces_final else 1 if have_e else 0
        want = max(top, -1 if k == "N" else int(k))
        if CLASSES.index(r["first"]["cls"]) != want:
            add(f"C02/class/{r['first']['cls']}-for-dim{want}", "class does not match the highest-dimensional element present", f"{r['first']['cls']} vs {CLASSES[want]}")
    # ---- building again changes nothing
    if case["build"] != "once":
        f0, f1 = r["first"], r["final"]
        for sec in ("cls", "V", "E", "A", "F", "FC", "C", "CC", "CF"):
            if f0.get(sec) != f1.get(sec):
                add(f"C02/rebuild/{case['build']}/{sec}", f"building again ({case['build']}) changed section {sec}",
                    f"{str(f0.get(sec))[:150]} -> {str(f1.get(sec))[:150]}")
    # ---- later behaviour does not depend on the row type
    if _ctx(case) != "list":
        ref = _run(case, "list", "raw")
        if ref["err"] is None:
            if case["vdim"] == 3 and _fmt(ref["final"]) != _fmt(s):
                add(f"C02/rowtype/{_ctx(case)}/containers", "containers differ from the list-built mesh", compare(case, _fmt(ref["final"]), _fmt(s)))
            b0, b1 = _battery(ref["mesh"]), _battery(r["mesh"])
            for qn in b0:
                if b0[qn] != b1.get(qn):     # only the first differing query: later ones may differ because of half-filled caches
                    add(f"C02/rowtype/{_ctx(case)}/{s['cls']}/{qn}", f"{qn} behaves differently on a mesh built from {_ctx(case)} rows than from lists",
                        f"list: {str(b0[qn])[:120]} | {_ctx(case)}: {str(b1.get(qn))[:120]}")
                    break
    return out


# ------------------------------------------------------------------------------------------------------------
def nontrivial(case, obs):
    return (not obs.startswith("err")) and bool(case["E"] or case["F"] or case["C"])


def classify(case, obs):
    nV = len(case["V"])
    ks = ["kind:" + case["kind"].split("-")[0], "rows:" + _ctx(case), "build:" + case["build"], "how:" + case["how"],
          f"cfg:ce{int(case['ce'])}cf{int(case['cf'])}", "vdim:%d" % case["vdim"]]
    if obs.startswith("err"): ks.append(obs.split(";")[0])
    else: ks.append(obs.split(";")[0])
    inv = [e for e in case["E"] if not (e[0] != e[1] and 0 <= e[0] < nV and 0 <= e[1] < nV)]
    if inv: ks.append("edges:some-invalid")
    if len({_key(e) for e in case["E"]}) < len(case["E"]): ks.append("edges:duplicates")
    for a in case["EA"]:
        ks.append("attr:" + ("dense" if a["dense"] else "sparse") + ("+default" if a["dflt"] is not None else "") + ("+filtered" if inv else ""))
    if case["C"] and case["F"]: ks.append("faces:declared-with-cells")
    ks.append("size:" + ("0" if not (case["F"] or case["C"]) else "<=8" if len(case["F"]) + len(case["C"]) <= 8 else "<=40" if len(case["F"]) + len(case["C"]) <= 40 else ">40"))
    return ks


def describe(case):
    return {k: (v if k not in ("V",) else f"{len(v)} vertices") for k, v in case.items()}


def shrink(case, still):
    cur = dict(case)

    def attempt(c):
        nonlocal cur
        try:
            if still(c):
                cur = c; return True
        except Exception:  # noqa
            pass
        return False
    for k, v in (("build", "once"), ("how", "inst:N"), ("ce", True), ("cf", True)):
        if cur[k] != v: attempt(dict(cur, **{k: v}))
    if cur["via"] in ("arrays", "file"): attempt(dict(cur, via="raw"))
    for fld in ("EA", "C", "F", "E"):
        i = 0
        while i < len(cur[fld]):
            c = dict(cur); c[fld] = cur[fld][:i] + cur[fld][i + 1:]
            if fld == "E":
                # removing a declared edge shifts the attribute keys
                ea = []
                for a in cur["EA"]:
                    nv = {}
                    for kk, vv in a["vals"].items():
                        kk = int(kk)
                        if kk == i: continue
                        nv[str(kk - 1 if kk > i else kk)] = vv
                    ea.append(dict(a, vals=nv))
                c["EA"] = ea
            if not attempt(c): i += 1
    # drop unused trailing vertices
    used = [x for fld in ("E", "F", "C") for r in cur[fld] for x in r]
    m = max([x for x in used if x >= 0] + [-1]) + 1
    if m < len(cur["V"]): attempt(dict(cur, V=cur["V"][:max(m, 0)]))
    return cur


def search_on_break(rng, broken, mismatches):
    # broken table theorem / correspondence: volume scenarios of every cell kind through every container type
    out = []
    for _ in range(150):
        sc = R.scenario(rng, "quick")
        out.append(_finish(rng, sc))
    return out


# ------------------------------------------------------------------------------------------------------------
# translated fragments
# ------------------------------------------------------------------------------------------------------------
def _tables_of(fn, unpack_src):
    """In function `fn` find, for K in (4, 8), the branch `if len(<unpack_src>) == K:` holding
         v.. = <unpack_src>
         faces_C = [ (v.., ..), ... ]
    and return {K: table of positions}."""
    found = {}
    for node in ast.walk(fn):
        if not isinstance(node, ast.If): continue
        t = node.test
        if not (isinstance(t, ast.Compare) and len(t.ops) == 1 and isinstance(t.ops[0], ast.Eq) and isinstance(t.left, ast.Call)
                and isinstance(t.left.func, ast.Name) and t.left.func.id == "len" and len(t.left.args) == 1
                and isinstance(t.left.args[0], ast.Name) and t.left.args[0].id == unpack_src
                and isinstance(t.comparators[0], ast.Constant)):
            continue
        K = t.comparators[0].value
        names, table = None, None
        for st in node.body:
            if isinstance(st, ast.Assign) and len(st.targets) == 1:
                tg = st.targets[0]
                if isinstance(tg, ast.Tuple) and isinstance(st.value, ast.Name) and st.value.id == unpack_src:
                    names = [e.id for e in tg.elts]
                elif isinstance(tg, ast.Name) and tg.id == "faces_C" and isinstance(st.value, ast.List):
                    if names is None: raise T.TranslateError("faces_C assigned before the cell is unpacked")
                    table = []
                    for tup in st.value.elts:
                        if not isinstance(tup, ast.Tuple) or not all(isinstance(e, ast.Name) and e.id in names for e in tup.elts):
                            raise T.TranslateError("face entry is not a tuple of unpacked cell vertices")
                        table.append([names.index(e.id) for e in tup.elts])
        if names is None or table is None or len(names) != K:
            raise T.TranslateError(f"branch len({unpack_src})=={K}: unpacking / faces_C literal not recognised")
        if K in found: raise T.TranslateError(f"two branches for arity {K}")
        found[K] = table
    for K in (4, 8):
        if K not in found: raise T.TranslateError(f"no branch `len({unpack_src}) == {K}` with a literal face table")
    return found


def _adjacent_table(fn):
    names, table = None, None
    for node in ast.walk(fn):
        if isinstance(node, ast.Assign) and len(node.targets) == 1 and isinstance(node.targets[0], ast.Tuple):
            tg = node.targets[0]
            if isinstance(node.value, ast.Name) and node.value.id == "cell":
                names = [e.id for e in tg.elts]
            elif isinstance(node.value, ast.Tuple) and all(
                    isinstance(c, ast.Call) and isinstance(c.func, ast.Attribute) and c.func.attr == "face_id" for c in node.value.elts):
                if names is None: raise T.TranslateError("face_id tuple before the cell is unpacked")
                table = [[names.index(a.id) for a in c.args] for c in node.value.elts]
    if names is None or table is None:
        raise T.TranslateError("v0..v3 = cell / f0..f3 = face_id(...) not recognised")
    return table


def translate():
    sites, tabs = [], {}

    def s1():
        tree, _ = T.load("mouette/mesh/mesh_data.py")
        t = _tables_of(T.find_def(tree, "RawMeshData._complete_faces_from_cells"), "C")
        tabs["completeTet"], tabs["completeHex"] = t[4], t[8]
        return {"tet": t[4], "hex": t[8]}

    def s2():
        tree, _ = T.load("mouette/mesh/mesh_data.py")
        t = _tables_of(T.find_def(tree, "RawMeshData._generate_cell_faces"), "C")
        tabs["generateTet"], tabs["generateHex"] = t[4], t[8]
        return {"tet": t[4], "hex": t[8]}

    def s3():
        tree, _ = T.load("mouette/mesh/datatypes/volume.py")
        t = _adjacent_table(T.find_def(tree, "VolumeMesh._Connectivity._compute_adjacent_cell"))
        tabs["adjacentTet"] = t
        return {"tet": t}
    sites.append(T.site("mesh_data.py:_complete_faces_from_cells (tet/hex face tables)", s1))
    sites.append(T.site("mesh_data.py:_generate_cell_faces (tet/hex face tables)", s2))
    sites.append(T.site("volume.py:_compute_adjacent_cell (tet face table)", s3))
    body = "namespace Mouette.Generated.C02\n"
    for n in ("completeTet", "completeHex", "generateTet", "generateHex", "adjacentTet"):
        body += f"def {n} : List (List Nat) := {T.lean_nat_table(tabs.get(n, []))}\n"
    body += "end Mouette.Generated.C02\n"
    T.write_generated("C02Tables", body)
    from . import c02_structure
    sites += c02_structure.translate_structure()
    return sites


MANIFEST = {
    "level_text": ("Proof. Lean 4 theorems about an executable model of RawMeshData.prepare (face completion from cells, edge completion "
                   "from faces with the hard_edges flag, edge validity filter with attribute re-indexing, corner / cell-face generation, "
                   "dimensionality, class selection, re-wrapping, from_arrays): stored edges are (low, high) in range; the edge multiset is "
                   "declared valid edges + each missing undirected face side once; attributes follow their edges (sparse keys and dense "
                   "values); faces are declared + each missing cell face once, 4 per tetrahedron / 6 per hexahedron; corner records list "
                   "(element, owner) in element order; class = max(dim, highest element); only declared edges are flagged hard; "
                   "prepare is idempotent and stable under re-wrapping. The tet/hex face tables are re-extracted from the source with "
                   "Python ast on every run and the table theorems (tables agree, face i omits vertex i, consistent orientation, hex edges "
                   "covered twice) are re-checked by decide; so is the control skeleton (ordered steps of prepare() and their config guards, the "
                   "edge validity predicate, the hard_edges guard, corner append argument order, dimensionality chain, "
                   "_instanciate_raw_mesh_data, Mesh.__init__), each with a bridge theorem to the model. prepare commutes with forgetting "
                   "the container type (list/tuple/numpy) of index rows and leaves no numpy row. The model is tied to the code by an exact container correspondence per "
                   "container type and a direct oracle including a later-query battery on numpy-built meshes."),
    "level_note": ("Trusted: Lean kernel + propext/Classical.choice/Quot.sound; the hand-written model (checked against the code on the "
                   "scenarios of each run only); the ast translator of the literal tables; Python set/dict semantics."),
    "technique": "Lean 4 proofs (fold invariants, counting lemmas, decide over translated tables) over an executable model; differential container correspondence",
}
